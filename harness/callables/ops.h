// C20 callables: the operations on invoke / reference_wrapper / bind_front / not_fn, written once against the namespace
// alias LIB. kernel.cpp includes this file with LIB = etl (real tetl code), driver.cpp with LIB = std (the oracle,
// libstdc++ through the same pipeline). Everything has internal linkage so that the two instantiations never merge.
// Each operation performs a fixed list of calls; after every call REC ints are appended to out:
//   ncalls, who, state, a0, a1, this-flavour, arg-flavour, value returned by the target, value returned by the wrapper
// and the call log is reset. in[] are the symbolic inputs.
#ifndef C20_OPS_H
#define C20_OPS_H
#include "calls.h"
#define REC 9
namespace {
struct Out {
    int* p;
    void call(int result)
    {
        *p++ = vf_ncalls; *p++ = vf_who; *p++ = vf_state; *p++ = vf_a0; *p++ = vf_a1; *p++ = vf_flav; *p++ = vf_aflav; *p++ = vf_ret; *p++ = result;
        vf_log_reset();
    }
    void val(int v) { *p++ = v; }
};
template <typename T> T const& cst(T& x) { return x; }
template <typename T> T&& mv(T& x) { return static_cast<T&&>(x); }
template <typename T> T const&& cmv(T& x) { return static_cast<T const&&>(x); }

// ---- invoke: functions, function pointers, function objects (all four value categories), lambdas
void op_inv_fn(int const* in, Out o)
{
    int a = in[0], b = in[1];
    o.call(LIB::invoke(free2, a, b));
    o.call(LIB::invoke(&free2, a, b));
    int (*fp)(int, int) = free2;
    o.call(LIB::invoke(fp, a, b));
}
void op_inv_functor(int const* in, Out o)
{
    int a = in[0], b = in[1], s = in[2];
    Fun f{s};
    o.call(LIB::invoke(f, a, b));
    o.call(LIB::invoke(cst(f), a, b));
    o.call(LIB::invoke(mv(f), a, b));
    o.call(LIB::invoke(cmv(f), a, b));
    o.call(LIB::invoke(Fun{s}, a, b));
    auto lam = [s](int x, int y) { return vf_log_call(W_LAMBDA, s, 2, x, y); };
    o.call(LIB::invoke(lam, a, b));
}
// argument value categories as seen by the callee
void op_inv_args(int const* in, Out o)
{
    int x = in[0];
    ArgF g;
    o.call(LIB::invoke(g, x));
    o.call(LIB::invoke(g, cst(x)));
    o.call(LIB::invoke(g, mv(x)));
    o.call(LIB::invoke(g, cmv(x)));
    o.call(LIB::invoke(g, int(in[1])));
}
// member function pointers through object, derived object, pointer, reference_wrapper; const / ref-qualified members
void op_inv_memfn(int const* in, Out o)
{
    int a = in[0], b = in[1];
    Obj x{in[2], in[3]};
    Der d; d.s = in[4]; d.d = 0; d.extra = 0;
    o.call(LIB::invoke(&Obj::mf, x, a, b));
    o.call(LIB::invoke(&Obj::mf, &x, a, b));
    o.call(LIB::invoke(&Obj::mf, LIB::ref(x), a, b));
    o.call(LIB::invoke(&Obj::mf, d, a, b));
    o.call(LIB::invoke(&Obj::mf, &d, a, b));
    o.call(LIB::invoke(&Obj::mfc, cst(x), a, b));
    o.call(LIB::invoke(&Obj::mfc, LIB::cref(x), a, b));
    o.call(LIB::invoke(&Obj::mfr, mv(x), a, b));
    o.call(LIB::invoke(&Obj::mfl, x, a, b));
}
// member data pointers: read through object / pointer / reference_wrapper / derived, write through the returned reference
void op_inv_memdata(int const* in, Out o)
{
    Obj x{in[0], in[1]};
    Der d; d.s = in[2]; d.d = in[3]; d.extra = 0;
    o.val(LIB::invoke(&Obj::d, x));
    o.val(LIB::invoke(&Obj::d, &x));
    o.val(LIB::invoke(&Obj::d, LIB::ref(x)));
    o.val(LIB::invoke(&Obj::s, cst(x)));
    o.val(LIB::invoke(&Obj::d, d));
    o.val(LIB::invoke(&Obj::d, Obj{in[4], in[5]}));
    LIB::invoke(&Obj::d, x) = in[6];
    o.val(x.d);
    LIB::invoke(&Obj::s, &x) = in[7];
    o.val(x.s);
    o.val(&LIB::invoke(&Obj::d, x) == &x.d);
}
// ---- reference_wrapper
void op_refw(int const* in, Out o)
{
    int x = in[0], z = in[1];
    auto r = LIB::ref(x);
    o.val(r.get());
    o.val(&r.get() == &x);
    r.get() = in[2];
    o.val(x);
    int& y = r; // implicit conversion
    o.val(&y == &x);
    auto r2 = r; // copy refers to the same object
    o.val(&r2.get() == &x);
    r = LIB::ref(z); // assignment rebinds, does not assign through
    o.val(x);
    o.val(&r.get() == &z);
    auto c = LIB::cref(x);
    o.val(&c.get() == &x);
    auto rr = LIB::ref(r2); // ref(reference_wrapper) unwraps
    o.val(&rr.get() == &x);
    auto cc = LIB::cref(r2);
    o.val(&cc.get() == &x);
    // calling through the wrapper: forwards to the referenced object as an lvalue
    Fun f{in[3]};
    o.call(LIB::ref(f)(in[4], in[5]));
    o.call(LIB::cref(f)(in[4], in[5]));
    auto rf = LIB::ref(free2);
    o.call(rf(in[4], in[5]));
    ArgF g;
    o.call(LIB::ref(g)(mv(x)));
}
// ---- bind_front
void op_bindf(int const* in, Out o)
{
    int a = in[0], b = in[1], s = in[2];
    // bound arguments are passed as prvalues: etl::bind_front does not compile with lvalue bound arguments or with none
    // (unwrap_ref_decay / tuple<> defects, compile-time, see kernel.cpp)
    auto g1 = LIB::bind_front(free2, int(a));
    o.call(g1(b));
    auto g2 = LIB::bind_front(free2, int(a), int(b));
    o.call(g2());
    auto g3 = LIB::bind_front(&free2, int(a));
    o.call(g3(b));
    Fun f{s};
    auto h = LIB::bind_front(f, int(a)); // copies f and a
    f.s = in[3];                    // later changes to the originals must not be seen
    o.call(h(b));
    o.call(cst(h)(b));
    o.call(mv(h)(b));
    auto h2 = h; // copy of the wrapper calls an equivalent target
    o.call(h2(b));
    int x = in[4];
    auto hr = LIB::bind_front(free2, LIB::ref(x)); // bound by reference
    x = in[5];
    o.call(hr(b));
    Obj ob{in[6], 0};
    auto hm = LIB::bind_front(&Obj::mf, &ob);
    o.call(hm(a, b));
    auto hc = LIB::bind_front(&Obj::mfc, Obj(ob)); // copy of the object
    ob.s = in[7];
    o.call(hc(a, b));
    o.val(ob.s);
}
// bound / call arguments keep their value category
void op_bindf_args(int const* in, Out o)
{
    int x = in[0];
    ArgF g;
    auto hb = LIB::bind_front(g, int(x)); // bound argument: lvalue from an lvalue wrapper, const lvalue from a const one, rvalue from an rvalue wrapper
    o.call(hb());
    o.call(cst(hb)());
    o.call(mv(hb)());
    ArgF2 g2;
    auto h = LIB::bind_front(g2, int(in[1])); // call arguments keep their category
    o.call(h(x));
    o.call(h(cst(x)));
    o.call(h(mv(x)));
}
// ---- not_fn
void op_notfn(int const* in, Out o)
{
    int a = in[0], b = in[1], s = in[2];
    Pred p{s};
    auto n = LIB::not_fn(p);
    p.s = in[3]; // not_fn stores a copy
    o.call(n(a, b));
    o.call(cst(n)(a, b));
    o.call(mv(n)(a, b));
    o.call(cmv(n)(a, b));
    auto n2 = n; // copy
    o.call(n2(a, b));
    auto nf = LIB::not_fn(pred_free);
    o.call(nf(a, b));
    auto nm = LIB::not_fn(&Obj::mfc); // member pointer: !invoke(pmf, obj, a, b)
    Obj ob{s, 0};
    o.call(nm(ob, a, b));
}
} // namespace
// X(name, number of symbolic int inputs, number of recorded calls, number of extra recorded values)
#define C20_OPLIST(X) \
    X(inv_fn, 2, 3, 0) X(inv_functor, 3, 6, 0) X(inv_args, 2, 5, 0) X(inv_memfn, 5, 9, 0) X(inv_memdata, 8, 0, 9) \
    X(refw, 6, 4, 10) X(bindf, 8, 10, 1) X(bindf_args, 2, 6, 0) X(notfn, 4, 7, 0)
#endif
