// C20 driver (callables). Never includes tetl. Symbolic arguments / captured states / operation codes; the call log of the
// instrumented targets (calls.h) is compared (i) with the log the same operation produces on the std counterpart
// (std::invoke, std::reference_wrapper, std::bind_front, std::not_fn: ops.h with LIB = std, through the same pipeline) and
// (ii) with the explicitly expected log: exactly one call, same arguments, expected overload, result returned unchanged.
// function_ref and inplace_function have no std counterpart in C++20: explicit expectations / an abstract model
// (empty | (target kind, captured state)) per wrapper object.
#include "vf.h"
#include <functional>
#include <utility>
#include "calls.h"
extern "C" {
int vf_ncalls, vf_who, vf_state, vf_a0, vf_a1, vf_flav, vf_aflav, vf_ret, vf_corrupt, vf_live, vf_ncopy, vf_nmove;
}
namespace LIB = std;
#include "ops.h"
#ifndef CAP
#define CAP 16
#endif
#define WMAX (CAP / 8)
#ifndef WMIN
#define WMIN 1 // captures of WMIN..WMAX 8-byte words
#endif
#define NW (WMAX - WMIN + 1)
#ifndef KSTEPS
#define KSTEPS 3
#endif
using sz = size_t;

// ------------------------------------------------------------------------------------------------------------------
// operations with a std counterpart
// ------------------------------------------------------------------------------------------------------------------
struct Exp { // cursor over the records an operation wrote; mirrors Out in ops.h
    int const* p;
    // one call: the target was invoked exactly once, it was the expected target with the expected captured state, it saw
    // the same argument values (and reference flavour), ran the expected operator() overload, and the wrapper handed back
    // what the target returned (not_fn: its negation, given as want)
    void call(int who, int state, int a0, int a1, int flav, int aflav)
    {
        vf_assert(p[0] == 1, "target called exactly once per call of the wrapper");
        vf_assert(p[1] == who && p[2] == state, "the wrapped target (and its captured state) was the one called");
        vf_assert(p[3] == a0 && p[4] == a1, "target saw the same argument values");
        vf_assert(p[5] == flav, "operator() overload matches the value category of the wrapper/callable");
        vf_assert(p[6] == aflav, "argument reference flavour preserved");
        vf_assert(p[7] == tgt_result(who, state, a0, a1), "target result as computed");
        vf_assert(p[8] == p[7], "result of the target returned unchanged");
        p += REC;
    }
    void ncall(int who, int state, int a0, int a1, int flav, bool want)
    {
        vf_assert(p[0] == 1, "not_fn: target called exactly once");
        vf_assert(p[1] == who && p[2] == state && p[3] == a0 && p[4] == a1 && p[5] == flav, "not_fn: same target, arguments and overload");
        vf_assert(p[8] == int(want), "not_fn returns the negation of the target's result");
        p += REC;
    }
    void val(int v, char const* what) { vf_assert(*p == v, what); p++; }
};
static void expect_inv_fn(int const* in, Exp e)
{
    for (int i = 0; i < 3; i++) e.call(W_FREE2, 0, in[0], in[1], 0, 0);
}
static void expect_inv_functor(int const* in, Exp e)
{
    int a = in[0], b = in[1], s = in[2];
    e.call(W_FUN, s, a, b, 1, 0); e.call(W_FUN, s, a, b, 2, 0); e.call(W_FUN, s, a, b, 3, 0); e.call(W_FUN, s, a, b, 4, 0);
    e.call(W_FUN, s, a, b, 3, 0); e.call(W_LAMBDA, s, a, b, 2, 0);
}
static void expect_inv_args(int const* in, Exp e)
{
    for (int f = 1; f <= 4; f++) e.call(W_ARGF, 0, in[0], 0, 2, f);
    e.call(W_ARGF, 0, in[1], 0, 2, 3);
}
static void expect_inv_memfn(int const* in, Exp e)
{
    int a = in[0], b = in[1];
    e.call(W_MEMFN, in[2], a, b, 1, 0); e.call(W_MEMFN, in[2], a, b, 1, 0); e.call(W_MEMFN, in[2], a, b, 1, 0);
    e.call(W_MEMFN, in[4], a, b, 1, 0); e.call(W_MEMFN, in[4], a, b, 1, 0);
    e.call(W_MEMFN, in[2], a, b, 2, 0); e.call(W_MEMFN, in[2], a, b, 2, 0);
    e.call(W_MEMFN, in[2], a, b, 3, 0); e.call(W_MEMFN, in[2], a, b, 5, 0);
}
static void expect_inv_memdata(int const* in, Exp e)
{
    e.val(in[1], "invoke(&T::d, obj)"); e.val(in[1], "invoke(&T::d, ptr)"); e.val(in[1], "invoke(&T::d, reference_wrapper)"); e.val(in[0], "invoke(&T::s, const obj)");
    e.val(in[3], "invoke(&Base::d, derived)"); e.val(in[5], "invoke(&T::d, rvalue)"); e.val(in[6], "write through invoke(&T::d, obj)");
    e.val(in[7], "write through invoke(&T::s, ptr)"); e.val(1, "invoke(&T::d, obj) refers to the member itself");
}
static void expect_refw(int const* in, Exp e)
{
    e.val(in[0], "ref(x).get() reads x"); e.val(1, "ref(x).get() is x"); e.val(in[2], "write through get()"); e.val(1, "implicit conversion refers to x");
    e.val(1, "copy refers to x"); e.val(in[2], "assignment rebinds and leaves x alone"); e.val(1, "assignment rebinds to z"); e.val(1, "cref(x) refers to x");
    e.val(1, "ref(reference_wrapper) unwraps"); e.val(1, "cref(reference_wrapper) unwraps");
    e.call(W_FUN, in[3], in[4], in[5], 1, 0); e.call(W_FUN, in[3], in[4], in[5], 2, 0); e.call(W_FREE2, 0, in[4], in[5], 0, 0);
    e.call(W_ARGF, 0, in[2], 0, 2, 3);
}
static void expect_bindf(int const* in, Exp e)
{
    int a = in[0], b = in[1], s = in[2];
    e.call(W_FREE2, 0, a, b, 0, 0); e.call(W_FREE2, 0, a, b, 0, 0); e.call(W_FREE2, 0, a, b, 0, 0);
    e.call(W_FUN, s, a, b, 1, 0); e.call(W_FUN, s, a, b, 2, 0); e.call(W_FUN, s, a, b, 3, 0); e.call(W_FUN, s, a, b, 1, 0);
    e.call(W_FREE2, 0, in[5], b, 0, 0);
    e.call(W_MEMFN, in[6], a, b, 1, 0); e.call(W_MEMFN, in[6], a, b, 2, 0);
    e.val(in[7], "bind_front(pmf, copy) leaves the original object alone");
}
static void expect_bindf_args(int const* in, Exp e)
{
    e.call(W_ARGF, 0, in[0], 0, 2, 1); e.call(W_ARGF, 0, in[0], 0, 2, 2); e.call(W_ARGF, 0, in[0], 0, 2, 3);
    e.call(W_ARGF, 0, in[1], in[0], 2, 1); e.call(W_ARGF, 0, in[1], in[0], 2, 2); e.call(W_ARGF, 0, in[1], in[0], 2, 3);
}
static void expect_notfn(int const* in, Exp e)
{
    int a = in[0], b = in[1], s = in[2];
    bool pr = (a ^ s) < b;
    e.ncall(W_PRED, s, a, b, 1, !pr); e.ncall(W_PRED, s, a, b, 2, !pr); e.ncall(W_PRED, s, a, b, 3, !pr); e.ncall(W_PRED, s, a, b, 4, !pr);
    e.ncall(W_PRED, s, a, b, 1, !pr); e.ncall(W_PRED, 0, a, b, 0, !(a < b));
    e.ncall(W_MEMFN, s, a, b, 2, tgt_result(W_MEMFN, s, a, b) == 0);
}
#define X(name, nin, ncalls, nvals)                                                                                    \
    extern "C" void k_##name(int const*, int*);                                                                        \
    Q q_##name()                                                                                                       \
    {                                                                                                                  \
        constexpr unsigned n = (ncalls) * REC + (nvals);                                                               \
        int* in = vf_sym_ints(nin);                                                                                    \
        int* kin = vf_dup_ints(in, nin);                                                                               \
        int* ko = (int*)vf_alloc(n * 4);                                                                               \
        int* so = (int*)vf_alloc(n * 4);                                                                               \
        vf_log_reset();                                                                                                \
        k_##name(kin, ko);                                                                                             \
        vf_assert(vf_ncalls == 0, #name ": log consumed");                                                             \
        vf_log_reset();                                                                                                \
        op_##name(in, Out{so});                                                                                        \
        for (unsigned i = 0; i < n; i++) vf_assert(ko[i] == so[i], #name ": etl and std produce the same call log / values"); \
        for (unsigned i = 0; i < (nin); i++) vf_assert(kin[i] == in[i], #name ": inputs untouched");                   \
        expect_##name(in, Exp{ko});                                                                                    \
    }
C20_OPLIST(X)
#undef X

extern "C" {
bool k_notfn_stateless(int, int);
sz k_fr_sizeof(); sz k_fun_sizeof(); void k_fun_make(void*, int); void k_fr_from_fun(void*, void*); void k_fr_from_cfun(void*, void const*);
void k_fr_from_fn(void*); void k_fr_from_fnptr(void*); void k_fr_copy(void*, void const*); void k_fr_assign(void*, void const*); void k_fr_swap(void*, void*);
int k_fr_call(void const*, int, int); int k_fr_invoke(void const*, int, int); int k_fr_temp_fun(int, int, int); int k_fr_lambda(int, int, int);
int k_fr_deduced(int); int k_fr_args(int*, int, int, int); void k_scribble(int);
sz k_ipf_sizeof(); void k_ipf_default(void*); void k_ipf_null(void*); void k_ipf_destroy(void*); void k_ipf_copy_ctor(void*, void const*); void k_ipf_move_ctor(void*, void*);
void k_ipf_copy_assign(void*, void const*); void k_ipf_move_assign(void*, void*); void k_ipf_swap(void*, void*); void k_ipf_swap_free(void*, void*); void k_ipf_reset(void*);
int k_ipf_call(void const*, int); bool k_ipf_bool(void const*); unsigned k_ipf_nullcmp(void const*); int k_ipf_copy_call(void const*, int); int k_ipf_move_call(void*, int);
int k_ipf_conv_copy_call(void const*, int); int k_ipf_conv_move_call(void*, int); int k_ipf_invoke(void const*, int);
void k_ipf_from_z(void*); void k_ipf_assign_z(void*); void k_ipf_from_fp(void*); void k_ipf_assign_fp(void*); void k_ipf_from_fn(void*); void k_ipf_from_lambda(void*, int);
#define TGT(W) void k_ipf_from_tv##W(void*, int); void k_ipf_from_tv##W##_l(void*, int); void k_ipf_assign_tv##W(void*, int); \
               void k_ipf_from_nt##W(void*, int); void k_ipf_from_nt##W##_l(void*, int); void k_ipf_assign_nt##W(void*, int);
TGT(1) TGT(2) TGT(3) TGT(4)
#undef TGT
int k_ipf_args(int*, int, int, int);
}

// one call through a wrapper: logged exactly once with the expected identity / arguments, result handed back unchanged
static void expect_log(int r, int who, int state, int a0, int a1, int flav, char const* what)
{
    vf_assert(vf_ncalls == 1, "target called exactly once per call of the wrapper");
    vf_assert(vf_who == who && vf_state == state, what);
    vf_assert(vf_a0 == a0 && vf_a1 == a1, "target saw the same argument values");
    vf_assert(vf_flav == flav, "target invoked with the expected value category");
    vf_assert(vf_ret == tgt_result(who, state, a0, a1) && r == vf_ret, "result of the target returned unchanged");
    vf_log_reset();
}

// ---- stateless not_fn<fn>()
Q q_notfn_stateless()
{
    int a = vf_nd_i32(), b = vf_nd_i32();
    vf_log_reset();
    bool r = k_notfn_stateless(a, b);
    vf_assert(vf_ncalls == 1 && vf_who == W_PRED && vf_a0 == a && vf_a1 == b, "not_fn<f>(): f called exactly once with the same arguments");
    vf_assert(r == !(a < b), "not_fn<f>() returns the negation");
}

// ------------------------------------------------------------------------------------------------------------------
// function_ref
// ------------------------------------------------------------------------------------------------------------------
static void* fr_block() { return vf_sym_bytes(k_fr_sizeof()); }
Q q_fr_basic()
{
    int a = vf_nd_i32(), b = vf_nd_i32(), s = vf_nd_i32(), s2 = vf_nd_i32();
    void* fo = vf_alloc(k_fun_sizeof()); k_fun_make(fo, s);
    void* fr = fr_block(); k_fr_from_fun(fr, fo);
    vf_log_reset();
    expect_log(k_fr_call(fr, a, b), W_FUN, s, a, b, 1, "function_ref calls the referenced object as a non-const lvalue");
    expect_log(k_fr_invoke(fr, a, b), W_FUN, s, a, b, 1, "invoke(function_ref) calls the referenced object");
    k_fun_make(fo, s2); // reference semantics: the referenced object changed
    expect_log(k_fr_call(fr, a, b), W_FUN, s2, a, b, 1, "function_ref refers to the object, it does not copy it");
    void* frc = fr_block(); k_fr_from_cfun(frc, fo);
    expect_log(k_fr_call(frc, a, b), W_FUN, s2, a, b, 2, "function_ref to a const object calls the const overload");
    void* frf = fr_block(); k_fr_from_fn(frf);
    expect_log(k_fr_call(frf, a, b), W_FREE2, 0, a, b, 0, "function_ref to a function");
}
Q q_fr_copy()
{
    int a = vf_nd_i32(), b = vf_nd_i32(), s = vf_nd_i32(), s2 = vf_nd_i32();
    void* fo = vf_alloc(k_fun_sizeof()); k_fun_make(fo, s);
    void* fo2 = vf_alloc(k_fun_sizeof()); k_fun_make(fo2, s2);
    void* r1 = fr_block(); k_fr_from_fun(r1, fo);
    void* r2 = fr_block(); k_fr_from_cfun(r2, fo2);
    void* r3 = fr_block(); k_fr_copy(r3, r1);
    vf_log_reset();
    expect_log(k_fr_call(r3, a, b), W_FUN, s, a, b, 1, "copy of a function_ref calls the same target");
    expect_log(k_fr_call(r1, a, b), W_FUN, s, a, b, 1, "copied-from function_ref still calls its target");
    k_fr_assign(r3, r2);
    expect_log(k_fr_call(r3, a, b), W_FUN, s2, a, b, 2, "assigned function_ref calls the target of the source");
    expect_log(k_fr_call(r2, a, b), W_FUN, s2, a, b, 2, "assigned-from function_ref unchanged");
    k_fr_swap(r1, r2);
    expect_log(k_fr_call(r1, a, b), W_FUN, s2, a, b, 2, "swap exchanges targets (1)");
    expect_log(k_fr_call(r2, a, b), W_FUN, s, a, b, 1, "swap exchanges targets (2)");
    k_fr_swap(r1, r1);
    expect_log(k_fr_call(r1, a, b), W_FUN, s2, a, b, 2, "self swap keeps the target");
    k_fr_assign(r2, r2);
    expect_log(k_fr_call(r2, a, b), W_FUN, s, a, b, 1, "self assignment keeps the target");
}
Q q_fr_temp()
{
    int a = vf_nd_i32(), b = vf_nd_i32(), s = vf_nd_i32(), z = vf_nd_i32();
    vf_log_reset();
    expect_log(k_fr_temp_fun(s, a, b), W_FUN, s, a, b, 1, "function_ref to a temporary used within the full expression");
    expect_log(k_fr_lambda(s, a, b), W_LAMBDA, s, a, b, 2, "function_ref to a lambda");
    expect_log(k_fr_deduced(a), W_FREE1, 0, a, 0, 0, "deduction guide from a function");
    int* x = (int*)vf_alloc(4); *x = vf_nd_i32();
    int r = k_fr_args(x, b, z, s);
    vf_assert(vf_aflav == 123, "reference parameters reach the target");
    vf_assert(*x == r, "int& parameter refers to the caller's object");
    expect_log(r, W_ARGF3, s, b, z, 2, "function_ref<int(int&, int const&, int&&)>");
}
// function pointer passed as a prvalue, wrapper used after the constructing expression has ended
Q q_fr_fnptr()
{
    int a = vf_nd_i32(), b = vf_nd_i32(), v = vf_nd_i32();
    void* fr = fr_block();
    VF_KNOWN(C20_function_ref_fnptr_dangles, true);
    k_fr_from_fnptr(fr);
    k_scribble(v);
    vf_log_reset();
    expect_log(k_fr_call(fr, a, b), W_FREE2, 0, a, b, 0, "function_ref constructed from a function pointer calls that function");
}

// ------------------------------------------------------------------------------------------------------------------
// inplace_function<int(int), CAP>: abstract model per object = empty | (kind, captured state)
// kinds: 1 = Z (empty class), 2 = function pointer, 3.. = Tv<WMIN..WMAX> (trivially copyable), then Nt<WMIN..WMAX> (non-trivial)
// ------------------------------------------------------------------------------------------------------------------
struct M { int kind; int s; };
#define NK (2 + 2 * NW)
static bool is_nt(int k) { return k >= 3 + NW; }
static int who_of(int k) { return k == 1 ? W_Z : k == 2 ? W_FREE1 : k < 3 + NW ? W_TV + (k - 3 + WMIN) : W_NT + (k - 3 - NW + WMIN); }
static int state_of(M m) { return m.kind <= 2 ? 0 : m.s; }
static bool g_expect_empty;
// the kernel's assert handler (etl::raise<bad_function_call>) lands here; the path ends
extern "C" void vf_bad_call(void)
{
    vf_assert(g_expect_empty, "bad_function_call raised by a wrapper that holds a target");
    vf_assert(vf_ncalls == 0, "an empty wrapper called something");
    vf_assume(false);
}
static void by_kind(void* f, int kind, int s, int how) // how: 0 assign, 1 construct from rvalue, 2 construct from lvalue
{
    if (kind == 1) { if (how == 0) k_ipf_assign_z(f); else k_ipf_from_z(f); return; }
    if (kind == 2) { if (how == 0) k_ipf_assign_fp(f); else k_ipf_from_fp(f); return; }
    int w = kind < 3 + NW ? kind - 3 + WMIN : kind - 3 - NW + WMIN;
    bool nt = is_nt(kind);
#define DO(W)                                                                                                          \
    if (w == W) {                                                                                                      \
        if (!nt) { if (how == 0) k_ipf_assign_tv##W(f, s); else if (how == 1) k_ipf_from_tv##W(f, s); else k_ipf_from_tv##W##_l(f, s); } \
        else { if (how == 0) k_ipf_assign_nt##W(f, s); else if (how == 1) k_ipf_from_nt##W(f, s); else k_ipf_from_nt##W##_l(f, s); }     \
        return;                                                                                                        \
    }
#if WMIN <= 1
    DO(1)
#endif
#if WMIN <= 2 && WMAX >= 2
    DO(2)
#endif
#if WMIN <= 3 && WMAX >= 3
    DO(3)
#endif
#if WMAX >= 4
    DO(4)
#endif
#undef DO
}
static void check_result(int r, M m, int a, char const* what)
{
    vf_assert(m.kind != 0, "call through an empty wrapper returned normally");
    expect_log(r, who_of(m.kind), state_of(m), a, 0, m.kind == 2 ? 0 : 2, what);
}
static void check_call(void* f, M m, int a)
{
    g_expect_empty = m.kind == 0; vf_log_reset();
    check_result(k_ipf_call(f, a), m, a, "wrapper calls its own target (kind and captured state)");
}
static void check_state(void* const* f, M const* m)
{
    vf_assert(k_ipf_bool(f[0]) == (m[0].kind != 0), "operator bool reports empty exactly when no target is held (object 0)");
    vf_assert(k_ipf_bool(f[1]) == (m[1].kind != 0), "operator bool reports empty exactly when no target is held (object 1)");
    vf_assert(vf_live == int(is_nt(m[0].kind)) + int(is_nt(m[1].kind)), "every non-trivial target constructed is destroyed exactly once (ledger)");
    vf_assert(vf_corrupt == 0, "no target was copied from / destroyed / called outside its lifetime, captures intact");
}
#define NOPS 14
struct Step { unsigned op, i, j, kind, how; int s, a; };
static Step draw_step(int fixed_op, int fi = -1, int fj = -1)
{
    Step t;
    t.op = vf_nd_u8(); t.i = vf_nd_u8(); t.j = vf_nd_u8(); t.kind = vf_nd_u8(); t.how = vf_nd_u8(); t.s = vf_nd_i32(); t.a = vf_nd_i32();
    vf_assume(t.i < 2 && t.j < 2 && t.kind >= 1 && t.kind <= NK && t.how < 3);
    if (fixed_op >= 0) t.op = unsigned(fixed_op); // enumerated operation code (constant for the solver run)
    else vf_assume(t.op < NOPS);
    if (fi >= 0) t.i = unsigned(fi); // enumerated object indices
    if (fj >= 0) t.j = unsigned(fj);
    return t;
}
// FIX >= 0: the operation code is enumerated (one query per code), FIX < 0: symbolic. Witnesses of a branch exist only in the
// instantiations that can reach it.
#define WIT(n, text) do { if constexpr (FIX < 0 || FIX == (n)) vf_witness(text); } while (0)
template <int FIX>
static void do_step(void* const* f, M* m, Step t)
{
    unsigned i = t.i, j = t.j;
    g_expect_empty = false; vf_log_reset();
    switch (t.op) {
    case 0: // assign a callable
        by_kind(f[i], t.kind, t.s, 0); m[i] = M{int(t.kind), t.s}; WIT(0, "step: assign callable");
        break;
    case 1: // copy assignment (self included)
        k_ipf_copy_assign(f[i], f[j]); m[i] = m[j]; WIT(1, "step: copy assign");
        break;
    case 2: // move assignment; self move: only a valid state is required (std leaves it unspecified)
        k_ipf_move_assign(f[i], f[j]);
        if (i != j) { m[i] = m[j]; m[j] = M{0, 0}; }
        else if (!k_ipf_bool(f[i])) m[i] = M{0, 0};
        WIT(2, "step: move assign");
        break;
    case 3: // member swap (self included)
        VF_KNOWN(C20_inplace_function_self_swap, i == j && is_nt(m[i].kind));
        k_ipf_swap(f[i], f[j]); { M x = m[i]; m[i] = m[j]; m[j] = x; } WIT(3, "step: swap");
        break;
    case 4:
        VF_KNOWN(C20_inplace_function_self_swap, i == j && is_nt(m[i].kind));
        k_ipf_swap_free(f[i], f[j]); { M x = m[i]; m[i] = m[j]; m[j] = x; }
        break;
    case 5:
        k_ipf_reset(f[i]); m[i] = M{0, 0}; WIT(5, "step: reset");
        break;
    case 6: // copy, then call the copy; the original keeps its target
        g_expect_empty = m[i].kind == 0;
        check_result(k_ipf_copy_call(f[i], t.a), m[i], t.a, "copy of a wrapper calls an equivalent target"); WIT(6, "step: copy then call");
        break;
    case 7: // move, then call the new wrapper; the source is empty afterwards
        g_expect_empty = m[i].kind == 0;
        check_result(k_ipf_move_call(f[i], t.a), m[i], t.a, "moved-to wrapper calls an equivalent target"); m[i] = M{0, 0}; WIT(7, "step: move then call");
        break;
    case 8: // converting copy into a wrapper of larger capacity
        g_expect_empty = m[i].kind == 0;
        check_result(k_ipf_conv_copy_call(f[i], t.a), m[i], t.a, "copy into a larger wrapper calls an equivalent target");
        break;
    case 9:
        g_expect_empty = m[i].kind == 0;
        check_result(k_ipf_conv_move_call(f[i], t.a), m[i], t.a, "move into a larger wrapper calls an equivalent target"); m[i] = M{0, 0};
        break;
    case 10:
        if (m[i].kind == 0) WIT(10, "step: call through an empty wrapper (must end in the bad_function_call handler)");
        else WIT(10, "step: call through a wrapper holding a target");
        check_call(f[i], m[i], t.a);
        break;
    case 11: // destroy, copy-construct in place from the other object
        vf_assume(i != j);
        k_ipf_destroy(f[i]); k_ipf_copy_ctor(f[i], f[j]); m[i] = m[j]; WIT(11, "step: copy construct");
        break;
    case 12:
        vf_assume(i != j);
        k_ipf_destroy(f[i]); k_ipf_move_ctor(f[i], f[j]); m[i] = m[j]; m[j] = M{0, 0}; WIT(12, "step: move construct");
        break;
    default: // destroy, construct from a callable (rvalue or lvalue source)
        vf_assume(t.how >= 1);
        k_ipf_destroy(f[i]); by_kind(f[i], t.kind, t.s, t.how); m[i] = M{int(t.kind), t.s};
        break;
    }
    check_state(f, m);
}
template <bool BOTH_CAN_HOLD>
static void finish(void* const* f, M* m)
{
    unsigned sel = vf_nd_u8(); int a = vf_nd_i32();
    vf_assume(sel < 3);
    if (sel < 2) {
        check_call(f[sel], m[sel], a);
        if (m[1 - sel].kind != 0) check_call(f[1 - sel], m[1 - sel], a);
        if constexpr (BOTH_CAN_HOLD) {
            if (m[0].kind != 0 && m[1].kind != 0) vf_witness("both wrappers hold a target at the end");
        }
    }
    k_ipf_destroy(f[0]); k_ipf_destroy(f[1]);
    vf_assert(vf_live == 0, "destroying the wrappers destroys every target (ledger)");
    vf_assert(vf_corrupt == 0, "no target destroyed twice");
}
// every operation from every abstract state: both objects are created in blocks of symbolic bytes and brought into an
// arbitrary state (empty through the default / nullptr constructor, or any target kind through the rvalue / lvalue
// constructor), then one symbolic operation, then both are called and destroyed
template <int FIX, int FI = -1, int FJ = -1>
static void ipf_step()
{
    void* f[2]; M m[2];
    vf_live = 0; vf_corrupt = 0;
    for (int t = 0; t < 2; t++) {
        f[t] = vf_sym_bytes(k_ipf_sizeof());
        unsigned kind = vf_nd_u8(), how = vf_nd_u8(); int s = vf_nd_i32();
        vf_assume(kind <= NK && how >= 1 && how < 3);
        if (kind == 0) { if (how == 1) k_ipf_default(f[t]); else k_ipf_null(f[t]); m[t] = M{0, 0}; }
        else { by_kind(f[t], kind, s, how); m[t] = M{int(kind), s}; }
    }
    check_state(f, m);
    do_step<FIX>(f, m, draw_step(FIX, FI, FJ));
    // (reset, move-from and move assignment between distinct objects leave one wrapper empty)
    finish<FIX != 5 && FIX != 7 && FIX != 9 && FIX != 12 && !(FIX == 2 && FI != FJ)>(f, m);
}
// one entry per (operation code, object index i, object index j): codes and indices are enumerated, everything else symbolic
#define STEP(n, i, j) Q q_ipf_step_##n##_##i##j() { ipf_step<n, i, j>(); }
#define STEP2(n) STEP(n, 0, 0) STEP(n, 0, 1) STEP(n, 1, 0) STEP(n, 1, 1) // operations on two objects (self included)
#define STEP2X(n) STEP(n, 0, 1) STEP(n, 1, 0)                            // two distinct objects
#define STEP1(n) STEP(n, 0, 0) STEP(n, 1, 1)                             // operations on one object
STEP1(0) STEP2(1) STEP2(2) STEP2(3) STEP2(4) STEP1(5) STEP1(6) STEP1(7) STEP1(8) STEP1(9) STEP1(10) STEP2X(11) STEP2X(12) STEP1(13)
// histories of KSTEPS symbolic operations from two default-constructed wrappers a = f[0], b = f[1]. The operation code is
// symbolic, the objects an operation works on are fixed per code (DESIGN.md C20: assign small / large callable, copy, move,
// swap, reset, assign other, call), captured states and call arguments symbolic
#define HOPS 10
Q q_ipf_hist()
{
    void* f[2]; M m[2];
    vf_live = 0; vf_corrupt = 0;
    for (int t = 0; t < 2; t++) { f[t] = vf_sym_bytes(k_ipf_sizeof()); k_ipf_default(f[t]); m[t] = M{0, 0}; }
    for (int k = 0; k < KSTEPS; k++) {
        unsigned op = vf_nd_u8(); int s = vf_nd_i32(), a = vf_nd_i32();
        vf_assume(op < HOPS);
        g_expect_empty = false; vf_log_reset();
        switch (op) {
        case 0: by_kind(f[0], 3, s, 0); m[0] = M{3, s}; break;                          // a = smallest trivially copyable callable
        case 1: by_kind(f[0], 2 + 2 * NW, s, 0); m[0] = M{2 + 2 * NW, s}; break;        // a = non-trivial callable filling the capacity
        case 2: k_ipf_copy_assign(f[1], f[0]); m[1] = m[0]; break;                      // b = a
        case 3: k_ipf_move_assign(f[0], f[1]); m[0] = m[1]; m[1] = M{0, 0}; break;      // a = move(b)
        case 4: k_ipf_swap(f[0], f[1]); { M x = m[0]; m[0] = m[1]; m[1] = x; } break;   // a.swap(b)
        case 5: k_ipf_reset(f[0]); m[0] = M{0, 0}; break;                               // a = nullptr
        case 6: by_kind(f[1], 2 + NW, s, 0); m[1] = M{2 + NW, s}; break;                // b = trivially copyable callable filling the capacity
        case 7: by_kind(f[1], 3 + NW, s, 0); m[1] = M{3 + NW, s}; break;                // b = smallest non-trivial callable
        case 8: check_call(f[0], m[0], a); break;                                       // a(x)
        default: check_call(f[1], m[1], a); break;                                      // b(x)
        }
        check_state(f, m);
    }
    if (is_nt(m[0].kind) && is_nt(m[1].kind)) vf_witness("history ends with both wrappers holding a non-trivial target");
    if (m[0].kind == 0 && m[1].kind != 0) vf_witness("history ends with a empty and b holding a target");
    finish<true>(f, m);
}
Q q_ipf_misc()
{
    int a = vf_nd_i32(), s = vf_nd_i32(), y = vf_nd_i32(), z = vf_nd_i32();
    vf_live = 0; vf_corrupt = 0; g_expect_empty = false;
    void* f = vf_sym_bytes(k_ipf_sizeof());
    k_ipf_default(f);
    vf_assert(k_ipf_nullcmp(f) == 3u, "empty wrapper compares equal to nullptr");
    k_ipf_destroy(f);
    k_ipf_from_fn(f); // function (decays to a pointer)
    vf_assert(k_ipf_nullcmp(f) == 12u, "non-empty wrapper compares unequal to nullptr");
    vf_log_reset();
    expect_log(k_ipf_call(f, a), W_FREE1B, 0, a, 0, 0, "wrapper constructed from a function");
    expect_log(k_ipf_invoke(f, a), W_FREE1B, 0, a, 0, 0, "invoke(wrapper)");
    k_ipf_destroy(f);
    k_ipf_from_lambda(f, s);
    expect_log(k_ipf_call(f, a), W_LAMBDA, s, a, 0, 2, "wrapper constructed from a capturing lambda");
    k_ipf_destroy(f);
    int* x = (int*)vf_alloc(4); *x = vf_nd_i32();
    int r = k_ipf_args(x, y, z, s);
    vf_assert(vf_aflav == 123, "reference parameters reach the target");
    vf_assert(*x == r, "int& parameter refers to the caller's object");
    expect_log(r, W_ARGF3, s, y, z, 2, "inplace_function<int(int&, int const&, int&&)>");
}
