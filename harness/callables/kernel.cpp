// C20 kernels (callables): thin wrappers around etl::invoke, reference_wrapper, bind_front, not_fn, function_ref and
// inplace_function. No logic besides marshalling. The operations that have a std counterpart are written once in ops.h
// against the alias LIB (= etl here); function_ref / inplace_function / stateless not_fn kernels are below.
#include "vf.h"
#define TETL_ENABLE_CUSTOM_ASSERT_HANDLER 1 // etl::raise<bad_function_call> lands in assert_handler -> vf_bad_call()
#include <etl/functional.hpp>
#include <etl/utility.hpp>
#include <new>
#include "calls.h"
extern "C" void vf_bad_call(void); // defined in driver.cpp: checks that an empty call was expected and that nothing was called
namespace etl {
template <typename Assertion>
[[noreturn]] auto assert_handler(Assertion const& /*msg*/) -> void
{
    vf_bad_call();
    for (;;) { }
}
} // namespace etl
namespace LIB = etl;
#include "ops.h"
#ifndef CAP
#define CAP 16
#endif
#define WMAX (CAP / 8)
#ifndef WMIN
#define WMIN 1
#endif

// ---- type-level part of C20 (value categories / result types): compile-time only, not solver evidence
namespace typelevel {
template <typename A, typename B> inline constexpr bool same = etl::is_same_v<A, B>;
static_assert(same<decltype(etl::invoke(etl::declval<Fun&>(), 1, 2)), int>);
static_assert(same<decltype(etl::invoke(&Obj::d, etl::declval<Obj&>())), int&>);
static_assert(same<decltype(etl::invoke(&Obj::d, etl::declval<Obj const&>())), int const&>);
static_assert(same<decltype(etl::invoke(&Obj::d, etl::declval<Obj&&>())), int&&>);
static_assert(same<decltype(etl::invoke(&Obj::d, etl::declval<Obj*>())), int&>);
static_assert(same<decltype(etl::invoke(&Obj::d, etl::declval<etl::reference_wrapper<Obj>>())), int&>);
static_assert(same<decltype(etl::ref(etl::declval<int&>())), etl::reference_wrapper<int>>);
static_assert(same<decltype(etl::cref(etl::declval<int&>())), etl::reference_wrapper<int const>>);
static_assert(same<decltype(etl::ref(etl::declval<etl::reference_wrapper<int>&>())), etl::reference_wrapper<int>>);
static_assert(same<decltype(etl::declval<etl::reference_wrapper<int>&>().get()), int&>);
static_assert(same<decltype(etl::forward<int>(etl::declval<int&>())), int&&>);
static_assert(same<decltype(etl::forward<int&>(etl::declval<int&>())), int&>);
static_assert(same<decltype(etl::forward<int const&>(etl::declval<int&>())), int const&>);
static_assert(same<decltype(etl::forward<int>(etl::declval<int>())), int&&>);
static_assert(same<decltype(etl::forward_like<int&>(etl::declval<long&>())), long&>);
static_assert(same<decltype(etl::forward_like<int const&>(etl::declval<long&>())), long const&>);
static_assert(same<decltype(etl::forward_like<int>(etl::declval<long&>())), long&&>);
static_assert(same<decltype(etl::forward_like<int const>(etl::declval<long&>())), long const&&>);
static_assert(same<decltype(etl::forward_like<int&>(etl::declval<long>())), long&>);
static_assert(same<decltype(etl::not_fn(Pred{0})(1, 2)), bool>);
static_assert(same<decltype(etl::bind_front(free2, 1)(2)), int>);
static_assert(etl::is_invocable_r_v<int, etl::function_ref<int(int, int)>, int, int>);
static_assert(etl::is_invocable_r_v<int, etl::inplace_function<int(int), CAP> const&, int>);
} // namespace typelevel

#define X(name, nin, ncalls, nvals) K void k_##name(int const* in, int* out) { op_##name(in, Out{out}); }
C20_OPLIST(X)
#undef X

// ---- stateless not_fn<fn>() (no std counterpart in C++20)
K bool k_notfn_stateless(int a, int b) { return etl::not_fn<pred_free>()(a, b); }
// (etl::not_fn<&Obj::memfn>() is not exercised: g++ 12 rejects the static_assert(ConstFn != nullptr) in not_fn.hpp:95 for a
// pointer to member function as a non-constant condition, so the native replay build would not compile)

// ---- function_ref
using FR = etl::function_ref<int(int, int)>;
using FR1 = etl::function_ref<int(int)>;
K etl::size_t k_fr_sizeof() { return sizeof(FR); }
K etl::size_t k_fun_sizeof() { return sizeof(Fun); }
K void k_fun_make(void* fo, int s) { ::new (fo) Fun{s}; }
K void k_fr_from_fun(void* fr, void* fo) { ::new (fr) FR(*static_cast<Fun*>(fo)); }
K void k_fr_from_cfun(void* fr, void const* fo) { ::new (fr) FR(*static_cast<Fun const*>(fo)); }
K void k_fr_from_fn(void* fr) { ::new (fr) FR(free2); }
K void k_fr_from_fnptr(void* fr) { ::new (fr) FR(&free2); } // function pointer prvalue
K void k_fr_copy(void* dst, void const* src) { ::new (dst) FR(*static_cast<FR const*>(src)); }
K void k_fr_assign(void* dst, void const* src) { *static_cast<FR*>(dst) = *static_cast<FR const*>(src); }
K void k_fr_swap(void* a, void* b) { etl::swap(*static_cast<FR*>(a), *static_cast<FR*>(b)); }
K int k_fr_call(void const* fr, int a, int b) { return (*static_cast<FR const*>(fr))(a, b); }
K int k_fr_invoke(void const* fr, int a, int b) { return etl::invoke(*static_cast<FR const*>(fr), a, b); }
K int k_fr_temp_fun(int s, int a, int b) { return FR{Fun{s}}(a, b); } // rvalue callable, used within the full expression
K int k_fr_lambda(int s, int a, int b)
{
    auto lam = [s](int x, int y) { return vf_log_call(W_LAMBDA, s, 2, x, y); };
    FR r{lam};
    return r(a, b);
}
K int k_fr_deduced(int a) { etl::function_ref r = free1; return r(a); } // deduction guide
K int k_fr_args(int* x, int y, int z, int s)
{
    ArgF3 t{s};
    etl::function_ref<int(int&, int const&, int&&)> r{t};
    return r(*x, y, static_cast<int&&>(z));
}
K void k_scribble(int v) // overwrites the dead part of the stack between two kernel calls
{
    int volatile pad[64];
    for (int i = 0; i < 64; i++) pad[i] = v;
}

// ---- inplace_function
using F = etl::inplace_function<int(int), CAP>;
using FW = etl::inplace_function<int(int), CAP + 8>; // wider wrapper: converting copy / move constructors
static inline F& R(void* o) { return *static_cast<F*>(o); }
static inline F const& C(void const* o) { return *static_cast<F const*>(o); }
K etl::size_t k_ipf_sizeof() { return sizeof(F); }
K void k_ipf_default(void* o) { ::new (o) F(); }
K void k_ipf_null(void* o) { ::new (o) F(nullptr); }
K void k_ipf_destroy(void* o) { R(o).~F(); }
K void k_ipf_copy_ctor(void* dst, void const* src) { ::new (dst) F(C(src)); }
K void k_ipf_move_ctor(void* dst, void* src) { ::new (dst) F(etl::move(R(src))); }
K void k_ipf_copy_assign(void* dst, void const* src) { R(dst) = C(src); }
K void k_ipf_move_assign(void* dst, void* src) { R(dst) = etl::move(R(src)); }
K void k_ipf_swap(void* a, void* b) { R(a).swap(R(b)); }
K void k_ipf_swap_free(void* a, void* b) { swap(R(a), R(b)); }
K void k_ipf_reset(void* o) { R(o) = nullptr; }
K int k_ipf_call(void const* o, int a) { return C(o)(a); }
K bool k_ipf_bool(void const* o) { return static_cast<bool>(C(o)); }
K unsigned k_ipf_nullcmp(void const* o) { return unsigned(C(o) == nullptr) | unsigned(nullptr == C(o)) << 1 | unsigned(C(o) != nullptr) << 2 | unsigned(nullptr != C(o)) << 3; }
K int k_ipf_copy_call(void const* o, int a) { F t(C(o)); return t(a); }
K int k_ipf_move_call(void* o, int a) { F t(etl::move(R(o))); return t(a); }
K int k_ipf_conv_copy_call(void const* o, int a) { FW t(C(o)); return t(a); }
K int k_ipf_conv_move_call(void* o, int a) { FW t(etl::move(R(o))); return t(a); }
K int k_ipf_invoke(void const* o, int a) { return etl::invoke(C(o), a); }
// construction from / assignment of a callable: rvalue and lvalue source
K void k_ipf_from_z(void* o) { ::new (o) F(Z{}); }
K void k_ipf_assign_z(void* o) { R(o) = Z{}; }
K void k_ipf_from_fp(void* o) { ::new (o) F(&free1); }
K void k_ipf_assign_fp(void* o) { R(o) = &free1; }
K void k_ipf_from_fn(void* o) { ::new (o) F(free1b); }
K void k_ipf_from_lambda(void* o, int s) { ::new (o) F([s](int x) { return vf_log_call(W_LAMBDA, s, 2, x, 0); }); }
#define TGT(W)                                                                                                         \
    K void k_ipf_from_tv##W(void* o, int s) { ::new (o) F(Tv<W>(s)); }                                                 \
    K void k_ipf_from_tv##W##_l(void* o, int s) { Tv<W> t(s); ::new (o) F(t); }                                        \
    K void k_ipf_assign_tv##W(void* o, int s) { R(o) = Tv<W>(s); }                                                     \
    K void k_ipf_from_nt##W(void* o, int s) { ::new (o) F(Nt<W>(s)); }                                                 \
    K void k_ipf_from_nt##W##_l(void* o, int s) { Nt<W> t(s); ::new (o) F(t); }                                        \
    K void k_ipf_assign_nt##W(void* o, int s) { R(o) = Nt<W>(s); }
#if WMIN <= 1
TGT(1)
#endif
#if WMIN <= 2 && WMAX >= 2
TGT(2)
#endif
#if WMIN <= 3 && WMAX >= 3
TGT(3)
#endif
#if WMAX >= 4
TGT(4)
#endif
// wrapper whose signature has reference parameters: int(int&, int const&, int&&)
K int k_ipf_args(int* x, int y, int z, int s)
{
    etl::inplace_function<int(int&, int const&, int&&), CAP> f{ArgF3{s}};
    return f(*x, y, static_cast<int&&>(z));
}
