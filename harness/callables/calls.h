// C20 callables: instrumented targets and the call log. Shared by kernel.cpp and driver.cpp; contains no tetl code.
// Every target reports each invocation to the call log below (defined once, in driver.cpp): how often something was
// called, which target it was (kind + captured state), which operator() overload ran ("this flavour"), the argument
// values and their reference flavour, and the value it returned. The drivers compare that log with the expected one.
#ifndef C20_CALLS_H
#define C20_CALLS_H
#include "vf.h"
extern "C" {
extern int vf_ncalls;  // target invocations since the last log reset
extern int vf_who;     // kind of the last target called (W_* below)
extern int vf_state;   // captured state of the last target called
extern int vf_a0;      // first argument the last target saw
extern int vf_a1;      // second argument (0 for unary targets)
extern int vf_flav;    // operator() overload that ran: 1 = &, 2 = const&, 3 = &&, 4 = const&& (0 = not a member call)
extern int vf_aflav;   // reference flavour of the argument(s) (ArgF / ArgF3), see there
extern int vf_ret;     // value the last target returned
extern int vf_corrupt; // bit set by a target that finds its capture damaged (1: copied/moved from a dead object,
                       // 2: destroyed twice / destroyed while not alive, 4: called while not alive, 8: capture words inconsistent)
extern int vf_live;    // non-trivial targets constructed minus destroyed
extern int vf_ncopy;   // copy constructions of non-trivial targets
extern int vf_nmove;   // move constructions of non-trivial targets
}
enum { W_FREE2 = 1, W_FREE1 = 2, W_FUN = 3, W_LAMBDA = 4, W_ARGF = 5, W_MEMFN = 6, W_PRED = 7, W_Z = 8, W_FREE1B = 9, W_ARGF3 = 10, W_TV = 0x100, W_NT = 0x200 };

// the value every target returns: depends on the target kind, its captured state and both arguments
static inline int tgt_result(int who, int state, int a, int b)
{
    // bit-local mixing (xor / rotate) on purpose: sums of several 32-bit terms associated differently in the kernel and the
    // driver are a notoriously hard equivalence for SAT solvers and say nothing about the library
    unsigned s = (unsigned)state, y = (unsigned)b;
    return (int)((unsigned)a ^ (s << 7 | s >> 25) ^ (y << 13 | y >> 19) ^ ((unsigned)who << 20));
}
static inline int vf_log_call(int who, int state, int flav, int a, int b)
{
    ++vf_ncalls; vf_who = who; vf_state = state; vf_flav = flav; vf_a0 = a; vf_a1 = b;
    return vf_ret = tgt_result(who, state, a, b);
}
static inline void vf_log_reset()
{
    vf_ncalls = 0; vf_who = 0; vf_state = 0; vf_a0 = 0; vf_a1 = 0; vf_flav = 0; vf_aflav = 0; vf_ret = 0;
}

// ---- plain functions
static int free2(int a, int b) { return vf_log_call(W_FREE2, 0, 0, a, b); }
static int free1(int a) { return vf_log_call(W_FREE1, 0, 0, a, 0); }
static int free1b(int a) { return vf_log_call(W_FREE1B, 0, 0, a, 0); }
static bool pred_free(int a, int b) { vf_log_call(W_PRED, 0, 0, a, b); return a < b; }

// ---- function object with one overload per value category of *this
struct Fun {
    int s;
    int operator()(int a, int b) & { return vf_log_call(W_FUN, s, 1, a, b); }
    int operator()(int a, int b) const& { return vf_log_call(W_FUN, s, 2, a, b); }
    int operator()(int a, int b) && { return vf_log_call(W_FUN, s, 3, a, b); }
    int operator()(int a, int b) const&& { return vf_log_call(W_FUN, s, 4, a, b); }
};
// ---- predicate (not_fn): result is (a ^ s) < b
struct Pred {
    int s;
    bool operator()(int a, int b) & { vf_log_call(W_PRED, s, 1, a, b); return (a ^ s) < b; }
    bool operator()(int a, int b) const& { vf_log_call(W_PRED, s, 2, a, b); return (a ^ s) < b; }
    bool operator()(int a, int b) && { vf_log_call(W_PRED, s, 3, a, b); return (a ^ s) < b; }
    bool operator()(int a, int b) const&& { vf_log_call(W_PRED, s, 4, a, b); return (a ^ s) < b; }
};
// ---- function object that tells the reference flavour of its argument: 1 = int&, 2 = int const&, 3 = int&&, 4 = int const&&
struct ArgF {
    int operator()(int& a) const { vf_aflav = 1; return vf_log_call(W_ARGF, 0, 2, a, 0); }
    int operator()(int const& a) const { vf_aflav = 2; return vf_log_call(W_ARGF, 0, 2, a, 0); }
    int operator()(int&& a) const { vf_aflav = 3; return vf_log_call(W_ARGF, 0, 2, a, 0); }
    int operator()(int const&& a) const { vf_aflav = 4; return vf_log_call(W_ARGF, 0, 2, a, 0); }
};
// binary variant: first argument (the bound one) by const&, flavour of the second
struct ArgF2 {
    int operator()(int const& b, int& a) const { vf_aflav = 1; return vf_log_call(W_ARGF, 0, 2, b, a); }
    int operator()(int const& b, int const& a) const { vf_aflav = 2; return vf_log_call(W_ARGF, 0, 2, b, a); }
    int operator()(int const& b, int&& a) const { vf_aflav = 3; return vf_log_call(W_ARGF, 0, 2, b, a); }
};
// ---- target of a wrapper with signature int(int&, int const&, int&&): writes through the first, reads the others
struct ArgF3 {
    int s;
    int operator()(int& a, int const& b, int&& c) const
    {
        vf_aflav = 123;
        int r = vf_log_call(W_ARGF3, s, 2, b, c);
        a = r;
        return r;
    }
};
// ---- member functions / member data
struct Obj {
    int s;
    int d;
    int mf(int a, int b) { return vf_log_call(W_MEMFN, s, 1, a, b); }
    int mfc(int a, int b) const { return vf_log_call(W_MEMFN, s, 2, a, b); }
    int mfl(int a, int b) & { return vf_log_call(W_MEMFN, s, 5, a, b); }
    int mfr(int a, int b) && { return vf_log_call(W_MEMFN, s, 3, a, b); }
};
struct Der : Obj {
    int extra;
};

// ---- targets for inplace_function<int(int), CAP>
// empty class
struct Z {
    int operator()(int a) const { return vf_log_call(W_Z, 0, 2, a, 0); }
};
// trivially copyable capture of W 8-byte words; word k holds s + k
template <int W>
struct Tv {
    long long w[W];
    explicit Tv(int s) { for (int k = 0; k < W; k++) w[k] = (long long)s + k; }
    int operator()(int a) const
    {
        for (int k = 1; k < W; k++) if (w[k] != w[0] + k) vf_corrupt |= 8;
        return vf_log_call(W_TV + W, (int)w[0], 2, a, 0);
    }
};
// non-trivially copyable capture of W words: state + liveness marker (one word), then W-1 words holding s + k
#define NT_LIVE 0x4c495645
#define NT_DEAD 0x44454144
template <int N> struct NtTail { long long w[N]; };
template <> struct NtTail<0> { };
template <int W>
struct Nt : NtTail<W - 1> {
    int s;
    int mark;
    void fill(long long st) { if constexpr (W > 1) { for (int k = 1; k < W; k++) this->w[k - 1] = st + k; } }
    void copy_tail(Nt const& o) { if constexpr (W > 1) { for (int k = 1; k < W; k++) this->w[k - 1] = o.w[k - 1]; } }
    explicit Nt(int st) : s(st), mark(NT_LIVE) { fill(st); ++vf_live; }
    // the source's marker is read before this object's own marker is written (source and destination may be the same address)
    static int probe(int m) { if (m != NT_LIVE) vf_corrupt |= 1; return NT_LIVE; }
    Nt(Nt const& o) : s(o.s), mark(probe(o.mark))
    {
        copy_tail(o);
        ++vf_live; ++vf_ncopy;
    }
    Nt(Nt&& o) noexcept : s(o.s), mark(probe(o.mark))
    {
        copy_tail(o);
        ++vf_live; ++vf_nmove;
    }
    Nt& operator=(Nt const&) = delete;
    ~Nt()
    {
        if (mark != NT_LIVE) vf_corrupt |= 2;
#ifdef VF_NATIVE
        *(int volatile*)&mark = NT_DEAD; // g++ -flifetime-dse would drop a plain store into a dying object
#else
        mark = NT_DEAD;
#endif
        --vf_live;
    }
    int operator()(int a) const
    {
        if (mark != NT_LIVE) vf_corrupt |= 4;
        if constexpr (W > 1) { for (int k = 1; k < W; k++) if (this->w[k - 1] != (long long)s + k) vf_corrupt |= 8; }
        return vf_log_call(W_NT + W, s, 2, a, 0);
    }
};
static_assert(sizeof(Tv<1>) == 8 && sizeof(Tv<2>) == 16 && sizeof(Tv<4>) == 32, "capture sizes");
static_assert(sizeof(Nt<1>) == 8 && sizeof(Nt<2>) == 16 && sizeof(Nt<4>) == 32, "capture sizes");
#endif
