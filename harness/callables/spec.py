import json
import os
PROPERTIES = ['C20', 'C02']
_here = os.path.dirname(os.path.abspath(__file__))


def open_findings():
    try:
        import sys
        sys.path.insert(0, os.path.join(os.path.dirname(os.path.dirname(_here)), 'engine'))
        import runner
        return {k['id'] for k in runner.load_findings().get('open', [])}
    except Exception:
        kp = os.path.join(_here, 'kf.json')
        return {k['id'] for k in json.load(open(kp))} if os.path.exists(kp) else set()


BOUNDS = {
    'quick': 'invoke / reference_wrapper / bind_front / not_fn / function_ref: every listed call form once, all int arguments and captured states symbolic (full 32-bit range); '
             'inplace_function<int(int),16>: two wrapper objects in blocks of symbolic bytes, each brought into an arbitrary state (empty via default / nullptr constructor, or one of 6 target kinds: empty class, function pointer, '
             'trivially copyable 8/16 bytes, non-trivially copyable 8/16 bytes, via the rvalue / lvalue constructor, captured state symbolic), then one operation: 14 operation codes x object indices enumerated '
             '(quick: first operand is object 0; both objects have symbolic pre-states, so the other half is the mirror image), then both are called and destroyed; '
             'histories of 3 symbolic operations (10 codes with fixed operands: assign small / capacity-filling trivial / non-trivial callable, copy, move, swap, reset, call) from two empty wrappers',
    'thorough': 'same call forms; inplace_function capacities 16 (captures of 8 and 16 bytes) and 32 (captures of 24 and 32 bytes; 6 target kinds each), one operation from every state for all object index combinations (36 queries per capacity), '
                'histories of 5 (capacity 16) and 3 (capacity 32; 4 did not finish in 900 s) symbolic operations',
}
ASSUMPTIONS = [
    'C20: value-category / result-type preservation is type-level: covered only by static_asserts in kernel.cpp (compile-time, not solver evidence); what the solver decides is the run-time trace of it: '
    'which operator() overload (&, const&, &&, const&&) and which parameter overload (int&, int const&, int&&) of an instrumented target ran',
    'C20: bind_front is only exercised with bound arguments passed as prvalues (etl::bind_front does not compile with lvalue bound arguments or with no bound argument: unwrap_ref_decay / tuple<> are ill-formed - compile-time defects, reported, not solver findings)',
    'C20: inplace_function step queries: operation code and operand indices are enumerated (one query each); a fully symbolic (code, i, j) query did not finish (symbolic object pointers: > 900 s, 4 GB)',
    'C20: self move assignment of inplace_function: std leaves the state unspecified; only a valid state (empty, or still the same target) is required',
    'C20: the bad_function_call path is observed through TETL_ENABLE_CUSTOM_ASSERT_HANDLER (etl::raise -> assert_handler -> driver); a call through an empty wrapper ends the path there',
    'C20: function_ref / inplace_function / not_fn<f>() have no std counterpart in C++20 (libstdc++ 12): explicit expected call log instead of std',
]
STD_OPS = ['inv_fn', 'inv_functor', 'inv_args', 'inv_memfn', 'inv_memdata', 'refw', 'bindf', 'bindf_args', 'notfn']
# loops: comparison over the recorded ints (calls * 9 + values) / k_scribble (64) / sym_bytes of a wrapper object (<= 48)
UW = {'inv_fn': 30, 'inv_functor': 57, 'inv_args': 48, 'inv_memfn': 84, 'inv_memdata': 12, 'refw': 49, 'bindf': 94, 'bindf_args': 57, 'notfn': 66, 'fr_fnptr': 67}
PLAIN = ['notfn_stateless', 'fr_basic', 'fr_copy', 'fr_temp', 'fr_fnptr', 'ipf_misc']


def queries(tier, prop='C20'):
    ub = prop == 'C02'
    out = []
    base = dict(ub=ub, nofunc=ub, budget=120)
    opn = open_findings()
    for e in STD_OPS + PLAIN:
        q = dict(entry='q_' + e, cfg={'CAP': 16}, unwind=UW.get(e, 40), **base)
        if e == 'fr_fnptr' and 'C20_function_ref_fnptr_dangles' in opn:
            q['confirm_only'] = True    # the whole query lies inside the open known-finding region
        out.append(q)
    caps = [16] if tier == 'quick' else [16, 32]
    for cap in caps:
        ccfg = {'CAP': cap} if cap == 16 else {'CAP': cap, 'WMIN': 3}   # capacity 32: captures of 24 and 32 bytes (8 and 16 are covered at capacity 16)
        uw = 8 + cap + 10
        us = {'ll_memcpy.0': cap + 24, 'll_memset.0': cap + 24, 'll_memmove.0': cap + 24, 'll_memmove.1': cap + 24}
        for op in range(14):
            two = op in (1, 2, 3, 4)
            ijs = [(0, 0), (0, 1), (1, 0), (1, 1)] if two else [(0, 1), (1, 0)] if op in (11, 12) else [(0, 0), (1, 1)]
            if tier == 'quick':     # the two objects are interchangeable (both pre-states symbolic): quick keeps i = 0
                ijs = [x for x in ijs if x[0] == 0]
            for (i, j) in ijs:
                out.append(dict(entry='q_ipf_step_%d_%d%d' % (op, i, j), cfg=dict(ccfg), unwind=uw, unwindset=us, **dict(base, budget=120 if tier == 'quick' else 400)))
        k = 3 if tier == 'quick' else (5 if cap == 16 else 3)   # capacity 32, 4 operations: no verdict in 900 s (minisat), reduced to 3
        out.append(dict(entry='q_ipf_hist', cfg=dict(ccfg, KSTEPS=k), unwind=uw, unwindset=us, **dict(base, budget=900 if tier != 'quick' else 240)))
        if cap != 16:
            out.append(dict(entry='q_ipf_misc', cfg=dict(ccfg), unwind=8 + cap + 10, **base))
    return out
