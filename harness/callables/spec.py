PROPERTIES = ['C20', 'C02']
BOUNDS = {
    'quick': 'invoke / reference_wrapper / bind_front / not_fn / function_ref: every listed call form once, all int arguments and captured states symbolic (full 32-bit range); '
             'inplace_function<int(int),16>: two objects, every operation (14 codes) from every abstract pre-state (empty | one of 6 target kinds: empty class, function pointer, '
             'trivially copyable 8/16 bytes, non-trivially copyable 8/16 bytes; captured state symbolic) plus histories of 3 symbolic operations from two empty wrappers',
    'thorough': 'same call forms; inplace_function capacities 16 and 32 (10 target kinds, captures of 8..32 bytes), step from every state, histories of 5 (capacity 16) and 4 (capacity 32) symbolic operations',
}
ASSUMPTIONS = [
    'C20: value-category / result-type preservation is type-level: covered only by static_asserts in kernel.cpp (compile-time, not solver evidence); what the solver decides is the run-time trace of it: '
    'which operator() overload (&, const&, &&, const&&) and which parameter overload (int&, int const&, int&&) of an instrumented target ran',
    'C20: bind_front is only exercised with bound arguments passed as prvalues (etl::bind_front does not compile with lvalue bound arguments or with no bound argument: unwrap_ref_decay / tuple<> are ill-formed - compile-time defects, reported, not solver findings)',
    'C20: self move assignment of inplace_function: std leaves the state unspecified; only a valid state (empty, or still the same target) is required',
    'C20: the bad_function_call path is observed through TETL_ENABLE_CUSTOM_ASSERT_HANDLER (etl::raise -> assert_handler -> driver); a call through an empty wrapper ends the path there',
    'C20: function_ref / inplace_function / not_fn<f>() have no std counterpart in C++20 (libstdc++ 12): explicit expected call log instead of std',
]
STD_OPS = ['inv_fn', 'inv_functor', 'inv_args', 'inv_memfn', 'inv_memdata', 'refw', 'bindf', 'bindf_args', 'notfn']
PLAIN = ['notfn_stateless', 'fr_basic', 'fr_copy', 'fr_temp', 'fr_fnptr', 'ipf_misc']


def queries(tier, prop='C20'):
    ub = prop == 'C02'
    out = []
    base = dict(ub=ub, nofunc=ub, budget=120)
    for e in STD_OPS + PLAIN:
        if ub and e == 'fr_fnptr':
            continue
        out.append(dict(entry='q_' + e, cfg={'CAP': 16}, unwind=66 if e == 'fr_fnptr' else 12, **base))
    caps = [16] if tier == 'quick' else [16, 32]
    for cap in caps:
        uw = 8 + cap + 2
        us = {'ll_memcpy.0': cap + 24, 'll_memset.0': cap + 24, 'll_memmove.0': cap + 24, 'll_memmove.1': cap + 24}
        out.append(dict(entry='q_ipf_step', cfg={'CAP': cap}, unwind=uw, unwindset=us, **base))
        k = 3 if tier == 'quick' else (5 if cap == 16 else 4)
        out.append(dict(entry='q_ipf_hist', cfg={'CAP': cap, 'KSTEPS': k}, unwind=uw, unwindset=us, **dict(base, budget=600 if tier != 'quick' else 120)))
        if cap != 16:
            out.append(dict(entry='q_ipf_misc', cfg={'CAP': cap}, unwind=12, **base))
    return out
