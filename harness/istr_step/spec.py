"""C04 (and the C02 UB build of the same queries): one symbolic operation from every symbolic basic_inplace_string state.
cfg: CH character type, CAP capacity, N_ size of the pre-state, M_ length of the second operand (string / view / C string
/ pointer block), P_ (optional) enumerated position for rotate-based operations, CHK contract-checked kernel build."""
import json
import os

PROPERTIES = ['C04', 'C02']
BOUNDS = {
    'quick': 'char: capacity 1 (all pre-sizes) and 7 (pre-sizes 0, 3, 7; tiny layout, size kept in the last byte), 16 (first capacity with a size field; pre-sizes 0, 8, 16) and 15 (largest tiny; pre-sizes 7, 15); '
             'char16_t: capacities 7 and 16, one interior pre-size. Second operand lengths {1, exact fit, one more than fits, capacity} for mutators, {1, 2} for searches/comparisons. '
             'All characters (also those left behind the terminator of the pre-state) and every pos/count/index argument are symbolic over the full 64-bit range, restricted only by the documented precondition; '
             'one query per (operation, CH, CAP, N, M). At capacities >= 15 the rotate-based operations (insert*, erase*, etl::erase/erase_if) and the sub-range replaces run with a fully symbolic position '
             'from pre-size 3 and with an enumerated tail position (P_) from the long/full pre-states; needle searches run on haystacks <= 4 there. '
             'Contract-checked build (cfg CHK): every mutator and element access at capacity 7, char.',
    'thorough': 'char: capacity 0, 1, 7 with every pre-size 0..cap and operand lengths {0, 1, exact fit, one more}; 15 and 16 with pre-sizes {0, 1, cap/2, cap-1, cap} and enumerated positions {0.., middle, tail} for the rotate-based operations; '
                '31 (pre-sizes 15, 31); 255 and 256 (size field 8 -> 16 bit; pre-sizes 0, cap-1, cap; no rotate-based operations and no needle searches). '
                'wchar_t, char16_t: capacities 0, 1, 7, 15, 16, 31; char8_t, char32_t: capacities 0, 1, 7, 16. Contract-checked build at capacities 7 and 16 (char).',
}
ASSUMPTIONS = [
    'C04: positions that make std::basic_string throw out_of_range (pos > size(), pos2 > str.size()) are excluded; ptr+count overloads get a block of exactly M characters and count <= M; C-string overloads get exactly M non-zero characters and a terminator',
    'C04: documented tetl preconditions are assumed: ctor/assign(count, ...) count <= capacity, push_back on a non-full string, pop_back/front/back on a non-empty string; second operands have at most capacity characters',
    'C04: when the std result would not fit in the capacity only size() <= capacity() and data()[size()] == 0 are required (the property says so); insert(index, count, ch) is only called with results that fit and from pre-sizes >= capacity-3 (tetl rotates once per inserted character)',
    'C04: the pre-state is installed through the public API (S(ptr, CAP) then resize(N)) and checked before the operation; the characters behind the terminator are symbolic',
    'C04: rfind(ptr,pos,count) cannot be instantiated (it calls a strings::rfind overload that does not exist) and replace(..., Char const*) only compiles for char and only after <etl/cstring.hpp> (unqualified strlen): the first has no query, the second is built with that include (cfg HAVE_REPL_CS)',
    'C04: insert(const_iterator, ...) overloads and replace(pos, count, count2, ch) are commented out in tetl: no query; operator+ has no rvalue overloads in tetl',
    'C04: mutator oracle = sequence model harness/istr_step/model.h; spec.py compiles validate_model.cpp with g++ and compares the model with std::basic_string on 242 000 random operations before every C04 run (failure aborts the check)',
    'C04: cfg CHK builds the kernel with TETL_ENABLE_CONTRACT_CHECKS and a custom assert handler; a fired check on a call that std::basic_string accepts and whose result fits is reported as a failed obligation',
    'C04: out-of-range pointers that are formed but not dereferenced are outside the claim (CBMC pointer encoding); replace(pos,count,str) forms data()+pos+count unclamped and is excluded for count > capacity+1-pos as part of finding C04_replace_keeps_size',
]
_here = os.path.dirname(os.path.abspath(__file__))
SRCH = ['find', 'rfind', 'ffo', 'ffno', 'flo', 'flno']
# ---- entries by the operands they depend on
CONS = ['ctor_default', 'ctor_nc']                                   # capacity only
SRC = ['ctor_pc', 'ctor_cs', 'ctor_it', 'ctor_v', 'ctor_vpc']        # capacity and second operand
ONE_MUT = ['ctor_spc', 'ctor_sp', 'ctor_copy', 'ctor_move', 'asg_self', 'asg_c', 'assign_nc', 'access', 'set_at', 'set_front_back', 'clear',
           'push_back', 'pop_back', 'append_nc', 'append_self', 'pluseq_c', 'repl_itnc', 'substr', 'substr_p', 'substr_0', 'copy', 'copy_0',
           'resize_nc', 'resize_n', 'plus_sc', 'plus_cs']
ONE_ROT = ['erase_pc', 'erase_p', 'erase_0', 'erase_it', 'erase_itit', 'insert_nc', 'insert_self', 'erase_val', 'erase_if']
ONE_SRCH = ['sw_c', 'ew_c', 'ct_c'] + [s + '_c' for s in SRCH]
ONE_DEF = [s + '_c0' for s in SRCH]                                  # default-argument forms: one configuration per capacity is enough
TWO_MUT = ['asg_copy', 'asg_move', 'asg_cs', 'asg_v', 'assign_s', 'assign_spc', 'assign_sp', 'assign_pc', 'assign_cs', 'assign_it', 'assign_v', 'assign_vpc', 'assign_vp',
           'append_cs', 'append_pc', 'append_it', 'append_s', 'append_spc', 'append_sp', 'append_v', 'append_vpc', 'append_vp', 'pluseq_s', 'pluseq_cs', 'pluseq_v',
           'repl_pcs', 'repl_its', 'repl_pcspc', 'repl_pcsp', 'repl_pcpc', 'repl_itpc', 'repl_pccs', 'repl_itcs', 'swap', 'swap_free',
           'plus_ss', 'plus_scs', 'plus_css']
TWO_ROT = ['insert_cs', 'insert_pc', 'insert_s', 'insert_spc', 'insert_sp', 'insert_v', 'insert_vpc', 'insert_vp']
TWO_SRCH = (['cmp_s', 'cmp_s2', 'cmp_pcs', 'cmp_pcspc', 'cmp_pcsp', 'cmp_cs', 'cmp_pccs', 'cmp_pcpc', 'cmp_v', 'cmp_pcv', 'cmp_pcvpc', 'cmp_pcvp',
             'sw_v', 'sw_cs', 'ew_v', 'ew_cs', 'ct_v', 'ct_cs', 'rel_ss', 'rel_scs', 'rel_css', 'ffo_v']
            + [s + k for s in SRCH for k in ('_s', '_cs')] + [s + '_pc' for s in SRCH if s != 'rfind'])
TWO_DEF = [s + k for s in SRCH for k in ('_s0', '_cs0')] + ['ffo_v0']
SEARCH_LIKE = set(ONE_SRCH + ONE_DEF + TWO_SRCH + TWO_DEF)
CHAR_ONLY = ['repl_pccs', 'repl_itcs']
NEEDS_N = {'set_at': 1, 'set_front_back': 1, 'erase_it': 1, 'pop_back': 1}     # minimum pre-size
NOT_FULL = ['push_back']
NEEDS_CAP = {'asg_c': 1, 'plus_cs': 1}
MANGLE = {'char': 'c', 'wchar_t': 'w', 'char8_t': 'Du', 'char16_t': 'Ds', 'char32_t': 'Di'}
CSZ = {'char': 1, 'char8_t': 1, 'char16_t': 2, 'char32_t': 4, 'wchar_t': 4}


def open_findings():
    try:
        import sys
        sys.path.insert(0, os.path.join(os.path.dirname(os.path.dirname(_here)), 'engine'))
        import runner
        return {k['id'] for k in runner.load_findings().get('open', [])}
    except Exception:
        kp = os.path.join(_here, 'kf.json')
        return {k['id'] for k in json.load(open(kp))} if os.path.exists(kp) else set()


USES_P = ['erase_pc', 'erase_p', 'erase_it', 'erase_itit', 'insert_nc', 'insert_self'] + ['insert_cs', 'insert_pc', 'insert_s', 'insert_spc', 'insert_sp', 'insert_v', 'insert_vpc', 'insert_vp']


def INST(cap):
    # loops that install and check the pre-state (numbering differs between the plain and the UB-instrumented build: name them all)
    return {'%s.%d' % (f, i): cap + 3 for f in ('D__ZL4mk_nm', 'k_install') for i in range(4)}


def mkq(e, ch, cap, n, m, ub, extra=None, budget=240, p=None):
    cfg = {'CH': ch, 'CAP': cap, 'N_': n, 'M_': m}
    if ch == 'char':
        cfg['HAVE_REPL_CS'] = 1
    if extra:
        cfg.update(extra)
    big = (cap + 3) * CSZ[ch] + 16
    rot = (cap if e == 'insert_nc' or e.startswith('repl_') else min(2 * n, cap) if e == 'insert_self' else min(n + m, cap)) - (p or 0) + 3     # etl::rotate: TRE turns the recursion into an outer loop; both loops are bounded by the number of rotated characters
    rname = 'K__ZN3etl6rotateIP%sEET_S2_S2_S2_' % MANGLE[ch]
    unwind = cap + 4
    inst = {}
    if e in SEARCH_LIKE:
        # searches / comparisons only walk the N resp. M characters of their operands; only the loops that install the
        # pre-state run over the whole capacity (a too small bound is reported by the unwinding assertions, never hidden)
        unwind = max(n, m) + 3
        inst = dict(INST(cap))
    # SAT back end: minisat decides almost everything fastest; a minisat timeout falls back to cadical. Measured exception:
    # rfind(ch,pos) on 4-byte characters at capacity 31 (minisat: no verdict in 400 s, cadical: 4 s)
    solver = ['minisat', 'cadical']
    if e == 'rfind_c' and CSZ[ch] == 4 and cap >= 31:
        solver = ['cadical', 'minisat']
    if os.environ.get('C04_SOLVER'):
        solver = os.environ['C04_SOLVER']
    if e == 'insert_nc':
        inst['k_insert_nc.0'] = cap - n + 2     # one rotate per inserted character: the count loop is bounded by the free space
    if e in ('erase_val', 'erase_if'):
        unwind = n + 3
        inst.update(INST(cap))
    return dict(entry='q_' + e, cfg=cfg, unwind=unwind,
                unwindset={**inst, 'll_memcpy.0': big, 'll_memmove.0': big, 'll_memmove.1': big, 'll_memset.0': big, 'll_undef_bytes.0': 40, rname + '.0': rot, rname + '.1': rot},
                budget=budget, ub=ub, nofunc=ub, solver=solver)


NEEDLE_SRCH = set(x + k for x in SRCH for k in ('_s', '_cs', '_pc', '_s0', '_cs0')) | {'ffo_v', 'ffo_v0', 'ct_v', 'ct_cs'}
HEAVY_RFIND = ['rfind_s', 'rfind_cs', 'rfind_s0', 'rfind_cs0']   # find_end with a symbolic needle: cost grows steeply with the haystack


def applicable(e, ch, cap, n, m, tier='quick'):
    if e in HEAVY_RFIND and n > 4:
        return False     # rfind with a symbolic needle (find_end): no verdict within 600 s from 7 characters on (measured)
    if e in NEEDLE_SRCH and n > 5 and m > 1:
        return False     # two-character needle on a haystack of 7+: find_last_of(str/cstr) got no verdict within 600 s (measured)
    if e == 'erase_it' and False:
        return False
    if e == 'insert_nc' and n < cap - ((2 if ch == 'char' else 1) if tier == 'quick' else 3):
        return False     # tetl's insert(index, count, ch) rotates once per character: count <= capacity - N is kept small
    if e in CHAR_ONLY and ch != 'char':
        return False
    if n < NEEDS_N.get(e, 0) or cap < NEEDS_CAP.get(e, 0):
        return False
    if e in NOT_FULL and n >= cap:
        return False
    return True


def clamp(cap, xs):
    return sorted({x for x in xs if 0 <= x <= cap})


RANGE_REPL = ['repl_pcpc', 'repl_itpc', 'repl_pcspc', 'repl_pcsp']      # symbolic sub-range on both sides: as costly as a rotate
TWO_MUT_LIGHT = [e for e in TWO_MUT if e not in RANGE_REPL]
ONE_HEAVY = ['erase_val', 'erase_if', 'insert_self', 'repl_itnc']           # cost grows steeply with N and has no position to enumerate
# searches that stay cheap on a long haystack (used to check size()/data() of long and full strings at capacities >= 15)
CHEAP_SRCH = {'sw_c', 'ew_c', 'find_c', 'ffo_c', 'ffno_c', 'cmp_s', 'cmp_s2', 'cmp_cs', 'cmp_v', 'cmp_pcs', 'cmp_pcv', 'cmp_pccs', 'cmp_pcpc', 'cmp_pcspc', 'cmp_pcsp',
              'cmp_pcvpc', 'cmp_pcvp', 'sw_v', 'sw_cs', 'ew_v', 'ew_cs', 'rel_ss', 'rel_scs', 'rel_css'}


def plan(profile, cap):
    """Configuration lists for one (CH, CAP):
    one: N for single-operand mutators/observers/searches; one_rot: (N, P) for rotate-based single-operand ops (P = enumerated position or None = symbolic);
    mut: (N, M) for two-operand mutators without a rotate; heavy: (N, M) for range replaces; rot2: (N, M, P) for two-operand inserts;
    sr: (N, M) for searches/comparisons; src: M for constructors from a second operand."""
    mid = cap // 2
    S = None
    if cap == 0:
        return dict(one=[0], one_rot=[(0, S)], mut=[(0, 0)], heavy=[(0, 0)], rot2=[(0, 0, S)], sr=[(0, 0)], src=[0])
    if cap == 1:
        prs = [(0, 0), (0, 1), (1, 0), (1, 1)]
        return dict(one=[0, 1], one_rot=[(0, S), (1, S)], mut=prs, heavy=prs, rot2=[(n, m, S) for n, m in prs], sr=[(0, 1), (1, 1)] + ([(1, 0), (0, 0)] if profile == 'all' else []), src=[0, 1])
    if cap <= 8:    # positions, counts and contents fully symbolic from every listed pre-size
        if profile == 'light':      # one interior pre-state: exact fit and first overflow
            ns, prs, sr, src = [mid], [(mid, 1), (mid, cap - mid), (mid, cap - mid + 1)], [(mid, 2)], [cap]
        elif profile == 'full':
            ns, prs, sr, src = [0, mid, cap], [(0, cap), (mid, 1), (mid, cap - mid), (mid, cap - mid + 1), (cap, 1)], [(0, 1), (mid, 1), (mid, 2), (cap, 1)], [0, 1, cap]
        elif profile == 'all':      # every pre-size; exact fit from each, first overflow and short operands from three of them; needles 1..3
            ns = list(range(cap + 1))
            prs = sorted({(n, cap - n) for n in ns} | {(n, m) for n in (mid, cap - 1, cap) for m in clamp(cap, [1, cap - n + 1])} | {(0, 1)})
            sr = [(n, m) for n in clamp(cap, [0, 1, 2, 5]) for m in clamp(cap, [1, 2])] + [(0, 0), (cap, 1), (mid, 3)]
            src = list(range(cap + 1))
        else:
            raise ValueError(profile)
        return dict(one=ns, one_rot=[(n, S) for n in ns], mut=prs, heavy=prs, rot2=[(n, m, S) for n, m in prs], sr=sr, src=src)
    # capacities >= 15: the rotate (insert/erase) and the range replaces cost 20-120 s with a symbolic position once N >= 8
    # (DESIGN.md C04 $), so they run fully symbolic from a short pre-state and with an enumerated tail position from long/full ones
    if profile == 'light':
        return dict(one=[mid], one_rot=[(3, S)], mut=[(mid, cap - mid), (mid, cap - mid + 1)], heavy=[(3, 1)], rot2=[(3, 1, S)], sr=[(3, 2)], src=[cap])
    if profile in ('edge', 'full'):
        return dict(one=[mid, cap] + ([0] if profile == 'full' else []), one_rot=[(3, S), (cap, cap - 1)],
                    mut=[(mid, cap - mid), (mid, cap - mid + 1), (cap, 1)] + ([(0, cap), (mid, 1)] if profile == 'full' else []),
                    heavy=[(3, 1)], rot2=[(3, 1, S), (cap - 1, 1, cap - 2)], sr=[(3, 2), (cap, 1)] + ([(0, 1), (3, 1)] if profile == 'full' else []), src=[cap] + ([0, 1] if profile == 'full' else []))
    if profile == 'wide':
        ns = clamp(cap, [0, 1, mid, cap - 1, cap])
        return dict(one=ns, one_rot=[(0, S), (3, S), (4, S), (mid, mid - 1), (cap - 1, cap - 2), (cap, cap - 1), (cap, cap)],
                    mut=[(n, m) for n in ns for m in clamp(cap, [cap - n, cap - n + 1])] + [(mid, 1), (0, 1)], heavy=[(3, 1), (3, 2), (4, 4)],
                    rot2=[(3, 1, S), (2, 3, S), (mid, 1, mid - 1), (cap - 1, 1, cap - 2), (cap - 1, 1, cap - 1), (cap, 1, cap - 1)],
                    sr=[(0, 1), (3, 1), (3, 2), (4, 3), (mid, 2), (cap, 1)], src=clamp(cap, [0, 1, mid, cap]))
    raise ValueError(profile)


QUICK = [('char', 1, 'full'), ('char', 7, 'full'), ('char', 15, 'edge'), ('char', 16, 'full'), ('char16_t', 7, 'light'), ('char16_t', 16, 'light')]
THOROUGH = ([('char', 0, 'all'), ('char', 1, 'all'), ('char', 7, 'all'), ('char', 15, 'edge'), ('char', 16, 'full'), ('char', 31, 'light'), ('char', 255, 'huge'), ('char', 256, 'huge')]
            + [('wchar_t', cap, pr) for cap, pr in ((0, 'all'), (1, 'full'), (7, 'light'), (16, 'light'), (31, 'light'))]
            + [('char16_t', cap, pr) for cap, pr in ((0, 'all'), (1, 'full'), (7, 'light'), (15, 'light'), (16, 'light'))]
            + [(ch, cap, pr) for ch in ('char8_t', 'char32_t') for cap, pr in ((0, 'all'), (1, 'full'), (7, 'light'), (16, 'light'))])
QUICK_C02 = [('char', 7, 'light'), ('char', 16, 'light')]
ERASERS = ('erase_pc', 'erase_p', 'erase_0', 'erase_it', 'erase_itit', 'erase_val', 'erase_if')


def queries(tier, prop='C04'):
    ub = prop == 'C02'
    if prop == 'C04':
        validate()
    tier = 'quick' if tier.startswith('quick') else 'thorough'
    combos = QUICK if tier == 'quick' else THOROUGH
    if ub:
        combos = QUICK_C02 if tier == 'quick' else QUICK
    if os.environ.get('C04_COMBOS'):     # development aid: C04_COMBOS=char:7:full,char16_t:16:light
        combos = [(c.split(':')[0], int(c.split(':')[1]), c.split(':')[2]) for c in os.environ['C04_COMBOS'].split(',')]
    opn = open_findings()
    out = []
    seen = set()

    def add(e, ch, cap, n, m, p=None, chk=False, budget=None):
        if not applicable(e, ch, cap, n, m, tier):
            return
        if cap >= 15 and n > 4:
            if e in ONE_HEAVY or (e in SEARCH_LIKE and (e not in CHEAP_SRCH or ch != 'char')):
                return
        if tier == 'quick' and n > 4 and e in ('erase_val', 'erase_if'):
            return    # remove + rotate with a symbolic split point: 40-80 s from 7 characters on
        if chk and e in ('append_it', 'append_s', 'pluseq_s', 'append_self') and n + (n if e == 'append_self' else m) > cap:
            return    # these append with push_back, whose documented precondition is size() < capacity()
        if e == 'erase_it' and p is not None and p >= n:
            return
        key = (e, ch, cap, n, m, p, chk)
        if key in seen:
            return
        seen.add(key)
        extra = {}
        if p is not None and e in USES_P:
            extra['P_'] = p
        if chk:
            extra['CHK'] = 1
        q = mkq(e, ch, cap, n, m, ub, extra=extra, p=p if e in USES_P else None, budget=budget or (240 if tier == 'quick' else 400))
        # configurations that lie wholly inside an open known-finding region (HARNESS.md): only a confirm query may use them
        inside = False
        if 'C04_swap_full_tiny' in opn and e in ('swap', 'swap_free') and cap < 16 and (n == cap or m == cap) and n != m:
            inside = True
        if 'C04_replace_keeps_size' in opn and e in ('repl_pcs', 'repl_its', 'repl_pccs', 'repl_itcs') and m > n:
            inside = True   # these overloads take the whole replacement: its length can only equal the replaced length if M <= N
        if chk and 'C04_erase_all_contract' in opn and e in ERASERS and (n == 0 or e == 'erase_0' or (e == 'erase_it' and n == 1)):
            inside = True
        if chk and 'C04_replace_contract' in opn and ((e in ('repl_pcs', 'repl_pccs') and m >= n) or (e == 'repl_pcpc' and n == 0) or (e in ('repl_pcspc', 'repl_pcsp') and (n == 0 or m == 0))):
            inside = True
        if inside:
            q['confirm_only'] = True
        out.append(q)

    for ch, cap, profile in combos:
        huge = profile == 'huge'
        if huge:
            # capacities 255/256: the size field switches from 8 to 16 bit. Only the operations whose query stays below ~60 s there
            # (size bookkeeping: push/pop/clear/+=/swap/copies/compare); everything else times out at this capacity (measured)
            for n in (0, cap - 1, cap):
                for e in ('push_back', 'pop_back', 'clear', 'pluseq_c', 'ctor_copy', 'ctor_move'):
                    add(e, ch, cap, n, 0, budget=600)
            for n, m in ((0, 1), (cap - 1, 1), (cap, 0), (cap, 2)):
                for e in ('swap', 'cmp_s', 'asg_copy'):
                    add(e, ch, cap, n, m, budget=600)
            continue
        pl = plan(profile, cap)
        dn = min(3, cap)     # pre-size for the default-argument forms
        for e in CONS:
            add(e, ch, cap, 0, 0)
        for m in pl['src']:
            for e in SRC:
                add(e, ch, cap, 0, m)
        for n in pl['one']:
            for e in ONE_MUT + ONE_SRCH:
                add(e, ch, cap, n, 0)
        if cap >= 15:
            for e in ONE_SRCH:
                add(e, ch, cap, 3, 0)
        for n, p in pl['one_rot']:
            for e in ONE_ROT:
                add(e, ch, cap, n, 0, p)
        if cap >= 2:
            nn = cap - 2 if ch == 'char' else cap - 1
            add('insert_nc', ch, cap, nn, 0, None if cap <= 8 else nn)
        for n, m in pl['mut']:
            for e in TWO_MUT_LIGHT:
                add(e, ch, cap, n, m)
        for n, m in pl['heavy']:
            for e in RANGE_REPL:
                add(e, ch, cap, n, m)
        for n, m, p in pl['rot2']:
            for e in TWO_ROT:
                add(e, ch, cap, n, m, p)
        for n, m in pl['sr']:
            for e in TWO_SRCH:
                add(e, ch, cap, n, m)
        for e in ONE_DEF:       # default-argument forms: one configuration per capacity
            add(e, ch, cap, dn, 0)
        for e in TWO_DEF:
            add(e, ch, cap, dn, min(2, cap))
        # ---- contract-checked build (cfg CHK): a fired TETL_PRECONDITION on a call that std::basic_string accepts is a failed
        # obligation; the mutators and element access, char only
        if ch == 'char' and cap in ((7,) if tier == 'quick' else (7, 16)) and not ub:
            small = cap <= 8
            mid = cap // 2 if small else 3
            for e in CONS:
                add(e, ch, cap, 0, 0, chk=True)
            for e in SRC:
                add(e, ch, cap, 0, 1, chk=True)
            for n, p in [(0, None), (mid, None), (cap, None if small else cap - 1)]:
                for e in ONE_ROT + ['clear', 'pop_back', 'push_back', 'resize_nc', 'append_nc', 'access', 'set_at']:
                    add(e, ch, cap, n, 0, p, chk=True)
            for e in ONE_MUT:
                add(e, ch, cap, mid, 0, chk=True)
            for n, m in [(mid, 1), (mid, 2)]:
                for e in TWO_MUT + TWO_ROT:
                    add(e, ch, cap, n, m, chk=True)
            for e in TWO_MUT_LIGHT:
                add(e, ch, cap, cap - 1, 1, chk=True)
    return out


_validated = [False]


def validate():
    """DESIGN.md 1.7(3): the sequence model of model.h against std::basic_string, natively (g++), random operation sequences"""
    if _validated[0] or os.environ.get('C04_SKIP_MODEL_VALIDATION'):
        return
    import subprocess
    import tempfile
    _validated[0] = True
    src = os.path.join(_here, 'validate_model.cpp')
    if not os.path.exists(src):
        return
    d = tempfile.mkdtemp(prefix='c04_model_')
    exe = os.path.join(d, 'validate_model')
    try:
        r = subprocess.run(['g++', '-std=c++20', '-O1', '-I' + _here, src, '-o', exe], capture_output=True, text=True, timeout=300)
        if r.returncode != 0:
            raise RuntimeError('istr_step: validate_model.cpp does not compile: ' + r.stderr[-1500:])
        r = subprocess.run([exe, os.environ.get('VERIF_SEED', '0') or '0'], capture_output=True, text=True, timeout=300)
        if r.returncode != 0:
            raise RuntimeError('istr_step: sequence model disagrees with std::basic_string: ' + (r.stdout + r.stderr)[-1500:])
        print('[istr_step] ' + r.stdout.strip().splitlines()[-1], flush=True)
    finally:
        import shutil
        shutil.rmtree(d, ignore_errors=True)
