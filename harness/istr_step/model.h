// Sequence model of std::basic_string<CH> restricted to results of at most MCAP characters (C04 oracle for mutators).
// One primitive: splice = "replace [pos, pos+len) of a by k characters taken from src (or k copies of fill)".
// Every std::basic_string mutator is this primitive with the argument clamping the standard prescribes.
// validate_model.cpp checks these functions natively against std::basic_string (g++), see spec.py.
#ifndef ISTR_MODEL_H
#define ISTR_MODEL_H
#include <stddef.h>
template <typename C, size_t MCAP>
struct Mdl {
    C d[MCAP + 1];
    size_t n;    // length of the result; valid only if fits
    bool fits;   // result has at most MCAP characters
};
// a: n characters. 0 <= pos <= n, len <= n - pos. src: k characters, or nullptr -> k copies of fill.
template <typename C, size_t MCAP>
static inline Mdl<C, MCAP> m_splice(C const* a, size_t n, size_t pos, size_t len, C const* src, size_t k, C fill)
{
    Mdl<C, MCAP> r;
    size_t keep = n - len;
    r.fits = keep <= MCAP && k <= MCAP - keep;
    r.n    = r.fits ? keep + k : 0;
    if (r.fits) {
        // gather form: every output character is selected by its (concrete) index, so the solver sees reads at symbolic
        // positions but never a write at a symbolic position
        for (size_t i = 0; i < MCAP; i++) {
            if (i >= r.n) break;
            if (i < pos) r.d[i] = a[i];
            else if (i - pos < k) r.d[i] = src ? src[i - pos] : fill;
            else r.d[i] = a[i - k + len];
        }
    }
    return r;
}
static inline size_t m_min(size_t a, size_t b) { return a < b ? a : b; }
// std::basic_string semantics; positions must satisfy the standard's no-throw condition (pos <= size)
template <typename C, size_t MCAP> static inline Mdl<C, MCAP> m_assign(C const* a, size_t n, C const* s, size_t k) { return m_splice<C, MCAP>(a, n, 0, n, s, k, C()); }
template <typename C, size_t MCAP> static inline Mdl<C, MCAP> m_assign_fill(C const* a, size_t n, size_t k, C c) { return m_splice<C, MCAP>(a, n, 0, n, nullptr, k, c); }
template <typename C, size_t MCAP> static inline Mdl<C, MCAP> m_append(C const* a, size_t n, C const* s, size_t k) { return m_splice<C, MCAP>(a, n, n, 0, s, k, C()); }
template <typename C, size_t MCAP> static inline Mdl<C, MCAP> m_append_fill(C const* a, size_t n, size_t k, C c) { return m_splice<C, MCAP>(a, n, n, 0, nullptr, k, c); }
template <typename C, size_t MCAP> static inline Mdl<C, MCAP> m_insert(C const* a, size_t n, size_t pos, C const* s, size_t k) { return m_splice<C, MCAP>(a, n, pos, 0, s, k, C()); }
template <typename C, size_t MCAP> static inline Mdl<C, MCAP> m_insert_fill(C const* a, size_t n, size_t pos, size_t k, C c) { return m_splice<C, MCAP>(a, n, pos, 0, nullptr, k, c); }
template <typename C, size_t MCAP> static inline Mdl<C, MCAP> m_erase(C const* a, size_t n, size_t pos, size_t cnt) { return m_splice<C, MCAP>(a, n, pos, m_min(cnt, n - pos), nullptr, 0, C()); }
template <typename C, size_t MCAP> static inline Mdl<C, MCAP> m_replace(C const* a, size_t n, size_t pos, size_t cnt, C const* s, size_t k) { return m_splice<C, MCAP>(a, n, pos, m_min(cnt, n - pos), s, k, C()); }
template <typename C, size_t MCAP> static inline Mdl<C, MCAP> m_replace_fill(C const* a, size_t n, size_t pos, size_t cnt, size_t k, C c) { return m_splice<C, MCAP>(a, n, pos, m_min(cnt, n - pos), nullptr, k, c); }
template <typename C, size_t MCAP> static inline Mdl<C, MCAP> m_resize(C const* a, size_t n, size_t k, C c) { return k <= n ? m_splice<C, MCAP>(a, n, k, n - k, nullptr, 0, c) : m_splice<C, MCAP>(a, n, n, 0, nullptr, k - n, c); }
#endif
