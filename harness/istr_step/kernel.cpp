// C04 kernels: thin wrappers around etl::basic_inplace_string<CH, CAP>. No logic besides marshalling.
// The object under test lives in a block allocated by the driver (vf_alloc(k_sizeof())); "o" is that block,
// "b" a second object of the same type, "b2" an object of the other-capacity type S2, "r" raw storage for a result.
#include "vf.h"
#include <new>
#ifdef CHK
// contract-checked build (TETL_ENABLE_CONTRACT_CHECKS + custom handler come from spec.py KERNEL cfg): a fired check is
// reported to the driver, which treats it as a failed obligation when the call is valid for std::basic_string
#define TETL_ENABLE_CONTRACT_CHECKS 1
#define TETL_ENABLE_CUSTOM_ASSERT_HANDLER 1
#endif
#ifdef HAVE_REPL_CS
#include <etl/cstring.hpp> // replace(..., Char const*) calls an unqualified strlen that <etl/string.hpp> itself never declares
#endif
#include <etl/string.hpp>
#include <etl/string_view.hpp>
#ifndef CH
#define CH char
#endif
#ifndef CAP
#define CAP 7
#endif
#ifndef CAP2
#define CAP2 (CAP + 1)
#endif
#ifdef CHK
extern "C" void vf_contract_fired(int line);
namespace etl {
template <typename Assertion>
[[noreturn]] auto assert_handler(Assertion const& msg) -> void
{
    vf_contract_fired(msg.line);
    for (;;) { }
}
} // namespace etl
#endif
using S  = etl::basic_inplace_string<CH, CAP>;
using S2 = etl::basic_inplace_string<CH, CAP2>;
using SV = etl::basic_string_view<CH>;
using sz = etl::size_t;
static inline S& R(void* o) { return *static_cast<S*>(o); }
static inline S const& C(void const* o) { return *static_cast<S const*>(o); }
static inline S2 const& C2(void const* o) { return *static_cast<S2 const*>(o); }

// ---- storage, pre-state, observers
K sz k_sizeof() { return sizeof(S); }
K sz k_sizeof2() { return sizeof(S2); }
// pre-state of size n whose characters behind the terminator are whatever p holds there: full string, then shrink
K void k_install(void* o, CH const* p, sz n) { S* s = ::new (o) S(p, CAP); s->resize(n); }
K void k_install2(void* o, CH const* p, sz n) { ::new (o) S2(p, n); }
K sz k_size(void const* o) { return C(o).size(); }
K sz k_length(void const* o) { return C(o).length(); }
K CH const* k_data(void const* o) { return C(o).data(); }
K CH* k_data_mut(void* o) { return R(o).data(); }
K CH const* k_cstr(void const* o) { return C(o).c_str(); }
K bool k_empty(void const* o) { return C(o).empty(); }
K bool k_full(void const* o) { return C(o).full(); }
K sz k_capacity(void const* o) { return C(o).capacity(); }
K sz k_max_size(void const* o) { return C(o).max_size(); }
K void k_reserve_shrink(void* o, sz n) { R(o).reserve(n); R(o).shrink_to_fit(); }
K CH k_at(void const* o, sz i) { return C(o)[i]; }
K void k_set_at(void* o, sz i, CH c) { R(o)[i] = c; }
K CH k_front(void const* o) { return C(o).front(); }
K CH k_back(void const* o) { return C(o).back(); }
K void k_set_front_back(void* o, CH f, CH b) { R(o).front() = f; R(o).back() = b; }
K sz k_view(void const* o, sz* osz) { SV v = C(o); *osz = v.size(); return sz(v.data() - C(o).data()); }
// iteration: copies what begin()..end() / rbegin()..rend() / cbegin.. / crbegin.. visit; returns count (or npos if they disagree)
K sz k_iter(void* o, CH* fwd, CH* rev, CH* cfwd, CH* crev)
{
    S& s = R(o); S const& c = s; sz i = 0, j = 0, k = 0, l = 0;
    for (auto it = s.begin(); it != s.end(); ++it) { fwd[i++] = *it; }
    for (auto it = s.rbegin(); it != s.rend(); ++it) { rev[j++] = *it; }
    for (auto it = c.cbegin(); it != c.cend(); ++it) { cfwd[k++] = *it; }
    for (auto it = c.crbegin(); it != c.crend(); ++it) { crev[l++] = *it; }
    return (i == j && j == k && k == l && sz(c.end() - c.begin()) == i && sz(c.rend() - c.rbegin()) == i) ? i : sz(-1);
}

// ---- constructors (into raw storage r)
K void k_ctor_default(void* r) { ::new (r) S; }
K void k_ctor_pc(void* r, CH const* p, sz n) { ::new (r) S(p, n); }
K void k_ctor_cs(void* r, CH const* p) { ::new (r) S(p); }
K void k_ctor_nc(void* r, sz n, CH c) { ::new (r) S(n, c); }
K void k_ctor_it(void* r, CH const* f, CH const* l) { ::new (r) S(f, l); }
K void k_ctor_spc(void* r, void const* o, sz pos, sz cnt) { ::new (r) S(C(o), pos, cnt); }
K void k_ctor_sp(void* r, void const* o, sz pos) { ::new (r) S(C(o), pos); }
K void k_ctor_v(void* r, CH const* p, sz n) { ::new (r) S(SV(p, n)); }
K void k_ctor_vpc(void* r, CH const* p, sz n, sz pos, sz cnt) { ::new (r) S(SV(p, n), pos, cnt); }
K void k_ctor_copy(void* r, void const* o) { ::new (r) S(C(o)); }
K void k_ctor_move(void* r, void* o) { ::new (r) S(static_cast<S&&>(R(o))); }

// ---- assignment; mutators returning *this return its address
K void* k_asg_copy(void* o, void const* b) { return &(R(o) = C(b)); }
K void* k_asg_move(void* o, void* b) { return &(R(o) = static_cast<S&&>(R(b))); }
K void* k_asg_cs(void* o, CH const* p) { return &(R(o) = p); }
K void* k_asg_c(void* o, CH c) { return &(R(o) = c); }
K void* k_asg_v(void* o, CH const* p, sz n) { return &(R(o) = SV(p, n)); }
K void* k_assign_nc(void* o, sz n, CH c) { return &R(o).assign(n, c); }
K void* k_assign_s(void* o, void const* b) { return &R(o).assign(C(b)); }
K void* k_assign_spc(void* o, void const* b, sz pos, sz cnt) { return &R(o).assign(C(b), pos, cnt); }
K void* k_assign_sp(void* o, void const* b, sz pos) { return &R(o).assign(C(b), pos); }
K void* k_assign_pc(void* o, CH const* p, sz n) { return &R(o).assign(p, n); }
K void* k_assign_cs(void* o, CH const* p) { return &R(o).assign(p); }
K void* k_assign_it(void* o, CH const* f, CH const* l) { return &R(o).assign(f, l); }
K void* k_assign_v(void* o, CH const* p, sz n) { return &R(o).assign(SV(p, n)); }
K void* k_assign_vpc(void* o, CH const* p, sz n, sz pos, sz cnt) { return &R(o).assign(SV(p, n), pos, cnt); }
K void* k_assign_vp(void* o, CH const* p, sz n, sz pos) { return &R(o).assign(SV(p, n), pos); }

// ---- clear / erase / push / pop
K void k_clear(void* o) { R(o).clear(); }
K void* k_erase_pc(void* o, sz pos, sz cnt) { return &R(o).erase(pos, cnt); }
K void* k_erase_p(void* o, sz pos) { return &R(o).erase(pos); }
K void* k_erase_0(void* o) { return &R(o).erase(); }
K sz k_erase_it(void* o, sz off) { S& s = R(o); return sz(s.erase(s.cbegin() + off) - s.begin()); }
K sz k_erase_itit(void* o, sz f, sz l) { S& s = R(o); return sz(s.erase(s.cbegin() + f, s.cbegin() + l) - s.begin()); }
K void k_push_back(void* o, CH c) { R(o).push_back(c); }
K void k_pop_back(void* o) { R(o).pop_back(); }

// ---- append / operator+=
K void* k_append_nc(void* o, sz n, CH c) { return &R(o).append(n, c); }
K void* k_append_cs(void* o, CH const* p) { return &R(o).append(p); }
K void* k_append_pc(void* o, CH const* p, sz n) { return &R(o).append(p, n); }
K void* k_append_it(void* o, CH const* f, CH const* l) { return &R(o).append(f, l); }
K void* k_append_s(void* o, void const* b) { return &R(o).append(C(b)); }
K void* k_append_spc(void* o, void const* b, sz pos, sz cnt) { return &R(o).append(C(b), pos, cnt); }
K void* k_append_sp(void* o, void const* b, sz pos) { return &R(o).append(C(b), pos); }
K void* k_append_v(void* o, CH const* p, sz n) { return &R(o).append(SV(p, n)); }
K void* k_append_vpc(void* o, CH const* p, sz n, sz pos, sz cnt) { return &R(o).append(SV(p, n), pos, cnt); }
K void* k_append_vp(void* o, CH const* p, sz n, sz pos) { return &R(o).append(SV(p, n), pos); }
K void* k_pluseq_s(void* o, void const* b) { return &(R(o) += C(b)); }
K void* k_pluseq_c(void* o, CH c) { return &(R(o) += c); }
K void* k_pluseq_cs(void* o, CH const* p) { return &(R(o) += p); }
K void* k_pluseq_v(void* o, CH const* p, sz n) { return &(R(o) += SV(p, n)); }

// ---- insert
K void* k_insert_nc(void* o, sz idx, sz n, CH c) { return &R(o).insert(idx, n, c); }
K void* k_insert_cs(void* o, sz idx, CH const* p) { return &R(o).insert(idx, p); }
K void* k_insert_pc(void* o, sz idx, CH const* p, sz n) { return &R(o).insert(idx, p, n); }
K void* k_insert_s(void* o, sz idx, void const* b) { return &R(o).insert(idx, C(b)); }
K void* k_insert_spc(void* o, sz idx, void const* b, sz pos, sz cnt) { return &R(o).insert(idx, C(b), pos, cnt); }
K void* k_insert_sp(void* o, sz idx, void const* b, sz pos) { return &R(o).insert(idx, C(b), pos); }
K void* k_insert_v(void* o, sz idx, CH const* p, sz n) { return &R(o).insert(idx, SV(p, n)); }
K void* k_insert_vpc(void* o, sz idx, CH const* p, sz n, sz pos, sz cnt) { return &R(o).insert(idx, SV(p, n), pos, cnt); }
K void* k_insert_vp(void* o, sz idx, CH const* p, sz n, sz pos) { return &R(o).insert(idx, SV(p, n), pos); }

// ---- compare
K int k_cmp_s(void const* o, void const* b) { return C(o).compare(C(b)); }
K int k_cmp_s2(void const* o, void const* b2) { return C(o).compare(C2(b2)); }
K int k_cmp_pcs(void const* o, sz p1, sz c1, void const* b) { return C(o).compare(p1, c1, C(b)); }
K int k_cmp_pcspc(void const* o, sz p1, sz c1, void const* b, sz p2, sz c2) { return C(o).compare(p1, c1, C(b), p2, c2); }
K int k_cmp_pcsp(void const* o, sz p1, sz c1, void const* b, sz p2) { return C(o).compare(p1, c1, C(b), p2); }
K int k_cmp_cs(void const* o, CH const* p) { return C(o).compare(p); }
K int k_cmp_pccs(void const* o, sz p1, sz c1, CH const* p) { return C(o).compare(p1, c1, p); }
K int k_cmp_pcpc(void const* o, sz p1, sz c1, CH const* p, sz c2) { return C(o).compare(p1, c1, p, c2); }
K int k_cmp_v(void const* o, CH const* p, sz n) { return C(o).compare(SV(p, n)); }
K int k_cmp_pcv(void const* o, sz p1, sz c1, CH const* p, sz n) { return C(o).compare(p1, c1, SV(p, n)); }
K int k_cmp_pcvpc(void const* o, sz p1, sz c1, CH const* p, sz n, sz p2, sz c2) { return C(o).compare(p1, c1, SV(p, n), p2, c2); }
K int k_cmp_pcvp(void const* o, sz p1, sz c1, CH const* p, sz n, sz p2) { return C(o).compare(p1, c1, SV(p, n), p2); }

// ---- starts_with / ends_with / contains
K bool k_sw_v(void const* o, CH const* p, sz n) { return C(o).starts_with(SV(p, n)); }
K bool k_sw_c(void const* o, CH c) { return C(o).starts_with(c); }
K bool k_sw_cs(void const* o, CH const* p) { return C(o).starts_with(p); }
K bool k_ew_v(void const* o, CH const* p, sz n) { return C(o).ends_with(SV(p, n)); }
K bool k_ew_c(void const* o, CH c) { return C(o).ends_with(c); }
K bool k_ew_cs(void const* o, CH const* p) { return C(o).ends_with(p); }
K bool k_ct_v(void const* o, CH const* p, sz n) { return C(o).contains(SV(p, n)); }
K bool k_ct_c(void const* o, CH c) { return C(o).contains(c); }
K bool k_ct_cs(void const* o, CH const* p) { return C(o).contains(p); }

// ---- replace (iterator forms take offsets from begin())
K void* k_repl_pcs(void* o, sz pos, sz cnt, void const* b) { return &R(o).replace(pos, cnt, C(b)); }
K void* k_repl_its(void* o, sz f, sz l, void const* b) { S& s = R(o); return &s.replace(s.cbegin() + f, s.cbegin() + l, C(b)); }
K void* k_repl_pcspc(void* o, sz pos, sz cnt, void const* b, sz p2, sz c2) { return &R(o).replace(pos, cnt, C(b), p2, c2); }
K void* k_repl_pcsp(void* o, sz pos, sz cnt, void const* b, sz p2) { return &R(o).replace(pos, cnt, C(b), p2); }
K void* k_repl_pcpc(void* o, sz pos, sz cnt, CH const* p, sz c2) { return &R(o).replace(pos, cnt, p, c2); }
K void* k_repl_itpc(void* o, sz f, sz l, CH const* p, sz c2) { S& s = R(o); return &s.replace(s.cbegin() + f, s.cbegin() + l, p, c2); }
#ifdef HAVE_REPL_CS
K void* k_repl_pccs(void* o, sz pos, sz cnt, CH const* p) { return &R(o).replace(pos, cnt, p); }
K void* k_repl_itcs(void* o, sz f, sz l, CH const* p) { S& s = R(o); return &s.replace(s.cbegin() + f, s.cbegin() + l, p); }
#endif
K void* k_repl_itnc(void* o, sz f, sz l, sz n, CH c) { S& s = R(o); return &s.replace(s.cbegin() + f, s.cbegin() + l, n, c); }

// ---- substr / copy / resize / swap
K void k_substr(void* r, void const* o, sz pos, sz cnt) { ::new (r) S(C(o).substr(pos, cnt)); }
K void k_substr_p(void* r, void const* o, sz pos) { ::new (r) S(C(o).substr(pos)); }
K void k_substr_0(void* r, void const* o) { ::new (r) S(C(o).substr()); }
K sz k_copy(void const* o, CH* dst, sz cnt, sz pos) { return C(o).copy(dst, cnt, pos); }
K sz k_copy_0(void const* o, CH* dst, sz cnt) { return C(o).copy(dst, cnt); }
K void k_resize_nc(void* o, sz n, CH c) { R(o).resize(n, c); }
K void k_resize_n(void* o, sz n) { R(o).resize(n); }
K void k_swap(void* o, void* b) { R(o).swap(R(b)); }
K void k_swap_free(void* o, void* b) { using etl::swap; swap(R(o), R(b)); }

// ---- searches. Suffix 0 = the pos argument is omitted (tests the default)
K sz k_find_s(void const* o, void const* b, sz pos) { return C(o).find(C(b), pos); }
K sz k_find_s0(void const* o, void const* b) { return C(o).find(C(b)); }
K sz k_find_pc(void const* o, CH const* p, sz pos, sz n) { return C(o).find(p, pos, n); }
K sz k_find_cs(void const* o, CH const* p, sz pos) { return C(o).find(p, pos); }
K sz k_find_cs0(void const* o, CH const* p) { return C(o).find(p); }
K sz k_find_c(void const* o, CH c, sz pos) { return C(o).find(c, pos); }
K sz k_find_c0(void const* o, CH c) { return C(o).find(c); }
K sz k_rfind_s(void const* o, void const* b, sz pos) { return C(o).rfind(C(b), pos); }
K sz k_rfind_s0(void const* o, void const* b) { return C(o).rfind(C(b)); }
#ifdef HAVE_RFIND_PC
K sz k_rfind_pc(void const* o, CH const* p, sz pos, sz n) { return C(o).rfind(p, pos, n); }
#endif
K sz k_rfind_cs(void const* o, CH const* p, sz pos) { return C(o).rfind(p, pos); }
K sz k_rfind_cs0(void const* o, CH const* p) { return C(o).rfind(p); }
K sz k_rfind_c(void const* o, CH c, sz pos) { return C(o).rfind(c, pos); }
K sz k_rfind_c0(void const* o, CH c) { return C(o).rfind(c); }
K sz k_ffo_s(void const* o, void const* b, sz pos) { return C(o).find_first_of(C(b), pos); }
K sz k_ffo_s0(void const* o, void const* b) { return C(o).find_first_of(C(b)); }
K sz k_ffo_pc(void const* o, CH const* p, sz pos, sz n) { return C(o).find_first_of(p, pos, n); }
K sz k_ffo_cs(void const* o, CH const* p, sz pos) { return C(o).find_first_of(p, pos); }
K sz k_ffo_cs0(void const* o, CH const* p) { return C(o).find_first_of(p); }
K sz k_ffo_c(void const* o, CH c, sz pos) { return C(o).find_first_of(c, pos); }
K sz k_ffo_c0(void const* o, CH c) { return C(o).find_first_of(c); }
K sz k_ffo_v(void const* o, CH const* p, sz n, sz pos) { return C(o).find_first_of(SV(p, n), pos); }
K sz k_ffo_v0(void const* o, CH const* p, sz n) { return C(o).find_first_of(SV(p, n)); }
K sz k_ffno_s(void const* o, void const* b, sz pos) { return C(o).find_first_not_of(C(b), pos); }
K sz k_ffno_s0(void const* o, void const* b) { return C(o).find_first_not_of(C(b)); }
K sz k_ffno_pc(void const* o, CH const* p, sz pos, sz n) { return C(o).find_first_not_of(p, pos, n); }
K sz k_ffno_cs(void const* o, CH const* p, sz pos) { return C(o).find_first_not_of(p, pos); }
// find_first_not_of(cstr) has no default pos in tetl; the call below is what a user writes (goes through the implicit S(cstr) conversion)
K sz k_ffno_cs0(void const* o, CH const* p) { return C(o).find_first_not_of(p); }
K sz k_ffno_c(void const* o, CH c, sz pos) { return C(o).find_first_not_of(c, pos); }
K sz k_ffno_c0(void const* o, CH c) { return C(o).find_first_not_of(c); }
K sz k_flo_s(void const* o, void const* b, sz pos) { return C(o).find_last_of(C(b), pos); }
K sz k_flo_s0(void const* o, void const* b) { return C(o).find_last_of(C(b)); }
K sz k_flo_pc(void const* o, CH const* p, sz pos, sz n) { return C(o).find_last_of(p, pos, n); }
K sz k_flo_cs(void const* o, CH const* p, sz pos) { return C(o).find_last_of(p, pos); }
K sz k_flo_cs0(void const* o, CH const* p) { return C(o).find_last_of(p); }
K sz k_flo_c(void const* o, CH c, sz pos) { return C(o).find_last_of(c, pos); }
K sz k_flo_c0(void const* o, CH c) { return C(o).find_last_of(c); }
K sz k_flno_s(void const* o, void const* b, sz pos) { return C(o).find_last_not_of(C(b), pos); }
K sz k_flno_s0(void const* o, void const* b) { return C(o).find_last_not_of(C(b)); }
K sz k_flno_pc(void const* o, CH const* p, sz pos, sz n) { return C(o).find_last_not_of(p, pos, n); }
K sz k_flno_cs(void const* o, CH const* p, sz pos) { return C(o).find_last_not_of(p, pos); }
K sz k_flno_cs0(void const* o, CH const* p) { return C(o).find_last_not_of(p); }
K sz k_flno_c(void const* o, CH c, sz pos) { return C(o).find_last_not_of(c, pos); }
K sz k_flno_c0(void const* o, CH c) { return C(o).find_last_not_of(c); }

// ---- free functions
K void k_plus_ss(void* r, void const* o, void const* b2) { ::new (r) S(C(o) + C2(b2)); }
K void k_plus_scs(void* r, void const* o, CH const* p) { ::new (r) S(C(o) + p); }
K void k_plus_sc(void* r, void const* o, CH c) { ::new (r) S(C(o) + c); }
K void k_plus_css(void* r, CH const* p, void const* o) { ::new (r) S(p + C(o)); }
K void k_plus_cs(void* r, CH c, void const* o) { ::new (r) S(c + C(o)); }
// relational operators: bit i set for ==, !=, <, <=, >, >=
#define REL6(a, b) (unsigned((a) == (b)) | unsigned((a) != (b)) << 1 | unsigned((a) < (b)) << 2 | unsigned((a) <= (b)) << 3 | unsigned((a) > (b)) << 4 | unsigned((a) >= (b)) << 5)
K unsigned k_rel_ss(void const* o, void const* b2) { return REL6(C(o), C2(b2)); }
K unsigned k_rel_scs(void const* o, CH const* p) { return REL6(C(o), p); }
K unsigned k_rel_css(CH const* p, void const* o) { return REL6(p, C(o)); }
K sz k_erase_val(void* o, CH v) { return etl::erase(R(o), v); }
K sz k_erase_if(void* o, CH v) { return etl::erase_if(R(o), [v](CH c) { return c < v; }); }
