// Native validation of the C04 sequence model (model.h) against std::basic_string (DESIGN.md 1.7(3)).
// g++ -std=c++20 -I. validate_model.cpp && ./a.out [seed]   -- exit 0 = every model result equals std::basic_string
#include "model.h"
#include <cstdint>
#include <cstdio>
#include <cstdlib>
#include <string>

static uint64_t rng_state = 88172645463325252ULL;
static uint64_t rnd() { rng_state ^= rng_state << 13; rng_state ^= rng_state >> 7; rng_state ^= rng_state << 17; return rng_state; }
static size_t pick(size_t hi) { return size_t(rnd() % (hi + 1)); }
// counts: small, at a boundary, or huge (npos and neighbours)
static size_t cnt(size_t hi) { switch (rnd() % 6) { case 0: return size_t(-1); case 1: return size_t(-1) - pick(3); case 2: return hi + pick(2); default: return pick(hi); } }

template <typename C, size_t CAP>
static long run(int iters)
{
    using Str = std::basic_string<C>;
    long checked = 0;
    for (int it = 0; it < iters; it++) {
        size_t n = pick(CAP), m = pick(CAP);
        C a[CAP + 1], s[CAP + 1];
        for (size_t i = 0; i < n; i++) a[i] = C(rnd() % 4 + (rnd() % 8 == 0 ? 250 : 0));
        for (size_t i = 0; i < m; i++) s[i] = C(rnd() % 4);
        Str ref(a, n);
        Mdl<C, CAP> r;
        size_t pos = pick(n), c = cnt(n), k = pick(m);
        C ch = C(rnd() % 4);
        int op = int(rnd() % 10);
        switch (op) {
        case 0: ref.assign(s, k); r = m_assign<C, CAP>(a, n, s, k); break;
        case 1: c = pick(CAP + 2); ref.assign(c, ch); r = m_assign_fill<C, CAP>(a, n, c, ch); break;
        case 2: ref.append(s, k); r = m_append<C, CAP>(a, n, s, k); break;
        case 3: c = pick(CAP + 2); ref.append(c, ch); r = m_append_fill<C, CAP>(a, n, c, ch); break;
        case 4: ref.insert(pos, s, k); r = m_insert<C, CAP>(a, n, pos, s, k); break;
        case 5: c = pick(CAP + 2); ref.insert(pos, c, ch); r = m_insert_fill<C, CAP>(a, n, pos, c, ch); break;
        case 6: ref.erase(pos, c); r = m_erase<C, CAP>(a, n, pos, c); break;
        case 7: ref.replace(pos, c, s, k); r = m_replace<C, CAP>(a, n, pos, c, s, k); break;
        case 8: { size_t c2 = pick(CAP + 2); ref.replace(pos, c, c2, ch); r = m_replace_fill<C, CAP>(a, n, pos, c, c2, ch); break; }
        default: c = pick(CAP + 2); ref.resize(c, ch); r = m_resize<C, CAP>(a, n, c, ch); break;
        }
        bool fits = ref.size() <= CAP;
        bool ok = r.fits == fits;
        if (ok && fits) { ok = r.n == ref.size(); for (size_t i = 0; ok && i < r.n; i++) ok = r.d[i] == ref[i]; }
        if (!ok) { std::printf("MODEL MISMATCH op=%d n=%zu m=%zu pos=%zu c=%zu k=%zu cap=%zu\n", op, n, m, pos, c, k, CAP); return -1; }
        checked++;
    }
    return checked;
}

int main(int argc, char** argv)
{
    if (argc > 1) rng_state ^= std::strtoull(argv[1], nullptr, 10) * 0x9E3779B97F4A7C15ULL + 1;
    long t = 0, r;
    if ((r = run<char, 0>(2000)) < 0) return 1; t += r;
    if ((r = run<char, 1>(20000)) < 0) return 1; t += r;
    if ((r = run<char, 7>(100000)) < 0) return 1; t += r;
    if ((r = run<char16_t, 7>(50000)) < 0) return 1; t += r;
    if ((r = run<wchar_t, 16>(50000)) < 0) return 1; t += r;
    if ((r = run<char32_t, 3>(20000)) < 0) return 1; t += r;
    std::printf("model.h validated against std::basic_string on %ld random operations\n", t);
    return 0;
}
