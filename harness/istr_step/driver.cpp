// C04 driver: one symbolic operation from every symbolic string state of size N_ (capacity CAP), second operand of
// length M_. Characters (including those behind the terminator of the pre-state), positions and counts are symbolic over
// their full range; CH, CAP, N_, M_ (and P_, the enumerated position of rotate-based operations at large capacities) are
// enumerated by spec.py. Oracle: std::basic_string_view<CH> (through the same pipeline) for searches / comparisons,
// the sequence model of model.h for mutators. After every operation: size() <= capacity(), data()[size()] == 0.
#include "vf.h"
#include <string_view>
#ifndef CH
#define CH char
#endif
#ifndef CAP
#define CAP 7
#endif
#ifndef N_
#define N_ 3
#endif
#ifndef M_
#define M_ 2
#endif
#include "model.h"
using sz = size_t;
using SV = std::basic_string_view<CH>;
using Md = Mdl<CH, CAP>;
static constexpr sz npos = sz(-1);
#include "kapi.h"

// contract-checked builds (cfg CHK): the kernel's assert handler lands here
extern "C" void vf_contract_fired(int line)
{
    (void)line;
    vf_assert(false, "contract check fired on a call that is valid for std::basic_string");
    vf_assume(false);
}

static CH nd_ch() { return sizeof(CH) == 1 ? CH(vf_nd_u8()) : sizeof(CH) == 2 ? CH(vf_nd_u16()) : CH(vf_nd_u32()); }
// exact-size block of n characters, all symbolic, no terminator
static CH* sym(sz n) { CH* p = (CH*)vf_alloc(n * sizeof(CH)); for (sz i = 0; i < n; i++) p[i] = nd_ch(); return p; }
// C string of length exactly n: block of n+1, characters non-zero, terminator forced
static CH* symz(sz n) { CH* p = (CH*)vf_alloc((n + 1) * sizeof(CH)); for (sz i = 0; i < n; i++) { p[i] = nd_ch(); vf_assume(p[i] != CH(0)); } p[n] = CH(0); return p; }
static int sgn(int x) { return (x > 0) - (x < 0); }
static sz mn(sz a, sz b) { return a < b ? a : b; }
// position of rotate-based operations: symbolic, or enumerated by spec.py (-DP=..) at capacities >= 15 (DESIGN.md C04 $)
static sz nd_idx()
{
#ifdef P_
    return P_;
#else
    return vf_nd_u64();
#endif
}

// ---- the two invariants of the property, and equality with the model
static void inv(void const* o)
{
    sz s = k_size(o);
    vf_assert(s <= CAP, "size() <= capacity()");
    if (s <= CAP) {
        vf_assert(k_data(o)[s] == CH(0), "data()[size()] == 0");
        vf_assert(k_cstr(o) == k_data(o), "c_str() == data()");
    }
}
static void same(void const* o, CH const* m, sz n)
{
    sz s = k_size(o);
    vf_assert(s == n, "size() == std");
    if (s == n) {
        CH const* d = k_data(o);
        for (sz i = 0; i < n; i++) vf_assert(d[i] == m[i], "contents == std");
    }
}
static void post(void const* o, Md const& r)
{
    inv(o);
    if (r.fits) same(o, r.d, r.n);
}
// ---- pre-states
struct Pre { void* o; CH* p; };
// size n, contents p[0..n), p[n+1..CAP) left behind the terminator
static Pre mk_n(sz n)
{
    Pre s; s.p = sym(CAP); s.o = vf_alloc(k_sizeof());
    k_install(s.o, s.p, n);
    inv(s.o); same(s.o, s.p, n);
    return s;
}
static Pre mk() { return mk_n(N_); }
static Pre mk_other() { return mk_n(M_); }
static Pre mk2() { Pre s; s.p = sym(M_); s.o = vf_alloc(k_sizeof2()); k_install2(s.o, s.p, M_); return s; }
static void* raw() { return vf_alloc(k_sizeof()); }
static void keep(Pre const& s, sz n) { inv(s.o); same(s.o, s.p, n); }   // const operation left the object alone
// regions that only exist in the contract-checked build (cfg CHK): a TETL_PRECONDITION that rejects a call std::basic_string accepts
#ifdef CHK
#define CHK_KNOWN(ID, cond) VF_KNOWN(ID, cond)
#else
#define CHK_KNOWN(ID, cond) do { } while (0)
#endif
#define RET(call, obj) vf_assert((call) == (obj), "returns *this")

// =====================================================================================================================
// constructors
Q q_ctor_default() { void* r = raw(); k_ctor_default(r); inv(r); vf_assert(k_size(r) == 0, "S().size() == 0"); vf_assert(k_empty(r), "S().empty()"); }
Q q_ctor_pc() { CH* q = sym(M_); sz c = vf_nd_u64(); vf_assume(c <= M_); void* r = raw(); k_ctor_pc(r, q, c); inv(r); same(r, q, c); }
Q q_ctor_cs() { CH* q = symz(M_); void* r = raw(); k_ctor_cs(r, q); inv(r); same(r, q, M_); }
Q q_ctor_nc() { sz c = vf_nd_u64(); CH ch = nd_ch(); vf_assume(c <= CAP); void* r = raw(); k_ctor_nc(r, c, ch); post(r, m_assign_fill<CH, CAP>(nullptr, 0, c, ch)); }
Q q_ctor_it() { CH* q = sym(M_); void* r = raw(); k_ctor_it(r, q, q + M_); inv(r); same(r, q, M_); }
Q q_ctor_spc() { Pre s = mk(); sz pos = vf_nd_u64(), c = vf_nd_u64(); vf_assume(pos <= N_); void* r = raw(); k_ctor_spc(r, s.o, pos, c); inv(r); same(r, s.p + pos, mn(c, N_ - pos)); keep(s, N_); }
Q q_ctor_sp() { Pre s = mk(); sz pos = vf_nd_u64(); vf_assume(pos <= N_); void* r = raw(); k_ctor_sp(r, s.o, pos); inv(r); same(r, s.p + pos, N_ - pos); keep(s, N_); }
Q q_ctor_v() { CH* q = sym(M_); void* r = raw(); k_ctor_v(r, q, M_); inv(r); same(r, q, M_); }
Q q_ctor_vpc() { CH* q = sym(M_); sz pos = vf_nd_u64(), c = vf_nd_u64(); vf_assume(pos <= M_); void* r = raw(); k_ctor_vpc(r, q, M_, pos, c); inv(r); same(r, q + pos, mn(c, M_ - pos)); }
Q q_ctor_copy() { Pre s = mk(); void* r = raw(); k_ctor_copy(r, s.o); inv(r); same(r, s.p, N_); keep(s, N_); }
Q q_ctor_move() { Pre s = mk(); void* r = raw(); k_ctor_move(r, s.o); inv(r); same(r, s.p, N_); inv(s.o); }

// assignment operators and assign()
Q q_asg_copy() { Pre s = mk(); Pre t = mk_other(); RET(k_asg_copy(s.o, t.o), s.o); inv(s.o); same(s.o, t.p, M_); keep(t, M_); }
Q q_asg_move() { Pre s = mk(); Pre t = mk_other(); RET(k_asg_move(s.o, t.o), s.o); inv(s.o); same(s.o, t.p, M_); inv(t.o); }
Q q_asg_self() { Pre s = mk(); RET(k_asg_copy(s.o, s.o), s.o); keep(s, N_); }
Q q_asg_cs() { Pre s = mk(); CH* q = symz(M_); RET(k_asg_cs(s.o, q), s.o); inv(s.o); same(s.o, q, M_); }
Q q_asg_c() { Pre s = mk(); CH c = nd_ch(); RET(k_asg_c(s.o, c), s.o); inv(s.o); same(s.o, &c, 1); }
Q q_asg_v() { Pre s = mk(); CH* q = sym(M_); RET(k_asg_v(s.o, q, M_), s.o); inv(s.o); same(s.o, q, M_); }
Q q_assign_nc() { Pre s = mk(); sz c = vf_nd_u64(); CH ch = nd_ch(); vf_assume(c <= CAP); RET(k_assign_nc(s.o, c, ch), s.o); post(s.o, m_assign_fill<CH, CAP>(s.p, N_, c, ch)); }
Q q_assign_s() { Pre s = mk(); Pre t = mk_other(); RET(k_assign_s(s.o, t.o), s.o); inv(s.o); same(s.o, t.p, M_); keep(t, M_); }
Q q_assign_spc() { Pre s = mk(); Pre t = mk_other(); sz pos = vf_nd_u64(), c = vf_nd_u64(); vf_assume(pos <= M_); RET(k_assign_spc(s.o, t.o, pos, c), s.o); post(s.o, m_assign<CH, CAP>(s.p, N_, t.p + pos, mn(c, M_ - pos))); keep(t, M_); }
Q q_assign_sp() { Pre s = mk(); Pre t = mk_other(); sz pos = vf_nd_u64(); vf_assume(pos <= M_); RET(k_assign_sp(s.o, t.o, pos), s.o); post(s.o, m_assign<CH, CAP>(s.p, N_, t.p + pos, M_ - pos)); keep(t, M_); }
Q q_assign_pc() { Pre s = mk(); CH* q = sym(M_); sz c = vf_nd_u64(); vf_assume(c <= M_); RET(k_assign_pc(s.o, q, c), s.o); post(s.o, m_assign<CH, CAP>(s.p, N_, q, c)); }
Q q_assign_cs() { Pre s = mk(); CH* q = symz(M_); RET(k_assign_cs(s.o, q), s.o); post(s.o, m_assign<CH, CAP>(s.p, N_, q, M_)); }
Q q_assign_it() { Pre s = mk(); CH* q = sym(M_); RET(k_assign_it(s.o, q, q + M_), s.o); post(s.o, m_assign<CH, CAP>(s.p, N_, q, M_)); }
Q q_assign_v() { Pre s = mk(); CH* q = sym(M_); RET(k_assign_v(s.o, q, M_), s.o); post(s.o, m_assign<CH, CAP>(s.p, N_, q, M_)); }
Q q_assign_vpc() { Pre s = mk(); CH* q = sym(M_); sz pos = vf_nd_u64(), c = vf_nd_u64(); vf_assume(pos <= M_); RET(k_assign_vpc(s.o, q, M_, pos, c), s.o); post(s.o, m_assign<CH, CAP>(s.p, N_, q + pos, mn(c, M_ - pos))); }
Q q_assign_vp() { Pre s = mk(); CH* q = sym(M_); sz pos = vf_nd_u64(); vf_assume(pos <= M_); RET(k_assign_vp(s.o, q, M_, pos), s.o); post(s.o, m_assign<CH, CAP>(s.p, N_, q + pos, M_ - pos)); }

// observers, element access, iteration
Q q_access()
{
    Pre s = mk(); sz i = vf_nd_u64(); vf_assume(i <= N_);
    vf_assert(k_at(s.o, i) == (i < N_ ? s.p[i] : CH(0)), "operator[](i), i <= size()");
    vf_assert(k_size(s.o) == N_ && k_length(s.o) == N_, "size()/length()");
    vf_assert(k_empty(s.o) == (N_ == 0), "empty()"); vf_assert(k_full(s.o) == (N_ == CAP), "full()");
    vf_assert(k_capacity(s.o) == CAP && k_max_size(s.o) == CAP, "capacity()/max_size()");
    sz* vs = (sz*)vf_alloc(8); vf_assert(k_view(s.o, vs) == 0 && *vs == N_, "operator string_view: data(), size()");
    if (N_ > 0) { vf_assert(k_front(s.o) == s.p[0], "front()"); vf_assert(k_back(s.o) == s.p[N_ - 1], "back()"); }
    CH* f = (CH*)vf_alloc(N_ * sizeof(CH)); CH* r = (CH*)vf_alloc(N_ * sizeof(CH)); CH* cf = (CH*)vf_alloc(N_ * sizeof(CH)); CH* cr = (CH*)vf_alloc(N_ * sizeof(CH));
    vf_assert(k_iter(s.o, f, r, cf, cr) == N_, "iteration visits size() characters");
    for (sz j = 0; j < N_; j++) { vf_assert(f[j] == s.p[j] && cf[j] == s.p[j], "forward iteration order"); vf_assert(r[j] == s.p[N_ - 1 - j] && cr[j] == s.p[N_ - 1 - j], "reverse iteration order"); }
    k_reserve_shrink(s.o, i);
    keep(s, N_);
}
Q q_set_at() { Pre s = mk(); sz i = vf_nd_u64(); CH c = nd_ch(); vf_assume(i < N_); k_set_at(s.o, i, c); post(s.o, m_replace<CH, CAP>(s.p, N_, i, 1, &c, 1)); }
Q q_set_front_back()
{
    Pre s = mk(); CH f = nd_ch(), b = nd_ch(); k_set_front_back(s.o, f, b);
    Md r = m_replace<CH, CAP>(s.p, N_, 0, 1, &f, 1); Md r2 = m_replace<CH, CAP>(r.d, N_, N_ - 1, 1, &b, 1); post(s.o, r2);
}

// clear / erase / push_back / pop_back
Q q_clear() { Pre s = mk(); k_clear(s.o); inv(s.o); same(s.o, s.p, 0); vf_assert(k_empty(s.o), "empty() after clear()"); }
Q q_erase_pc() { Pre s = mk(); sz pos = nd_idx(), c = vf_nd_u64(); vf_assume(pos <= N_); CHK_KNOWN(C04_erase_all_contract, pos == 0 && c >= N_); if (N_ > 0 && pos < N_ && c > 0 && !(pos == 0 && c >= N_)) vf_witness("erase(pos,count) removes a proper part"); RET(k_erase_pc(s.o, pos, c), s.o); post(s.o, m_erase<CH, CAP>(s.p, N_, pos, c)); }
Q q_erase_p() { Pre s = mk(); sz pos = nd_idx(); vf_assume(pos <= N_); CHK_KNOWN(C04_erase_all_contract, pos == 0); RET(k_erase_p(s.o, pos), s.o); post(s.o, m_erase<CH, CAP>(s.p, N_, pos, npos)); }
Q q_erase_0() { Pre s = mk(); CHK_KNOWN(C04_erase_all_contract, true); RET(k_erase_0(s.o), s.o); post(s.o, m_erase<CH, CAP>(s.p, N_, 0, npos)); }
Q q_erase_it() { Pre s = mk(); sz pos = nd_idx(); vf_assume(pos < N_); CHK_KNOWN(C04_erase_all_contract, N_ == 1); vf_assert(k_erase_it(s.o, pos) == pos, "erase(it) returns the position of the erased character"); post(s.o, m_erase<CH, CAP>(s.p, N_, pos, 1)); }
Q q_erase_itit() { Pre s = mk(); sz f = nd_idx(), l = vf_nd_u64(); vf_assume(f <= l && l <= N_); CHK_KNOWN(C04_erase_all_contract, f == 0 && l == N_); vf_assert(k_erase_itit(s.o, f, l) == f, "erase(first,last) returns first"); post(s.o, m_erase<CH, CAP>(s.p, N_, f, l - f)); }
Q q_push_back() { Pre s = mk(); CH c = nd_ch(); k_push_back(s.o, c); post(s.o, m_append<CH, CAP>(s.p, N_, &c, 1)); }
Q q_pop_back() { Pre s = mk(); k_pop_back(s.o); post(s.o, m_erase<CH, CAP>(s.p, N_, N_ - 1, 1)); }

// append / operator+= : when the result does not fit only the two invariants are required (post())
Q q_append_nc() { Pre s = mk(); sz c = vf_nd_u64(); CH ch = nd_ch(); RET(k_append_nc(s.o, c, ch), s.o); post(s.o, m_append_fill<CH, CAP>(s.p, N_, c, ch)); }
Q q_append_cs() { Pre s = mk(); CH* q = symz(M_); RET(k_append_cs(s.o, q), s.o); post(s.o, m_append<CH, CAP>(s.p, N_, q, M_)); }
Q q_append_pc() { Pre s = mk(); CH* q = sym(M_); sz c = vf_nd_u64(); vf_assume(c <= M_); if (N_ < CAP && M_ > 0 && c > 0 && c <= CAP - N_) vf_witness("append(ptr,count) appends and fits"); if (M_ > CAP - N_ && c > CAP - N_) vf_witness("append(ptr,count) has to clamp"); RET(k_append_pc(s.o, q, c), s.o); post(s.o, m_append<CH, CAP>(s.p, N_, q, c)); }
Q q_append_it() { Pre s = mk(); CH* q = sym(M_); RET(k_append_it(s.o, q, q + M_), s.o); post(s.o, m_append<CH, CAP>(s.p, N_, q, M_)); }
Q q_append_s() { Pre s = mk(); Pre t = mk_other(); RET(k_append_s(s.o, t.o), s.o); post(s.o, m_append<CH, CAP>(s.p, N_, t.p, M_)); keep(t, M_); }
Q q_append_spc() { Pre s = mk(); Pre t = mk_other(); sz pos = vf_nd_u64(), c = vf_nd_u64(); vf_assume(pos <= M_); RET(k_append_spc(s.o, t.o, pos, c), s.o); post(s.o, m_append<CH, CAP>(s.p, N_, t.p + pos, mn(c, M_ - pos))); keep(t, M_); }
Q q_append_sp() { Pre s = mk(); Pre t = mk_other(); sz pos = vf_nd_u64(); vf_assume(pos <= M_); RET(k_append_sp(s.o, t.o, pos), s.o); post(s.o, m_append<CH, CAP>(s.p, N_, t.p + pos, M_ - pos)); keep(t, M_); }
Q q_append_v() { Pre s = mk(); CH* q = sym(M_); RET(k_append_v(s.o, q, M_), s.o); post(s.o, m_append<CH, CAP>(s.p, N_, q, M_)); }
Q q_append_vpc() { Pre s = mk(); CH* q = sym(M_); sz pos = vf_nd_u64(), c = vf_nd_u64(); vf_assume(pos <= M_); RET(k_append_vpc(s.o, q, M_, pos, c), s.o); post(s.o, m_append<CH, CAP>(s.p, N_, q + pos, mn(c, M_ - pos))); }
Q q_append_vp() { Pre s = mk(); CH* q = sym(M_); sz pos = vf_nd_u64(); vf_assume(pos <= M_); RET(k_append_vp(s.o, q, M_, pos), s.o); post(s.o, m_append<CH, CAP>(s.p, N_, q + pos, M_ - pos)); }
Q q_append_self() { Pre s = mk(); RET(k_append_s(s.o, s.o), s.o); post(s.o, m_append<CH, CAP>(s.p, N_, s.p, N_)); }
Q q_pluseq_s() { Pre s = mk(); Pre t = mk_other(); RET(k_pluseq_s(s.o, t.o), s.o); post(s.o, m_append<CH, CAP>(s.p, N_, t.p, M_)); keep(t, M_); }
Q q_pluseq_c() { Pre s = mk(); CH c = nd_ch(); RET(k_pluseq_c(s.o, c), s.o); post(s.o, m_append<CH, CAP>(s.p, N_, &c, 1)); }
Q q_pluseq_cs() { Pre s = mk(); CH* q = symz(M_); RET(k_pluseq_cs(s.o, q), s.o); post(s.o, m_append<CH, CAP>(s.p, N_, q, M_)); }
Q q_pluseq_v() { Pre s = mk(); CH* q = sym(M_); RET(k_pluseq_v(s.o, q, M_), s.o); post(s.o, m_append<CH, CAP>(s.p, N_, q, M_)); }

// insert (index <= size(): std throws otherwise). insert(index,count,ch) loops count times in tetl: count restricted to results that fit.
Q q_insert_nc() { Pre s = mk(); sz idx = nd_idx(), c = vf_nd_u64(); CH ch = nd_ch(); vf_assume(idx <= N_ && c <= CAP - N_); RET(k_insert_nc(s.o, idx, c, ch), s.o); post(s.o, m_insert_fill<CH, CAP>(s.p, N_, idx, c, ch)); }
Q q_insert_cs() { Pre s = mk(); CH* q = symz(M_); sz idx = nd_idx(); vf_assume(idx <= N_); RET(k_insert_cs(s.o, idx, q), s.o); post(s.o, m_insert<CH, CAP>(s.p, N_, idx, q, M_)); }
Q q_insert_pc() { Pre s = mk(); CH* q = sym(M_); sz idx = nd_idx(), c = vf_nd_u64(); vf_assume(idx <= N_ && c <= M_); if (N_ > 0 && N_ < CAP && M_ > 0 && idx < N_ && c > 0 && c <= CAP - N_) vf_witness("insert(index,ptr,count) in the middle, fits"); RET(k_insert_pc(s.o, idx, q, c), s.o); post(s.o, m_insert<CH, CAP>(s.p, N_, idx, q, c)); }
Q q_insert_s() { Pre s = mk(); Pre t = mk_other(); sz idx = nd_idx(); vf_assume(idx <= N_); RET(k_insert_s(s.o, idx, t.o), s.o); post(s.o, m_insert<CH, CAP>(s.p, N_, idx, t.p, M_)); keep(t, M_); }
Q q_insert_spc() { Pre s = mk(); Pre t = mk_other(); sz idx = nd_idx(), pos = vf_nd_u64(), c = vf_nd_u64(); vf_assume(idx <= N_ && pos <= M_); RET(k_insert_spc(s.o, idx, t.o, pos, c), s.o); post(s.o, m_insert<CH, CAP>(s.p, N_, idx, t.p + pos, mn(c, M_ - pos))); keep(t, M_); }
Q q_insert_sp() { Pre s = mk(); Pre t = mk_other(); sz idx = nd_idx(), pos = vf_nd_u64(); vf_assume(idx <= N_ && pos <= M_); RET(k_insert_sp(s.o, idx, t.o, pos), s.o); post(s.o, m_insert<CH, CAP>(s.p, N_, idx, t.p + pos, M_ - pos)); keep(t, M_); }
Q q_insert_v() { Pre s = mk(); CH* q = sym(M_); sz idx = nd_idx(); vf_assume(idx <= N_); RET(k_insert_v(s.o, idx, q, M_), s.o); post(s.o, m_insert<CH, CAP>(s.p, N_, idx, q, M_)); }
Q q_insert_vpc() { Pre s = mk(); CH* q = sym(M_); sz idx = nd_idx(), pos = vf_nd_u64(), c = vf_nd_u64(); vf_assume(idx <= N_ && pos <= M_); RET(k_insert_vpc(s.o, idx, q, M_, pos, c), s.o); post(s.o, m_insert<CH, CAP>(s.p, N_, idx, q + pos, mn(c, M_ - pos))); }
Q q_insert_vp() { Pre s = mk(); CH* q = sym(M_); sz idx = nd_idx(), pos = vf_nd_u64(); vf_assume(idx <= N_ && pos <= M_); RET(k_insert_vp(s.o, idx, q, M_, pos), s.o); post(s.o, m_insert<CH, CAP>(s.p, N_, idx, q + pos, M_ - pos)); }
Q q_insert_self() { Pre s = mk(); sz idx = nd_idx(); vf_assume(idx <= N_); RET(k_insert_s(s.o, idx, s.o), s.o); post(s.o, m_insert<CH, CAP>(s.p, N_, idx, s.p, N_)); }

// compare: sign equal to std::basic_string_view on the same characters (pos1 <= size(), pos2 <= other size: std throws otherwise)
#define HS SV(s.p, N_)
Q q_cmp_s() { Pre s = mk(); Pre t = mk_other(); vf_assert(sgn(k_cmp_s(s.o, t.o)) == sgn(HS.compare(SV(t.p, M_))), "compare(str) sign == std"); keep(s, N_); keep(t, M_); }
Q q_cmp_s2() { Pre s = mk(); Pre t = mk2(); vf_assert(sgn(k_cmp_s2(s.o, t.o)) == sgn(HS.compare(SV(t.p, M_))), "compare(str<other capacity>) sign == std"); keep(s, N_); }
Q q_cmp_pcs() { Pre s = mk(); Pre t = mk_other(); sz p1 = vf_nd_u64(), c1 = vf_nd_u64(); vf_assume(p1 <= N_); vf_assert(sgn(k_cmp_pcs(s.o, p1, c1, t.o)) == sgn(HS.compare(p1, c1, SV(t.p, M_))), "compare(pos,count,str) sign == std"); keep(s, N_); }
Q q_cmp_pcspc() { Pre s = mk(); Pre t = mk_other(); sz p1 = vf_nd_u64(), c1 = vf_nd_u64(), p2 = vf_nd_u64(), c2 = vf_nd_u64(); vf_assume(p1 <= N_ && p2 <= M_); VF_KNOWN(C04_compare_substr_uses_own_size, c2 > M_ - p2 && N_ < M_ - p2); if (N_ > 0 && M_ > 0 && p1 < N_ && c1 > 0 && p2 < M_ && c2 > 0 && c2 <= M_ - p2) vf_witness("compare of two non-empty sub-ranges"); vf_assert(sgn(k_cmp_pcspc(s.o, p1, c1, t.o, p2, c2)) == sgn(HS.compare(p1, c1, SV(t.p, M_), p2, c2)), "compare(pos1,count1,str,pos2,count2) sign == std"); keep(s, N_); }
Q q_cmp_pcsp() { Pre s = mk(); Pre t = mk_other(); sz p1 = vf_nd_u64(), c1 = vf_nd_u64(), p2 = vf_nd_u64(); vf_assume(p1 <= N_ && p2 <= M_); VF_KNOWN(C04_compare_substr_uses_own_size, N_ < M_ - p2); vf_assert(sgn(k_cmp_pcsp(s.o, p1, c1, t.o, p2)) == sgn(HS.compare(p1, c1, SV(t.p, M_), p2, npos)), "compare(pos1,count1,str,pos2) sign == std"); keep(s, N_); }
Q q_cmp_cs() { Pre s = mk(); CH* q = symz(M_); vf_assert(sgn(k_cmp_cs(s.o, q)) == sgn(HS.compare(q)), "compare(cstr) sign == std"); keep(s, N_); }
Q q_cmp_pccs() { Pre s = mk(); CH* q = symz(M_); sz p1 = vf_nd_u64(), c1 = vf_nd_u64(); vf_assume(p1 <= N_); vf_assert(sgn(k_cmp_pccs(s.o, p1, c1, q)) == sgn(HS.compare(p1, c1, q)), "compare(pos,count,cstr) sign == std"); keep(s, N_); }
Q q_cmp_pcpc() { Pre s = mk(); CH* q = sym(M_); sz p1 = vf_nd_u64(), c1 = vf_nd_u64(), c2 = vf_nd_u64(); vf_assume(p1 <= N_ && c2 <= M_); vf_assert(sgn(k_cmp_pcpc(s.o, p1, c1, q, c2)) == sgn(HS.compare(p1, c1, q, c2)), "compare(pos,count,ptr,count2) sign == std"); keep(s, N_); }
Q q_cmp_v() { Pre s = mk(); CH* q = sym(M_); vf_assert(sgn(k_cmp_v(s.o, q, M_)) == sgn(HS.compare(SV(q, M_))), "compare(view) sign == std"); keep(s, N_); }
Q q_cmp_pcv() { Pre s = mk(); CH* q = sym(M_); sz p1 = vf_nd_u64(), c1 = vf_nd_u64(); vf_assume(p1 <= N_); vf_assert(sgn(k_cmp_pcv(s.o, p1, c1, q, M_)) == sgn(HS.compare(p1, c1, SV(q, M_))), "compare(pos,count,view) sign == std"); keep(s, N_); }
Q q_cmp_pcvpc() { Pre s = mk(); CH* q = sym(M_); sz p1 = vf_nd_u64(), c1 = vf_nd_u64(), p2 = vf_nd_u64(), c2 = vf_nd_u64(); vf_assume(p1 <= N_ && p2 <= M_); vf_assert(sgn(k_cmp_pcvpc(s.o, p1, c1, q, M_, p2, c2)) == sgn(HS.compare(p1, c1, SV(q, M_), p2, c2)), "compare(pos1,count1,view,pos2,count2) sign == std"); keep(s, N_); }
Q q_cmp_pcvp() { Pre s = mk(); CH* q = sym(M_); sz p1 = vf_nd_u64(), c1 = vf_nd_u64(), p2 = vf_nd_u64(); vf_assume(p1 <= N_ && p2 <= M_); vf_assert(sgn(k_cmp_pcvp(s.o, p1, c1, q, M_, p2)) == sgn(HS.compare(p1, c1, SV(q, M_), p2, npos)), "compare(pos1,count1,view,pos2) sign == std"); keep(s, N_); }

// starts_with / ends_with / contains (contains is C++23 in std: find(x) != npos)
Q q_sw_v() { Pre s = mk(); CH* q = sym(M_); vf_assert(k_sw_v(s.o, q, M_) == HS.starts_with(SV(q, M_)), "starts_with(view) == std"); keep(s, N_); }
Q q_sw_c() { Pre s = mk(); CH c = nd_ch(); vf_assert(k_sw_c(s.o, c) == HS.starts_with(c), "starts_with(char) == std"); keep(s, N_); }
Q q_sw_cs() { Pre s = mk(); CH* q = symz(M_); vf_assert(k_sw_cs(s.o, q) == HS.starts_with(q), "starts_with(cstr) == std"); keep(s, N_); }
Q q_ew_v() { Pre s = mk(); CH* q = sym(M_); vf_assert(k_ew_v(s.o, q, M_) == HS.ends_with(SV(q, M_)), "ends_with(view) == std"); keep(s, N_); }
Q q_ew_c() { Pre s = mk(); CH c = nd_ch(); vf_assert(k_ew_c(s.o, c) == HS.ends_with(c), "ends_with(char) == std"); keep(s, N_); }
Q q_ew_cs() { Pre s = mk(); CH* q = symz(M_); vf_assert(k_ew_cs(s.o, q) == HS.ends_with(q), "ends_with(cstr) == std"); keep(s, N_); }
Q q_ct_v() { Pre s = mk(); CH* q = sym(M_); vf_assert(k_ct_v(s.o, q, M_) == (HS.find(SV(q, M_)) != npos), "contains(view) == std"); keep(s, N_); }
Q q_ct_c() { Pre s = mk(); CH c = nd_ch(); vf_assert(k_ct_c(s.o, c) == (HS.find(c) != npos), "contains(char) == std"); keep(s, N_); }
Q q_ct_cs() { Pre s = mk(); CH* q = symz(M_); vf_assert(k_ct_cs(s.o, q) == (HS.find(q) != npos), "contains(cstr) == std"); keep(s, N_); }

// replace: std semantics (pos <= size(); count clamps to size()-pos; the size changes by len2 - count)
Q q_repl_pcs() { Pre s = mk(); Pre t = mk_other(); sz pos = vf_nd_u64(), c = vf_nd_u64(); vf_assume(pos <= N_); VF_KNOWN(C04_replace_keeps_size, mn(c, N_ - pos) != M_ || c > CAP + 1 - pos /* forms data()+pos+count unclamped: past the buffer */); CHK_KNOWN(C04_replace_contract, pos + c >= N_ || pos + c < pos); RET(k_repl_pcs(s.o, pos, c, t.o), s.o); post(s.o, m_replace<CH, CAP>(s.p, N_, pos, c, t.p, M_)); keep(t, M_); }
Q q_repl_its() { Pre s = mk(); Pre t = mk_other(); sz f = vf_nd_u64(), l = vf_nd_u64(); vf_assume(f <= l && l <= N_); VF_KNOWN(C04_replace_keeps_size, l - f != M_); RET(k_repl_its(s.o, f, l, t.o), s.o); post(s.o, m_replace<CH, CAP>(s.p, N_, f, l - f, t.p, M_)); keep(t, M_); }
Q q_repl_pcspc() { Pre s = mk(); Pre t = mk_other(); sz pos = vf_nd_u64(), c = vf_nd_u64(), p2 = vf_nd_u64(), c2 = vf_nd_u64(); vf_assume(pos <= N_ && p2 <= M_); VF_KNOWN(C04_replace_keeps_size, mn(c, N_ - pos) != mn(c2, M_ - p2) || (pos + c < pos && p2 + c2 < p2)); CHK_KNOWN(C04_replace_contract, pos >= N_ || p2 >= M_); RET(k_repl_pcspc(s.o, pos, c, t.o, p2, c2), s.o); post(s.o, m_replace<CH, CAP>(s.p, N_, pos, c, t.p + p2, mn(c2, M_ - p2))); keep(t, M_); }
Q q_repl_pcsp() { Pre s = mk(); Pre t = mk_other(); sz pos = vf_nd_u64(), c = vf_nd_u64(), p2 = vf_nd_u64(); vf_assume(pos <= N_ && p2 <= M_); VF_KNOWN(C04_replace_keeps_size, mn(c, N_ - pos) != M_ - p2 || (pos + c < pos && p2 > 0)); CHK_KNOWN(C04_replace_contract, pos >= N_ || p2 >= M_); RET(k_repl_pcsp(s.o, pos, c, t.o, p2), s.o); post(s.o, m_replace<CH, CAP>(s.p, N_, pos, c, t.p + p2, M_ - p2)); keep(t, M_); }
Q q_repl_pcpc() { Pre s = mk(); CH* q = sym(M_); sz pos = vf_nd_u64(), c = vf_nd_u64(), c2 = vf_nd_u64(); vf_assume(pos <= N_ && c2 <= M_); VF_KNOWN(C04_replace_keeps_size, mn(c, N_ - pos) != c2); CHK_KNOWN(C04_replace_contract, pos + c >= N_ || pos + c < pos); RET(k_repl_pcpc(s.o, pos, c, q, c2), s.o); post(s.o, m_replace<CH, CAP>(s.p, N_, pos, c, q, c2)); }
Q q_repl_itpc() { Pre s = mk(); CH* q = sym(M_); sz f = vf_nd_u64(), l = vf_nd_u64(), c2 = vf_nd_u64(); vf_assume(f <= l && l <= N_ && c2 <= M_); VF_KNOWN(C04_replace_keeps_size, l - f != c2); RET(k_repl_itpc(s.o, f, l, q, c2), s.o); post(s.o, m_replace<CH, CAP>(s.p, N_, f, l - f, q, c2)); }
#ifdef HAVE_REPL_CS
Q q_repl_pccs() { Pre s = mk(); CH* q = symz(M_); sz pos = vf_nd_u64(), c = vf_nd_u64(); vf_assume(pos <= N_); VF_KNOWN(C04_replace_keeps_size, mn(c, N_ - pos) != M_); CHK_KNOWN(C04_replace_contract, pos + c >= N_ || pos + c < pos); RET(k_repl_pccs(s.o, pos, c, q), s.o); post(s.o, m_replace<CH, CAP>(s.p, N_, pos, c, q, M_)); }
Q q_repl_itcs() { Pre s = mk(); CH* q = symz(M_); sz f = vf_nd_u64(), l = vf_nd_u64(); vf_assume(f <= l && l <= N_); VF_KNOWN(C04_replace_keeps_size, l - f != M_); RET(k_repl_itcs(s.o, f, l, q), s.o); post(s.o, m_replace<CH, CAP>(s.p, N_, f, l - f, q, M_)); }
#endif
Q q_repl_itnc() { Pre s = mk(); sz f = vf_nd_u64(), l = vf_nd_u64(), c2 = vf_nd_u64(); CH ch = nd_ch(); vf_assume(f <= l && l <= N_); VF_KNOWN(C04_replace_keeps_size, l - f != c2); RET(k_repl_itnc(s.o, f, l, c2, ch), s.o); post(s.o, m_replace_fill<CH, CAP>(s.p, N_, f, l - f, c2, ch)); }

// substr / copy / resize / swap
Q q_substr() { Pre s = mk(); sz pos = vf_nd_u64(), c = vf_nd_u64(); vf_assume(pos <= N_); if (N_ > 1 && pos > 0 && pos < N_ && c > 0 && c < N_ - pos) vf_witness("substr of an inner range"); void* r = raw(); k_substr(r, s.o, pos, c); inv(r); same(r, s.p + pos, mn(c, N_ - pos)); keep(s, N_); }
Q q_substr_p() { Pre s = mk(); sz pos = vf_nd_u64(); vf_assume(pos <= N_); void* r = raw(); k_substr_p(r, s.o, pos); inv(r); same(r, s.p + pos, N_ - pos); keep(s, N_); }
Q q_substr_0() { Pre s = mk(); void* r = raw(); k_substr_0(r, s.o); inv(r); same(r, s.p, N_); keep(s, N_); }
Q q_copy()
{
    Pre s = mk(); sz pos = vf_nd_u64(), c = vf_nd_u64(); vf_assume(pos <= N_);
    sz w = mn(c, N_ - pos); CH* d = (CH*)vf_alloc(w * sizeof(CH));   // exactly the characters the standard says are written
    vf_assert(k_copy(s.o, d, c, pos) == w, "copy(dest,count,pos) count == std");
    for (sz i = 0; i < w; i++) vf_assert(d[i] == s.p[pos + i], "copy(dest,count,pos) contents == std");
    keep(s, N_);
}
Q q_copy_0()
{
    Pre s = mk(); sz c = vf_nd_u64(); sz w = mn(c, N_); CH* d = (CH*)vf_alloc(w * sizeof(CH));
    vf_assert(k_copy_0(s.o, d, c) == w, "copy(dest,count) count == std");
    for (sz i = 0; i < w; i++) vf_assert(d[i] == s.p[i], "copy(dest,count) contents == std");
    keep(s, N_);
}
Q q_resize_nc() { Pre s = mk(); sz c = vf_nd_u64(); CH ch = nd_ch(); VF_KNOWN(C04_resize_grows_by_count, N_ > 0 && c > N_ && c < CAP); if (N_ > 0 && c < N_) vf_witness("resize shrinks"); if (N_ < CAP && c == CAP) vf_witness("resize grows to capacity"); k_resize_nc(s.o, c, ch); post(s.o, m_resize<CH, CAP>(s.p, N_, c, ch)); }
Q q_resize_n() { Pre s = mk(); sz c = vf_nd_u64(); VF_KNOWN(C04_resize_grows_by_count, N_ > 0 && c > N_ && c < CAP); k_resize_n(s.o, c); post(s.o, m_resize<CH, CAP>(s.p, N_, c, CH(0))); }
// tiny layout (CAP < 16): when the longer string is full, swap_ranges also swaps the byte that holds the size, and this->size is then read from the wrong object
#define SWAP_BAD (CAP < 16 && (N_ == CAP || M_ == CAP) && N_ != M_)
Q q_swap() { Pre s = mk(); Pre t = mk_other(); VF_KNOWN(C04_swap_full_tiny, SWAP_BAD); k_swap(s.o, t.o); inv(s.o); inv(t.o); same(s.o, t.p, M_); same(t.o, s.p, N_); }
Q q_swap_free() { Pre s = mk(); Pre t = mk_other(); VF_KNOWN(C04_swap_full_tiny, SWAP_BAD); k_swap_free(s.o, t.o); inv(s.o); inv(t.o); same(s.o, t.p, M_); same(t.o, s.p, N_); }

// searches: every overload, pos/count unconstrained (count <= length of the block for ptr+count forms); *0 = pos omitted
// the runner collects known-finding IDs by scanning for the literal macro call; IDs that only appear as macro arguments are named here
static void kf_ids() { VF_KNOWN(C04_erase_all_contract, false); VF_KNOWN(C04_replace_contract, false); VF_KNOWN(C04_none, false); VF_KNOWN(C04_rfind_default_pos, false); VF_KNOWN(C04_find_last_of_default_pos, false); VF_KNOWN(C04_find_last_not_of_default_pos, false); }
// region of the reverse searches whose pos defaults to 0 instead of npos: the correct answer lies beyond index 0
#define BEYOND0(x) ((x) != 0 && (x) != npos)
#define SRCH(NAME, STDF, KF)                                                                                                  \
    Q q_##NAME##_s() { Pre s = mk(); Pre t = mk_other(); sz pos = vf_nd_u64(); vf_assert(k_##NAME##_s(s.o, t.o, pos) == HS.STDF(SV(t.p, M_), pos), #STDF "(str,pos) == std"); keep(s, N_); } \
    Q q_##NAME##_s0() { Pre s = mk(); Pre t = mk_other(); VF_KNOWN(KF, BEYOND0(HS.STDF(SV(t.p, M_)))); vf_assert(k_##NAME##_s0(s.o, t.o) == HS.STDF(SV(t.p, M_)), #STDF "(str) == std (default pos)"); keep(s, N_); } \
    Q q_##NAME##_cs() { Pre s = mk(); CH* q = symz(M_); sz pos = vf_nd_u64(); vf_assert(k_##NAME##_cs(s.o, q, pos) == HS.STDF(q, pos), #STDF "(cstr,pos) == std"); keep(s, N_); } \
    Q q_##NAME##_cs0() { Pre s = mk(); CH* q = symz(M_); VF_KNOWN(KF, BEYOND0(HS.STDF(q))); vf_assert(k_##NAME##_cs0(s.o, q) == HS.STDF(q), #STDF "(cstr) == std (default pos)"); keep(s, N_); } \
    Q q_##NAME##_c() { Pre s = mk(); CH c = nd_ch(); sz pos = vf_nd_u64(); vf_assert(k_##NAME##_c(s.o, c, pos) == HS.STDF(c, pos), #STDF "(char,pos) == std"); keep(s, N_); } \
    Q q_##NAME##_c0() { Pre s = mk(); CH c = nd_ch(); VF_KNOWN(KF, BEYOND0(HS.STDF(c))); vf_assert(k_##NAME##_c0(s.o, c) == HS.STDF(c), #STDF "(char) == std (default pos)"); keep(s, N_); }
#define SRCH_PC(NAME, STDF)                                                                                               \
    Q q_##NAME##_pc() { Pre s = mk(); CH* q = sym(M_); sz pos = vf_nd_u64(), c = vf_nd_u64(); vf_assume(c <= M_); vf_assert(k_##NAME##_pc(s.o, q, pos, c) == HS.STDF(q, pos, c), #STDF "(ptr,pos,count) == std"); keep(s, N_); }
SRCH(find, find, C04_none) SRCH_PC(find, find)
SRCH(rfind, rfind, C04_rfind_default_pos)
#ifdef HAVE_RFIND_PC   // rfind(ptr,pos,count) does not compile in tetl today (calls a strings::rfind overload that does not exist)
SRCH_PC(rfind, rfind)
#endif
SRCH(ffo, find_first_of, C04_none) SRCH_PC(ffo, find_first_of)
SRCH(ffno, find_first_not_of, C04_none) SRCH_PC(ffno, find_first_not_of)
SRCH(flo, find_last_of, C04_find_last_of_default_pos) SRCH_PC(flo, find_last_of)
SRCH(flno, find_last_not_of, C04_find_last_not_of_default_pos) SRCH_PC(flno, find_last_not_of)
Q q_ffo_v() { Pre s = mk(); CH* q = sym(M_); sz pos = vf_nd_u64(); vf_assert(k_ffo_v(s.o, q, M_, pos) == HS.find_first_of(SV(q, M_), pos), "find_first_of(view,pos) == std"); keep(s, N_); }
Q q_ffo_v0() { Pre s = mk(); CH* q = sym(M_); vf_assert(k_ffo_v0(s.o, q, M_) == HS.find_first_of(SV(q, M_)), "find_first_of(view) == std (default pos)"); keep(s, N_); }

// free functions: operator+ (result has the capacity of the left operand; fits or invariants only), relational operators, erase/erase_if
Q q_plus_ss() { Pre s = mk(); Pre t = mk2(); void* r = raw(); k_plus_ss(r, s.o, t.o); post(r, m_append<CH, CAP>(s.p, N_, t.p, M_)); keep(s, N_); }
Q q_plus_scs() { Pre s = mk(); CH* q = symz(M_); void* r = raw(); k_plus_scs(r, s.o, q); post(r, m_append<CH, CAP>(s.p, N_, q, M_)); keep(s, N_); }
Q q_plus_sc() { Pre s = mk(); CH c = nd_ch(); void* r = raw(); k_plus_sc(r, s.o, c); post(r, m_append<CH, CAP>(s.p, N_, &c, 1)); keep(s, N_); }
Q q_plus_css() { Pre s = mk(); CH* q = symz(M_); void* r = raw(); k_plus_css(r, q, s.o); post(r, m_append<CH, CAP>(q, M_, s.p, N_)); keep(s, N_); }
Q q_plus_cs() { Pre s = mk(); CH c = nd_ch(); vf_assume(CAP >= 1); void* r = raw(); k_plus_cs(r, c, s.o); post(r, m_append<CH, CAP>(&c, 1, s.p, N_)); keep(s, N_); }
static unsigned rel6(SV a, SV b) { return unsigned(a == b) | unsigned(a != b) << 1 | unsigned(a < b) << 2 | unsigned(a <= b) << 3 | unsigned(a > b) << 4 | unsigned(a >= b) << 5; }
Q q_rel_ss() { Pre s = mk(); Pre t = mk2(); vf_assert(k_rel_ss(s.o, t.o) == rel6(HS, SV(t.p, M_)), "str OP str == std for all six operators"); keep(s, N_); }
Q q_rel_scs() { Pre s = mk(); CH* q = symz(M_); vf_assert(k_rel_scs(s.o, q) == rel6(HS, SV(q, M_)), "str OP cstr == std for all six operators"); keep(s, N_); }
Q q_rel_css() { Pre s = mk(); CH* q = symz(M_); vf_assert(k_rel_css(q, s.o) == rel6(SV(q, M_), HS), "cstr OP str == std for all six operators"); keep(s, N_); }
// the expected result is the subsequence of kept characters: walked with a read cursor (no write at a symbolic position)
static void filtered(Pre const& s, bool const* drop, sz removed, sz got)
{
    inv(s.o);
    vf_assert(got == removed, "erase/erase_if returns the number of erased characters");
    vf_assert(k_size(s.o) == N_ - removed, "size() == std");
    if (k_size(s.o) == N_ - removed) {
        CH const* d = k_data(s.o); sz j = 0;
        for (sz i = 0; i < N_; i++) if (!drop[i]) { vf_assert(d[j] == s.p[i], "contents == std"); j++; }
    }
}
Q q_erase_val()
{
    Pre s = mk(); CH v = nd_ch(); bool drop[N_ + 1]; sz removed = 0;
    for (sz i = 0; i < N_; i++) { drop[i] = s.p[i] == v; removed += drop[i]; }
    CHK_KNOWN(C04_erase_all_contract, removed == N_);
    filtered(s, drop, removed, k_erase_val(s.o, v));
}
Q q_erase_if()
{
    Pre s = mk(); CH v = nd_ch(); bool drop[N_ + 1]; sz removed = 0;
    for (sz i = 0; i < N_; i++) { drop[i] = s.p[i] < v; removed += drop[i]; }
    CHK_KNOWN(C04_erase_all_contract, removed == N_);
    filtered(s, drop, removed, k_erase_if(s.o, v));
}
