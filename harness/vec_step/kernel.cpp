// C01 kernels: thin wrappers around etl::static_vector<E,CAP>, etl::inplace_vector<E,CAP> and etl::stack<E, static_vector<E,CAP>>
// (plus the part of etl::stack<E, inplace_vector<E,CAP>> that compiles). No logic besides marshalling:
// objects are addressed through void*, positions/iterators travel as indices, elements as their payload PV (elem.h).
#include "vf.h"
#include <etl/inplace_vector.hpp>
#include <etl/stack.hpp>
#include <etl/vector.hpp>
#include <etl/new.hpp>
#include "elem.h"
#ifndef CAP
#define CAP 3
#endif
#ifndef NA
#define NA 0
#endif
using SV = etl::static_vector<E, CAP>;
using IV = etl::inplace_vector<E, CAP>;
using ST = etl::stack<E, SV>;
using SI = etl::stack<E, IV>;
using u64 = uint64_t;
#define SVR(p) (*static_cast<SV*>(p))
#define SVC(p) (*static_cast<SV const*>(p))
#define IVR(p) (*static_cast<IV*>(p))
#define IVC(p) (*static_cast<IV const*>(p))
#define STR(p) (*static_cast<ST*>(p))
#define STC(p) (*static_cast<ST const*>(p))
#define SIR(p) (*static_cast<SI*>(p))
#define SIC(p) (*static_cast<SI const*>(p))

// ---- element blocks (sources of range operations): placement-new cnt elements into an exact-size block
K u64 k_esize() { return sizeof(E); }
K void k_mk_array(void* blk, PV const* vals, u64 cnt) { for (u64 i = 0; i < cnt; i++) ::new (static_cast<E*>(blk) + i) E(mk(vals[i])); }
K PV k_rd_array(void const* blk, u64 i) { return rd(static_cast<E const*>(blk)[i]); }

// =====================================================================================================================
// static_vector
// =====================================================================================================================
K u64 k_sv_sizeof() { return sizeof(SV); }
K void k_sv_new(void* p) { ::new (p) SV; } // default-initialisation: bytes not written by a constructor stay as the driver made them
K void k_sv_dtor(void* p) { SVR(p).~SV(); }
// observers
K u64 k_sv_size(void const* p) { return SVC(p).size(); }
K bool k_sv_empty(void const* p) { return SVC(p).empty(); }
K bool k_sv_full(void const* p) { return SVC(p).full(); }
K u64 k_sv_capacity(void const* p) { return SVC(p).capacity(); }
K u64 k_sv_max_size(void const* p) { return SVC(p).max_size(); }
K PV k_sv_at(void* p, u64 i) { return rd(SVR(p)[i]); }
K PV k_sv_at_c(void const* p, u64 i) { return rd(SVC(p)[i]); }
K u64 k_sv_at_off(void* p, u64 i) { return u64(&SVR(p)[i] - SVR(p).data()); }
K PV k_sv_front(void* p) { return rd(SVR(p).front()); }
K PV k_sv_front_c(void const* p) { return rd(SVC(p).front()); }
K PV k_sv_back(void* p) { return rd(SVR(p).back()); }
K PV k_sv_back_c(void const* p) { return rd(SVC(p).back()); }
K u64 k_sv_front_off(void* p) { return u64(&SVR(p).front() - SVR(p).data()); }
K u64 k_sv_back_off(void* p) { return u64(&SVR(p).back() - SVR(p).data()); }
K void k_sv_set_at(void* p, u64 i, PV x) { SVR(p)[i] = mk(x); }
K unsigned char* k_sv_data(void* p) { return reinterpret_cast<unsigned char*>(SVR(p).data()); }
K bool k_sv_data_is_begin(void* p) { return SVR(p).data() == SVR(p).begin() && SVC(p).data() == SVC(p).begin() && SVR(p).cbegin() == SVC(p).begin(); }
K u64 k_sv_dist(void* p) { return u64(SVR(p).end() - SVR(p).begin()); }
K u64 k_sv_dist_c(void const* p) { return u64(SVC(p).end() - SVC(p).begin()); }
K u64 k_sv_cdist(void* p) { return u64(SVR(p).cend() - SVR(p).cbegin()); }
K u64 k_sv_rdist(void* p) { return u64(SVR(p).rend() - SVR(p).rbegin()); }
K u64 k_sv_crdist(void const* p) { return u64(SVC(p).crend() - SVC(p).crbegin()); }
K PV k_sv_it(void* p, u64 i) { return rd(*(SVR(p).begin() + i)); }
K PV k_sv_cit(void const* p, u64 i) { return rd(*(SVC(p).cbegin() + i)); }
K PV k_sv_rit(void* p, u64 i) { return rd(*(SVR(p).rbegin() + i)); }
K PV k_sv_crit(void const* p, u64 i) { return rd(*(SVC(p).rbegin() + i)); }
// iteration: what a range-for and a reverse walk visit; returns the forward count (or ~0 if the two counts differ)
K u64 k_sv_iter(void* p, PV* fwd, PV* rev)
{
    u64 i = 0, j = 0;
    for (auto const& e : SVR(p)) { fwd[i++] = rd(e); }
    for (auto it = SVR(p).rbegin(); it != SVR(p).rend(); ++it) { rev[j++] = rd(*it); }
    return i == j ? i : ~u64(0);
}
// modifiers
K void k_sv_push_back_l(void* p, PV x) { E const e = mk(x); SVR(p).push_back(e); }
K void k_sv_push_back_r(void* p, PV x) { SVR(p).push_back(mk(x)); }
#if ELT == 2
K void k_sv_emplace_back(void* p, PV x) { SVR(p).emplace_back((int)x); }
K u64 k_sv_emplace(void* p, u64 pos, PV x) { return u64(SVR(p).emplace(SVR(p).begin() + pos, (int)x) - SVR(p).begin()); }
#else
K void k_sv_emplace_back(void* p, PV x) { SVR(p).emplace_back(mk(x)); }
K u64 k_sv_emplace(void* p, u64 pos, PV x) { return u64(SVR(p).emplace(SVR(p).begin() + pos, mk(x)) - SVR(p).begin()); }
#endif
K void k_sv_pop_back(void* p) { SVR(p).pop_back(); }
K u64 k_sv_insert_l(void* p, u64 pos, PV x) { E const e = mk(x); return u64(SVR(p).insert(SVR(p).cbegin() + pos, e) - SVR(p).begin()); }
K u64 k_sv_insert_r(void* p, u64 pos, PV x) { return u64(SVR(p).insert(SVR(p).cbegin() + pos, mk(x)) - SVR(p).begin()); }
K u64 k_sv_insert_fill(void* p, u64 pos, u64 cnt, PV x) { E const e = mk(x); return u64(SVR(p).insert(SVR(p).cbegin() + pos, cnt, e) - SVR(p).begin()); }
K u64 k_sv_insert_range(void* p, u64 pos, void const* src, u64 cnt)
{
    auto const* s = static_cast<E const*>(src);
    return u64(SVR(p).insert(SVR(p).cbegin() + pos, s, s + cnt) - SVR(p).begin());
}
K u64 k_sv_move_insert(void* p, u64 pos, void* src, u64 cnt)
{
    auto* s = static_cast<E*>(src);
    return u64(SVR(p).move_insert(SVR(p).cbegin() + pos, s, s + cnt) - SVR(p).begin());
}
// aliasing forms std::vector supports: the inserted value is an element of the vector itself
K u64 k_sv_insert_self(void* p, u64 pos, u64 from) { return u64(SVR(p).insert(SVR(p).cbegin() + pos, SVC(p)[from]) - SVR(p).begin()); }
K u64 k_sv_insert_fill_self(void* p, u64 pos, u64 cnt, u64 from) { return u64(SVR(p).insert(SVR(p).cbegin() + pos, cnt, SVC(p)[from]) - SVR(p).begin()); }
K void k_sv_push_back_self(void* p, u64 from) { SVR(p).push_back(SVC(p)[from]); }
K u64 k_sv_erase1(void* p, u64 pos) { return u64(SVR(p).erase(SVR(p).cbegin() + pos) - SVR(p).begin()); }
K u64 k_sv_erase_range(void* p, u64 first, u64 last) { return u64(SVR(p).erase(SVR(p).cbegin() + first, SVR(p).cbegin() + last) - SVR(p).begin()); }
K void k_sv_clear(void* p) { SVR(p).clear(); }
K void k_sv_resize1(void* p, u64 sz) { SVR(p).resize(sz); }
K void k_sv_resize2(void* p, u64 sz, PV x) { E const e = mk(x); SVR(p).resize(sz, e); }
K void k_sv_assign_range(void* p, void const* src, u64 cnt) { auto const* s = static_cast<E const*>(src); SVR(p).assign(s, s + cnt); }
K void k_sv_assign_fill(void* p, u64 cnt, PV x) { E const e = mk(x); SVR(p).assign(cnt, e); }
K void k_sv_swap_member(void* p, void* q) { SVR(p).swap(SVR(q)); }
K void k_sv_swap_free(void* p, void* q) { using etl::swap; swap(SVR(p), SVR(q)); }
// construction / assignment
K void k_sv_copy_ctor(void* dst, void const* src) { ::new (dst) SV(SVC(src)); }
K void k_sv_move_ctor(void* dst, void* src) { ::new (dst) SV(etl::move(SVR(src))); }
K void k_sv_copy_assign(void* dst, void const* src) { SVR(dst) = SVC(src); }
K void k_sv_move_assign(void* dst, void* src) { SVR(dst) = etl::move(SVR(src)); }
K void k_sv_ctor_n(void* dst, u64 n) { ::new (dst) SV(n); }
K void k_sv_ctor_nv(void* dst, u64 n, PV x) { E const e = mk(x); ::new (dst) SV(n, e); }
K void k_sv_ctor_range(void* dst, void const* src, u64 cnt) { auto const* s = static_cast<E const*>(src); ::new (dst) SV(s, s + cnt); }
#if NA > 0 && NA <= CAP
K void k_sv_ctor_carray(void* dst, void* src) { ::new (dst) SV(etl::move(*static_cast<etl::c_array<E, NA>*>(src))); }
#else
K void k_sv_ctor_carray(void* dst, void*) { ::new (dst) SV(etl::empty_c_array{}); }
#endif
// free erase / erase_if
K u64 k_sv_free_erase(void* p, PV x) { E const e = mk(x); return etl::erase(SVR(p), e); }
K u64 k_sv_free_erase_if(void* p, PV x) { E const e = mk(x); return etl::erase_if(SVR(p), [&e](E const& item) { return item < e; }); }
// comparisons: bit i set for ==, !=, <, <=, >, >=
K unsigned k_sv_rel(void const* p, void const* q)
{
    SV const& a = SVC(p); SV const& b = SVC(q);
    return unsigned(a == b) | unsigned(a != b) << 1 | unsigned(a < b) << 2 | unsigned(a <= b) << 3 | unsigned(a > b) << 4 | unsigned(a >= b) << 5;
}

// =====================================================================================================================
// inplace_vector
// =====================================================================================================================
K u64 k_iv_sizeof() { return sizeof(IV); }
K void k_iv_new(void* p) { ::new (p) IV(); }        // value-initialisation (what `inplace_vector<T,CAP> v{};` does)
K void k_iv_new_default(void* p) { ::new (p) IV; } // default-initialisation (what `inplace_vector<T,CAP> v;` does)
K void k_iv_dtor(void* p) { IVR(p).~IV(); }
K void k_iv_copy_ctor(void* dst, void const* src) { ::new (dst) IV(IVC(src)); }
K void k_iv_move_ctor(void* dst, void* src) { ::new (dst) IV(etl::move(IVR(src))); }
K u64 k_iv_size(void const* p) { return IVC(p).size(); }
K bool k_iv_empty(void const* p) { return IVC(p).empty(); }
K u64 k_iv_capacity() { return IV::capacity(); }
K u64 k_iv_max_size() { return IV::max_size(); }
K unsigned char* k_iv_data(void* p) { return reinterpret_cast<unsigned char*>(IVR(p).data()); }
K bool k_iv_data_is_begin(void* p) { return IVR(p).data() == IVR(p).begin() && IVC(p).data() == IVC(p).begin(); }
K u64 k_iv_dist(void* p) { return u64(IVR(p).end() - IVR(p).begin()); }
K u64 k_iv_dist_c(void const* p) { return u64(IVC(p).end() - IVC(p).begin()); }
K PV k_iv_it(void* p, u64 i) { return rd(*(IVR(p).begin() + i)); }
K PV k_iv_cit(void const* p, u64 i) { return rd(*(IVC(p).begin() + i)); }
#if CAP > 0
K PV k_iv_at(void* p, u64 i) { return rd(IVR(p)[i]); }
K PV k_iv_at_c(void const* p, u64 i) { return rd(IVC(p)[i]); }
K u64 k_iv_at_off(void* p, u64 i) { return u64(&IVR(p)[i] - IVR(p).data()); }
K void k_iv_set_at(void* p, u64 i, PV x) { IVR(p)[i] = mk(x); }
K PV k_iv_front(void* p) { return rd(IVR(p).front()); }
K PV k_iv_front_c(void const* p) { return rd(IVC(p).front()); }
K PV k_iv_back(void* p) { return rd(IVR(p).back()); }
K PV k_iv_back_c(void const* p) { return rd(IVC(p).back()); }
K u64 k_iv_front_off(void* p) { return u64(&IVR(p).front() - IVR(p).data()); }
K u64 k_iv_back_off(void* p) { return u64(&IVR(p).back() - IVR(p).data()); }
K u64 k_iv_unchecked_push_back_l(void* p, PV x) { E const e = mk(x); return u64(&IVR(p).unchecked_push_back(e) - IVR(p).data()); }
K u64 k_iv_unchecked_push_back_r(void* p, PV x) { return u64(&IVR(p).unchecked_push_back(mk(x)) - IVR(p).data()); }
#if ELT == 2
K u64 k_iv_unchecked_emplace_back(void* p, PV x) { return u64(&IVR(p).unchecked_emplace_back((int)x) - IVR(p).data()); }
#else
K u64 k_iv_unchecked_emplace_back(void* p, PV x) { return u64(&IVR(p).unchecked_emplace_back(mk(x)) - IVR(p).data()); }
#endif
K void k_iv_pop_back(void* p) { IVR(p).pop_back(); }
#else
// inplace_vector<T,0>: these members are etl::unreachable() (no valid call exists); never called by the driver
K PV k_iv_at(void*, u64) { return PV(0); }
K PV k_iv_at_c(void const*, u64) { return PV(0); }
K u64 k_iv_at_off(void*, u64) { return 0; }
K void k_iv_set_at(void*, u64, PV) {}
K PV k_iv_front(void*) { return PV(0); }
K PV k_iv_front_c(void const*) { return PV(0); }
K PV k_iv_back(void*) { return PV(0); }
K PV k_iv_back_c(void const*) { return PV(0); }
K u64 k_iv_front_off(void*) { return 0; }
K u64 k_iv_back_off(void*) { return 0; }
K u64 k_iv_unchecked_push_back_l(void*, PV) { return 0; }
K u64 k_iv_unchecked_push_back_r(void*, PV) { return 0; }
K u64 k_iv_unchecked_emplace_back(void*, PV) { return 0; }
K void k_iv_pop_back(void*) {}
#endif
// try_*: index of the returned element, or ~0 for a null result
K u64 k_iv_try_push_back_l(void* p, PV x) { E const e = mk(x); E* r = IVR(p).try_push_back(e); return r ? u64(r - IVR(p).data()) : ~u64(0); }
K u64 k_iv_try_push_back_r(void* p, PV x) { E* r = IVR(p).try_push_back(mk(x)); return r ? u64(r - IVR(p).data()) : ~u64(0); }
#if ELT == 2
K u64 k_iv_try_emplace_back(void* p, PV x) { E* r = IVR(p).try_emplace_back((int)x); return r ? u64(r - IVR(p).data()) : ~u64(0); }
#else
K u64 k_iv_try_emplace_back(void* p, PV x) { E* r = IVR(p).try_emplace_back(mk(x)); return r ? u64(r - IVR(p).data()) : ~u64(0); }
#endif
K void k_iv_clear(void* p) { IVR(p).clear(); }

// =====================================================================================================================
// stack over static_vector
// =====================================================================================================================
K u64 k_st_sizeof() { return sizeof(ST); }
K void k_st_new(void* p) { ::new (p) ST; }
K void k_st_dtor(void* p) { STR(p).~ST(); }
K void k_st_from_c(void* dst, void const* sv) { ::new (dst) ST(SVC(sv)); }
K void k_st_from_c_move(void* dst, void* sv) { ::new (dst) ST(etl::move(SVR(sv))); }
K void k_st_copy_ctor(void* dst, void const* src) { ::new (dst) ST(STC(src)); }
K void k_st_move_ctor(void* dst, void* src) { ::new (dst) ST(etl::move(STR(src))); }
K u64 k_st_size(void const* p) { return STC(p).size(); }
K bool k_st_empty(void const* p) { return STC(p).empty(); }
K PV k_st_top(void* p) { return rd(STR(p).top()); }
K PV k_st_top_c(void const* p) { return rd(STC(p).top()); }
K void k_st_set_top(void* p, PV x) { STR(p).top() = mk(x); }
K void k_st_push_l(void* p, PV x) { E const e = mk(x); STR(p).push(e); }
K void k_st_push_r(void* p, PV x) { STR(p).push(mk(x)); }
#if ELT == 2
K void k_st_emplace(void* p, PV x) { STR(p).emplace((int)x); }
#else
K void k_st_emplace(void* p, PV x) { STR(p).emplace(mk(x)); }
#endif
K void k_st_pop(void* p) { STR(p).pop(); }
K void k_st_swap_member(void* p, void* q) { STR(p).swap(STR(q)); }
K void k_st_swap_free(void* p, void* q) { using etl::swap; swap(STR(p), STR(q)); }
K unsigned k_st_rel(void const* p, void const* q)
{
    ST const& a = STC(p); ST const& b = STC(q);
    return unsigned(a == b) | unsigned(a != b) << 1 | unsigned(a < b) << 2 | unsigned(a <= b) << 3 | unsigned(a > b) << 4 | unsigned(a >= b) << 5;
}
// all elements, top first, through the public API only: pop a copy until it is empty. Returns the number of elements popped.
K u64 k_st_drain(void const* p, PV* out)
{
    ST c(STC(p)); u64 i = 0;
    while (!c.empty()) { out[i++] = rd(c.top()); c.pop(); }
    return i;
}

// =====================================================================================================================
// stack over inplace_vector: only construction from a container, empty/size/top/pop and copy/move construction exist
// (inplace_vector has no push_back/emplace_back/assignment/comparison, so push/emplace/swap/relational do not compile)
// =====================================================================================================================
K u64 k_si_sizeof() { return sizeof(SI); }
K void k_si_new(void* p) { ::new (p) SI; }
K void k_si_from_c(void* dst, void const* iv) { ::new (dst) SI(IVC(iv)); }
K void k_si_from_c_move(void* dst, void* iv) { ::new (dst) SI(etl::move(IVR(iv))); }
K void k_si_copy_ctor(void* dst, void const* src) { ::new (dst) SI(SIC(src)); }
K void k_si_move_ctor(void* dst, void* src) { ::new (dst) SI(etl::move(SIR(src))); }
K u64 k_si_size(void const* p) { return SIC(p).size(); }
K bool k_si_empty(void const* p) { return SIC(p).empty(); }
#if CAP > 0
K PV k_si_top(void* p) { return rd(SIR(p).top()); }
K PV k_si_top_c(void const* p) { return rd(SIC(p).top()); }
K void k_si_pop(void* p) { SIR(p).pop(); }
#else
K PV k_si_top(void*) { return PV(0); }
K PV k_si_top_c(void const*) { return PV(0); }
K void k_si_pop(void*) {}
#endif
K u64 k_si_drain(void const* p, PV* out)
{
    SI c(SIC(p)); u64 i = 0;
    while (!c.empty()) { out[i++] = rd(c.top()); c.pop(); }
    return i;
}
