// Driver-side helpers shared by the C01 families (vec_step, vec_cmp, vec_hist): symbolic pre-state installation through
// the public API and the full observable-state comparison against the model. Included after the kernel prototypes.
#ifndef VEC_COMMON_H
#define VEC_COMMON_H
static inline PV nd_pv() { return sizeof(PV) == 8 ? (PV)vf_nd_u64() : (PV)vf_nd_u32(); }
// exact-size block whose bytes are all solver variables (own function: its loop gets its own unwind bound)
extern "C" __attribute__((noinline)) void* d_sym_block(u64 n)
{
    unsigned char* p = (unsigned char*)vf_alloc(n);
    for (u64 i = 0; i < n; i++) p[i] = vf_nd_u8();
    return p;
}
// fresh symbolic bytes over the unused part of the element storage (no live object there)
extern "C" __attribute__((noinline)) void d_slack(unsigned char* d, u64 from, u64 to)
{
    for (u64 j = from; j < to; j++) d[j] = vf_nd_u8();
}
// exact-size block of cnt elements with symbolic values (source of range operations); vals receives the payloads
static inline void* src_make(PV* vals, unsigned cnt)
{
    for (unsigned i = 0; i < cnt; i++) vals[i] = nd_pv();
    void* blk = vf_alloc(u64(cnt) * sizeof(E));
    k_mk_array(blk, vals, cnt);
    return blk;
}
// static_vector with n symbolic elements: default-initialised into a symbolic block, filled with emplace_back, slack re-randomised
static inline void* sv_make(M& m, unsigned n)
{
    void* p = d_sym_block(k_sv_sizeof());
    k_sv_new(p);
    m.n = 0;
    for (unsigned i = 0; i < n; i++) { PV v = nd_pv(); k_sv_emplace_back(p, v); m.push_back(v); }
    if (CAP > 0) d_slack(k_sv_data(p), u64(n) * sizeof(E), u64(CAP) * sizeof(E));
    return p;
}
static inline void sv_check(void* p, M const& m)
{
    vf_assert(k_sv_size(p) == m.n, "size() == model");
    vf_assert(k_sv_empty(p) == (m.n == 0), "empty() == (size() == 0)");
    vf_assert(k_sv_full(p) == (m.n == CAP), "full() == (size() == capacity())");
    vf_assert(k_sv_capacity(p) == CAP && k_sv_max_size(p) == CAP, "capacity()/max_size() is the compile-time constant");
    vf_assert(k_sv_dist(p) == m.n, "end() - begin() == size()");
    for (unsigned i = 0; i < m.n; i++) vf_assert(k_sv_at(p, i) == m.a[i], "element i == model");
}
// inplace_vector with n symbolic elements: value-initialised into a symbolic block, filled with unchecked_push_back
static inline void* iv_make(M& m, unsigned n)
{
    void* p = d_sym_block(k_iv_sizeof());
    k_iv_new(p);
    m.n = 0;
    for (unsigned i = 0; i < n; i++) { PV v = nd_pv(); k_iv_unchecked_push_back_l(p, v); m.push_back(v); }
    if (CAP > 0) d_slack(k_iv_data(p), u64(n) * sizeof(E), u64(CAP) * sizeof(E));
    return p;
}
static inline void iv_check(void* p, M const& m)
{
    vf_assert(k_iv_size(p) == m.n, "size() == model");
    vf_assert(k_iv_empty(p) == (m.n == 0), "empty() == (size() == 0)");
    vf_assert(k_iv_capacity() == CAP && k_iv_max_size() == CAP, "capacity()/max_size() is the compile-time constant");
    vf_assert(k_iv_dist(p) == m.n, "end() - begin() == size()");
    for (unsigned i = 0; i < m.n; i++) vf_assert(k_iv_at(p, i) == m.a[i], "element i == model");
}
// stack<E, static_vector>: default-constructed into a symbolic block, n pushes
static inline void* st_make(M& m, unsigned n)
{
    void* p = d_sym_block(k_st_sizeof());
    k_st_new(p);
    m.n = 0;
    for (unsigned i = 0; i < n; i++) { PV v = nd_pv(); k_st_push_l(p, v); m.push_back(v); }
    return p;
}
// everything a stack shows: size, empty, top (both overloads), and all elements by popping a copy
static inline void st_check(void* p, M const& m)
{
    vf_assert(k_st_size(p) == m.n, "stack size() == model");
    vf_assert(k_st_empty(p) == (m.n == 0), "stack empty() == (size() == 0)");
    if (m.n > 0) vf_assert(k_st_top(p) == m.a[m.n - 1] && k_st_top_c(p) == m.a[m.n - 1], "top() is the most recently pushed element");
    PV* out = (PV*)vf_alloc(u64(CAP) * sizeof(PV));
    vf_assert(k_st_drain(p, out) == m.n, "popping a copy until empty takes size() pops");
    for (unsigned i = 0; i < m.n; i++) vf_assert(out[i] == m.a[m.n - 1 - i], "LIFO order == model");
}
static inline void si_check(void* p, M const& m)
{
    vf_assert(k_si_size(p) == m.n, "stack size() == model");
    vf_assert(k_si_empty(p) == (m.n == 0), "stack empty() == (size() == 0)");
    if (m.n > 0) vf_assert(k_si_top(p) == m.a[m.n - 1] && k_si_top_c(p) == m.a[m.n - 1], "top() is the most recently pushed element");
    PV* out = (PV*)vf_alloc(u64(CAP) * sizeof(PV));
    vf_assert(k_si_drain(p, out) == m.n, "popping a copy until empty takes size() pops");
    for (unsigned i = 0; i < m.n; i++) vf_assert(out[i] == m.a[m.n - 1 - i], "LIFO order == model");
}
#endif
