// Prototypes of the kernels in vec_step/kernel.cpp (scalar/pointer ABI; PV and u64 come from elem.h / the driver).
#ifndef VEC_PROTOS_H
#define VEC_PROTOS_H
extern "C" {
u64 k_esize(); void k_mk_array(void*, PV const*, u64); PV k_rd_array(void const*, u64);
u64 k_sv_sizeof(); void k_sv_new(void*); void k_sv_dtor(void*);
u64 k_sv_size(void const*); bool k_sv_empty(void const*); bool k_sv_full(void const*); u64 k_sv_capacity(void const*); u64 k_sv_max_size(void const*);
PV k_sv_at(void*, u64); PV k_sv_at_c(void const*, u64); u64 k_sv_at_off(void*, u64); PV k_sv_front(void*); PV k_sv_front_c(void const*); PV k_sv_back(void*); PV k_sv_back_c(void const*);
u64 k_sv_front_off(void*); u64 k_sv_back_off(void*); void k_sv_set_at(void*, u64, PV); unsigned char* k_sv_data(void*); bool k_sv_data_is_begin(void*);
u64 k_sv_dist(void*); u64 k_sv_dist_c(void const*); u64 k_sv_cdist(void*); u64 k_sv_rdist(void*); u64 k_sv_crdist(void const*);
PV k_sv_it(void*, u64); PV k_sv_cit(void const*, u64); PV k_sv_rit(void*, u64); PV k_sv_crit(void const*, u64); u64 k_sv_iter(void*, PV*, PV*);
void k_sv_push_back_l(void*, PV); void k_sv_push_back_r(void*, PV); void k_sv_emplace_back(void*, PV); u64 k_sv_emplace(void*, u64, PV); void k_sv_pop_back(void*);
u64 k_sv_insert_l(void*, u64, PV); u64 k_sv_insert_r(void*, u64, PV); u64 k_sv_insert_fill(void*, u64, u64, PV); u64 k_sv_insert_range(void*, u64, void const*, u64);
u64 k_sv_move_insert(void*, u64, void*, u64); u64 k_sv_insert_self(void*, u64, u64); u64 k_sv_insert_fill_self(void*, u64, u64, u64); void k_sv_push_back_self(void*, u64);
u64 k_sv_erase1(void*, u64); u64 k_sv_erase_range(void*, u64, u64); void k_sv_clear(void*); void k_sv_resize1(void*, u64); void k_sv_resize2(void*, u64, PV);
void k_sv_assign_range(void*, void const*, u64); void k_sv_assign_fill(void*, u64, PV); void k_sv_swap_member(void*, void*); void k_sv_swap_free(void*, void*);
void k_sv_copy_ctor(void*, void const*); void k_sv_move_ctor(void*, void*); void k_sv_copy_assign(void*, void const*); void k_sv_move_assign(void*, void*);
void k_sv_ctor_n(void*, u64); void k_sv_ctor_nv(void*, u64, PV); void k_sv_ctor_range(void*, void const*, u64); void k_sv_ctor_carray(void*, void*);
u64 k_sv_free_erase(void*, PV); u64 k_sv_free_erase_if(void*, PV); unsigned k_sv_rel(void const*, void const*);
u64 k_iv_sizeof(); void k_iv_new(void*); void k_iv_new_default(void*); void k_iv_dtor(void*); void k_iv_copy_ctor(void*, void const*); void k_iv_move_ctor(void*, void*);
u64 k_iv_size(void const*); bool k_iv_empty(void const*); u64 k_iv_capacity(); u64 k_iv_max_size(); unsigned char* k_iv_data(void*); bool k_iv_data_is_begin(void*);
u64 k_iv_dist(void*); u64 k_iv_dist_c(void const*); PV k_iv_it(void*, u64); PV k_iv_cit(void const*, u64);
PV k_iv_at(void*, u64); PV k_iv_at_c(void const*, u64); u64 k_iv_at_off(void*, u64); void k_iv_set_at(void*, u64, PV);
PV k_iv_front(void*); PV k_iv_front_c(void const*); PV k_iv_back(void*); PV k_iv_back_c(void const*); u64 k_iv_front_off(void*); u64 k_iv_back_off(void*);
u64 k_iv_unchecked_push_back_l(void*, PV); u64 k_iv_unchecked_push_back_r(void*, PV); u64 k_iv_unchecked_emplace_back(void*, PV); void k_iv_pop_back(void*);
u64 k_iv_try_push_back_l(void*, PV); u64 k_iv_try_push_back_r(void*, PV); u64 k_iv_try_emplace_back(void*, PV); void k_iv_clear(void*);
u64 k_st_sizeof(); void k_st_new(void*); void k_st_dtor(void*); void k_st_from_c(void*, void const*); void k_st_from_c_move(void*, void*);
void k_st_copy_ctor(void*, void const*); void k_st_move_ctor(void*, void*); u64 k_st_size(void const*); bool k_st_empty(void const*);
PV k_st_top(void*); PV k_st_top_c(void const*); void k_st_set_top(void*, PV); void k_st_push_l(void*, PV); void k_st_push_r(void*, PV); void k_st_emplace(void*, PV);
void k_st_pop(void*); void k_st_swap_member(void*, void*); void k_st_swap_free(void*, void*); u64 k_st_drain(void const*, PV*); unsigned k_st_rel(void const*, void const*);
u64 k_si_sizeof(); void k_si_new(void*); void k_si_from_c(void*, void const*); void k_si_from_c_move(void*, void*); void k_si_copy_ctor(void*, void const*);
void k_si_move_ctor(void*, void*); u64 k_si_size(void const*); bool k_si_empty(void const*); PV k_si_top(void*); PV k_si_top_c(void const*); void k_si_pop(void*);
u64 k_si_drain(void const*, PV*);
}
#endif
