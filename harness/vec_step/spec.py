PROPERTIES = ['C01', 'C02']
BOUNDS = {  # quick additionally runs push_back / try_push_back of the last element at CAP 255 and 256 (size-type boundary)

    'quick': '(plus the size-type boundary: push_back / try_push_back of the last element at CAP 255 and 256, int) one operation from every content state: capacity CAP in {0,1,3}, pre-size NA in 0..CAP (enumerated), second vector / source block size NB in 0..CAP (enumerated); '
             'element types int, POD{int,int}, NT (non-trivial copy/move/dtor -> non-trivial storage) at CAP 3, int + NT at CAP 0/1; all element values, slack bytes, '
             'object bytes before construction, positions, counts and new sizes symbolic over their full range (within the documented precondition)',
    'thorough': 'CAP in {0,1,2,3,4,5} for int, {0,1,2,3,4} for NT, {0,1,2,4} for POD; size-type boundary CAP in {254,255,256} (int) with pre-sizes CAP-1 (growing) / CAP (shrinking, try_push_back on full): the loop-free operations '
                'push_back/emplace_back/pop_back/clear/operator[] write and inplace_vector try_push_back/unchecked_emplace_back/pop_back/clear with symbolic values, full state compared afterwards '
                '(operations that loop over the elements - insert, erase, resize, iteration - do not finish at these capacities: the element count is not a symbolic-execution constant, '
                'so every library loop is unrolled ~258 times)',
}
ASSUMPTIONS = [
    'C01: every operation is called inside its documented precondition (position in [begin,end], size()+count <= capacity, non-empty for pop/front/back, index < size()); contract checks are compiled out (default build)',
    'C01: the state of a moved-from vector is unspecified in std; only validity (size() <= capacity()) is asserted for it; self move assignment likewise',
    'C01: pre-states are installed through the public API (emplace_back / unchecked_push_back / push n times) into an object created in a block of symbolic bytes; the unused element storage is overwritten with fresh symbolic bytes through data()',
    'C01: range sources are exact-size blocks of elements outside the vector (the standard makes ranges into the vector itself undefined); iterators are compared as indices',
    'C01: stack<T, inplace_vector<T,N>> only offers construction from a container, copy/move construction, empty/size/top/pop (push/emplace/swap/comparison do not compile because inplace_vector has no push_back/emplace_back/assignment/operators)',
]

ANY = ['sv_observe', 'sv_clear', 'sv_resize1', 'sv_resize2', 'sv_assign_fill', 'sv_free_erase', 'sv_free_erase_if', 'sv_erase_range', 'sv_insert_fill',
       'sv_swap_self', 'sv_copy_ctor', 'sv_move_ctor', 'sv_copy_assign_self', 'sv_move_assign_self', 'sv_ctor_n', 'sv_ctor_nv', 'sv_ctor_range', 'sv_ctor_carray',
       'iv_observe', 'iv_clear', 'iv_copy_ctor', 'iv_move_ctor', 'iv_try_push_back_l', 'iv_try_push_back_r', 'iv_try_emplace_back',
       'st_observe', 'st_from_c', 'st_from_c_move', 'st_copy_ctor', 'st_move_ctor', 'si_from_c', 'si_from_c_move', 'si_copy_ctor', 'si_move_ctor']
NONEMPTY = ['sv_set_at', 'sv_pop_back', 'sv_erase1', 'sv_insert_fill_self', 'iv_set_at', 'iv_pop_back', 'st_set_top', 'st_pop']
NOTFULL = ['sv_push_back_l', 'sv_push_back_r', 'sv_emplace_back', 'sv_emplace', 'sv_insert_l', 'sv_insert_r',
           'iv_unchecked_push_back_l', 'iv_unchecked_push_back_r', 'iv_unchecked_emplace_back', 'st_push_l', 'st_push_r', 'st_emplace']
MIDDLE = ['sv_push_back_self', 'sv_insert_self']                       # 1 <= NA < CAP
ONCE = ['iv_default_init', 'si_default']                               # no pre-state (NA = 0)
RANGE_FIT = ['sv_insert_range', 'sv_move_insert']                      # NA + NB <= CAP
RANGE_ANY = ['sv_assign_range']                                        # NB <= CAP
PAIR = ['sv_swap_member', 'sv_swap_free', 'sv_copy_assign', 'sv_move_assign', 'st_swap_member', 'st_swap_free']
# entries that touch only the first/last elements: the ones run at the size-type boundary capacities
BOUNDARY = [('sv_push_back_l', -1), ('sv_emplace_back', -1), ('sv_pop_back', 0), ('sv_clear', 0), ('sv_set_at', 0),   # (entry, pre-size relative to CAP)
            ('iv_try_push_back_l', -1), ('iv_try_push_back_l', 0), ('iv_unchecked_emplace_back', -1), ('iv_pop_back', 0), ('iv_clear', 0)]


# measured: erase_if (data-dependent moves + signed comparisons) CAP 3: minisat 102 s, cadical 3 s
SOLVER = {'sv_free_erase_if': 'cadical', 'sv_free_erase': 'cadical'}


def applicable(e, cap, na, nb):
    if e in ANY: return nb == 0
    if e in NONEMPTY: return nb == 0 and na >= 1
    if e in NOTFULL: return nb == 0 and na < cap
    if e in MIDDLE: return nb == 0 and 1 <= na < cap
    if e in ONCE: return nb == 0 and na == 0
    if e in RANGE_FIT: return na + nb <= cap
    if e in RANGE_ANY or e in PAIR: return True
    return False


ALL = ANY + NONEMPTY + NOTFULL + MIDDLE + ONCE + RANGE_FIT + RANGE_ANY + PAIR


def uw(blk, slack):
    return {'d_sym_block.0': blk, 'd_sym_block.1': blk, 'd_slack.0': slack, 'd_slack.1': slack,
            'll_memset.0': blk, 'll_memcpy.0': blk, 'll_memmove.0': blk, 'll_memmove.1': blk}


def grid(tier):
    if tier == 'quick':
        return [(0, 0), (0, 1), (0, 3), (1, 3), (2, 0), (2, 1), (2, 3)]
    return [(0, c) for c in (0, 1, 2, 3, 4, 5)] + [(2, c) for c in (0, 1, 2, 3, 4)] + [(1, c) for c in (0, 1, 2, 4)]


def queries(tier, prop='C01'):
    ub = prop == 'C02'
    out = []
    g = grid(tier)
    if ub and tier == 'quick': g = [(0, 0), (0, 3), (2, 3)]   # C02 quick: zero / trivial / non-trivial storage, every state of capacity 3
    for (elt, cap) in g:
        esz = 8 if elt == 1 else 4
        objsz = cap * esz + 16
        for na in range(cap + 1):
            for nb in range(cap + 1):
                for e in ALL:
                    if not applicable(e, cap, na, nb): continue
                    out.append(dict(entry='q_' + e, cfg={'ELT': elt, 'CAP': cap, 'NA': na, 'NB': nb}, unwind=cap + 3,
                                    unwindset=uw(objsz + 2, cap * esz + 2), budget=600, ub=ub, nofunc=ub,
                                    solver=SOLVER.get(e, 'minisat')))
    if tier == 'quick' and not ub:
        # a few size-type boundary queries also in quick: the last element of a capacity-255/256 vector (where a too-narrow size type wraps)
        for cap in (255, 256):
            u = uw(cap * 4 + 18, cap * 4 + 2)
            for (e, na) in (('sv_push_back_l', -1), ('iv_try_push_back_l', -1), ('iv_try_push_back_l', 0)):
                out.append(dict(entry='q_' + e, cfg={'ELT': 0, 'CAP': cap, 'NA': cap + na, 'NB': 0}, unwind=cap + 3, unwindset=u, budget=600))
    if tier == 'thorough' and not ub:
        # size-type boundary: smallest_size_t<N> is unsigned char up to N = 254 and unsigned short from N = 255
        for cap in (254, 255, 256):
            u = uw(cap * 4 + 18, cap * 4 + 2)
            for (e, na) in BOUNDARY:
                out.append(dict(entry='q_' + e, cfg={'ELT': 0, 'CAP': cap, 'NA': cap + na, 'NB': 0}, unwind=cap + 3, unwindset=u, budget=2400))
    return out
