// Oracle validation (DESIGN.md 1.7(3)): the sequence model of model.h against libstdc++ std::vector on seeded random
// operation sequences, plus model_rel against std::vector's relational operators. Decides nothing about tetl; it bounds
// the trust placed in the hand-written oracle. Build and run (not part of ./vf check):
//   g++ -std=c++20 -O1 -fsanitize=address,undefined harness/vec_step/model_check.cpp -o /tmp/model_check && /tmp/model_check [seed] [sequences]
#include "model.h"
#include <algorithm>
#include <cstdio>
#include <cstdlib>
#include <random>
#include <vector>
constexpr unsigned CAPM = 6;
using Mod = Model<int, CAPM>;
static bool same(Mod const& m, std::vector<int> const& v) { return m.n == v.size() && std::equal(v.begin(), v.end(), m.a); }
int main(int argc, char** argv)
{
    unsigned seed = argc > 1 ? unsigned(std::atoi(argv[1])) : 1u;
    unsigned nseq = argc > 2 ? unsigned(std::atoi(argv[2])) : 20000u;
    std::mt19937 g(seed);
    auto rnd = [&](unsigned n) { return unsigned(g() % (n + 1)); }; // 0..n
    unsigned long steps = 0;
    for (unsigned s = 0; s < nseq; s++) {
        Mod m; std::vector<int> v; Mod m2; std::vector<int> v2;
        for (unsigned k = 0; k < 24; k++) {
            int x = int(rnd(3)); unsigned op = rnd(12); unsigned r = 0, e = 0;
            switch (op) {
            case 0: if (m.n < CAPM) { m.push_back(x); v.push_back(x); } break;
            case 1: if (m.n > 0) { m.pop_back(); v.pop_back(); } break;
            case 2: { unsigned pos = rnd(m.n), cnt = rnd(CAPM - m.n); r = m.insert_fill(pos, cnt, x); auto it = v.insert(v.begin() + pos, cnt, x); e = unsigned(it - v.begin()); break; }
            case 3: { unsigned pos = rnd(m.n), cnt = rnd(CAPM - m.n); int src[CAPM + 1]; for (unsigned i = 0; i < cnt; i++) src[i] = int(rnd(3)); r = m.insert_range(pos, src, cnt); auto it = v.insert(v.begin() + pos, src, src + cnt); e = unsigned(it - v.begin()); break; }
            case 4: if (m.n > 0) { unsigned pos = rnd(m.n - 1); r = m.erase(pos, pos + 1); auto it = v.erase(v.begin() + pos); e = unsigned(it - v.begin()); } break;
            case 5: { unsigned l = rnd(m.n), f = rnd(l); r = m.erase(f, l); auto it = v.erase(v.begin() + f, v.begin() + l); e = unsigned(it - v.begin()); break; }
            case 6: m.clear(); v.clear(); break;
            case 7: { unsigned sz = rnd(CAPM); m.resize(sz, x); v.resize(sz, x); break; }
            case 8: { unsigned cnt = rnd(CAPM); m.assign_fill(cnt, x); v.assign(cnt, x); break; }
            case 9: { unsigned cnt = rnd(CAPM); int src[CAPM + 1]; for (unsigned i = 0; i < cnt; i++) src[i] = int(rnd(3)); m.assign_range(src, cnt); v.assign(src, src + cnt); break; }
            case 10: r = m.erase_if([x](int y) { return y == x; }); e = unsigned(std::erase(v, x)); break;
            case 11: r = m.erase_if([x](int y) { return y < x; }); e = unsigned(std::erase_if(v, [x](int y) { return y < x; })); break;
            default: m.swap(m2); v.swap(v2); break;
            }
            steps++;
            if (r != e || !same(m, v) || !same(m2, v2)) { std::printf("MODEL MISMATCH seed %u sequence %u step %u op %u\n", seed, s, k, op); return 1; }
            unsigned rel = model_rel(m.a, m.n, m2.a, m2.n, [](int p, int q) { return p == q; }, [](int p, int q) { return p < q; });
            unsigned erel = unsigned(v == v2) | unsigned(v != v2) << 1 | unsigned(v < v2) << 2 | unsigned(v <= v2) << 3 | unsigned(v > v2) << 4 | unsigned(v >= v2) << 5;
            if (rel != erel) { std::printf("MODEL_REL MISMATCH seed %u sequence %u step %u\n", seed, s, k); return 1; }
        }
    }
    std::printf("model == std::vector on %lu random steps (seed %u)\n", steps, seed);
    return 0;
}
