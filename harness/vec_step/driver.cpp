// C01 step driver: ONE operation from EVERY content state of a fixed-capacity vector, compared with the sequence model.
// Configuration (enumerated by spec.py): CAP = capacity, NA = size of the vector before the operation (or the count for the
// sized constructors), NB = size of the second vector / of the source block of range operations, ELT = element type.
// Symbolic (solver variables over their full range): every element value, every slack storage byte, every byte of the
// object block before construction, positions / counts / new sizes (restricted only by the documented precondition).
#include "vf.h"
#include "elem.h"
#include "model.h"
#ifndef CAP
#define CAP 3
#endif
#ifndef NA
#define NA 0
#endif
#ifndef NB
#define NB 0
#endif
using u64 = uint64_t;
using M = Model<PV, CAP>;
#include "protos.h"
#include "common.h"

// =====================================================================================================================
// static_vector: observers
// =====================================================================================================================
Q q_sv_observe()
{
    M m; void* p = sv_make(m, NA);
    sv_check(p, m);
    vf_assert(k_sv_dist_c(p) == NA && k_sv_cdist(p) == NA && k_sv_rdist(p) == NA && k_sv_crdist(p) == NA, "end()-begin() == size() for all iterator flavours");
    vf_assert(k_sv_data_is_begin(p), "data() == begin() == cbegin()");
    for (unsigned i = 0; i < NA; i++) {
        vf_assert(k_sv_at_c(p, i) == m.a[i], "operator[] const");
        vf_assert(k_sv_at_off(p, i) == i, "operator[] returns a reference to element i");
        vf_assert(k_sv_it(p, i) == m.a[i] && k_sv_cit(p, i) == m.a[i], "*(begin()+i)");
        vf_assert(k_sv_rit(p, i) == m.a[NA - 1 - i] && k_sv_crit(p, i) == m.a[NA - 1 - i], "*(rbegin()+i)");
    }
    PV* f = (PV*)vf_alloc(NA * sizeof(PV)); PV* r = (PV*)vf_alloc(NA * sizeof(PV));
    vf_assert(k_sv_iter(p, f, r) == NA, "iteration visits size() elements in both directions");
    for (unsigned i = 0; i < NA; i++) { vf_assert(f[i] == m.a[i], "forward iteration order"); vf_assert(r[i] == m.a[NA - 1 - i], "reverse iteration order"); }
#if NA > 0
    vf_assert(k_sv_front(p) == m.a[0] && k_sv_front_c(p) == m.a[0] && k_sv_front_off(p) == 0, "front()");
    vf_assert(k_sv_back(p) == m.a[NA - 1] && k_sv_back_c(p) == m.a[NA - 1] && k_sv_back_off(p) == NA - 1, "back()");
#endif
    k_sv_dtor(p);
}
Q q_sv_set_at() // write through the reference returned by operator[]
{
    M m; void* p = sv_make(m, NA); u64 i = vf_nd_u64(); PV x = nd_pv(); vf_assume(i < NA);
    k_sv_set_at(p, i, x); m.a[i] = x; sv_check(p, m);
}
// =====================================================================================================================
// static_vector: one-element growth / shrink
// =====================================================================================================================
Q q_sv_push_back_l() { M m; void* p = sv_make(m, NA); PV x = nd_pv(); k_sv_push_back_l(p, x); m.push_back(x); sv_check(p, m); }
Q q_sv_push_back_r() { M m; void* p = sv_make(m, NA); PV x = nd_pv(); k_sv_push_back_r(p, x); m.push_back(x); sv_check(p, m); }
Q q_sv_emplace_back() { M m; void* p = sv_make(m, NA); PV x = nd_pv(); k_sv_emplace_back(p, x); m.push_back(x); sv_check(p, m); }
Q q_sv_push_back_self() { M m; void* p = sv_make(m, NA); u64 from = vf_nd_u64(); vf_assume(from < NA); k_sv_push_back_self(p, from); m.push_back(m.a[from]); sv_check(p, m); }
Q q_sv_pop_back() { M m; void* p = sv_make(m, NA); k_sv_pop_back(p); m.pop_back(); sv_check(p, m); }
#define INS1(NAME, TXT)                                                                                                  \
    Q q_sv_##NAME()                                                                                                      \
    {                                                                                                                    \
        M m; void* p = sv_make(m, NA); u64 pos = vf_nd_u64(); PV x = nd_pv(); vf_assume(pos <= NA);                      \
        u64 r = k_sv_##NAME(p, pos, x); u64 e = m.insert_fill((unsigned)pos, 1, x);                                      \
        vf_assert(r == e, TXT " returns an iterator to the inserted element"); sv_check(p, m);                           \
    }
INS1(emplace, "emplace(pos,args)")
INS1(insert_l, "insert(pos,const&)")
INS1(insert_r, "insert(pos,&&)")
Q q_sv_insert_self() // v.insert(pos, v[from]) - std::vector supports a value that aliases an element
{
    M m; void* p = sv_make(m, NA); u64 pos = vf_nd_u64(), from = vf_nd_u64(); vf_assume(pos <= NA && from < NA);
    u64 r = k_sv_insert_self(p, pos, from); u64 e = m.insert_fill((unsigned)pos, 1, m.a[from]);
    vf_assert(r == e, "insert(pos, v[i]) returns an iterator to the inserted element"); sv_check(p, m);
}
Q q_sv_insert_fill()
{
    M m; void* p = sv_make(m, NA); u64 pos = vf_nd_u64(), cnt = vf_nd_u64(); PV x = nd_pv(); vf_assume(pos <= NA && cnt <= CAP - NA);
    u64 r = k_sv_insert_fill(p, pos, cnt, x); u64 e = m.insert_fill((unsigned)pos, (unsigned)cnt, x);
    if (cnt == 0) vf_witness("insert_fill: n == 0");
    vf_assert(r == e, "insert(pos,n,value) returns an iterator to the first inserted element (pos if n == 0)"); sv_check(p, m);
    if (CAP - NA > 0 && cnt == CAP - NA) vf_witness("insert_fill: fills to capacity");
}
Q q_sv_insert_fill_self()
{
    M m; void* p = sv_make(m, NA); u64 pos = vf_nd_u64(), cnt = vf_nd_u64(), from = vf_nd_u64(); vf_assume(pos <= NA && cnt <= CAP - NA && from < NA);
    u64 r = k_sv_insert_fill_self(p, pos, cnt, from); u64 e = m.insert_fill((unsigned)pos, (unsigned)cnt, m.a[from]);
    vf_assert(r == e, "insert(pos,n,v[i]) returns an iterator to the first inserted element"); sv_check(p, m);
}
Q q_sv_insert_range() // source: exact-size block of NB elements outside the vector
{
    M m; void* p = sv_make(m, NA); PV sv[NB + 1]; void* src = src_make(sv, NB); u64 pos = vf_nd_u64(); vf_assume(pos <= NA);
    u64 r = k_sv_insert_range(p, pos, src, NB); u64 e = m.insert_range((unsigned)pos, sv, NB);
    vf_assert(r == e, "insert(pos,first,last) returns an iterator to the first inserted element (pos if empty)"); sv_check(p, m);
    for (unsigned i = 0; i < NB; i++) vf_assert(k_rd_array(src, i) == sv[i], "insert(pos,first,last) leaves the source range unchanged");
}
Q q_sv_move_insert()
{
    M m; void* p = sv_make(m, NA); PV sv[NB + 1]; void* src = src_make(sv, NB); u64 pos = vf_nd_u64(); vf_assume(pos <= NA);
    u64 r = k_sv_move_insert(p, pos, src, NB); u64 e = m.insert_range((unsigned)pos, sv, NB);
    vf_assert(r == e, "move_insert(pos,first,last) returns an iterator to the first inserted element"); sv_check(p, m);
}
Q q_sv_erase1()
{
    M m; void* p = sv_make(m, NA); u64 pos = vf_nd_u64(); vf_assume(pos < NA);
    u64 r = k_sv_erase1(p, pos); u64 e = m.erase((unsigned)pos, (unsigned)pos + 1);
    vf_assert(r == e, "erase(pos) returns an iterator to the element after the erased one"); sv_check(p, m);
}
Q q_sv_erase_range()
{
    M m; void* p = sv_make(m, NA); u64 first = vf_nd_u64(), last = vf_nd_u64(); vf_assume(first <= last && last <= NA);
    u64 r = k_sv_erase_range(p, first, last); u64 e = m.erase((unsigned)first, (unsigned)last);
    if (first == last) vf_witness("erase_range: empty range");
    vf_assert(r == e, "erase(first,last) returns an iterator to the element after the erased ones"); sv_check(p, m);
    if (NA > 0 && first == 0 && last == NA) vf_witness("erase_range: everything");
}
Q q_sv_clear() { M m; void* p = sv_make(m, NA); k_sv_clear(p); m.clear(); sv_check(p, m); }
Q q_sv_resize1() // appended elements are value-initialised (payload 0 for all three element types)
{
    M m; void* p = sv_make(m, NA); u64 sz = vf_nd_u64(); vf_assume(sz <= CAP);
    if (NA < CAP && sz > NA) vf_witness("resize: grow");
    k_sv_resize1(p, sz); m.resize((unsigned)sz, PV(0)); sv_check(p, m);
    if (NA > 0 && sz < NA) vf_witness("resize: shrink");
}
Q q_sv_resize2()
{
    M m; void* p = sv_make(m, NA); u64 sz = vf_nd_u64(); PV x = nd_pv(); vf_assume(sz <= CAP);
    if (NA < CAP && sz > NA) vf_witness("resize(n,v): grow");
    k_sv_resize2(p, sz, x); m.resize((unsigned)sz, x); sv_check(p, m);
    if (NA > 0 && sz < NA) vf_witness("resize(n,v): shrink");
}
Q q_sv_assign_range()
{
    M m; void* p = sv_make(m, NA); PV sv[NB + 1]; void* src = src_make(sv, NB);
    k_sv_assign_range(p, src, NB); m.assign_range(sv, NB); sv_check(p, m);
}
Q q_sv_assign_fill()
{
    M m; void* p = sv_make(m, NA); u64 cnt = vf_nd_u64(); PV x = nd_pv(); vf_assume(cnt <= CAP);
    k_sv_assign_fill(p, cnt, x); m.assign_fill((unsigned)cnt, x); sv_check(p, m);
}
Q q_sv_free_erase()
{
    M m; void* p = sv_make(m, NA); PV x = nd_pv();
    u64 r = k_sv_free_erase(p, x); u64 e = m.erase_if([x](PV y) { return pv_eq(y, x); });
    if (NA > 0 && e == NA) vf_witness("free erase: all elements removed");
    vf_assert(r == e, "erase(c,value) returns the number of erased elements"); sv_check(p, m);
    if (NA > 1 && e > 0 && e < NA) vf_witness("free erase: some but not all removed");
}
Q q_sv_free_erase_if() // predicate: element < x
{
    M m; void* p = sv_make(m, NA); PV x = nd_pv();
    u64 r = k_sv_free_erase_if(p, x); u64 e = m.erase_if([x](PV y) { return pv_less(y, x); });
    vf_assert(r == e, "erase_if(c,pred) returns the number of erased elements"); sv_check(p, m);
    if (NA > 1 && e > 0 && e < NA) vf_witness("erase_if: some but not all removed");
}
// =====================================================================================================================
// static_vector: two objects
// =====================================================================================================================
Q q_sv_swap_member() { M a, b; void* p = sv_make(a, NA); void* q = sv_make(b, NB); k_sv_swap_member(p, q); a.swap(b); sv_check(p, a); sv_check(q, b); }
Q q_sv_swap_free() { M a, b; void* p = sv_make(a, NA); void* q = sv_make(b, NB); k_sv_swap_free(p, q); a.swap(b); sv_check(p, a); sv_check(q, b); }
Q q_sv_swap_self() { M a; void* p = sv_make(a, NA); k_sv_swap_member(p, p); sv_check(p, a); }
// mutate one of two objects that must be independent, then re-check both
static void sv_independent(void* x, M& mx, void* y, M const& my)
{
#if NA > 0
    u64 i = vf_nd_u64(); PV v = nd_pv(); vf_assume(i < NA); k_sv_set_at(x, i, v); mx.a[i] = v;
    k_sv_pop_back(x); mx.pop_back();
#else
#if CAP > 0
    PV v = nd_pv(); k_sv_push_back_l(x, v); mx.push_back(v);
#endif
#endif
    sv_check(x, mx); sv_check(y, my);
}
Q q_sv_copy_ctor()
{
    M a; void* p = sv_make(a, NA); void* q = d_sym_block(k_sv_sizeof());
    k_sv_copy_ctor(q, p); M b = a; sv_check(q, b); sv_check(p, a);
    sv_independent(q, b, p, a); // mutate the copy: the source does not change
    sv_independent(p, a, q, b); // mutate the source: the copy does not change
}
Q q_sv_move_ctor() // the moved-from source is "valid but unspecified" in std: only the destination is compared
{
    M a; void* p = sv_make(a, NA); void* q = d_sym_block(k_sv_sizeof());
    k_sv_move_ctor(q, p); sv_check(q, a);
    vf_assert(k_sv_size(p) <= CAP, "moved-from source stays a valid vector (size <= capacity)");
}
Q q_sv_copy_assign()
{
    M a, b; void* p = sv_make(a, NA); void* q = sv_make(b, NB);
    k_sv_copy_assign(q, p); b = a; sv_check(q, b); sv_check(p, a);
    sv_independent(q, b, p, a);
}
Q q_sv_move_assign()
{
    M a, b; void* p = sv_make(a, NA); void* q = sv_make(b, NB);
    k_sv_move_assign(q, p); sv_check(q, a);
    vf_assert(k_sv_size(p) <= CAP, "moved-from source stays a valid vector (size <= capacity)");
}
Q q_sv_copy_assign_self() // v = v leaves a std::vector unchanged (self = 0: assignment from an equal but distinct vector)
{
    M a; void* p = sv_make(a, NA); void* q = d_sym_block(k_sv_sizeof()); k_sv_copy_ctor(q, p);
    bool self = vf_nd_u8() & 1;
    VF_KNOWN(C01_static_vector_self_copy_assign, self && NA > 0);
    k_sv_copy_assign(p, self ? p : q); sv_check(p, a);
    if (!self) vf_witness("copy assignment: equal distinct source");
}
Q q_sv_move_assign_self() // v = std::move(v): unspecified contents in std; the object must stay a valid vector
{
    M a; void* p = sv_make(a, NA);
    k_sv_move_assign(p, p);
    u64 n = k_sv_size(p); vf_assert(n <= CAP && k_sv_empty(p) == (n == 0) && k_sv_full(p) == (n == CAP) && k_sv_dist(p) == n, "self move assignment leaves a valid vector");
}
// =====================================================================================================================
// static_vector: sized / range constructors (NA = number of elements)
// =====================================================================================================================
Q q_sv_ctor_n() { void* q = d_sym_block(k_sv_sizeof()); k_sv_ctor_n(q, NA); M m; m.resize(NA, PV(0)); sv_check(q, m); }
Q q_sv_ctor_nv() { void* q = d_sym_block(k_sv_sizeof()); PV x = nd_pv(); k_sv_ctor_nv(q, NA, x); M m; m.resize(NA, x); sv_check(q, m); }
Q q_sv_ctor_range()
{
    void* q = d_sym_block(k_sv_sizeof()); PV sv[NA + 1]; void* src = src_make(sv, NA);
    k_sv_ctor_range(q, src, NA); M m; m.assign_range(sv, NA); sv_check(q, m);
    for (unsigned i = 0; i < NA; i++) vf_assert(k_rd_array(src, i) == sv[i], "vector(first,last) leaves the source range unchanged");
}
Q q_sv_ctor_carray() // static_vector(c_array<T,NA>&&); NA == 0 uses the empty_c_array overload
{
    void* q = d_sym_block(k_sv_sizeof()); PV sv[NA + 1]; void* src = src_make(sv, NA);
    k_sv_ctor_carray(q, src); M m; m.assign_range(sv, NA); sv_check(q, m);
}

// =====================================================================================================================
// inplace_vector
// =====================================================================================================================
Q q_iv_observe()
{
    M m; void* p = iv_make(m, NA);
    iv_check(p, m);
    vf_assert(k_iv_dist_c(p) == NA, "end()-begin() == size() (const)");
    vf_assert(k_iv_data_is_begin(p), "data() == begin()");
    for (unsigned i = 0; i < NA; i++) {
        vf_assert(k_iv_at_c(p, i) == m.a[i], "operator[] const");
        vf_assert(k_iv_at_off(p, i) == i, "operator[] returns a reference to element i");
        vf_assert(k_iv_it(p, i) == m.a[i] && k_iv_cit(p, i) == m.a[i], "*(begin()+i)");
    }
#if NA > 0
    vf_assert(k_iv_front(p) == m.a[0] && k_iv_front_c(p) == m.a[0] && k_iv_front_off(p) == 0, "front()");
    vf_assert(k_iv_back(p) == m.a[NA - 1] && k_iv_back_c(p) == m.a[NA - 1] && k_iv_back_off(p) == NA - 1, "back()");
#endif
    k_iv_dtor(p);
}
// `inplace_vector<T,N> v;` (default-initialisation) in storage with arbitrary previous contents must be an empty vector
Q q_iv_default_init() // dflt = 0: value-initialisation `inplace_vector<T,N> v{};`
{
    void* p = d_sym_block(k_iv_sizeof());
    bool dflt = vf_nd_u8() & 1;
    VF_KNOWN(C01_inplace_vector_default_init_size, dflt && CAP > 0);
    if (dflt) { k_iv_new_default(p); } else { k_iv_new(p); vf_witness("inplace_vector: value-initialised"); }
    M m; iv_check(p, m);
}
Q q_iv_set_at() { M m; void* p = iv_make(m, NA); u64 i = vf_nd_u64(); PV x = nd_pv(); vf_assume(i < NA); k_iv_set_at(p, i, x); m.a[i] = x; iv_check(p, m); }
#define IVTRY(NAME, TXT)                                                                                                 \
    Q q_iv_##NAME()                                                                                                      \
    {                                                                                                                    \
        M m; void* p = iv_make(m, NA); PV x = nd_pv(); u64 r = k_iv_##NAME(p, x);                                        \
        if (NA == CAP) { vf_assert(r == ~u64(0), TXT " on a full vector returns null"); }                                \
        else { vf_assert(r == NA, TXT " returns a pointer to the new last element"); m.push_back(x); }                    \
        iv_check(p, m);                                                                                                  \
    }
IVTRY(try_push_back_l, "try_push_back(const&)")
IVTRY(try_push_back_r, "try_push_back(&&)")
IVTRY(try_emplace_back, "try_emplace_back(args)")
#define IVUNC(NAME, TXT)                                                                                                 \
    Q q_iv_##NAME()                                                                                                      \
    {                                                                                                                    \
        M m; void* p = iv_make(m, NA); PV x = nd_pv(); u64 r = k_iv_##NAME(p, x);                                        \
        vf_assert(r == NA, TXT " returns a reference to the new last element"); m.push_back(x); iv_check(p, m);          \
    }
IVUNC(unchecked_push_back_l, "unchecked_push_back(const&)")
IVUNC(unchecked_push_back_r, "unchecked_push_back(&&)")
IVUNC(unchecked_emplace_back, "unchecked_emplace_back(args)")
Q q_iv_pop_back() { M m; void* p = iv_make(m, NA); k_iv_pop_back(p); m.pop_back(); iv_check(p, m); }
Q q_iv_clear() { M m; void* p = iv_make(m, NA); k_iv_clear(p); m.clear(); iv_check(p, m); }
static void iv_independent(void* x, M& mx, void* y, M const& my)
{
#if NA > 0
    u64 i = vf_nd_u64(); PV v = nd_pv(); vf_assume(i < NA); k_iv_set_at(x, i, v); mx.a[i] = v;
    k_iv_pop_back(x); mx.pop_back();
#else
#if CAP > 0
    PV v = nd_pv(); k_iv_unchecked_push_back_l(x, v); mx.push_back(v);
#endif
#endif
    iv_check(x, mx); iv_check(y, my);
}
Q q_iv_copy_ctor()
{
    M a; void* p = iv_make(a, NA); void* q = d_sym_block(k_iv_sizeof());
    k_iv_copy_ctor(q, p); M b = a; iv_check(q, b); iv_check(p, a);
    iv_independent(q, b, p, a);
    iv_independent(p, a, q, b);
}
Q q_iv_move_ctor()
{
    M a; void* p = iv_make(a, NA); void* q = d_sym_block(k_iv_sizeof());
    k_iv_move_ctor(q, p); iv_check(q, a);
    vf_assert(k_iv_size(p) <= CAP, "moved-from source stays a valid vector (size <= capacity)");
}

// =====================================================================================================================
// stack over static_vector
// =====================================================================================================================
Q q_st_observe() { M m; void* p = st_make(m, NA); st_check(p, m); k_st_dtor(p); }
Q q_st_set_top() { M m; void* p = st_make(m, NA); PV x = nd_pv(); k_st_set_top(p, x); m.a[NA - 1] = x; st_check(p, m); }
Q q_st_push_l() { M m; void* p = st_make(m, NA); PV x = nd_pv(); k_st_push_l(p, x); m.push_back(x); st_check(p, m); }
Q q_st_push_r() { M m; void* p = st_make(m, NA); PV x = nd_pv(); k_st_push_r(p, x); m.push_back(x); st_check(p, m); }
Q q_st_emplace() { M m; void* p = st_make(m, NA); PV x = nd_pv(); k_st_emplace(p, x); m.push_back(x); st_check(p, m); }
Q q_st_pop() { M m; void* p = st_make(m, NA); k_st_pop(p); m.pop_back(); st_check(p, m); }
Q q_st_from_c() // stack(Container const&): copies; the container stays as it was and is independent
{
    M a; void* c = sv_make(a, NA); void* q = d_sym_block(k_st_sizeof());
    k_st_from_c(q, c); M b = a; st_check(q, b); sv_check(c, a);
#if NA > 0
    k_st_pop(q); b.pop_back(); st_check(q, b); sv_check(c, a);
#endif
}
Q q_st_from_c_move() { M a; void* c = sv_make(a, NA); void* q = d_sym_block(k_st_sizeof()); k_st_from_c_move(q, c); st_check(q, a); }
Q q_st_copy_ctor()
{
    M a; void* p = st_make(a, NA); void* q = d_sym_block(k_st_sizeof());
    k_st_copy_ctor(q, p); M b = a; st_check(q, b); st_check(p, a);
#if NA > 0
    PV x = nd_pv(); k_st_set_top(q, x); b.a[NA - 1] = x; st_check(q, b); st_check(p, a);
    k_st_pop(p); a.pop_back(); st_check(q, b); st_check(p, a);
#endif
}
Q q_st_move_ctor() { M a; void* p = st_make(a, NA); void* q = d_sym_block(k_st_sizeof()); k_st_move_ctor(q, p); st_check(q, a); }
Q q_st_swap_member() { M a, b; void* p = st_make(a, NA); void* q = st_make(b, NB); k_st_swap_member(p, q); a.swap(b); st_check(p, a); st_check(q, b); }
Q q_st_swap_free() { M a, b; void* p = st_make(a, NA); void* q = st_make(b, NB); k_st_swap_free(p, q); a.swap(b); st_check(p, a); st_check(q, b); }
// =====================================================================================================================
// stack over inplace_vector (the subset of the adaptor that compiles)
// =====================================================================================================================
Q q_si_default() { void* q = d_sym_block(k_si_sizeof()); k_si_new(q); M m; si_check(q, m); }
Q q_si_from_c()
{
    M a; void* c = iv_make(a, NA); void* q = d_sym_block(k_si_sizeof());
    k_si_from_c(q, c); M b = a; si_check(q, b); iv_check(c, a);
#if NA > 0
    k_si_pop(q); b.pop_back(); si_check(q, b); iv_check(c, a);
#endif
}
Q q_si_from_c_move() { M a; void* c = iv_make(a, NA); void* q = d_sym_block(k_si_sizeof()); k_si_from_c_move(q, c); si_check(q, a); }
Q q_si_copy_ctor()
{
    M a; void* c = iv_make(a, NA); void* p = d_sym_block(k_si_sizeof()); k_si_from_c(p, c); void* q = d_sym_block(k_si_sizeof());
    k_si_copy_ctor(q, p); M b = a; si_check(q, b); si_check(p, a);
#if NA > 0
    k_si_pop(p); a.pop_back(); si_check(q, b); si_check(p, a);
#endif
}
Q q_si_move_ctor()
{
    M a; void* c = iv_make(a, NA); void* p = d_sym_block(k_si_sizeof()); k_si_from_c(p, c); void* q = d_sym_block(k_si_sizeof());
    k_si_move_ctor(q, p); si_check(q, a);
}
