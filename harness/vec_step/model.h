// Explicit sequence model (array + length) = the oracle of the C01 harnesses: what std::vector<T> holds after the same
// operation. Written from [vector.modifiers]/[sequence.reqmts]; validated natively against libstdc++ std::vector by
// model_check.cpp (this header is included there unchanged). No allocation, no tetl.
#ifndef VEC_MODEL_H
#define VEC_MODEL_H
#include <stdint.h>
template <typename T, unsigned Cap>
struct Model {
    T a[Cap + 1]; // one spare slot keeps Cap == 0 well-formed; never read beyond n
    unsigned n = 0;
    void push_back(T x) { a[n++] = x; }
    void pop_back() { --n; }
    // insert cnt copies of x before pos; returns pos (index of the first inserted element)
    unsigned insert_fill(unsigned pos, unsigned cnt, T x)
    {
        for (unsigned i = n; i > pos; --i) a[i - 1 + cnt] = a[i - 1];
        for (unsigned i = 0; i < cnt; ++i) a[pos + i] = x;
        n += cnt;
        return pos;
    }
    unsigned insert_range(unsigned pos, T const* src, unsigned cnt)
    {
        for (unsigned i = n; i > pos; --i) a[i - 1 + cnt] = a[i - 1];
        for (unsigned i = 0; i < cnt; ++i) a[pos + i] = src[i];
        n += cnt;
        return pos;
    }
    // erase [first,last); returns first (index of the element that followed the erased ones)
    unsigned erase(unsigned first, unsigned last)
    {
        unsigned d = last - first;
        for (unsigned i = last; i < n; ++i) a[i - d] = a[i];
        n -= d;
        return first;
    }
    void clear() { n = 0; }
    void resize(unsigned sz, T x)
    {
        while (n < sz) a[n++] = x;
        n = sz;
    }
    void assign_fill(unsigned cnt, T x)
    {
        n = 0;
        for (unsigned i = 0; i < cnt; ++i) a[n++] = x;
    }
    void assign_range(T const* src, unsigned cnt)
    {
        n = 0;
        for (unsigned i = 0; i < cnt; ++i) a[n++] = src[i];
    }
    template <typename P>
    unsigned erase_if(P pred)
    {
        unsigned w = 0;
        for (unsigned i = 0; i < n; ++i)
            if (!pred(a[i])) a[w++] = a[i];
        unsigned r = n - w;
        n = w;
        return r;
    }
    void swap(Model& o)
    {
        Model t = *this;
        *this = o;
        o = t;
    }
};
// the six relational operators of two sequences, as std::vector defines them (== : same size and equal elements;
// < : lexicographical_compare with the element's operator<); bit i set for ==, !=, <, <=, >, >=
template <typename T, typename Eq, typename Less>
static inline unsigned model_rel(T const* a, unsigned na, T const* b, unsigned nb, Eq eq, Less less)
{
    bool e = na == nb;
    for (unsigned i = 0; e && i < na; ++i)
        if (!eq(a[i], b[i])) e = false;
    auto lex = [&](T const* x, unsigned nx, T const* y, unsigned ny) {
        unsigned i = 0;
        for (; i < nx && i < ny; ++i) {
            if (less(x[i], y[i])) return true;
            if (less(y[i], x[i])) return false;
        }
        return i == nx && i != ny;
    };
    bool lt = lex(a, na, b, nb), gt = lex(b, nb, a, na);
    return unsigned(e) | unsigned(!e) << 1 | unsigned(lt) << 2 | unsigned(!gt) << 3 | unsigned(gt) << 4 | unsigned(!lt) << 5;
}
#endif
