// C02 obligation 4 (DESIGN.md): a default-initialised object (`T x;`, `new (p) T;`) must be in the empty state - no member
// may be left indeterminate. The block handed in by the driver holds arbitrary (solver-chosen) bytes.
#include <etl/vector.hpp>
#include <etl/inplace_vector.hpp>
#include <etl/string.hpp>
#include <etl/string_view.hpp>
#include <etl/optional.hpp>
#include <etl/variant.hpp>
#include <etl/expected.hpp>
#include <etl/set.hpp>
#include <etl/flat_set.hpp>
#include <etl/stack.hpp>
#include <etl/bitset.hpp>
#include <etl/span.hpp>
#include <etl/functional.hpp>
#include <etl/new.hpp>
#include "vf.h" // after the library headers: its K/Q macros must not meet template parameters named K
struct NT { int v; NT() noexcept : v(7) {} NT(NT const& o) noexcept : v(o.v) {} NT& operator=(NT const& o) noexcept { v = o.v; return *this; } ~NT() { v = -1; } };
#define DI(NAME, ...)                                                                                                  \
    K unsigned k_sizeof_##NAME() { return sizeof(__VA_ARGS__); }                                                       \
    K unsigned k_alignof_##NAME() { return alignof(__VA_ARGS__); }
#define DI_SIZE(NAME, ...)                                                                                             \
    DI(NAME, __VA_ARGS__)                                                                                              \
    K unsigned long k_di_##NAME(void* mem) { auto* o = ::new (mem) __VA_ARGS__; unsigned long r = o->size() + (o->empty() ? 0UL : 1000UL); o->~decltype(*o)(); return r; }
using sv_int4 = etl::static_vector<int, 4>;   DI(sv_int4, sv_int4)
K unsigned long k_di_sv_int4(void* mem) { auto* o = ::new (mem) sv_int4; unsigned long r = o->size() + (o->empty() ? 0 : 1000) + (o->begin() == o->end() ? 0 : 2000); o->push_back(5); r += (o->size() == 1 && (*o)[0] == 5) ? 0 : 4000; return r; }
using sv_nt3 = etl::static_vector<NT, 3>;     DI(sv_nt3, sv_nt3)
K unsigned long k_di_sv_nt3(void* mem) { auto* o = ::new (mem) sv_nt3; unsigned long r = o->size() + (o->empty() ? 0 : 1000) + (o->begin() == o->end() ? 0 : 2000); o->~sv_nt3(); return r; }
using iv_int4 = etl::inplace_vector<int, 4>;  DI(iv_int4, iv_int4)
K unsigned long k_di_iv_int4(void* mem) { auto* o = ::new (mem) iv_int4; unsigned long r = o->size() + (o->empty() ? 0 : 1000) + (o->begin() == o->end() ? 0 : 2000); o->unchecked_push_back(5); r += (o->size() == 1 && (*o)[0] == 5) ? 0 : 4000; return r; }
using iv_nt3 = etl::inplace_vector<NT, 3>;    DI(iv_nt3, iv_nt3)
K unsigned long k_di_iv_nt3(void* mem) { auto* o = ::new (mem) iv_nt3; unsigned long r = o->size() + (o->empty() ? 0 : 1000); o->~iv_nt3(); return r; }
using iv_int300 = etl::inplace_vector<int, 300>; DI(iv_int300, iv_int300)
K unsigned long k_di_iv_int300(void* mem) { auto* o = ::new (mem) iv_int300; return o->size() + (o->empty() ? 0 : 100000); }
using str7 = etl::inplace_string<7>;          DI(str7, str7)
K unsigned long k_di_str7(void* mem) { auto* o = ::new (mem) str7; return o->size() + (o->empty() ? 0 : 1000) + (o->data()[o->size()] == 0 ? 0 : 2000); }
using str16 = etl::inplace_string<16>;        DI(str16, str16)
K unsigned long k_di_str16(void* mem) { auto* o = ::new (mem) str16; return o->size() + (o->empty() ? 0 : 1000) + (o->data()[o->size()] == 0 ? 0 : 2000); }
using wstr20 = etl::inplace_wstring<20>;      DI(wstr20, wstr20)
K unsigned long k_di_wstr20(void* mem) { auto* o = ::new (mem) wstr20; return o->size() + (o->empty() ? 0 : 1000) + (o->data()[o->size()] == 0 ? 0 : 2000); }
using view = etl::string_view;                DI(view, view)
K unsigned long k_di_view(void* mem) { auto* o = ::new (mem) view; return o->size() + (o->empty() ? 0 : 1000) + (o->data() == nullptr ? 0 : 2000); }
using spn = etl::span<int>;                   DI(spn, spn)
K unsigned long k_di_spn(void* mem) { auto* o = ::new (mem) spn; return o->size() + (o->empty() ? 0 : 1000) + (o->data() == nullptr ? 0 : 2000); }
using opt = etl::optional<int>;               DI(opt, opt)
K unsigned long k_di_opt(void* mem) { auto* o = ::new (mem) opt; return (o->has_value() ? 1 : 0) + (static_cast<bool>(*o) ? 2 : 0); }
using optnt = etl::optional<NT>;              DI(optnt, optnt)
K unsigned long k_di_optnt(void* mem) { auto* o = ::new (mem) optnt; unsigned long r = o->has_value() ? 1 : 0; o->~optnt(); return r; }
using var = etl::variant<int, float, char>;   DI(var, var)
K unsigned long k_di_var(void* mem) { auto* o = ::new (mem) var; return o->index() + (etl::holds_alternative<int>(*o) ? 0 : 1000) + (*etl::get_if<int>(o) == 0 ? 0 : 2000); }
using expd = etl::expected<int, char>;        DI(expd, expd)
K unsigned long k_di_expd(void* mem) { auto* o = ::new (mem) expd; return (o->has_value() ? 0 : 1) + (**o == 0 ? 0 : 2); }
using sset = etl::static_set<int, 4>;         DI(sset, sset)
K unsigned long k_di_sset(void* mem) { auto* o = ::new (mem) sset; return o->size() + (o->empty() ? 0 : 1000) + (o->begin() == o->end() ? 0 : 2000); }
using fset = etl::flat_set<int, etl::static_vector<int, 4>>; DI(fset, fset)
K unsigned long k_di_fset(void* mem) { auto* o = ::new (mem) fset; return o->size() + (o->empty() ? 0 : 1000) + (o->begin() == o->end() ? 0 : 2000); }
using fseti = etl::flat_set<int, etl::inplace_vector<int, 4>>; DI(fseti, fseti)
K unsigned long k_di_fseti(void* mem) { auto* o = ::new (mem) fseti; return o->size() + (o->empty() ? 0 : 1000) + (o->begin() == o->end() ? 0 : 2000); }
using stk = etl::stack<int, etl::static_vector<int, 4>>; DI(stk, stk)
K unsigned long k_di_stk(void* mem) { auto* o = ::new (mem) stk; return o->size() + (o->empty() ? 0 : 1000); }
using stki = etl::stack<int, etl::inplace_vector<int, 4>>; DI(stki, stki)
K unsigned long k_di_stki(void* mem) { auto* o = ::new (mem) stki; return o->size() + (o->empty() ? 0 : 1000); }
using bs33 = etl::bitset<33>;                 DI(bs33, bs33)
K unsigned long k_di_bs33(void* mem) { auto* o = ::new (mem) bs33; return o->count() + (o->none() ? 0 : 1000) + (o->any() ? 2000 : 0) + (o->all() ? 4000 : 0); }
using ifn = etl::inplace_function<int(int), 16>; DI(ifn, ifn)
K unsigned long k_di_ifn(void* mem) { auto* o = ::new (mem) ifn; unsigned long r = static_cast<bool>(*o) ? 1 : 0; o->~ifn(); return r; }
