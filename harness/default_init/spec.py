PROPERTIES = ['C02']
BOUNDS = {'quick': 'one query per type: static_vector<int,4>/<NT,3>, inplace_vector<int,4>/<NT,3>/<int,300>, inplace_string<7>/<16>, inplace_wstring<20>, string_view, span, optional<int>/<NT>, variant<int,float,char>, expected<int,char>, static_set<int,4>, flat_set over static_vector and inplace_vector, stack over both, bitset<33>, inplace_function<int(int),16>; every byte of the storage block symbolic',
          'thorough': 'same'}
ASSUMPTIONS = ['C02/default-init: the object is created with placement default-initialisation `::new (p) T;` into a block whose bytes are all solver variables']
ENTRIES = ['sv_int4', 'sv_nt3', 'iv_int4', 'iv_nt3', 'iv_int300', 'str7', 'str16', 'wstr20', 'view', 'spn', 'opt', 'optnt', 'var', 'expd', 'sset', 'fset', 'fseti', 'stk', 'stki', 'bs33', 'ifn']
def queries(tier, prop='C02'):
    out = []
    for e in ENTRIES:
        q = dict(entry='q_di_' + e, cfg={}, unwind=1300 if e == 'iv_int300' else 90, budget=120, ub=True)
        if e.startswith('iv_'):
            q['kf_only'] = 'C02_inplace_vector_default_init'
        out.append(q)
    return out
