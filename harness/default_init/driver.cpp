// Driver: every byte of the block is a solver variable (the "garbage" a stack slot or a reused buffer may hold).
#include "vf.h"
#define DECLX(NAME, KNOWN) extern "C" unsigned k_sizeof_##NAME(); extern "C" unsigned long k_di_##NAME(void*);          \
    Q q_di_##NAME() { unsigned n = k_sizeof_##NAME(); unsigned char* m = vf_sym_bytes(n); KNOWN; vf_assert(k_di_##NAME(m) == 0, "default-initialised " #NAME " is in the empty state"); }
#define DECL(NAME) DECLX(NAME, (void)0)
// inplace_vector: `_size` has no default member initialiser (open finding; every garbage block with a non-zero size field fails)
DECL(sv_int4) DECL(sv_nt3) DECLX(iv_int4, VF_KNOWN(C02_inplace_vector_default_init, true)) DECLX(iv_nt3, VF_KNOWN(C02_inplace_vector_default_init, true)) DECLX(iv_int300, VF_KNOWN(C02_inplace_vector_default_init, true)) DECL(str7) DECL(str16) DECL(wstr20) DECL(view) DECL(spn)
DECL(opt) DECL(optnt) DECL(var) DECL(expd) DECL(sset) DECL(fset) DECL(fseti) DECL(stk) DECL(stki) DECL(bs33) DECL(ifn)
