// C05 kernels (views): thin wrappers around etl::basic_string_view<CH>, etl::span<ELT[,LN]> and etl::array<ELT,LN>,
// built with TETL_ENABLE_CONTRACT_CHECKS (C05SAFE=0) or TETL_ENABLE_CONTRACT_CHECKS_SAFE (C05SAFE=1) and the custom handler.
// No logic besides marshalling. View objects live in driver-owned exact-size blocks (placement new) so that the driver can
// snapshot them.
#include "c05_kernel.h" // first: contract configuration + etl::assert_handler
#include <etl/array.hpp>
#include <etl/new.hpp>
#include <etl/span.hpp>
#include <etl/string_view.hpp>
#include "vf.h" // after the library headers (K and Q are macros)
#ifndef CH
#define CH char
#endif
#ifndef ELT
#define ELT int
#endif
#ifndef LN
#define LN 3
#endif
#ifndef SPX
#define SPX 0
#endif
using sz = etl::size_t;

// ---- basic_string_view
using SV = etl::basic_string_view<CH>;
#define V(p) (*static_cast<SV*>(p))
#define VC(p) (*static_cast<SV const*>(p))
K sz k_v_sizeof() { return sizeof(SV); }
K void k_v_new(void* p, CH const* h, sz hn) { ::new (p) SV(h, hn); }
K sz k_v_size(void const* p) { return VC(p).size(); }
K CH const* k_v_data(void const* p) { return VC(p).data(); }
K CH k_v_at(void const* p, sz i) { return VC(p)[i]; }
K CH k_v_front(void const* p) { return VC(p).front(); }
K CH k_v_back(void const* p) { return VC(p).back(); }
K void k_v_rmpre(void* p, sz n) { V(p).remove_prefix(n); }
K void k_v_rmsuf(void* p, sz n) { V(p).remove_suffix(n); }
K sz k_v_copy(void const* p, CH* dst, sz cnt, sz pos) { return VC(p).copy(dst, cnt, pos); }
K CH const* k_v_substr(void const* p, sz pos, sz cnt, sz* osz) { auto r = VC(p).substr(pos, cnt); *osz = r.size(); return r.data(); }
// operations documented in terms of substr(pos1, count1): same precondition pos1 <= size()
K int k_v_cmp_pcsv(void const* p, sz p1, sz c1, CH const* n, sz nn) { return VC(p).compare(p1, c1, SV(n, nn)); }
K int k_v_cmp_pcsvpc(void const* p, sz p1, sz c1, CH const* n, sz nn, sz p2, sz c2) { return VC(p).compare(p1, c1, SV(n, nn), p2, c2); }
K int k_v_cmp_pcpc(void const* p, sz p1, sz c1, CH const* n, sz c2) { return VC(p).compare(p1, c1, n, c2); }

// ---- span (dynamic extent: SPX=0, static extent LN: SPX=1)
#if SPX
using SP = etl::span<ELT, LN>;
#else
using SP = etl::span<ELT>;
#endif
#define S(p) (*static_cast<SP const*>(p))
K sz k_s_sizeof() { return sizeof(SP); }
#if SPX
K void k_s_new(void* p, ELT* d, sz) { ::new (p) SP(d, sz(LN)); }
#else
K void k_s_new(void* p, ELT* d, sz n) { ::new (p) SP(d, n); }
#endif
K sz k_s_size(void const* p) { return S(p).size(); }
K ELT* k_s_front(void const* p) { return &S(p).front(); }
K ELT* k_s_back(void const* p) { return &S(p).back(); }
K ELT* k_s_at(void const* p, sz i) { return &S(p)[i]; }
K ELT* k_s_first(void const* p, sz c, sz* osz) { auto r = S(p).first(c); *osz = r.size(); return r.data(); }
K ELT* k_s_last(void const* p, sz c, sz* osz) { auto r = S(p).last(c); *osz = r.size(); return r.data(); }
K ELT* k_s_subspan(void const* p, sz off, sz c, sz* osz) { auto r = S(p).subspan(off, c); *osz = r.size(); return r.data(); }
K ELT* k_s_subspan1(void const* p, sz off, sz* osz) { auto r = S(p).subspan(off); *osz = r.size(); return r.data(); }

// ---- array (checked under _SAFE only)
#if LN > 0
using AR = etl::array<ELT, LN>;
K sz k_a_sizeof() { return sizeof(AR); }
K ELT* k_a_at(void* a, sz i) { return &(*static_cast<AR*>(a))[i]; }
K ELT const* k_a_at_c(void const* a, sz i) { return &(*static_cast<AR const*>(a))[i]; }
#endif
