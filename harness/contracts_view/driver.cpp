// C05 driver (views): basic_string_view, span, array. Every query calls ONE operation with unconstrained symbolic
// arguments on a view over an exact-size block of LN elements (LN enumerated) and checks both halves of the property
// (see contracts_common/c05.h): violating arguments end in the handler at the right site with view and buffer untouched
// and nothing outside the blocks accessed; valid arguments never reach the handler (and return the right element/sub-view).
#include "c05.h"
#ifndef CH
#define CH char
#endif
#ifndef ELT
#define ELT int
#endif
#ifndef LN
#define LN 3
#endif
#ifndef NN
#define NN 2
#endif
#ifndef SPX
#define SPX 0
#endif
#ifndef C05SAFE
#define C05SAFE 0
#endif
using sz = size_t;
static constexpr sz NPOS = ~sz(0);
extern "C" {
sz k_v_sizeof(); void k_v_new(void*, CH const*, sz); sz k_v_size(void const*); CH const* k_v_data(void const*);
CH k_v_at(void const*, sz); CH k_v_front(void const*); CH k_v_back(void const*); void k_v_rmpre(void*, sz); void k_v_rmsuf(void*, sz);
sz k_v_copy(void const*, CH*, sz, sz); CH const* k_v_substr(void const*, sz, sz, sz*);
int k_v_cmp_pcsv(void const*, sz, sz, CH const*, sz); int k_v_cmp_pcsvpc(void const*, sz, sz, CH const*, sz, sz, sz); int k_v_cmp_pcpc(void const*, sz, sz, CH const*, sz);
sz k_s_sizeof(); void k_s_new(void*, ELT*, sz); sz k_s_size(void const*); ELT* k_s_front(void const*); ELT* k_s_back(void const*); ELT* k_s_at(void const*, sz);
ELT* k_s_first(void const*, sz, sz*); ELT* k_s_last(void const*, sz, sz*); ELT* k_s_subspan(void const*, sz, sz, sz*); ELT* k_s_subspan1(void const*, sz, sz*);
sz k_a_sizeof(); ELT* k_a_at(void*, sz); ELT const* k_a_at_c(void const*, sz);
}
static CH nd_ch() { return sizeof(CH) == 1 ? CH(vf_nd_u8()) : sizeof(CH) == 2 ? CH(vf_nd_u16()) : CH(vf_nd_u32()); }
extern "C" __attribute__((noinline)) void* d_sym_block(u64 n)
{
    unsigned char* p = (unsigned char*)vf_alloc(n);
    for (u64 i = 0; i < n; i++) p[i] = vf_nd_u8();
    return p;
}
static CH* sym(sz n) { return (CH*)d_sym_block(n * sizeof(CH)); }

// =====================================================================================================================
// basic_string_view: the view object lives in its own block p (watched), the characters in block h (watched)
// =====================================================================================================================
struct VW { CH* h; void* p; };
static VW mkview()
{
    VW v; v.h = sym(LN); v.p = d_sym_block(k_v_sizeof()); k_v_new(v.p, v.h, LN);
    c05_watch0(v.p, k_v_sizeof()); c05_watch1(v.h, LN * sizeof(CH));
    return v;
}
Q q_v_at()
{
    VW v = mkview(); sz i = vf_nd_u64();
    C05_CLAUSE(0, SITE_basic_string_view_1, !(i < LN));
    c05_arm(); CH r = k_v_at(v.p, i); c05_done();
    vf_assert(r == v.h[i], "operator[](pos) returns the character at pos");
}
Q q_v_front()
{
    VW v = mkview();
    C05_CLAUSE(0, SITE_basic_string_view_2, LN == 0);
    c05_arm(); CH r = k_v_front(v.p); c05_done();
    vf_assert(r == v.h[0], "front() returns the first character");
}
Q q_v_back()
{
    VW v = mkview();
    C05_CLAUSE(0, SITE_basic_string_view_3, LN == 0);
    c05_arm(); CH r = k_v_back(v.p); c05_done();
    vf_assert(r == v.h[LN - 1], "back() returns the last character");
}
Q q_v_rmpre()
{
    VW v = mkview(); sz n = vf_nd_u64();
    C05_CLAUSE(0, SITE_basic_string_view_4, !(n <= LN));
    c05_arm(); k_v_rmpre(v.p, n); c05_done();
    vf_assert(k_v_data(v.p) == v.h + n && k_v_size(v.p) == LN - n, "remove_prefix(n) drops the first n characters");
}
Q q_v_rmsuf()
{
    VW v = mkview(); sz n = vf_nd_u64();
    C05_CLAUSE(0, SITE_basic_string_view_5, !(n <= LN));
    c05_arm(); k_v_rmsuf(v.p, n); c05_done();
    vf_assert(k_v_data(v.p) == v.h && k_v_size(v.p) == LN - n, "remove_suffix(n) drops the last n characters");
}
Q q_v_copy()
{
    VW v = mkview(); sz pos = vf_nd_u64(), cnt = vf_nd_u64();
    bool bad = !(pos <= LN);
    // destination: exactly the number of characters a valid call writes; an empty block for a violating call (nothing may be written)
    sz w = bad ? 0 : (cnt < LN - pos ? cnt : LN - pos);
    CH* d = (CH*)vf_alloc(w * sizeof(CH));
    C05_CLAUSE(0, SITE_basic_string_view_6, bad);
    c05_arm(); sz r = k_v_copy(v.p, d, cnt, pos); c05_done();
    vf_assert(r == w, "copy returns min(count, size() - pos)");
    for (sz i = 0; i < LN; i++) if (i < w) vf_assert(d[i] == v.h[pos + i], "copy copies [pos, pos + rcount)");
}
Q q_v_substr()
{
    VW v = mkview(); sz pos = vf_nd_u64(), cnt = vf_nd_u64();
    C05_CLAUSE(0, SITE_basic_string_view_7, !(pos <= LN));
    sz* osz = (sz*)vf_alloc(8);
    c05_arm(); CH const* r = k_v_substr(v.p, pos, cnt, osz); c05_done();
    vf_assert(r == v.h + pos && *osz == (cnt < LN - pos ? cnt : LN - pos), "substr(pos,count) == [pos, pos + min(count, size() - pos))");
}
// compare(pos1, count1, ...) is documented as substr(pos1, count1).compare(...): precondition pos1 <= size() (and pos2 <= v.size())
Q q_v_cmp_pcsv()
{
    VW v = mkview(); CH* n = sym(NN); sz p1 = vf_nd_u64(), c1 = vf_nd_u64();
    C05_CLAUSE(0, SITE_basic_string_view_7, !(p1 <= LN));
    c05_arm(); (void)k_v_cmp_pcsv(v.p, p1, c1, n, NN); c05_done();
}
Q q_v_cmp_pcsvpc()
{
    VW v = mkview(); CH* n = sym(NN); sz p1 = vf_nd_u64(), c1 = vf_nd_u64(), p2 = vf_nd_u64(), c2 = vf_nd_u64();
    C05_CLAUSE(0, SITE_basic_string_view_7, !(p1 <= LN));
    C05_CLAUSE(1, SITE_basic_string_view_7, !(p2 <= NN));
    c05_arm(); (void)k_v_cmp_pcsvpc(v.p, p1, c1, n, NN, p2, c2); c05_done();
}
Q q_v_cmp_pcpc()
{
    VW v = mkview(); CH* n = sym(NN); sz p1 = vf_nd_u64(), c1 = vf_nd_u64(), c2 = vf_nd_u64();
    vf_assume(c2 <= NN); // [s, s + count2) must be a valid range: caller obligation no check can see
    C05_CLAUSE(0, SITE_basic_string_view_7, !(p1 <= LN));
    c05_arm(); (void)k_v_cmp_pcpc(v.p, p1, c1, n, c2); c05_done();
}

// =====================================================================================================================
// span<ELT> / span<ELT, LN>
// =====================================================================================================================
struct SW { ELT* d; void* p; };
static SW mkspan()
{
    SW s; s.d = (ELT*)d_sym_block(LN * sizeof(ELT)); s.p = d_sym_block(k_s_sizeof()); k_s_new(s.p, s.d, LN);
    c05_watch0(s.p, k_s_sizeof()); c05_watch1(s.d, LN * sizeof(ELT));
    return s;
}
Q q_s_front()
{
    SW s = mkspan();
    C05_CLAUSE(0, SITE_span_1, LN == 0);
    c05_arm(); ELT* r = k_s_front(s.p); c05_done();
    vf_assert(r == s.d, "front() is the first element");
}
Q q_s_back()
{
    SW s = mkspan();
    C05_CLAUSE(0, SITE_span_2, LN == 0);
    c05_arm(); ELT* r = k_s_back(s.p); c05_done();
    vf_assert(r == s.d + (LN - 1), "back() is the last element");
}
Q q_s_at()
{
    SW s = mkspan(); sz i = vf_nd_u64();
    C05_CLAUSE(0, SITE_span_3, !(i < LN));
    c05_arm(); ELT* r = k_s_at(s.p, i); c05_done();
    vf_assert(r == s.d + i, "operator[](idx) is element idx");
}
Q q_s_first()
{
    SW s = mkspan(); sz c = vf_nd_u64(); sz* osz = (sz*)vf_alloc(8);
    C05_CLAUSE(0, SITE_span_4, !(c <= LN));
    c05_arm(); ELT* r = k_s_first(s.p, c, osz); c05_done();
    vf_assert(r == s.d && *osz == c, "first(count)");
}
Q q_s_last()
{
    SW s = mkspan(); sz c = vf_nd_u64(); sz* osz = (sz*)vf_alloc(8);
    C05_CLAUSE(0, SITE_span_5, !(c <= LN));
    c05_arm(); ELT* r = k_s_last(s.p, c, osz); c05_done();
    vf_assert(r == s.d + (LN - c) && *osz == c, "last(count)");
}
Q q_s_subspan()
{
    SW s = mkspan(); sz off = vf_nd_u64(), c = vf_nd_u64(); sz* osz = (sz*)vf_alloc(8);
    C05_CLAUSE(0, SITE_span_6, !(off <= LN));
    C05_CLAUSE(1, SITE_span_7, off <= LN && c != NPOS && !(c <= LN - off));
    c05_arm(); ELT* r = k_s_subspan(s.p, off, c, osz); c05_done();
    vf_assert(r == s.d + off && *osz == (c == NPOS ? LN - off : c), "subspan(offset,count)");
}
Q q_s_subspan1()
{
    SW s = mkspan(); sz off = vf_nd_u64(); sz* osz = (sz*)vf_alloc(8);
    C05_CLAUSE(0, SITE_span_6, !(off <= LN));
    c05_arm(); ELT* r = k_s_subspan1(s.p, off, osz); c05_done();
    vf_assert(r == s.d + off && *osz == LN - off, "subspan(offset)");
}

// =====================================================================================================================
// array<ELT, LN>::operator[]: TETL_PRECONDITION_SAFE - checked in the _SAFE configuration only. In the default
// configuration the index is assumed valid (the unchecked violation is outside the claim: DESIGN.md C05 "out").
// =====================================================================================================================
#if LN > 0
Q q_a_at()
{
    ELT* a = (ELT*)d_sym_block(k_a_sizeof()); sz i = vf_nd_u64();
    c05_watch0(a, k_a_sizeof());
    if (!C05SAFE) vf_assume(i < LN);
    C05_CLAUSE(0, SITE_array_1, !(i < LN));
    c05_arm(); ELT* r = k_a_at(a, i); c05_done();
    vf_assert(r == a + i, "operator[](pos) is element pos");
}
Q q_a_at_c()
{
    ELT* a = (ELT*)d_sym_block(k_a_sizeof()); sz i = vf_nd_u64();
    c05_watch0(a, k_a_sizeof());
    if (!C05SAFE) vf_assume(i < LN);
    C05_CLAUSE(0, SITE_array_2, !(i < LN));
    c05_arm(); ELT const* r = k_a_at_c(a, i); c05_done();
    vf_assert(r == a + i, "operator[](pos) const is element pos");
}
#endif
