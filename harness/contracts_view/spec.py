import importlib.util
import os

import sys

c05 = sys.modules.get('c05spec_shared')   # one shared instance per process (site extraction is cached in it)
if c05 is None:
    _h = os.path.join(os.path.dirname(os.path.dirname(os.path.abspath(__file__))), 'contracts_common', 'c05spec.py')
    _s = importlib.util.spec_from_file_location('c05spec_shared', _h)
    c05 = importlib.util.module_from_spec(_s)
    sys.modules['c05spec_shared'] = c05
    _s.loader.exec_module(c05)
c05.ensure_header()

PROPERTIES = ['C05', 'C02']
KERNEL_FLAGS = c05.FLAGS
DRIVER_FLAGS = c05.FLAGS
INFO = c05.parse_driver(os.path.join(os.path.dirname(os.path.abspath(__file__)), 'driver.cpp'))

# entry -> (valid call possible?, set of clause indices whose violation is reachable) as functions of the configuration
def _always(cfg): return True
SV_ARG = ['v_at', 'v_rmpre', 'v_rmsuf', 'v_copy', 'v_substr', 'v_cmp_pcsv', 'v_cmp_pcpc']   # one argument clause, violable for every length
SV_EMPTY = ['v_front', 'v_back']                                                                 # violated exactly on the empty view
SP_ARG = ['s_at', 's_first', 's_last', 's_subspan1']
SP_EMPTY = ['s_front', 's_back']
ARR = ['a_at', 'a_at_c']


def shape(e, cfg):
    ln = cfg['LN']
    if e in ('v_at', 's_at'): return (ln > 0, {0})
    if e in SV_EMPTY or e in SP_EMPTY: return (ln > 0, {0} if ln == 0 else set())
    if e in ('v_cmp_pcsvpc', 's_subspan'): return (True, {0, 1})
    if e in ARR: return (True, {0} if cfg['C05SAFE'] else set())
    return (True, {0})


def _grid(tier, prop):
    if prop == 'C02':
        return [dict(CH='char', LN=n, SPX=0, C05SAFE=0) for n in ((0, 3) if tier == 'quick' else (0, 1, 2, 3, 4))]
    g = []
    if tier == 'quick':
        for n in (0, 1, 3): g.append(dict(CH='char', LN=n, SPX=0, C05SAFE=0))
        g.append(dict(CH='char', LN=3, SPX=1, C05SAFE=1))
        g.append(dict(CH='char', LN=1, SPX=1, C05SAFE=1))
    else:
        for safe in (0, 1):
            for n in range(0, 7):
                for spx in (0, 1):
                    g.append(dict(CH='char', LN=n, SPX=spx, C05SAFE=safe))
            for ch in ('char16_t', 'wchar_t'):
                for n in (0, 2, 5): g.append(dict(CH=ch, LN=n, SPX=0, C05SAFE=safe))
    return g


def queries(tier, prop='C05'):
    ub = prop == 'C02'
    out = []
    for cfg in _grid(tier, prop):
        ln = cfg['LN']
        es = SV_ARG + SV_EMPTY + ['v_cmp_pcsvpc'] + SP_ARG + SP_EMPTY + ['s_subspan'] + (ARR if ln > 0 else [])
        if cfg['CH'] != 'char': es = SV_ARG + SV_EMPTY + ['v_cmp_pcsvpc']
        if cfg['SPX'] and cfg['CH'] == 'char' and tier != 'quick': es = SP_ARG + SP_EMPTY + ['s_subspan'] + (ARR if ln > 0 else [])   # the string_view part does not depend on SPX
        for e in es:
            valid, reach = shape(e, cfg)
            if ub and not valid: continue
            blk = max(ln * 4, 16) + 3
            out.append(dict(entry='q_' + e, cfg=cfg, unwind=ln + 4,
                            unwindset=c05.unwindset(blk),
                            solver=['cadical', 'minisat'], budget=120, ub=ub, nofunc=ub, optional_witness=c05.optional(valid, reach, ub)))
    return out


def _note(tier):
    return c05.bounds_note(INFO, sorted({q['entry'] for q in queries(tier)}))


BOUNDS = {
    'quick': 'basic_string_view<char> / span<int> (dynamic extent) / array<int,LN> over an exact-size block of LN elements, LN in {0,1,3}, TETL_ENABLE_CONTRACT_CHECKS; '
             'LN in {1,3} again with span<int,LN> (static extent) under TETL_ENABLE_CONTRACT_CHECKS_SAFE (array::operator[] is checked there only); '
             'index / position / count / offset arguments unconstrained 64-bit (valid and violating in the same query), all characters/elements and the raw bytes of the view objects symbolic. ' + _note('quick'),
    'thorough': 'LN in 0..6 x {dynamic, static extent} x {CONTRACT_CHECKS, CONTRACT_CHECKS_SAFE}; basic_string_view also for char16_t and wchar_t at LN in {0,2,5}. ' + _note('thorough'),
}
ASSUMPTIONS = [
    'C05/view: the documented preconditions are: string_view operator[] pos < size(), front/back non-empty, remove_prefix/remove_suffix n <= size(), copy/substr/compare(pos1,...) pos <= size(); '
    'span front/back non-empty, operator[] idx < size(), first/last count <= size(), subspan offset <= size() and (count == dynamic_extent or count <= size() - offset); array operator[] pos < N',
    'C05/view: copy() gets a destination block of exactly min(count, size()-pos) characters for a valid call and an empty block for a violating one; compare(pos1,count1,s,count2) assumes count2 <= length of the block s points to',
    'C05/view: array::operator[] with pos >= N in the default TETL_ENABLE_CONTRACT_CHECKS build is not checked by tetl (TETL_PRECONDITION_SAFE) - index assumed valid there, violation only driven under _SAFE',
    'C05: "object unmodified" is checked on the bytes of the view object and of the viewed block, compared inside the handler with a snapshot taken before the call',
]
