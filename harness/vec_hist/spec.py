PROPERTIES = ['C01', 'C02']
BOUNDS = {
    'quick': 'histories of KSTEPS symbolic operations from the empty container, model compared after every step: static_vector (15 op codes) CAP 3 k=2 (int), CAP 2 k=2 (NT), CAP 1 k=3 (int); '
             'inplace_vector (9 op codes) CAP 2 k=3 (int, NT); stack (6 op codes) CAP 2 k=3 (int)',
    'thorough': 'static_vector CAP 3 k=3 and CAP 2 k=4 with the first op code enumerated (int), CAP 3 k=2 (POD, NT), CAP 2 k=3 (NT); inplace_vector CAP 3 k=4 (int, NT); stack CAP 3 k=4 (int, NT)',
}
ASSUMPTIONS = ['C01: history steps whose precondition does not hold in the current state are excluded by assume (the op code is symbolic, so every admissible sequence of the listed operations of length KSTEPS is covered)',
               'C01: histories do not include range insert/assign, swap and assignment (covered from every state by vec_step)']
SV_FIRST_OK = [0, 2, 3, 5, 6, 7, 8, 9, 10, 11, 12, 13, 14]   # op codes admissible in the empty vector


def uw(blk):
    return {'d_sym_block.0': blk, 'd_sym_block.1': blk, 'd_slack.0': blk, 'd_slack.1': blk,
            'll_memset.0': blk, 'll_memcpy.0': blk, 'll_memmove.0': blk, 'll_memmove.1': blk}


def q(entry, elt, cap, k, first=None, budget=900, solver='minisat'):
    cfg = {'ELT': elt, 'CAP': cap, 'KSTEPS': k}
    if first is not None: cfg['FIRST'] = first
    esz = 8 if elt == 1 else 4
    return dict(entry=entry, cfg=cfg, unwind=cap + 2, unwindset=uw(cap * esz + 18), budget=budget, solver=solver)


def queries(tier, prop='C01'):
    ub = prop == 'C02'
    out = []
    if tier == 'quick':
        out += [q('q_sv_hist', 0, 3, 2), q('q_sv_hist', 2, 2, 2), q('q_sv_hist', 0, 1, 3),
                q('q_iv_hist', 0, 2, 3), q('q_iv_hist', 2, 2, 3), q('q_st_hist', 0, 2, 3)]
    else:
        out += [q('q_sv_hist', 0, 3, 3, f, budget=2400) for f in SV_FIRST_OK]
        out += [q('q_sv_hist', 0, 2, 4, f, budget=2400) for f in SV_FIRST_OK]
        out += [q('q_sv_hist', 1, 3, 2, budget=900), q('q_sv_hist', 2, 3, 2, budget=900), q('q_sv_hist', 2, 2, 3, budget=1800)]
        out += [q('q_iv_hist', e, 3, 4, budget=900) for e in (0, 2)] + [q('q_st_hist', e, 3, 4, budget=900) for e in (0, 2)]
    for x in out:
        x['ub'] = ub; x['nofunc'] = ub
    return out
