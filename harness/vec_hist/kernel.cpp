// C01 history kernels: the wrappers live in ../vec_step/kernel.cpp.
#include "../vec_step/kernel.cpp"
