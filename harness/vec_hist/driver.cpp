// C01 history driver: KSTEPS symbolic operations (symbolic op code and arguments, each step constrained by the documented
// precondition of the chosen operation) starting from the EMPTY container; the model is compared after every step.
// This checks the installation path the step family relies on (default construction + appends) and operation sequences.
// FIRST >= 0 fixes the op code of the first step (thorough tier: one query per first operation).
#include "vf.h"
#include "../vec_step/elem.h"
#include "../vec_step/model.h"
#ifndef CAP
#define CAP 3
#endif
#ifndef KSTEPS
#define KSTEPS 2
#endif
#ifndef FIRST
#define FIRST (-1)
#endif
using u64 = uint64_t;
using M = Model<PV, CAP>;
#include "../vec_step/protos.h"
#include "../vec_step/common.h"
// the step loop is unrolled by hand (KSTEPS <= 6) so that --unwind only has to cover the container's own loops
#define REPEAT_K(STMT)                                                                                                   \
    do {                                                                                                                 \
        { unsigned s = 0; if (KSTEPS > 0) { STMT; } } { unsigned s = 1; if (KSTEPS > 1) { STMT; } } { unsigned s = 2; if (KSTEPS > 2) { STMT; } } \
        { unsigned s = 3; if (KSTEPS > 3) { STMT; } } { unsigned s = 4; if (KSTEPS > 4) { STMT; } } { unsigned s = 5; if (KSTEPS > 5) { STMT; } } \
    } while (0)

#define SV_NOPS 15
// one symbolic operation on a static_vector; p may be replaced (copy / move construction)
static void sv_step(void* p, M& m, unsigned op, u64 a, u64 b, PV x)
{
    u64 r, e;
    switch (op) {
    case 0: vf_assume(m.n < CAP); k_sv_push_back_l(p, x); m.push_back(x); break;
    case 1: vf_assume(m.n > 0); k_sv_pop_back(p); m.pop_back(); break;
    case 2: vf_assume(m.n < CAP && a <= m.n); r = k_sv_insert_l(p, a, x); e = m.insert_fill((unsigned)a, 1, x); vf_assert(r == e, "history: insert(pos,const&) iterator"); break;
    case 3: vf_assume(a <= m.n && b <= CAP - m.n); r = k_sv_insert_fill(p, a, b, x); e = m.insert_fill((unsigned)a, (unsigned)b, x); vf_assert(r == e, "history: insert(pos,n,v) iterator"); break;
    case 4: vf_assume(a < m.n); r = k_sv_erase1(p, a); e = m.erase((unsigned)a, (unsigned)a + 1); vf_assert(r == e, "history: erase(pos) iterator"); break;
    case 5: vf_assume(a <= b && b <= m.n); r = k_sv_erase_range(p, a, b); e = m.erase((unsigned)a, (unsigned)b); vf_assert(r == e, "history: erase(first,last) iterator"); break;
    case 6: k_sv_clear(p); m.clear(); break;
    case 7: vf_assume(a <= CAP); k_sv_resize2(p, a, x); m.resize((unsigned)a, x); break;
    case 8: vf_assume(a <= CAP); k_sv_assign_fill(p, a, x); m.assign_fill((unsigned)a, x); break;
    case 9: vf_assume(m.n < CAP && a <= m.n); r = k_sv_emplace(p, a, x); e = m.insert_fill((unsigned)a, 1, x); vf_assert(r == e, "history: emplace iterator"); break;
    case 10: vf_assume(a <= CAP); k_sv_resize1(p, a); m.resize((unsigned)a, PV(0)); break;
    case 11: r = k_sv_free_erase(p, x); e = m.erase_if([x](PV y) { return pv_eq(y, x); }); vf_assert(r == e, "history: erase(c,v) count"); break;
    case 12: vf_assume(m.n < CAP); k_sv_emplace_back(p, x); m.push_back(x); break;
    case 13: { void* q = d_sym_block(k_sv_sizeof()); k_sv_copy_ctor(q, p); k_sv_clear(p); k_sv_copy_assign(p, q); break; } // copy out, clear, copy-assign back
    default: { void* q = d_sym_block(k_sv_sizeof()); k_sv_move_ctor(q, p); k_sv_move_assign(p, q); break; }               // move out, move-assign back
    }
}
static inline void sv_one(void* p, M& m, unsigned s)
{
    unsigned op = (s == 0 && FIRST >= 0) ? unsigned(FIRST) : unsigned(vf_nd_u8());
    u64 a = vf_nd_u64(), b = vf_nd_u64(); PV x = nd_pv();
    vf_assume(op < SV_NOPS);
    sv_step(p, m, op, a, b, x);
    sv_check(p, m);
}
Q q_sv_hist()
{
    M m; void* p = d_sym_block(k_sv_sizeof()); k_sv_new(p); sv_check(p, m);
    REPEAT_K(sv_one(p, m, s));
    if (m.n == CAP) vf_witness("history ends in a full vector");
}

#define IV_NOPS 9
static void iv_step(void* p, M& m, unsigned op, u64 a, PV x)
{
    u64 r;
    switch (op) {
    case 0: r = k_iv_try_push_back_l(p, x); if (m.n == CAP) { vf_assert(r == ~u64(0), "history: try_push_back on full returns null"); } else { vf_assert(r == m.n, "history: try_push_back pointer"); m.push_back(x); } break;
    case 1: r = k_iv_try_push_back_r(p, x); if (m.n == CAP) { vf_assert(r == ~u64(0), "history: try_push_back(&&) on full returns null"); } else { vf_assert(r == m.n, "history: try_push_back(&&) pointer"); m.push_back(x); } break;
    case 2: r = k_iv_try_emplace_back(p, x); if (m.n == CAP) { vf_assert(r == ~u64(0), "history: try_emplace_back on full returns null"); } else { vf_assert(r == m.n, "history: try_emplace_back pointer"); m.push_back(x); } break;
    case 3: vf_assume(m.n < CAP); r = k_iv_unchecked_push_back_l(p, x); vf_assert(r == m.n, "history: unchecked_push_back reference"); m.push_back(x); break;
    case 4: vf_assume(m.n < CAP); r = k_iv_unchecked_emplace_back(p, x); vf_assert(r == m.n, "history: unchecked_emplace_back reference"); m.push_back(x); break;
    case 5: vf_assume(m.n > 0); k_iv_pop_back(p); m.pop_back(); break;
    case 6: k_iv_clear(p); m.clear(); break;
    case 7: { void* q = d_sym_block(k_iv_sizeof()); k_iv_copy_ctor(q, p); vf_assume(m.n > 0); k_iv_pop_back(p); M c = m; iv_check(q, c); m.pop_back(); break; } // copy, pop the source: the copy keeps everything
    default: vf_assume(a < m.n); k_iv_set_at(p, a, x); m.a[a] = x; break;
    }
}
static inline void iv_one(void* p, M& m, unsigned s)
{
    unsigned op = (s == 0 && FIRST >= 0) ? unsigned(FIRST) : unsigned(vf_nd_u8());
    u64 a = vf_nd_u64(); PV x = nd_pv();
    vf_assume(op < IV_NOPS);
    iv_step(p, m, op, a, x);
    iv_check(p, m);
}
Q q_iv_hist()
{
    M m; void* p = d_sym_block(k_iv_sizeof()); k_iv_new(p); iv_check(p, m);
    REPEAT_K(iv_one(p, m, s));
    if (m.n == CAP) vf_witness("history ends in a full vector");
}

#define ST_NOPS 6
static inline void st_one(void* p, M& m, unsigned s)
{
    unsigned op = (s == 0 && FIRST >= 0) ? unsigned(FIRST) : unsigned(vf_nd_u8());
    PV x = nd_pv();
    vf_assume(op < ST_NOPS);
    switch (op) {
    case 0: vf_assume(m.n < CAP); k_st_push_l(p, x); m.push_back(x); break;
    case 1: vf_assume(m.n < CAP); k_st_push_r(p, x); m.push_back(x); break;
    case 2: vf_assume(m.n < CAP); k_st_emplace(p, x); m.push_back(x); break;
    case 3: vf_assume(m.n > 0); k_st_pop(p); m.pop_back(); break;
    case 4: vf_assume(m.n > 0); k_st_set_top(p, x); m.a[m.n - 1] = x; break;
    default: { void* q = d_sym_block(k_st_sizeof()); k_st_copy_ctor(q, p); vf_assume(m.n > 0); k_st_pop(p); M c = m; st_check(q, c); m.pop_back(); break; } // copy, pop the source: the copy keeps everything
    }
    st_check(p, m);
}
Q q_st_hist()
{
    M m; void* p = d_sym_block(k_st_sizeof()); k_st_new(p); st_check(p, m);
    REPEAT_K(st_one(p, m, s));
    if (m.n == CAP) vf_witness("history ends in a full stack");
}
