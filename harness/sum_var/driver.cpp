// C07 driver (variant): every query drives an etl::variant (through the kernels) and a std::variant over the same alternatives (here, compiled
// through the same pipeline) with the same operation from the same symbolic pre-state(s) and compares index() and the held value afterwards.
// Pre-states: active index symbolic in [0, NALT), 32-bit payload symbolic, object bytes before construction symbolic, constructor form symbolic.
#include <variant>
#include <utility>
#include <type_traits>
#include "varcfg.h"
#include "vf.h"
using SV = std::variant<VAR_ALTS>;
extern "C" {
u64 k_v_sizeof(); u64 k_v_variant_size();
void k_v_default(void*); void k_v_valueinit(void*); void k_v_inplace_index(void*, u64, PV); void k_v_inplace_type(void*, u64, PV); void k_v_conv_l(void*, u64, PV); void k_v_conv_r(void*, u64, PV);
void k_v_copy(void*, void const*); void k_v_move(void*, void*); void k_v_dtor(void*);
void k_v_asg_copy(void*, void const*); void k_v_asg_move(void*, void*); void k_v_asg_conv_l(void*, u64, PV); void k_v_asg_conv_r(void*, u64, PV);
PV k_v_emplace_index(void*, u64, PV); PV k_v_emplace_type(void*, u64, PV); void k_v_swap(void*, void*);
u64 k_v_index(void const*); bool k_v_holds(void const*, u64); bool k_v_get_if_index(void*, u64, PV*); bool k_v_get_if_index_c(void const*, u64, PV*);
bool k_v_get_if_type(void*, u64, PV*); bool k_v_get_if_type_c(void const*, u64, PV*); bool k_v_get_if_nullptr(u64); u64 k_v_get_if_off(void*, u64);
PV k_v_unchecked_get(void*, u64); PV k_v_subscript(void const*, u64); void k_v_write(void*, u64, PV); unsigned k_v_rel(void const*, void const*);
void k_v_visit(void*, unsigned, u64*); void k_v_visit2(void*, void const*, u64*); u64 k_v_visit_ret(void const*); void k_v_visit_mut(void*, PV); void k_v_visit_wi(void*, u64*);
void k_v_conv_src(void*, unsigned, PV); void k_v_asg_src(void*, unsigned, PV);
void k_v_conv_cstr(void*, char const*); void k_v_asg_cstr(void*, char const*);
}
struct St { u64 i; PV v; };
static St nd_state() { St s; s.i = vf_nd_u8(); s.v = vf_nd_u32(); vf_assume(s.i < NALT); return s; }
static void* new_v(St s)
{
    void* p = vf_sym_bytes(k_v_sizeof()); uint8_t how = vf_nd_u8(); vf_assume(how < 3);
    if (how == 0) k_v_inplace_index(p, s.i, s.v); else if (how == 1) k_v_inplace_type(p, s.i, s.v); else k_v_conv_l(p, s.i, s.v);
    return p;
}
static void std_v(SV& x, St s) { with_alt(s.i, [&](auto c) { x.template emplace<c.value>(mk<alt_t<c.value>>(s.v)); }); }
static PV std_payload(SV const& x) { PV r = 0; with_alt(x.index(), [&](auto c) { r = rd(*std::get_if<c.value>(&x)); }); return r; }
// the comparison every query ends with
static void same(void* p, SV const& s)
{
    u64 idx = k_v_index(p);
    vf_assert(idx == s.index(), "index() == std");
    PV* out = (PV*)vf_alloc(4);
    for (u64 i = 0; i < NALT; i++) {
        bool e = i == s.index();
        vf_assert(k_v_holds(p, i) == e, "holds_alternative<T> == std");
        *out = 0; vf_assert(k_v_get_if_index(p, i, out) == e, "get_if<I> non-null exactly for the active index");
        if (e) vf_assert(*out == std_payload(s), "*get_if<I> == std");
        *out = 0; vf_assert(k_v_get_if_type_c(p, i, out) == e, "get_if<T> (const) non-null exactly for the active alternative");
        if (e) vf_assert(*out == std_payload(s), "*get_if<T> (const) == std");
    }
}
#define ONE_STATE St sa = nd_state(); void* a = new_v(sa); SV xa; std_v(xa, sa); if (sa.i == 0) vf_witness("pre: first alternative"); if (sa.i == NALT - 1) vf_witness("pre: last alternative");
#define TWO_STATES St sa = nd_state(), sb = nd_state(); void* a = new_v(sa); void* b = new_v(sb); SV xa, xb; std_v(xa, sa); std_v(xb, sb); \
    if (sa.i == sb.i) vf_witness("same alternative"); if (sa.i < sb.i) vf_witness("lower/higher alternative"); if (sa.i > sb.i) vf_witness("higher/lower alternative"); \
    if (sa.i == NALT - 1 && sb.i == NALT - 1) vf_witness("both last alternative");

// lighter comparison used inside histories: active index and held value through one accessor each
static void same_light(void* p, SV const& s)
{
    u64 idx = k_v_index(p);
    vf_assert(idx == s.index(), "history: index() == std");
    if (idx == s.index()) { PV* out = (PV*)vf_alloc(4); *out = 0; vf_assert(k_v_get_if_index(p, idx, out) && *out == std_payload(s), "history: *get_if<index()> == std"); }
}
// ---- construction
Q q_ctor_default()
{
    void* p = vf_sym_bytes(k_v_sizeof()); bool alt = (vf_nd_u8() & 1) != 0; if (alt) k_v_default(p); else k_v_valueinit(p);
    SV s; same(p, s); vf_assert(k_v_variant_size() == std::variant_size_v<SV>, "variant_size"); k_v_dtor(p);
}
Q q_ctor_inplace()
{
    St s = nd_state(); void* p = vf_sym_bytes(k_v_sizeof()); bool ty = (vf_nd_u8() & 1) != 0; SV x;
    if (ty) { k_v_inplace_type(p, s.i, s.v); with_alt(s.i, [&](auto c) { x = SV(std::in_place_type<alt_t<c.value>>, mk<alt_t<c.value>>(s.v)); }); }
    else { k_v_inplace_index(p, s.i, s.v); with_alt(s.i, [&](auto c) { x = SV(std::in_place_index<c.value>, mk<alt_t<c.value>>(s.v)); }); }
    if (s.i == NALT - 1) vf_witness("last alternative");
    same(p, x); vf_assert(k_v_get_if_off(p, s.i) < k_v_sizeof(), "the alternative lives inside the variant object"); k_v_dtor(p);
}
Q q_ctor_conv()
{
    St s = nd_state(); void* p = vf_sym_bytes(k_v_sizeof()); bool rv = (vf_nd_u8() & 1) != 0; SV x;
    if (rv) { k_v_conv_r(p, s.i, s.v); with_alt(s.i, [&](auto c) { x = SV(mk<alt_t<c.value>>(s.v)); }); }
    else { k_v_conv_l(p, s.i, s.v); with_alt(s.i, [&](auto c) { alt_t<c.value> const t = mk<alt_t<c.value>>(s.v); x = SV(t); }); }
    if (s.i == NALT - 1) vf_witness("last alternative");
    same(p, x); k_v_dtor(p);
}
Q q_ctor_copy() { ONE_STATE void* p = vf_sym_bytes(k_v_sizeof()); k_v_copy(p, a); SV s(xa); same(p, s); same(a, xa); k_v_dtor(p); k_v_dtor(a); }
Q q_ctor_move() { ONE_STATE void* p = vf_sym_bytes(k_v_sizeof()); k_v_move(p, a); SV s(std::move(xa)); same(p, s); same(a, xa); k_v_dtor(p); k_v_dtor(a); }
// ---- assignment / emplace / swap
Q q_asg_copy() { TWO_STATES k_v_asg_copy(a, b); xa = xb; same(a, xa); same(b, xb); k_v_dtor(a); k_v_dtor(b); }
Q q_asg_move() { TWO_STATES k_v_asg_move(a, b); xa = std::move(xb); same(a, xa); same(b, xb); k_v_dtor(a); k_v_dtor(b); }
Q q_asg_self() { ONE_STATE k_v_asg_copy(a, a); SV const& r = xa; xa = r; same(a, xa); k_v_dtor(a); }
Q q_asg_conv()
{
    ONE_STATE St t = nd_state(); bool rv = (vf_nd_u8() & 1) != 0;
    if (rv) { k_v_asg_conv_r(a, t.i, t.v); with_alt(t.i, [&](auto c) { xa = mk<alt_t<c.value>>(t.v); }); }
    else { k_v_asg_conv_l(a, t.i, t.v); with_alt(t.i, [&](auto c) { alt_t<c.value> const u = mk<alt_t<c.value>>(t.v); xa = u; }); }
    if (t.i == sa.i) vf_witness("assign a value of the active alternative"); if (t.i != sa.i) vf_witness("assign a value of another alternative");
    same(a, xa); k_v_dtor(a);
}
Q q_emplace()
{
    ONE_STATE St t = nd_state(); bool ty = (vf_nd_u8() & 1) != 0; PV got, exp = 0;
    if (ty) { got = k_v_emplace_type(a, t.i, t.v); with_alt(t.i, [&](auto c) { exp = rd(xa.template emplace<alt_t<c.value>>(mk<alt_t<c.value>>(t.v))); }); }
    else { got = k_v_emplace_index(a, t.i, t.v); with_alt(t.i, [&](auto c) { exp = rd(xa.template emplace<c.value>(mk<alt_t<c.value>>(t.v))); }); }
    if (t.i == sa.i) vf_witness("emplace the active alternative"); if (t.i != sa.i) vf_witness("emplace another alternative");
    vf_assert(got == exp, "emplace returns a reference to the new value"); same(a, xa); k_v_dtor(a);
}
Q q_swap() { TWO_STATES k_v_swap(a, b); std::swap(xa, xb); same(a, xa); same(b, xb); k_v_dtor(a); k_v_dtor(b); }
Q q_swap_self() { ONE_STATE k_v_swap(a, a); xa.swap(xa); same(a, xa); k_v_dtor(a); }
// ---- observers
Q q_observe()
{
    ONE_STATE same(a, xa);
    PV* out = (PV*)vf_alloc(4);
    for (u64 i = 0; i < NALT; i++) {
        bool e = i == xa.index();
        *out = 0; vf_assert(k_v_get_if_index_c(a, i, out) == e && (!e || *out == std_payload(xa)), "get_if<I> (const) == std");
        *out = 0; vf_assert(k_v_get_if_type(a, i, out) == e && (!e || *out == std_payload(xa)), "get_if<T> == std");
        vf_assert(k_v_get_if_nullptr(i), "get_if(nullptr) == nullptr");
    }
    vf_assert(k_v_unchecked_get(a, sa.i) == std_payload(xa), "unchecked_get<index()> is the held value");
    vf_assert(k_v_subscript(a, sa.i) == std_payload(xa), "v[index_v<index()>] is the held value");
    vf_assert(k_v_get_if_off(a, sa.i) < k_v_sizeof(), "the alternative lives inside the variant object");
    PV y = vf_nd_u32(); k_v_write(a, sa.i, y); with_alt(sa.i, [&](auto c) { *std::get_if<c.value>(&xa) = mk<alt_t<c.value>>(y); }); same(a, xa);
    k_v_dtor(a);
}
Q q_rel() { TWO_STATES vf_assert(k_v_rel(a, b) == REL6(xa, xb), "variant op variant == std (six operators)"); k_v_dtor(a); k_v_dtor(b); }
// ---- visit
struct SRec {
    u64* log;
    template <class A> void operator()(A&& a) const
    {
        u64 n = log[0]++;
        log[1 + 2 * n] = alt_index<std::remove_cvref_t<A>>() | u64(std::is_const_v<std::remove_reference_t<A>>) << 8 | u64(std::is_rvalue_reference_v<A&&>) << 9;
        log[2 + 2 * n] = rd(a);
    }
    template <class A, class B> void operator()(A&& a, B&& b) const
    {
        u64 n = log[0]++;
        log[1 + 4 * n] = alt_index<std::remove_cvref_t<A>>() | u64(std::is_const_v<std::remove_reference_t<A>>) << 8 | u64(std::is_rvalue_reference_v<A&&>) << 9;
        log[2 + 4 * n] = rd(a);
        log[3 + 4 * n] = alt_index<std::remove_cvref_t<B>>() | u64(std::is_const_v<std::remove_reference_t<B>>) << 8 | u64(std::is_rvalue_reference_v<B&&>) << 9;
        log[4 + 4 * n] = rd(b);
    }
};
static u64* new_log(unsigned n) { u64* l = (u64*)vf_alloc(8 * n); for (unsigned i = 0; i < n; i++) l[i] = 0; return l; }
Q q_visit()
{
    ONE_STATE unsigned cat = vf_nd_u8(); vf_assume(cat < 3);
    u64* lg = new_log(5); u64* ex = new_log(5);   // room for two records: a second invocation would be logged, not lost
    k_v_visit(a, cat, lg);
    SRec r{ex}; if (cat == 0) std::visit(r, xa); else if (cat == 1) std::visit(r, std::as_const(xa)); else std::visit(r, std::move(xa));
    vf_assert(lg[0] == 1, "visit invokes the visitor exactly once");
    vf_assert((lg[1] & 0xff) == sa.i, "visit invokes the visitor with the active alternative");
    vf_assert(lg[1] == ex[1], "visit passes the alternative with the same type, constness and value category as std::visit");
    vf_assert(lg[2] == ex[2], "visit passes the held value");
    same(a, xa); k_v_dtor(a);
}
Q q_visit2()
{
    TWO_STATES u64* lg = new_log(9); u64* ex = new_log(9);
    k_v_visit2(a, b, lg); std::visit(SRec{ex}, xa, std::as_const(xb));
    vf_assert(lg[0] == 1, "visit(f, v, w) invokes the visitor exactly once");
    vf_assert((lg[1] & 0xff) == sa.i && (lg[3] & 0xff) == sb.i, "visit(f, v, w) invokes the visitor with the active alternatives");
    vf_assert(lg[1] == ex[1] && lg[3] == ex[3], "visit(f, v, w): same types, constness and value categories as std::visit");
    vf_assert(lg[2] == ex[2] && lg[4] == ex[4], "visit(f, v, w) passes the held values");
    same(a, xa); same(b, xb); k_v_dtor(a); k_v_dtor(b);
}
Q q_visit_ret()
{
    ONE_STATE u64 e = std::visit([](auto const& x) -> u64 { return u64(alt_index<std::remove_cvref_t<decltype(x)>>()) << 56 | (u64(rd(x)) + 1); }, std::as_const(xa));
    vf_assert(k_v_visit_ret(a) == e, "visit returns the visitor's result for the active alternative"); k_v_dtor(a);
}
Q q_visit_mut()
{
    ONE_STATE PV y = vf_nd_u32(); k_v_visit_mut(a, y); std::visit([y](auto& x) { x = mk<std::remove_cvref_t<decltype(x)>>(y); }, xa);
    same(a, xa); k_v_dtor(a);
}
Q q_visit_wi()
{
    ONE_STATE u64* lg = new_log(5); k_v_visit_wi(a, lg);
    vf_assert(lg[0] == 1, "visit_with_index invokes the visitor exactly once");
    vf_assert((lg[1] & 0xffff) == sa.i && (lg[1] >> 16) == sa.i, "visit_with_index: param.index and the type of param.value() are the active alternative");
    vf_assert(lg[2] == std_payload(xa), "visit_with_index: param.value() is the held value");
    k_v_dtor(a);
}
// ---- converting construction / assignment from types that are not alternatives
#if VSET == 1 || VSET == 3
Q q_conv_src()
{
    unsigned src = vf_nd_u8(); vf_assume(src < 4); PV x = vf_nd_u32(); void* p = vf_sym_bytes(k_v_sizeof()); k_v_conv_src(p, src, x);
    SV s = src == 0 ? SV(short(x)) : src == 1 ? SV((unsigned char)(x)) : src == 2 ? SV(bool(x & 1)) : SV((signed char)(x));
    same(p, s);
    ONE_STATE k_v_asg_src(a, src, x);
    switch (src) { case 0: xa = short(x); break; case 1: xa = (unsigned char)(x); break; case 2: xa = bool(x & 1); break; default: xa = (signed char)(x); break; }
    same(a, xa); k_v_dtor(a); k_v_dtor(p);
}
#endif
#if VSET == 5
// variant<bool, CS>: a `char const*` argument. std (P0608R3 / [variant.ctor]: only alternatives for which `T_i x[] = {std::forward<T>(t)};` is well-formed
// take part, so the narrowing pointer->bool conversion is excluded) selects CS; plain overload resolution selects bool.
Q q_conv_cstr()
{
    char const* s = (char const*)vf_alloc(1);
    VF_KNOWN(C07_variant_converting_ctor_narrowing, true);
    void* p = vf_sym_bytes(k_v_sizeof()); k_v_conv_cstr(p, s); SV x(s); same(p, x);
    ONE_STATE k_v_asg_cstr(a, s); xa = s; same(a, xa); k_v_dtor(a); k_v_dtor(p);
}
#endif
// ---- histories: symbolic operations on two objects starting from default-constructed ones; full comparison after every step
template <unsigned MASK> static void hist(unsigned steps)
{
    void* a = vf_sym_bytes(k_v_sizeof()); void* b = vf_sym_bytes(k_v_sizeof()); k_v_default(a); k_v_default(b); SV xa, xb;
    unsigned moved = 0;
    for (unsigned i = 0; i < steps; i++) {
        uint8_t op = vf_nd_u8(); St t = nd_state(); vf_assume(op < 10);
        if (!((MASK >> op) & 1U)) { vf_assume(false); }
        switch (op) {
        case 0: if (!(MASK & 1U)) break; k_v_emplace_index(a, t.i, t.v); with_alt(t.i, [&](auto c) { xa.template emplace<c.value>(mk<alt_t<c.value>>(t.v)); }); break;
        case 1: if (!(MASK & 2U)) break; k_v_emplace_type(b, t.i, t.v); with_alt(t.i, [&](auto c) { xb.template emplace<alt_t<c.value>>(mk<alt_t<c.value>>(t.v)); }); break;
        case 2: if (!(MASK & 4U)) break; k_v_asg_conv_r(a, t.i, t.v); with_alt(t.i, [&](auto c) { xa = mk<alt_t<c.value>>(t.v); }); break;
        case 3: if (!(MASK & 8U)) break; k_v_asg_conv_l(b, t.i, t.v); with_alt(t.i, [&](auto c) { alt_t<c.value> const u = mk<alt_t<c.value>>(t.v); xb = u; }); break;
        case 4: if (!(MASK & 16U)) break; k_v_asg_copy(a, b); xa = xb; break;
        case 5: if (!(MASK & 32U)) break; k_v_asg_copy(b, a); xb = xa; break;
        case 6: if (!(MASK & 64U)) break; k_v_asg_move(a, b); xa = std::move(xb); break;
        case 7: if (!(MASK & 128U)) break; k_v_swap(a, b); std::swap(xa, xb); break;
        case 8: if (!(MASK & 256U)) break; k_v_visit_mut(a, t.v); std::visit([&](auto& x) { x = mk<std::remove_cvref_t<decltype(x)>>(t.v); }, xa); break;
        default: if (!(MASK & 512U)) break; k_v_asg_move(b, a); xb = std::move(xa); break;
        }
        same_light(a, xa); same_light(b, xb);
        if (NALT > 2 ? (xa.index() != 0 && xb.index() != 0 && xa.index() != xb.index()) : (xa.index() != xb.index())) moved++;
    }
    if (steps >= 2 && moved + 1 >= steps) vf_witness("history with two different (non-default, if there are more than two) alternatives from the second step on");
    same(a, xa); same(b, xb);
    vf_assert(k_v_rel(a, b) == REL6(xa, xb), "history: relational operators == std");
    k_v_dtor(a); k_v_dtor(b);
}
// operation sets: ALL = every kind; CORE = emplace on either object, copy/move assignment a = b, swap; CONV = converting assignment on either object, b = a (copy / move), visit-mutate
#define OPS_ALL 0x3ffU
#define OPS_CORE (1U | 2U | 16U | 64U | 128U)
#define OPS_CONV (4U | 8U | 32U | 256U | 512U | 1U)
Q q_hist2() { hist<OPS_ALL>(2); }
Q q_hist3() { hist<OPS_ALL>(3); }
Q q_hist4() { hist<OPS_ALL>(4); }
Q q_hist5() { hist<OPS_ALL>(5); }
Q q_hist3_core() { hist<OPS_CORE>(3); }
Q q_hist3_conv() { hist<OPS_CONV>(3); }
Q q_hist4_core() { hist<OPS_CORE>(4); }
Q q_hist4_conv() { hist<OPS_CONV>(4); }
Q q_hist5_core() { hist<OPS_CORE>(5); }
Q q_hist5_conv() { hist<OPS_CONV>(5); }
