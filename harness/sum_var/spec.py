PROPERTIES = ['C07', 'C02']
BOUNDS = {
    'quick': 'variant<int,float,char> (trivial), variant<int,NT,NT2> (non-trivial copy/move/dtor paths), variant<int,NT> (two alternatives, assignment/swap/visit subset), '
             'variant<int,float,char,NT> (four alternatives, assignment/swap/visit subset): one operation from every pre-state (active index, 32-bit payload, object bytes '
             'before construction and constructor form all symbolic), every (from,to) index pair for assignment/swap/relational operators/two-variant visit; '
             'histories of 3 symbolic operations (10 operation kinds, two objects) from default-constructed; variant<bool,CS> converting construction from char const*',
    'thorough': 'all entries for all of the above plus variant<NT,int,NT2,short>; histories of 5 operations over all 10 kinds (three alternatives), of 4 over all kinds (two and four alternatives) and of 5 over two halves of the operation set (variant<int,float,char,NT>)',
}
ASSUMPTIONS = [
    'C07: etl::variant has no member swap, no throwing get<> and no valueless state: swap is etl::swap(a, b), values are read with get_if (etl) / std::get_if (std)',
    'C07: unchecked_get / operator[] / visit_with_index are etl extensions; they are checked against the held value of the std::variant inside their precondition I == index()',
    'C07: float alternatives are compared by bit pattern; relational operators use the built-in float comparison on both sides (NaN included)',
    'C07: the moved-from value of NT/NT2 is the marker their move operations leave; std and etl perform the same single move in every compared operation',
]
STEP = ['ctor_default', 'ctor_inplace', 'ctor_conv', 'ctor_copy', 'ctor_move', 'asg_copy', 'asg_move', 'asg_self', 'asg_conv', 'emplace', 'swap', 'swap_self',
        'observe', 'rel', 'visit', 'visit2', 'visit_ret', 'visit_mut', 'visit_wi']
SUBSET = ['ctor_conv', 'ctor_move', 'asg_copy', 'asg_move', 'asg_conv', 'emplace', 'swap', 'rel', 'visit', 'visit2']
UNWIND = 34   # vf_sym_bytes over sizeof(variant) <= 24, ll_undef_bytes for by-value temporaries, loops over the alternatives, history loops <= 5


def kf_open(i):
    import json, os
    p = os.path.join(os.path.dirname(os.path.abspath(__file__)), 'kf.json')
    ids = {k['id'] for k in json.load(open(p))} if os.path.exists(p) else set()
    p2 = os.path.join(os.path.dirname(os.path.abspath(__file__)), '..', '..', 'known_findings.json')
    if os.path.exists(p2):
        ids |= {k['id'] for k in json.load(open(p2)).get('open', [])}
    return i in ids


def queries(tier, prop='C07'):
    ub = prop == 'C02'
    out = []

    def add(e, vset, budget=120, solver='minisat', **kw):
        out.append(dict(entry='q_' + e, cfg={'VSET': vset}, unwind=UNWIND, unwindset={'ll_memset.0': 90, 'll_memcpy.0': 90}, budget=budget, solver=solver, ub=ub, nofunc=ub, **kw))
    quick = tier == 'quick'
    for vs in (1, 2):
        for e in STEP:
            add(e, vs)
        for h in (('hist2', 'hist3_core', 'hist3_conv') if quick else ('hist2', 'hist3', 'hist4', 'hist5')):
            add(h, vs, budget=300 if quick else 2400)
    add('conv_src', 1)
    for vs in (4, 3) + (() if quick else (6,)):
        for e in (SUBSET if quick else STEP):
            add(e, vs)
        if not quick:
            for h in ('hist2', 'hist3', 'hist4') + (('hist5_core', 'hist5_conv') if vs == 3 else ()):
                add(h, vs, budget=2400)
    if not quick:
        add('conv_src', 3)
    add('conv_cstr', 5, kf_only='C07_variant_converting_ctor_narrowing')
    if ub and quick:   # C02 quick: the non-trivial three-alternative instantiation only; C02 thorough runs the whole grid with the UB build
        out = [q for q in out if q['cfg']['VSET'] == 2 and not q['entry'].startswith('q_hist3')]
    return out
