// configuration of the sum_var family: the alternative list (-DVSET from spec.py) and index <-> type helpers shared by kernel and driver
#ifndef VARCFG_H
#define VARCFG_H
#include "../sum_opt/sum_types.h"
#ifndef VSET
#define VSET 1
#endif
// a view-like class with an implicit constructor from a C string (the classic `variant<bool, string>` converting-constructor case)
struct CS {
    char const* s;
    CS() noexcept : s(nullptr) {}
    CS(char const* p) noexcept : s(p) {}
    friend bool operator==(CS a, CS b) { return a.s == b.s; }
    friend bool operator!=(CS a, CS b) { return a.s != b.s; }
    friend bool operator<(CS a, CS b) { return a.s < b.s; }
    friend bool operator<=(CS a, CS b) { return a.s <= b.s; }
    friend bool operator>(CS a, CS b) { return a.s > b.s; }
    friend bool operator>=(CS a, CS b) { return a.s >= b.s; }
};
template <> struct pvx<bool> { static bool mk(PV x) { return (x & 1U) != 0; } static PV rd(bool a) { return a ? 1U : 0U; } };
template <> struct pvx<CS> { static CS mk(PV x) { return CS(reinterpret_cast<char const*>(static_cast<uintptr_t>(x))); } static PV rd(CS a) { return (PV) reinterpret_cast<uintptr_t>(a.s); } };
#if VSET == 1
#define VAR_ALTS int, float, char
#elif VSET == 2
#define VAR_ALTS int, NT, NT2
#elif VSET == 3
#define VAR_ALTS int, float, char, NT
#elif VSET == 4
#define VAR_ALTS int, NT
#elif VSET == 5
#define VAR_ALTS bool, CS
#elif VSET == 6
#define VAR_ALTS NT, int, NT2, short
#endif
template <unsigned long I, class... Ts> struct nth_alt;
template <class T0, class... Ts> struct nth_alt<0, T0, Ts...> { using type = T0; };
template <unsigned long I, class T0, class... Ts> struct nth_alt<I, T0, Ts...> : nth_alt<I - 1, Ts...> { };
template <unsigned long I> using alt_t = typename nth_alt<I, VAR_ALTS>::type;
template <class... Ts> struct count_alts { static constexpr unsigned long value = sizeof...(Ts); };
constexpr unsigned long NALT = count_alts<VAR_ALTS>::value;
template <unsigned long I> struct ic { static constexpr unsigned long value = I; };
template <class A, unsigned long I = 0> constexpr unsigned long alt_index()
{
    if constexpr (I >= NALT) { return NALT; } else if constexpr (__is_same(A, alt_t<I>)) { return I; } else { return alt_index<A, I + 1>(); }
}
// calls f(ic<I>{}) for the I equal to the run-time index i
template <unsigned long I = 0, class F> static inline void with_alt(unsigned long i, F&& f)
{
    if constexpr (I < NALT) { if (i == I) { f(ic<I>{}); } else { with_alt<I + 1>(i, f); } }
}
#define REL6(a, b) (unsigned((a) == (b)) | unsigned((a) != (b)) << 1 | unsigned((a) < (b)) << 2 | unsigned((a) <= (b)) << 3 | unsigned((a) > (b)) << 4 | unsigned((a) >= (b)) << 5)
#endif
