// C07 kernels (variant): thin wrappers around etl::variant<VAR_ALTS>, etl::get_if / holds_alternative / unchecked_get / visit / visit_with_index.
// No logic besides marshalling: objects are addressed through void*, the alternative is selected by a run-time index mapped to the
// compile-time index with with_alt(), values travel as their payload PV.
#include <etl/variant.hpp>
#include <etl/utility.hpp>
#include <etl/type_traits.hpp>
#include <etl/new.hpp>
#include "varcfg.h"
#include "vf.h" // after the library headers (K and Q are macros)
using V = etl::variant<VAR_ALTS>;
#define VR(p) (*static_cast<V*>(p))
#define VC(p) (*static_cast<V const*>(p))

K u64 k_v_sizeof() { return sizeof(V); }
K u64 k_v_variant_size() { return etl::variant_size_v<V>; }
// ---- construction / destruction
K void k_v_default(void* p) { ::new (p) V; }
K void k_v_valueinit(void* p) { ::new (p) V{}; }
K void k_v_inplace_index(void* p, u64 i, PV x) { with_alt(i, [&](auto c) { ::new (p) V(etl::in_place_index<c.value>, mk<alt_t<c.value>>(x)); }); }
K void k_v_inplace_type(void* p, u64 i, PV x) { with_alt(i, [&](auto c) { ::new (p) V(etl::in_place_type<alt_t<c.value>>, mk<alt_t<c.value>>(x)); }); }
K void k_v_conv_l(void* p, u64 i, PV x) { with_alt(i, [&](auto c) { alt_t<c.value> const t = mk<alt_t<c.value>>(x); ::new (p) V(t); }); }
K void k_v_conv_r(void* p, u64 i, PV x) { with_alt(i, [&](auto c) { ::new (p) V(mk<alt_t<c.value>>(x)); }); }
K void k_v_copy(void* p, void const* q) { ::new (p) V(VC(q)); }
K void k_v_move(void* p, void* q) { ::new (p) V(etl::move(VR(q))); }
K void k_v_dtor(void* p) { VR(p).~V(); }
// ---- assignment, emplace, swap
K void k_v_asg_copy(void* p, void const* q) { VR(p) = VC(q); }
K void k_v_asg_move(void* p, void* q) { VR(p) = etl::move(VR(q)); }
K void k_v_asg_conv_l(void* p, u64 i, PV x) { with_alt(i, [&](auto c) { alt_t<c.value> const t = mk<alt_t<c.value>>(x); VR(p) = t; }); }
K void k_v_asg_conv_r(void* p, u64 i, PV x) { with_alt(i, [&](auto c) { VR(p) = mk<alt_t<c.value>>(x); }); }
K PV k_v_emplace_index(void* p, u64 i, PV x) { PV r = 0; with_alt(i, [&](auto c) { r = rd(VR(p).template emplace<c.value>(mk<alt_t<c.value>>(x))); }); return r; }
K PV k_v_emplace_type(void* p, u64 i, PV x) { PV r = 0; with_alt(i, [&](auto c) { r = rd(VR(p).template emplace<alt_t<c.value>>(mk<alt_t<c.value>>(x))); }); return r; }
K void k_v_swap(void* p, void* q) { using etl::swap; swap(VR(p), VR(q)); }
// ---- observers
K u64 k_v_index(void const* p) { return VC(p).index(); }
K bool k_v_holds(void const* p, u64 i) { bool r = false; with_alt(i, [&](auto c) { r = etl::holds_alternative<alt_t<c.value>>(VC(p)); }); return r; }
K bool k_v_get_if_index(void* p, u64 i, PV* out) { bool r = false; with_alt(i, [&](auto c) { if (auto* a = etl::get_if<c.value>(&VR(p))) { *out = rd(*a); r = true; } }); return r; }
K bool k_v_get_if_index_c(void const* p, u64 i, PV* out) { bool r = false; with_alt(i, [&](auto c) { if (auto const* a = etl::get_if<c.value>(&VC(p))) { *out = rd(*a); r = true; } }); return r; }
K bool k_v_get_if_type(void* p, u64 i, PV* out) { bool r = false; with_alt(i, [&](auto c) { if (auto* a = etl::get_if<alt_t<c.value>>(&VR(p))) { *out = rd(*a); r = true; } }); return r; }
K bool k_v_get_if_type_c(void const* p, u64 i, PV* out) { bool r = false; with_alt(i, [&](auto c) { if (auto const* a = etl::get_if<alt_t<c.value>>(&VC(p))) { *out = rd(*a); r = true; } }); return r; }
K bool k_v_get_if_nullptr(u64 i) { bool r = false; with_alt(i, [&](auto c) { r = etl::get_if<c.value>(static_cast<V*>(nullptr)) == nullptr && etl::get_if<alt_t<c.value>>(static_cast<V const*>(nullptr)) == nullptr; }); return r; }
K u64 k_v_get_if_off(void* p, u64 i) { u64 r = ~u64(0); with_alt(i, [&](auto c) { if (auto* a = etl::get_if<c.value>(&VR(p))) { r = u64(reinterpret_cast<unsigned char*>(a) - static_cast<unsigned char*>(p)); } }); return r; }
// etl extensions (no std counterpart): unchecked_get<I> and operator[](index_v<I>), precondition I == index()
K PV k_v_unchecked_get(void* p, u64 i) { PV r = 0; with_alt(i, [&](auto c) { r = rd(etl::unchecked_get<c.value>(VR(p))); }); return r; }
K PV k_v_subscript(void const* p, u64 i) { PV r = 0; with_alt(i, [&](auto c) { r = rd(VC(p)[etl::index_v<c.value>]); }); return r; }
K void k_v_write(void* p, u64 i, PV x) { with_alt(i, [&](auto c) { *etl::get_if<c.value>(&VR(p)) = mk<alt_t<c.value>>(x); }); }
K unsigned k_v_rel(void const* p, void const* q) { return REL6(VC(p), VC(q)); }
// ---- visit. The visitor appends one record per invocation: log[0] = number of invocations, then per invocation
//      {alternative index deduced from the static argument type | const << 8 | rvalue << 9, payload}
struct Rec {
    u64* log;
    template <class A> void operator()(A&& a) const
    {
        using D = etl::remove_cvref_t<A>;
        u64 n = log[0]++;
        log[1 + 2 * n] = alt_index<D>() | u64(etl::is_const_v<etl::remove_reference_t<A>>) << 8 | u64(etl::is_rvalue_reference_v<A&&>) << 9;
        log[2 + 2 * n] = rd(a);
    }
    template <class A, class B> void operator()(A&& a, B&& b) const
    {
        u64 n = log[0]++;
        log[1 + 4 * n] = alt_index<etl::remove_cvref_t<A>>() | u64(etl::is_const_v<etl::remove_reference_t<A>>) << 8 | u64(etl::is_rvalue_reference_v<A&&>) << 9;
        log[2 + 4 * n] = rd(a);
        log[3 + 4 * n] = alt_index<etl::remove_cvref_t<B>>() | u64(etl::is_const_v<etl::remove_reference_t<B>>) << 8 | u64(etl::is_rvalue_reference_v<B&&>) << 9;
        log[4 + 4 * n] = rd(b);
    }
};
K void k_v_visit(void* p, unsigned cat, u64* log)
{
    Rec r{log};
    if (cat == 0) { etl::visit(r, VR(p)); } else if (cat == 1) { etl::visit(r, VC(p)); } else { etl::visit(r, etl::move(VR(p))); }
}
K void k_v_visit2(void* p, void const* q, u64* log) { etl::visit(Rec{log}, VR(p), VC(q)); }
// visitor with a result: payload + 1 of the active alternative, tagged with its index in the top byte
K u64 k_v_visit_ret(void const* p) { return etl::visit([](auto const& a) -> u64 { return u64(alt_index<etl::remove_cvref_t<decltype(a)>>()) << 56 | (u64(rd(a)) + 1); }, VC(p)); }
// visitor that assigns through the reference it is given
K void k_v_visit_mut(void* p, PV x) { etl::visit([x](auto& a) { a = mk<etl::remove_cvref_t<decltype(a)>>(x); }, VR(p)); }
// visit_with_index (etl extension): param.index must be the active index, param.value() the active alternative
K void k_v_visit_wi(void* p, u64* log)
{
    etl::visit_with_index([&](auto param) {
        u64 n = log[0]++;
        log[1 + 2 * n] = u64(param.index.value) | u64(alt_index<etl::remove_cvref_t<decltype(param.value())>>()) << 16;
        log[2 + 2 * n] = rd(param.value());
    }, VR(p));
}
#if VSET == 1 || VSET == 3
// converting construction / assignment from a type that is not itself an alternative (selected by overload resolution, [variant.ctor]/14)
// src: 0 short, 1 unsigned char, 2 bool, 3 signed char
K void k_v_conv_src(void* p, unsigned src, PV x)
{
    switch (src) {
    case 0: ::new (p) V(short(x)); break;
    case 1: ::new (p) V((unsigned char)(x)); break;
    case 2: ::new (p) V(bool(x & 1)); break;
    default: ::new (p) V((signed char)(x)); break;
    }
}
K void k_v_asg_src(void* p, unsigned src, PV x)
{
    switch (src) {
    case 0: VR(p) = short(x); break;
    case 1: VR(p) = (unsigned char)(x); break;
    case 2: VR(p) = bool(x & 1); break;
    default: VR(p) = (signed char)(x); break;
    }
}
#endif
#if VSET == 5
K void k_v_conv_cstr(void* p, char const* s) { ::new (p) V(s); }
K void k_v_asg_cstr(void* p, char const* s) { VR(p) = s; }
#endif
