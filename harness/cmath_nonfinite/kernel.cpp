// C16 kernels (approximating functions): thin wrappers; only their NaN / infinity argument handling is decided (DESIGN.md C16).
// CE=1: constant-evaluation path (gcem) forced, see cmath_exact/kernel.cpp.
#include <stdint.h>
#include <stddef.h>
#ifndef CE
#define CE 1
#endif
#if CE
#define __builtin_is_constant_evaluated() true
#endif
#include <etl/cmath.hpp>
#include "vf.h" // after the library headers (K and Q are macros)
#ifndef FT
#define FT float
#endif
#define U1(NAME) K FT k_##NAME(FT x) { return etl::NAME(x); }
// not here: log2, asin, acos, atan, atan2, tgamma, lgamma, beta - gcem computes them with long double (x86_fp80) intermediates,
// which the translator does not support
U1(sqrt) U1(exp) U1(log) U1(log10) U1(log1p) U1(sin) U1(cos) U1(tan)
U1(sinh) U1(cosh) U1(tanh) U1(asinh) U1(acosh) U1(atanh) U1(erf)
K FT k_pow(FT x, FT y) { return etl::pow(x, y); }
