// C16 driver (approximating functions): arguments restricted to NaN (any payload) and +-infinity, all symbolic; the
// result must be what ISO C Annex F requires for that argument (NaN / +-inf / +-0 / +-1 exactly, +-pi/2 within 2 ulp).
#include <stdint.h>
#include <limits>
#include "vf.h"
#ifndef DBL
#define DBL 0
#endif
#if DBL
#ifndef FT
#define FT double
#endif
typedef uint64_t UT;
#define MB 52
#define EB 11
static FT nd() { return vf_nd_double(); }
#else
#ifndef FT
#define FT float
#endif
typedef uint32_t UT;
#define MB 23
#define EB 8
static FT nd() { return vf_nd_float(); }
#endif
#include "../cmath_exact/ieee_ref.h"
#define D1(NAME) FT k_##NAME(FT);
extern "C" {
D1(sqrt) D1(exp) D1(log) D1(log10) D1(log1p) D1(sin) D1(cos) D1(tan)
D1(sinh) D1(cosh) D1(tanh) D1(asinh) D1(acosh) D1(atanh) D1(erf)
FT k_pow(FT, FT);
}
static const FT INF = std::numeric_limits<FT>::infinity();
static const FT HALF_PI = FT(1.5707963267948966192313216916397514L);
// expected-result classes
enum { R_NAN, R_PINF, R_NINF, R_PZERO, R_PONE, R_NONE, R_PHALFPI, R_NHALFPI };
static bool is_class(FT r, int c)
{
    switch (c) {
    case R_NAN: return is_nan(r);
    case R_PINF: return bits(r) == bits(INF);
    case R_NINF: return bits(r) == bits(-INF);
    case R_PZERO: return bits(r) == 0;
    case R_PONE: return r == FT(1);
    case R_NONE: return r == FT(-1);
    case R_PHALFPI: return r >= fromb(bits(HALF_PI) - 2) && r <= fromb(bits(HALF_PI) + 2);
    default: return -r >= fromb(bits(HALF_PI) - 2) && -r <= fromb(bits(HALF_PI) + 2);
    }
}
// one query per function: x in {NaN, +inf, -inf}; expected class for NaN is always NaN
#define NONFIN(NAME, PINF_CLASS, NINF_CLASS) NONFIN_K(NAME, PINF_CLASS, NINF_CLASS, (void)0)
#define NONFIN_K(NAME, PINF_CLASS, NINF_CLASS, KNOWN)                                                                  \
    Q q_##NAME()                                                                                                       \
    {                                                                                                                  \
        FT x = nd();                                                                                                   \
        vf_assume(!is_fin(x));                                                                                         \
        KNOWN;                                                                                                         \
        FT r = k_##NAME(x);                                                                                            \
        vf_assert(is_class(r, is_nan(x) ? R_NAN : sgn(x) ? NINF_CLASS : PINF_CLASS), #NAME "(NaN) is NaN, " #NAME "(+inf) is " #PINF_CLASS ", " #NAME "(-inf) is " #NINF_CLASS); \
    }
NONFIN(sqrt, R_PINF, R_NAN)
NONFIN(exp, R_PINF, R_PZERO)
NONFIN(log, R_PINF, R_NAN)
NONFIN(log10, R_PINF, R_NAN)
NONFIN(log1p, R_PINF, R_NAN)
NONFIN(sin, R_NAN, R_NAN)
NONFIN(cos, R_NAN, R_NAN)
NONFIN(tan, R_NAN, R_NAN)
NONFIN(sinh, R_PINF, R_NINF)
NONFIN(cosh, R_PINF, R_PINF)
NONFIN_K(tanh, R_PONE, R_NONE, VF_KNOWN(C16_tanh_ce_inf, is_inf(x)))
NONFIN_K(asinh, R_PINF, R_NINF, VF_KNOWN(C16_asinh_ce_neginf, is_inf(x) && sgn(x)))
NONFIN(acosh, R_PINF, R_NAN)
NONFIN(atanh, R_NAN, R_NAN)
NONFIN(erf, R_PONE, R_NONE)
