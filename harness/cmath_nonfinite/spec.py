"""C16, approximating <cmath> functions: only the NaN / infinity argument rules of ISO C Annex F are decided (DESIGN.md C16).
Also serves C02 with the UB build of the same queries."""
PROPERTIES = ['C16', 'C02']
BOUNDS = {
    'quick': ('float, constant-evaluation path (gcem, CE=1): the argument ranges over EVERY NaN bit pattern and +-infinity (symbolic) for sqrt, exp, log, log10, log1p, sin, cos, tan, '
              'sinh, cosh, tanh, asinh, acosh, atanh, erf; the result must be exactly what ISO C Annex F.10 requires (NaN, +-inf, +0, +-1). '
              'gcem recursion unwound 40 levels for tanh/sin/cos/tan (the argument reaches the continued fraction), 2 levels elsewhere (infeasible for non-finite arguments; unwinding assertions on)'),
    'thorough': 'as quick, for float and double',
}
ASSUMPTIONS = [
    'C16 (approximating set): finite arguments are outside the claim (relative error against libm is not encodable, DESIGN.md); decided only: NaN and +-infinity arguments of the unary functions listed in BOUNDS',
    'C16 (approximating set): not encoded - log2, asin, acos, atan, atan2, tgamma, lgamma, beta (gcem evaluates them with long double / x86_fp80 intermediates, which the translator does not support), '
    'pow and the two-argument special-case tables, <complex>; the run-time path of these functions is __builtin_* (libm itself)',
    'C16 (approximating set): CE=1 executes the constant-evaluation branch at run time; in a real constant expression an operation that produces NaN or overflows is rejected by the compiler instead',
]
FUNCS = ['sqrt', 'exp', 'log', 'log10', 'log1p', 'sin', 'cos', 'tan', 'sinh', 'cosh', 'tanh', 'asinh', 'acosh', 'atanh', 'erf']
UNW = {'tanh': 40, 'sin': 40, 'cos': 40, 'tan': 40}


def queries(tier, prop='C16'):
    ub = prop == 'C02'
    out = []
    for dbl in ((False,) if tier == 'quick' else (False, True)):
        for f in FUNCS:
            out.append(dict(entry='q_' + f, cfg={'FT': 'double' if dbl else 'float', 'DBL': int(dbl), 'CE': 1}, unwind=UNW.get(f, 2), solver='cadical', budget=120 if tier == 'quick' else 600,
                            ub=ub, nofunc=ub))
    return out
