// C06 driver (family alg_spec): sorting / partitioning family against specification predicates:
// sorted w.r.t. the comparator, permutation of the input (element-count equality), stability through identity tags,
// partition predicates. inplace_merge and stable_partition have a unique result, which is computed with libstdc++'s
// std::merge / std::copy_if + std::remove_copy_if (through the pipeline) on a copy.
#include "../alg_std/alg_iters.h"
#include <algorithm>

extern "C" {
void k_sort(T*, int); void k_stable_sort(T*, int); void k_partial_sort(T*, int, int); void k_nth_element(T*, int, int);
void k_bubble_sort(T*, int); void k_insertion_sort(T*, int); void k_exchange_sort(T*, int); void k_merge_sort(T*, int); void k_gnome_sort(T*, int);
void k_inplace_merge(T*, int, int); long k_stable_partition(T*, int, unsigned, int); long k_partition(T*, int, unsigned, int);
}
using SF = fwd_it<T, std::forward_iterator_tag, std::ptrdiff_t>;
static inline SF sf(T* p) { return SF(p); }
// identity tags (stability): bits 16..31 of element i hold i, the comparator of the configuration looks at the key (low 16 bits) only
#if CMP == 2 || ELEM == 1
#define TAGGED 1
#else
#define TAGGED 0
#endif
static T* sym(int n)
{
    T* p = (T*)vf_alloc((uint64_t)n * sizeof(T));
    for (int i = 0; i < n; i++) { unsigned v = vf_nd_u32(); if (TAGGED) v = (v & 0xffffu) | (unsigned)i << 16; p[i] = mk_t(v); }
    return p;
}
static T* dup(T const* s, int n) { T* p = (T*)vf_alloc((uint64_t)n * sizeof(T)); for (int i = 0; i < n; i++) p[i] = s[i]; return p; }
static void same(T const* x, T const* y, int n, char const* what) { for (int i = 0; i < n; i++) vf_assert(bits(x[i]) == bits(y[i]), what); }
static int cnt(T const* a, int n, unsigned v) { int c = 0; for (int i = 0; i < n; i++) c += bits(a[i]) == v; return c; }
// outer loops over the (compile-time) length are unrolled through templates: nested counting loops would otherwise share one
// loop head in the IR and need an unwinding bound of LN*LN for every loop of the query
template <int I, int E, typename F> static inline void unrolled(F f) { if constexpr (I < E) { f(I); unrolled<I + 1, E>(f); } }
static void is_perm(T const* a, T const* a0, int n, char const* what) { unrolled<0, LN>([&](int i) { vf_assert(cnt(a, n, bits(a0[i])) == cnt(a0, n, bits(a0[i])), what); }); }
static void is_sorted_(T const* a, int lo, int hi, char const* what) { ord_t c; for (int i = lo; i + 1 < hi; i++) vf_assert(!c(a[i + 1], a[i]), what); }
// equivalent neighbours keep their original order: tags increase
static void is_stable(T const* a, int n, char const* what)
{
    ord_t c;
    for (int i = 0; i + 1 < n; i++) vf_assert(c(a[i], a[i + 1]) || (bits(a[i]) >> 16) < (bits(a[i + 1]) >> 16), what);
}
// two elements that are equivalent under the comparator of the configuration
static bool has_equiv(T const* a) { ord_t c; bool r = false; unrolled<0, LN>([&](int i) { for (int j = 0; j < LN; j++) r = r || (i < j && !c(a[i], a[j]) && !c(a[j], a[i])); }); return r; }
#define PRED unsigned pm = vf_nd_u32(); int pp = (int)vf_nd_u32(); upred P{pm, pp}

#define SORT_ENTRY(NAME, STABLE)                                                                                        \
    Q q_##NAME()                                                                                                       \
    {                                                                                                                  \
        T* a = sym(LN); T* a0 = dup(a, LN); k_##NAME(a, LN);                                                           \
        is_sorted_(a, 0, LN, #NAME ": result is sorted w.r.t. the comparator");                                        \
        is_perm(a, a0, LN, #NAME ": result is a permutation of the input");                                            \
        if (STABLE && TAGGED) is_stable(a, LN, #NAME ": equivalent elements keep their original order");               \
    }
#if IT == 0 || IT == 4
SORT_ENTRY(sort, 0)
SORT_ENTRY(stable_sort, 1)
Q q_bubble_sort()
{ // documented by etl: "The order of equal elements is guaranteed to be preserved"
    T* a = sym(LN); T* a0 = dup(a, LN);
    VF_KNOWN(C06_bubble_sort_unstable, TAGGED != 0 && has_equiv(a));
    k_bubble_sort(a, LN);
    is_sorted_(a, 0, LN, "bubble_sort: result is sorted w.r.t. the comparator"); is_perm(a, a0, LN, "bubble_sort: result is a permutation of the input");
    if (TAGGED) is_stable(a, LN, "bubble_sort: equivalent elements keep their original order (documented)");
}
SORT_ENTRY(insertion_sort, 1) // documented stable
SORT_ENTRY(exchange_sort, 0)
SORT_ENTRY(merge_sort, 0)
Q q_partial_sort()
{
    T* a = sym(LN); int mid = (int)vf_nd_u32(); vf_assume(mid >= 0 && mid <= LN); T* a0 = dup(a, LN); k_partial_sort(a, mid, LN); ord_t c;
    if (mid > 0 && mid < LN) vf_witness("partial_sort proper middle");
    for (int i = 0; i + 1 < mid; i++) vf_assert(!c(a[i + 1], a[i]), "partial_sort: [first, middle) is sorted");
    unrolled<0, LN>([&](int i) { for (int j = 0; j < LN; j++) if (i < mid && j >= mid) vf_assert(!c(a[j], a[i]), "partial_sort: nothing in [middle, last) is less than an element of [first, middle)"); });
    is_perm(a, a0, LN, "partial_sort: result is a permutation of the input");
}
Q q_nth_element()
{
    T* a = sym(LN); int nth = (int)vf_nd_u32(); vf_assume(nth >= 0 && nth <= LN); T* a0 = dup(a, LN); k_nth_element(a, nth, LN); ord_t c;
    unrolled<0, LN>([&](int i) { for (int j = 0; j < LN; j++) if (i < nth && j >= nth) vf_assert(!c(a[j], a[i]), "nth_element: no element of [nth, last) is less than an element of [first, nth)"); });
    is_perm(a, a0, LN, "nth_element: result is a permutation of the input");
}
Q q_inplace_merge()
{
    T* a = sym(LN); int mid = (int)vf_nd_u32(); vf_assume(mid >= 0 && mid <= LN);
    vf_assume(std::is_sorted(a, a + mid, ord_t{}) && std::is_sorted(a + mid, a + LN, ord_t{}));
    T* e = (T*)vf_alloc((uint64_t)LN * sizeof(T)); std::merge(sf(a), sf(a + mid), sf(a + mid), sf(a + LN), sf(e), ord_t{});
    if (mid > 0 && mid < LN) vf_witness("inplace_merge proper middle");
    k_inplace_merge(a, mid, LN); same(a, e, LN, "inplace_merge == stable merge of the two halves (std::merge)");
}
Q q_stable_partition()
{
    T* a = sym(LN); PRED; T* e = (T*)vf_alloc((uint64_t)LN * sizeof(T));
    T* m = std::copy_if(a, a + LN, e, P); std::remove_copy_if(a, a + LN, m, P);
    long r = k_stable_partition(a, LN, pm, pp);
    vf_assert(r == m - e, "stable_partition: returns first + number of elements satisfying the predicate"); same(a, e, LN, "stable_partition: both groups keep their relative order");
}
#endif
#if IT == 0 || IT == 2 || IT == 4
SORT_ENTRY(gnome_sort, 0)
#endif
Q q_partition()
{
    T* a = sym(LN); PRED; T* a0 = dup(a, LN); long r = k_partition(a, LN, pm, pp);
    vf_assert(r == std::count_if(a0, a0 + LN, P), "partition: returns first + number of elements satisfying the predicate");
    for (int i = 0; i < LN; i++) vf_assert(P(a[i]) == (i < r), "partition: elements satisfying the predicate precede the others");
    is_perm(a, a0, LN, "partition: result is a permutation of the input");
}
