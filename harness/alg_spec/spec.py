PROPERTIES = ['C06', 'C02']
BOUNDS = {
    'quick': 'move-observable element type (ELEM=2) for partition, stable_partition, inplace_merge at length 0, 2, 3; otherwise length 0..4 (enumerated; merge_sort 0..2 with pointers / 0..3 index-based, exchange_sort and bubble_sort 0..3 with pointers, stable_partition 0..2 pointers / 0..3 index-based), element values / predicate parameters / middle / nth symbolic; comparators: default overload, greater, key-only with identity tags (stability); pointer iterators and an index-based random-access iterator wrapper (partition also forward-only, gnome_sort also bidirectional)',
    'thorough': 'length 0..5 for sort/stable_sort/insertion_sort/gnome_sort/nth_element/inplace_merge and (index-based iterator) bubble_sort/exchange_sort, 0..4 for partial_sort and pointer exchange_sort/stable_partition(index-based; pointers 0..3), merge_sort 0..3 (pointers) / 0..4 (index-based), partition 0..6; additionally the struct element type (key, tag)',
}
ASSUMPTIONS = ['alg_spec: bubble_sort/exchange_sort compare iterators with <; for raw pointers CBMC models the comparison on integer addresses that may wrap, which makes the loop bound of bubble_sort unprovable from length 4 on: those two are checked with pointers up to length 3 and with the index-based random-access iterator wrapper (IT=4) beyond',
               'alg_spec: the sorting family is checked against specification predicates (sorted, permutation by element counts, stability by identity tags in bits 16..31), not against libstdc++ output; inplace_merge assumes both halves sorted (precondition) and is compared with std::merge; stable_partition with std::copy_if + std::remove_copy_if',
               'alg_spec: etl::inplace_merge and etl::stable_partition only instantiate for random-access iterators (the standard requires bidirectional): checked with pointers only']
SORTS = ['sort', 'stable_sort', 'bubble_sort', 'insertion_sort', 'exchange_sort', 'merge_sort', 'gnome_sort', 'partial_sort', 'nth_element']
QUADRATIC = ('gnome_sort', 'sort', 'partial_sort', 'nth_element', 'bubble_sort', 'exchange_sort', 'insertion_sort', 'stable_sort')
LINEAR = ['inplace_merge', 'stable_partition', 'partition']
import json, os
def open_ids():
    here = os.path.dirname(os.path.abspath(__file__)); ids = set()
    p = os.path.join(here, 'kf.json')
    if os.path.exists(p): ids |= {k['id'] for k in json.load(open(p))}
    kp = os.path.join(here, '..', '..', 'known_findings.json')
    if os.path.exists(kp): ids |= {k['id'] for k in json.load(open(kp)).get('open', []) if isinstance(k, dict)}
    return ids

def one(entry, n, it, cmp, elem, ub, budget):
    return dict(entry='q_' + entry, cfg={'LN': n, 'LM': 0, 'IT': it, 'CMP': cmp, 'ELEM': elem}, unwind=n * n + 2 if entry in QUADRATIC else n + 2,
                unwindset={'ll_memcpy.0': 4 * n + 6, 'll_memmove.0': 4 * n + 6, 'll_memmove.1': 4 * n + 6, 'll_undef_bytes.0': 34}, budget=budget, solver='cadical', ub=ub, nofunc=ub)

def queries(tier, prop='C06'):
    ub = prop == 'C02'; out = []
    q = tier == 'quick'
    budget = 240 if q else 900
    def cap(e, it):   # largest length per entry and iterator kind (measured cost, see BOUNDS)
        if e == 'merge_sort': return (2 if q else 3) if it == 0 else (3 if q else 4)
        if e == 'exchange_sort': return (3 if q else 4) if it == 0 else (4 if q else 5)
        if e == 'stable_partition': return ((2 if q else 3) if it == 0 else (3 if q else 4))
        if e == 'partial_sort' and it == 4: return 3 if q else 4
        if e == 'gnome_sort' and it == 2: return 3 if q else 4
        if e == 'inplace_merge': return 4 if q else 5
        if e == 'partial_sort': return 4
        if e in LINEAR: return 4 if q else 6
        if e == 'bubble_sort' and it == 0: return 3   # pointer '<' over CBMC's address model: see ASSUMPTIONS
        return 4 if q else 5
    for cmp, elem in ((0, 0), (1, 0), (2, 0)) + (() if q else ((0, 1),)):
        for e in SORTS:
            if q and cmp == 1 and e in ('partial_sort', 'nth_element', 'merge_sort', 'exchange_sort', 'gnome_sort'): continue
            for n in range(0, cap(e, 0) + 1):
                out.append(one(e, n, 0, cmp, elem, ub, budget))
        for e in LINEAR:
            if e != 'inplace_merge' and (cmp != 0): continue   # no comparator involved
            for n in range(0, cap(e, 0) + 1):
                out.append(one(e, n, 0, cmp, elem, ub, budget))
    for n in range(0, 6):
        if n <= cap('partition', 1): out.append(one('partition', n, 1, 0, 0, ub, budget))
        if n <= cap('gnome_sort', 2): out.append(one('gnome_sort', n, 2, 0, 0, ub, budget))
        if not q and n <= cap('gnome_sort', 2): out.append(one('gnome_sort', n, 2, 2, 0, ub, budget))
    # index-based random-access iterator: same algorithms, iterator arithmetic stays integer arithmetic (cheaper, reaches one length more)
    for e in SORTS + LINEAR:
        for cmp in (0, 2):
            if q and cmp == 2 and e not in ('merge_sort', 'exchange_sort', 'stable_sort', 'insertion_sort', 'bubble_sort'): continue
            if e in ('partition', 'stable_partition') and cmp != 0: continue
            for n in range(0, cap(e, 4) + 1): out.append(one(e, n, 4, cmp, 0, ub, budget))
    # move-observable element type (ELEM=2, see alg_common.h): the partitioning / merging algorithms that move elements
    for e in ('partition', 'stable_partition', 'inplace_merge'):
        for n in ((0, 2, 3) if q else range(0, cap(e, 0) + 1)):
            if n <= cap(e, 0) or e != 'stable_partition': out.append(one(e, n, 0, 0, 2, ub, budget))
    if ub:
        out = [x for x in out if x['cfg']['LN'] in (0, 3)]
    return out
