// C06 kernels (family alg_spec): sorting / partitioning algorithms of etl, checked against specification predicates.
#include "../alg_std/alg_iters.h"
#include <etl/algorithm.hpp>
#include <etl/iterator.hpp>

extern "C" {
int vf_sp_violation;
T* vf_in_front[2];
T* vf_out_front;
}
using dt = etl::ptrdiff_t;
#if IT == 0
using It = T*;
#elif IT == 1
using It = fwd_it<T, etl::forward_iterator_tag, dt>;
#elif IT == 2
using It = bidi_it<T, etl::bidirectional_iterator_tag, dt>;
#else
using It = ra_it<T, etl::random_access_iterator_tag, dt>;
#endif
// every kernel forms its iterators from the array start `a` (macro argument A) and an element offset
#if IT == 4
#define F(A, off) It((A), (off))
#define RAW(it, A) ((it).i)
#elif IT == 0
#define F(A, off) ((A) + (off))
#define RAW(it, A) ((it) - (A))
#else
#define F(A, off) It((A) + (off))
#define RAW(it, A) ((it).p - (A))
#endif

#if IT == 0 || IT == 4
K void k_sort(T* a, int n) { etl::sort(F(a, 0), F(a, n) COMMA_C); }
K void k_stable_sort(T* a, int n) { etl::stable_sort(F(a, 0), F(a, n) COMMA_C); }
K void k_partial_sort(T* a, int mid, int n) { etl::partial_sort(F(a, 0), F(a, mid), F(a, n) COMMA_C); }
K void k_nth_element(T* a, int nth, int n) { etl::nth_element(F(a, 0), F(a, nth), F(a, n) COMMA_C); }
K void k_bubble_sort(T* a, int n) { etl::bubble_sort(F(a, 0), F(a, n) COMMA_C); }
K void k_insertion_sort(T* a, int n) { etl::insertion_sort(F(a, 0), F(a, n) COMMA_C); }
K void k_exchange_sort(T* a, int n) { etl::exchange_sort(F(a, 0), F(a, n) COMMA_C); }
K void k_merge_sort(T* a, int n) { etl::merge_sort(F(a, 0), F(a, n) COMMA_C); }
// etl::inplace_merge / stable_partition use `mid + 1` / `l - f`: random access only (the standard asks for bidirectional)
K void k_inplace_merge(T* a, int mid, int n) { etl::inplace_merge(F(a, 0), F(a, mid), F(a, n) COMMA_C); }
K long k_stable_partition(T* a, int n, unsigned pm, int pp) { return RAW(etl::stable_partition(F(a, 0), F(a, n), upred{pm, pp}), a); }
#endif
#if IT == 0 || IT == 2 || IT == 4
K void k_gnome_sort(T* a, int n) { etl::gnome_sort(F(a, 0), F(a, n) COMMA_C); }
#endif
K long k_partition(T* a, int n, unsigned pm, int pp) { return RAW(etl::partition(F(a, 0), F(a, n), upred{pm, pp}), a); }
