// C18 driver (cstdlib): div family and labs/llabs against the definition in C11 7.22.6 (quot = algebraic quotient with the fraction
// discarded, quot * denom + rem == numer). Both operands symbolic over their full range inside the documented precondition
// (denom != 0, result representable). Loop-free, one query per function.
#include "vf.h"
extern "C" {
void k_div(int, int, int*, int*); void k_div_l(long, long, long*, long*); void k_div_ll(long long, long long, long long*, long long*);
void k_ldiv(long, long, long*, long*); void k_lldiv(long long, long long, long long*, long long*); void k_imaxdiv(long, long, long*, long*);
long k_labs(long); long long k_llabs(long long);
}
#define WIT(name) do { [[clang::nomerge]] vf_witness(name); } while (0)
Q q_div()
{
    int x = vf_nd_i32(), y = vf_nd_i32(); vf_assume(y != 0 && !(x == -2147483647 - 1 && y == -1));
    int* q = (int*)vf_alloc(4); int* r = (int*)vf_alloc(4);
    k_div(x, y, q, r);
    vf_assert(*q == x / y && *r == x % y, "div: quot == x / y, rem == x % y");
    // the definition itself, in 64-bit arithmetic: quot * y + rem == x, |rem| < |y|, rem has the sign of x
    long long Q_ = *q, R = *r, X = x, Y = y;
    vf_assert(Q_ * Y + R == X, "div: quot * denom + rem == numer");
    vf_assert((R < 0 ? -R : R) < (Y < 0 ? -Y : Y) && (R == 0 || (R < 0) == (X < 0)), "div: |rem| < |denom| and rem has the sign of numer (truncation toward zero)");
    if (x < 0 && y > 0 && *r != 0) WIT("negative_numer_inexact");
    if (x > 0 && y < 0 && *r != 0) WIT("negative_denom_inexact");
}
#define DIV64(NAME, T, KF)                                                                                             \
    Q q_##NAME()                                                                                                       \
    {                                                                                                                  \
        T x = (T)vf_nd_i64(), y = (T)vf_nd_i64(); vf_assume(y != 0 && !(x == (T)(-9223372036854775807LL - 1) && y == -1)); \
        T* q = (T*)vf_alloc(8); T* r = (T*)vf_alloc(8);                                                                 \
        KF(x, y, q, r);                                                                                                \
        vf_assert(*q == x / y && *r == x % y, #NAME ": quot == x / y, rem == x % y");                                  \
        if (x < 0 && y > 0 && *r != 0) WIT("negative_numer_inexact");                                                  \
    }
DIV64(div_l, long, k_div_l)
DIV64(div_ll, long long, k_div_ll)
DIV64(ldiv, long, k_ldiv)
DIV64(lldiv, long long, k_lldiv)
DIV64(imaxdiv, long, k_imaxdiv)
Q q_labs() { long n = (long)vf_nd_i64(); vf_assume(n != (long)(-9223372036854775807LL - 1)); long e = n < 0 ? -n : n; vf_assert(k_labs(n) == e, "labs(n) == |n|"); if (n < 0) WIT("negative"); }
Q q_llabs() { long long n = vf_nd_i64(); vf_assume(n != -9223372036854775807LL - 1); long long e = n < 0 ? -n : n; vf_assert(k_llabs(n) == e, "llabs(n) == |n|"); if (n < 0) WIT("negative"); }
