// C18 driver (cstdlib): div family and labs/llabs against the definition in C11 7.22.6 (quot = x / y: algebraic quotient with the
// fraction discarded, rem = x % y). Both operands symbolic over their full range inside the documented precondition
// (denom != 0, quotient representable). Loop-free, one query per function. No memory is involved (scalar kernels) so that the
// verification condition can also be handed to an SMT solver.
#include "vf.h"
extern "C" {
int k_div_q(int, int); int k_div_r(int, int); long k_div_l_q(long, long); long k_div_l_r(long, long); long long k_div_ll_q(long long, long long); long long k_div_ll_r(long long, long long);
long k_ldiv_q(long, long); long k_ldiv_r(long, long); long long k_lldiv_q(long long, long long); long long k_lldiv_r(long long, long long); long k_imaxdiv_q(long, long); long k_imaxdiv_r(long, long);
long k_labs(long); long long k_llabs(long long);
}
#define WIT(name) do { [[clang::nomerge]] vf_witness(name); } while (0)
Q q_div()
{
    int x = vf_nd_i32(), y = vf_nd_i32(); vf_assume(y != 0 && !(x == -2147483647 - 1 && y == -1));
    vf_assert(k_div_q(x, y) == x / y, "div: quot == x / y"); vf_assert(k_div_r(x, y) == x % y, "div: rem == x % y");
}
#define DIV64(NAME, T)                                                                                                 \
    Q q_##NAME()                                                                                                       \
    {                                                                                                                  \
        T x = (T)vf_nd_i64(), y = (T)vf_nd_i64(); vf_assume(y != 0 && !(x == (T)(-9223372036854775807LL - 1) && y == -1)); \
        vf_assert(k_##NAME##_q(x, y) == x / y, #NAME ": quot == x / y"); vf_assert(k_##NAME##_r(x, y) == x % y, #NAME ": rem == x % y"); \
    }
DIV64(div_l, long)
DIV64(div_ll, long long)
DIV64(ldiv, long)
DIV64(lldiv, long long)
DIV64(imaxdiv, long)
Q q_labs() { long n = (long)vf_nd_i64(); vf_assume(n != (long)(-9223372036854775807LL - 1)); long e = n < 0 ? -n : n; vf_assert(k_labs(n) == e, "labs(n) == |n|"); if (n < 0) WIT("negative"); }
Q q_llabs() { long long n = vf_nd_i64(); vf_assume(n != -9223372036854775807LL - 1); long long e = n < 0 ? -n : n; vf_assert(k_llabs(n) == e, "llabs(n) == |n|"); if (n < 0) WIT("negative"); }
