PROPERTIES = ['C18', 'C02']
BOUNDS = {
    'quick': 'div(int,int), div(long,long), div(long long,long long), ldiv, lldiv, imaxdiv, labs, llabs: every operand symbolic over its full 32/64-bit range '
             'inside the precondition (denominator != 0, quotient / absolute value representable); loop-free, exhaustive',
    'thorough': 'same as quick',
}
ASSUMPTIONS = [
    'C18: oracle = the definition of C11 7.22.6.2 (quot = x / y truncated toward zero, rem = x % y, quot * y + rem == x); for the 64-bit overloads the oracle is the '
    "driver's own x / y and x % y (separate translation unit); the multiplicative form quot * y + rem == x is not asserted (two 64/128-bit dividers or multipliers are out of reach of the SAT back ends: "
    "no verdict in 300 s); the div queries are decided by cvc5 on the verification condition exported by CBMC (the end witness by the SAT back end), labs/llabs by the SAT back end",
    'C18: y == 0 and (x == MIN, y == -1) / n == MIN are undefined in C and excluded',
]


def queries(tier, prop='C18'):
    ub = prop == 'C02'
    out = []
    for e in ['div', 'div_l', 'div_ll', 'ldiv', 'lldiv', 'imaxdiv', 'labs', 'llabs']:
        out.append(dict(entry='q_' + e, cfg={}, unwind=4, budget=120 if tier == 'quick' else 600, solver=(['cvc5', 'kissat'] if e not in ('labs', 'llabs') else ['cadical']), ub=ub, nofunc=ub))
    return out
