// C18 kernels (cstdlib div/ldiv/lldiv/imaxdiv, labs/llabs): results are passed out through pointers (scalar ABI). No logic.
#include "vf.h"
#include <etl/cstdlib.hpp>
K void k_div(int x, int y, int* q, int* r) { auto const d = etl::div(x, y); *q = d.quot; *r = d.rem; }
K void k_div_l(long x, long y, long* q, long* r) { auto const d = etl::div(x, y); *q = d.quot; *r = d.rem; }
K void k_div_ll(long long x, long long y, long long* q, long long* r) { auto const d = etl::div(x, y); *q = d.quot; *r = d.rem; }
K void k_ldiv(long x, long y, long* q, long* r) { auto const d = etl::ldiv(x, y); *q = d.quot; *r = d.rem; }
K void k_lldiv(long long x, long long y, long long* q, long long* r) { auto const d = etl::lldiv(x, y); *q = d.quot; *r = d.rem; }
K void k_imaxdiv(etl::intmax_t x, etl::intmax_t y, etl::intmax_t* q, etl::intmax_t* r) { auto const d = etl::imaxdiv(x, y); *q = d.quot; *r = d.rem; }
K long k_labs(long n) { return etl::labs(n); }
K long long k_llabs(long long n) { return etl::llabs(n); }
static_assert(sizeof(etl::intmax_t) == 8 && sizeof(long) == 8);
