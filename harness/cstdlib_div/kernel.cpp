// C18 kernels (cstdlib div/ldiv/lldiv/imaxdiv, labs/llabs): one scalar result per kernel (quot and rem separately), no logic.
#include "vf.h"
#include <etl/cstdlib.hpp>
K int k_div_q(int x, int y) { return etl::div(x, y).quot; }
K int k_div_r(int x, int y) { return etl::div(x, y).rem; }
K long k_div_l_q(long x, long y) { return etl::div(x, y).quot; }
K long k_div_l_r(long x, long y) { return etl::div(x, y).rem; }
K long long k_div_ll_q(long long x, long long y) { return etl::div(x, y).quot; }
K long long k_div_ll_r(long long x, long long y) { return etl::div(x, y).rem; }
K long k_ldiv_q(long x, long y) { return etl::ldiv(x, y).quot; }
K long k_ldiv_r(long x, long y) { return etl::ldiv(x, y).rem; }
K long long k_lldiv_q(long long x, long long y) { return etl::lldiv(x, y).quot; }
K long long k_lldiv_r(long long x, long long y) { return etl::lldiv(x, y).rem; }
K etl::intmax_t k_imaxdiv_q(etl::intmax_t x, etl::intmax_t y) { return etl::imaxdiv(x, y).quot; }
K etl::intmax_t k_imaxdiv_r(etl::intmax_t x, etl::intmax_t y) { return etl::imaxdiv(x, y).rem; }
K long k_labs(long n) { return etl::labs(n); }
K long long k_llabs(long long n) { return etl::llabs(n); }
static_assert(sizeof(etl::intmax_t) == 8 && sizeof(long) == 8);
