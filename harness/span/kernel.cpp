// C19 kernels (span family): thin wrappers around etl::span<ELT, LEN|dynamic_extent> and etl::array<ELT, LEN>.
// No logic besides marshalling: static template arguments (Count/Offset) are selected by a fold over all valid values.
#include "vf.h"
#include "c19_types.h"
#include <etl/array.hpp>
#include <etl/span.hpp>
#include <etl/utility.hpp>
#ifndef ELT
#define ELT int
#endif
#ifndef LEN
#define LEN 3
#endif
#ifndef STATIC_EXT
#define STATIC_EXT 0
#endif
using sz = etl::size_t;
constexpr sz DYN = etl::dynamic_extent;
using SP = etl::span<ELT, STATIC_EXT ? sz(LEN) : DYN>;
using AR = etl::array<ELT, LEN>;
static SP mk(ELT* p) { return SP{p, sz(LEN)}; }

K sz k_extent() { return SP::extent; }
K ELT* k_data(ELT* p) { return mk(p).data(); }
K sz k_size(ELT* p) { return mk(p).size(); }
K sz k_size_bytes(ELT* p) { return mk(p).size_bytes(); }
K bool k_empty(ELT* p) { return mk(p).empty(); }
K ELT* k_at(ELT* p, sz i) { return &mk(p)[i]; }
K ELT* k_front(ELT* p) { return &mk(p).front(); }
K ELT* k_back(ELT* p) { return &mk(p).back(); }
K ELT* k_begin(ELT* p) { return mk(p).begin(); }
K ELT* k_end(ELT* p) { return mk(p).end(); }
K ELT* k_rbegin_base(ELT* p) { return mk(p).rbegin().base(); }
K ELT* k_rend_base(ELT* p) { return mk(p).rend().base(); }
// addresses visited by forward / reverse iteration, in order; returns the number visited forward (or -1 if the two differ)
K sz k_iter(ELT* p, ELT** fwd, ELT** rev)
{
    auto s = mk(p); sz i = 0, j = 0;
    for (auto& x : s) { fwd[i++] = &x; }
    for (auto it = s.rbegin(); it != s.rend(); ++it) { rev[j++] = &*it; }
    return i == j ? i : sz(-1);
}
// dynamic-count subviews
K ELT* k_first_dyn(ELT* p, sz c, sz* osz) { auto r = mk(p).first(c); *osz = r.size(); return r.data(); }
K ELT* k_last_dyn(ELT* p, sz c, sz* osz) { auto r = mk(p).last(c); *osz = r.size(); return r.data(); }
K ELT* k_subspan_dyn(ELT* p, sz off, sz c, sz* osz) { auto r = mk(p).subspan(off, c); *osz = r.size(); return r.data(); }
K ELT* k_subspan_dyn1(ELT* p, sz off, sz* osz) { auto r = mk(p).subspan(off); *osz = r.size(); return r.data(); }
// copies what the subview addresses (through its own operator[]) into out
K void k_subspan_copy(ELT* p, sz off, sz c, ELT* out) { auto r = mk(p).subspan(off, c); for (sz k = 0; k < r.size(); ++k) { out[k] = r[k]; } }
// static-count subviews: Count/Offset are template arguments; every valid value is instantiated and selected by the run-time value
template <sz C> static ELT* first_c(SP s, sz* osz, sz* oext) { auto r = s.template first<C>(); *osz = r.size(); *oext = decltype(r)::extent; return r.data(); }
template <sz C> static ELT* last_c(SP s, sz* osz, sz* oext) { auto r = s.template last<C>(); *osz = r.size(); *oext = decltype(r)::extent; return r.data(); }
template <sz O, sz CI> static ELT* sub_c(SP s, sz* osz, sz* oext)
{
    if constexpr (O <= LEN && (CI == LEN + 1 || CI <= LEN - O)) {
        constexpr sz C = CI == LEN + 1 ? DYN : CI;
        auto r = s.template subspan<O, C>(); *osz = r.size(); *oext = decltype(r)::extent; return r.data();
    } else { return nullptr; }
}
K ELT* k_first_st(ELT* p, sz c, sz* osz, sz* oext)
{
    return [&]<sz... C>(etl::index_sequence<C...>) { ELT* r = nullptr; ((c == C ? void(r = first_c<C>(mk(p), osz, oext)) : void()), ...); return r; }(etl::make_index_sequence<LEN + 1>{});
}
K ELT* k_last_st(ELT* p, sz c, sz* osz, sz* oext)
{
    return [&]<sz... C>(etl::index_sequence<C...>) { ELT* r = nullptr; ((c == C ? void(r = last_c<C>(mk(p), osz, oext)) : void()), ...); return r; }(etl::make_index_sequence<LEN + 1>{});
}
// ci in 0..LEN: Count = ci; ci == LEN+1: Count = dynamic_extent (defaulted)
K ELT* k_subspan_st(ELT* p, sz off, sz ci, sz* osz, sz* oext)
{
    return [&]<sz... I>(etl::index_sequence<I...>) {
        ELT* r = nullptr;
        ((off == I / (LEN + 2) && ci == I % (LEN + 2) ? void(r = sub_c<I / (LEN + 2), I % (LEN + 2)>(mk(p), osz, oext)) : void()), ...);
        return r;
    }(etl::make_index_sequence<(LEN + 1) * (LEN + 2)>{});
}
// object representation views
#if 1   // (static-extent as_bytes compiles since d8762ce)
K void const* k_as_bytes(ELT* p, sz* osz, sz* oext) { auto r = etl::as_bytes(mk(p)); *osz = r.size(); *oext = decltype(r)::extent; return r.data(); }
K void* k_as_wbytes(ELT* p, sz* osz, sz* oext) { auto r = etl::as_writable_bytes(mk(p)); *osz = r.size(); *oext = decltype(r)::extent; return r.data(); }
#endif
// construction forms: from C array, from etl::array (mutable / const), between static and dynamic extent
#if LEN > 0
K ELT* k_from_carray(ELT* p, sz* osz, sz* oext) { auto& a = *reinterpret_cast<ELT(*)[LEN]>(p); etl::span s{a}; *osz = s.size(); *oext = decltype(s)::extent; return s.data(); }
K ELT* k_from_carray_dyn(ELT* p, sz* osz) { auto& a = *reinterpret_cast<ELT(*)[LEN]>(p); etl::span<ELT> s{a}; *osz = s.size(); return s.data(); }
#endif
K ELT* k_from_array(AR* a, sz* osz, sz* oext) { etl::span s{*a}; *osz = s.size(); *oext = decltype(s)::extent; return s.data(); }
K ELT const* k_from_carr_const(AR const* a, sz* osz, sz* oext) { etl::span s{*a}; *osz = s.size(); *oext = decltype(s)::extent; return s.data(); }
K ELT* k_from_array_dyn(AR* a, sz* osz) { etl::span<ELT> s{*a}; *osz = s.size(); return s.data(); }
K ELT* k_to_dyn(ELT* p, sz* osz) { etl::span<ELT> d{mk(p)}; *osz = d.size(); return d.data(); }
K ELT* k_to_static(ELT* p, sz* osz) { etl::span<ELT> d{p, sz(LEN)}; etl::span<ELT, LEN> s{d}; *osz = s.size(); return s.data(); }
K ELT const* k_to_const(ELT* p, sz* osz) { etl::span<ELT const> d{mk(p)}; *osz = d.size(); return d.data(); }
K sz k_default_size() { etl::span<ELT> s; return s.size() + sz(s.data() != nullptr) + sz(!s.empty()); }
// etl::array element access
K sz k_arr_sizeof() { return sizeof(AR); }
K sz k_arr_size(AR* a) { return a->size() + (a->max_size() - a->size()); }
K bool k_arr_empty(AR* a) { return a->empty(); }
K ELT* k_arr_data(AR* a) { return a->data(); }
K ELT const* k_arr_cdata(AR const* a) { return a->data(); }
K ELT* k_arr_begin(AR* a) { return a->begin(); }
K ELT* k_arr_end(AR* a) { return a->end(); }
K ELT const* k_arr_cbegin(AR const* a) { return a->cbegin(); }
K ELT const* k_arr_cend(AR const* a) { return a->cend(); }
K ELT* k_arr_rbegin_base(AR* a) { return a->rbegin().base(); }
K ELT* k_arr_rend_base(AR* a) { return a->rend().base(); }
#if LEN > 0
K ELT* k_arr_at(AR* a, sz i) { return &(*a)[i]; }
K ELT const* k_arr_cat(AR const* a, sz i) { return &(*a)[i]; }
K ELT* k_arr_front(AR* a) { return &a->front(); }
K ELT* k_arr_back(AR* a) { return &a->back(); }
K ELT const* k_arr_cfront(AR const* a) { return &a->front(); }
K ELT const* k_arr_cback(AR const* a) { return &a->back(); }
K ELT* k_arr_get(AR* a, sz i)
{
    return [&]<sz... I>(etl::index_sequence<I...>) { ELT* r = nullptr; ((i == I ? void(r = &etl::get<I>(*a)) : void()), ...); return r; }(etl::make_index_sequence<LEN>{});
}
#endif
