// element types shared by kernel.cpp and driver.cpp of the C19 families
#ifndef C19_TYPES_H
#define C19_TYPES_H
struct S12 { int a, b, c; };   // 12-byte element: pointer arithmetic must scale by 12
#endif
