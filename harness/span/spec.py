PROPERTIES = ['C19', 'C02']
BOUNDS = {
    'quick': 'span<T,N> and span<T> over a block of exactly N elements, N = 0..6 enumerated; offset/count/index symbolic over all of size_t under the documented precondition; '
             'first<C>/last<C>/subspan<O,C>: every valid (O,C) incl. defaulted Count instantiated and selected by a symbolic value; T = int; array<int,N> N = 0..6',
    'thorough': 'as quick with N = 0..8 and T in {int, unsigned char, long long, 12-byte struct} (element-copy check of subspan: int and unsigned char only)',
}
ASSUMPTIONS = ['C19/span: documented preconditions assumed: first/last count <= size(); subspan offset <= size() and (count == dynamic_extent or count <= size() - offset); operator[] idx < size(); front/back on non-empty',
               'C19/span: pointer identity is compared inside one exact-size block; forming (not dereferencing) the one-past-the-end pointer is allowed']
ESZ = {'int': 4, 'unsigned char': 1, 'long long': 8, 'S12': 12}
ALWAYS = ['observers', 'first_dyn', 'last_dyn', 'subspan_dyn', 'subspan_dyn1', 'subspan_copy', 'first_st', 'last_st', 'subspan_st', 'ctor']
NONEMPTY = ['access']
ARRAY = ['array']
ARRAY_NONEMPTY = ['array_access']

def queries(tier, prop='C19'):
    ub = prop == 'C02'
    nmax = 6 if tier == 'quick' else 8
    elts = ['int'] if tier == 'quick' else ['int', 'unsigned char', 'long long', 'S12']
    out = []
    for t in elts:
        for n in range(nmax + 1):
            for se in (0, 1):
                es = ALWAYS + (NONEMPTY if n else []) + ['bytes']
                if se == 0: es = es + ARRAY + (ARRAY_NONEMPTY if n else [])
                if ESZ[t] > 4:   # the element-by-element copy check with a symbolic offset does not finish in 120 s for 8/12-byte elements (thorough run): int and unsigned char only
                    es = [e for e in es if e != 'subspan_copy']
                for e in es:
                    out.append(dict(entry='q_' + e, cfg={'ELT': t, 'LEN': n, 'STATIC_EXT': se}, unwind=max(n * ESZ[t], 8) + 3, budget=120, ub=ub, nofunc=ub))
    return out
