// C19 driver (span family): a block of exactly LEN elements with symbolic contents; offsets/counts/indices symbolic over the
// full size_t range restricted only by the documented precondition; oracle = pointer arithmetic on the original block
// (cross-checked against libstdc++ std::span for the dynamic subviews). LEN, the element type and static/dynamic extent are enumerated.
#include "vf.h"
#include "c19_types.h"
#include <span>
#ifndef ELT
#define ELT int
#endif
#ifndef LEN
#define LEN 3
#endif
#ifndef STATIC_EXT
#define STATIC_EXT 0
#endif
using sz = size_t;
constexpr sz DYN = sz(-1);
struct AR;   // etl::array<ELT, LEN>, opaque here
extern "C" {
sz k_extent(); ELT* k_data(ELT*); sz k_size(ELT*); sz k_size_bytes(ELT*); bool k_empty(ELT*); ELT* k_at(ELT*, sz); ELT* k_front(ELT*); ELT* k_back(ELT*);
ELT* k_begin(ELT*); ELT* k_end(ELT*); ELT* k_rbegin_base(ELT*); ELT* k_rend_base(ELT*); sz k_iter(ELT*, ELT**, ELT**);
ELT* k_first_dyn(ELT*, sz, sz*); ELT* k_last_dyn(ELT*, sz, sz*); ELT* k_subspan_dyn(ELT*, sz, sz, sz*); ELT* k_subspan_dyn1(ELT*, sz, sz*); void k_subspan_copy(ELT*, sz, sz, ELT*);
ELT* k_first_st(ELT*, sz, sz*, sz*); ELT* k_last_st(ELT*, sz, sz*, sz*); ELT* k_subspan_st(ELT*, sz, sz, sz*, sz*);
void const* k_as_bytes(ELT*, sz*, sz*); void* k_as_wbytes(ELT*, sz*, sz*);
ELT* k_from_carray(ELT*, sz*, sz*); ELT* k_from_carray_dyn(ELT*, sz*); ELT* k_from_array(AR*, sz*, sz*); ELT const* k_from_carr_const(AR const*, sz*, sz*); ELT* k_from_array_dyn(AR*, sz*);
ELT* k_to_dyn(ELT*, sz*); ELT* k_to_static(ELT*, sz*); ELT const* k_to_const(ELT*, sz*); sz k_default_size();
sz k_arr_sizeof(); sz k_arr_size(AR*); bool k_arr_empty(AR*); ELT* k_arr_data(AR*); ELT const* k_arr_cdata(AR const*); ELT* k_arr_begin(AR*); ELT* k_arr_end(AR*);
ELT const* k_arr_cbegin(AR const*); ELT const* k_arr_cend(AR const*); ELT* k_arr_rbegin_base(AR*); ELT* k_arr_rend_base(AR*);
ELT* k_arr_at(AR*, sz); ELT const* k_arr_cat(AR const*, sz); ELT* k_arr_front(AR*); ELT* k_arr_back(AR*); ELT const* k_arr_cfront(AR const*); ELT const* k_arr_cback(AR const*); ELT* k_arr_get(AR*, sz);
}
// exact-size block of LEN elements, every byte symbolic
static ELT* sym() { return (ELT*)vf_sym_bytes(LEN * sizeof(ELT)); }
static sz* cell() { return (sz*)vf_alloc(sizeof(sz)); }
static bool same(ELT const* a, ELT const* b) { unsigned char const* x = (unsigned char const*)a; unsigned char const* y = (unsigned char const*)b; for (sz k = 0; k < sizeof(ELT); k++) if (x[k] != y[k]) return false; return true; }
// a subview (d, n) of the block p: exactly the elements p[off .. off+n) and nothing outside the block
#define SUBVIEW_IS(d, n, off, cnt, what)                                                                                                   \
    do {                                                                                                                                   \
        vf_assert((d) == p + (off), what ": data() == original data + offset");                                                            \
        vf_assert((n) == (cnt), what ": size() == count");                                                                                 \
        vf_assert(sz((d) - p) <= LEN && (n) <= LEN - sz((d) - p), what ": view lies inside the original range");                           \
    } while (0)

Q q_observers()
{
    ELT* p = sym();
    vf_assert(k_extent() == (STATIC_EXT ? sz(LEN) : DYN), "span::extent");
    vf_assert(k_data(p) == p, "data()"); vf_assert(k_size(p) == LEN, "size()"); vf_assert(k_size_bytes(p) == LEN * sizeof(ELT), "size_bytes()");
    vf_assert(k_empty(p) == (LEN == 0), "empty()");
    vf_assert(k_begin(p) == p && k_end(p) == p + LEN, "begin()/end()");
    vf_assert(k_rbegin_base(p) == p + LEN && k_rend_base(p) == p, "rbegin()/rend()");
    ELT** f = (ELT**)vf_alloc(LEN * sizeof(ELT*)); ELT** r = (ELT**)vf_alloc(LEN * sizeof(ELT*));
    vf_assert(k_iter(p, f, r) == LEN, "iteration visits size() elements");
    for (sz j = 0; j < LEN; j++) { vf_assert(f[j] == p + j, "forward iteration order"); vf_assert(r[j] == p + (LEN - 1 - j), "reverse iteration order"); }
    vf_assert(k_default_size() == 0, "default span is empty with null data");
}
#if LEN > 0
Q q_access()
{
    ELT* p = sym(); sz i = vf_nd_u64(); vf_assume(i < LEN);
    vf_assert(k_at(p, i) == p + i, "operator[](i) refers to original[i]");
    vf_assert(k_front(p) == p, "front() refers to original[0]"); vf_assert(k_back(p) == p + (LEN - 1), "back() refers to original[size-1]");
}
#endif
Q q_first_dyn()
{
    ELT* p = sym(); sz c = vf_nd_u64(); vf_assume(c <= LEN); sz* n = cell();
    ELT* d = k_first_dyn(p, c, n); SUBVIEW_IS(d, *n, 0, c, "first(count)");
    auto e = std::span<ELT>(p, LEN).first(c); vf_assert(d == e.data() && *n == e.size(), "first(count) == std::span");
}
Q q_last_dyn()
{
    ELT* p = sym(); sz c = vf_nd_u64(); vf_assume(c <= LEN); sz* n = cell();
    ELT* d = k_last_dyn(p, c, n); SUBVIEW_IS(d, *n, LEN - c, c, "last(count)");
    auto e = std::span<ELT>(p, LEN).last(c); vf_assert(d == e.data() && *n == e.size(), "last(count) == std::span");
}
Q q_subspan_dyn()
{
    ELT* p = sym(); sz off = vf_nd_u64(), c = vf_nd_u64(); vf_assume(off <= LEN); vf_assume(c == DYN || c <= LEN - off); sz* n = cell();
    if (c == DYN) vf_witness("count == dynamic_extent");
    ELT* d = k_subspan_dyn(p, off, c, n);
    if (c != DYN) vf_witness("explicit count");   // (kept apart from the other witness so that the two calls are not merged into one) SUBVIEW_IS(d, *n, off, c == DYN ? LEN - off : c, "subspan(offset,count)");
    auto e = std::span<ELT>(p, LEN).subspan(off, c); vf_assert(d == e.data() && *n == e.size(), "subspan(offset,count) == std::span");
}
Q q_subspan_dyn1()
{
    ELT* p = sym(); sz off = vf_nd_u64(); vf_assume(off <= LEN); sz* n = cell();
    ELT* d = k_subspan_dyn1(p, off, n); SUBVIEW_IS(d, *n, off, LEN - off, "subspan(offset)");
}
Q q_subspan_copy()
{
    ELT* p = sym(); sz off = vf_nd_u64(), c = vf_nd_u64(); vf_assume(off <= LEN); vf_assume(c == DYN || c <= LEN - off);
    sz w = c == DYN ? LEN - off : c; ELT* out = (ELT*)vf_alloc(w * sizeof(ELT));
    k_subspan_copy(p, off, c, out);
    for (sz k = 0; k < w; k++) vf_assert(same(out + k, p + off + k), "subspan element k is original[offset+k]");
}
Q q_first_st()
{
    ELT* p = sym(); sz c = vf_nd_u64(); vf_assume(c <= LEN); sz* n = cell(); sz* x = cell();
    ELT* d = k_first_st(p, c, n, x); SUBVIEW_IS(d, *n, 0, c, "first<Count>()"); vf_assert(*x == c, "first<Count>() has static extent Count");
}
Q q_last_st()
{
    ELT* p = sym(); sz c = vf_nd_u64(); vf_assume(c <= LEN); sz* n = cell(); sz* x = cell();
    ELT* d = k_last_st(p, c, n, x); SUBVIEW_IS(d, *n, LEN - c, c, "last<Count>()"); vf_assert(*x == c, "last<Count>() has static extent Count");
}
Q q_subspan_st()
{
    // ci in 0..LEN-off: Count = ci; ci == LEN+1: Count defaulted (dynamic_extent)
    ELT* p = sym(); sz off = vf_nd_u64(), ci = vf_nd_u64(); vf_assume(off <= LEN); vf_assume(ci == LEN + 1 || ci <= LEN - off); sz* n = cell(); sz* x = cell();
    if (ci == LEN + 1) vf_witness("Count defaulted");
    ELT* d = k_subspan_st(p, off, ci, n, x);
    if (ci != LEN + 1) vf_witness("explicit Count"); SUBVIEW_IS(d, *n, off, ci == LEN + 1 ? LEN - off : ci, "subspan<Offset,Count>()");
    vf_assert(*x == (ci != LEN + 1 ? ci : STATIC_EXT ? LEN - off : DYN), "subspan<Offset,Count>() static extent as [span.sub]");
}
#if 1   // (static-extent as_bytes compiles since d8762ce)
Q q_bytes()
{
    ELT* p = sym(); sz* n = cell(); sz* x = cell();
    void const* d = k_as_bytes(p, n, x);
    vf_assert(d == (void const*)p && *n == LEN * sizeof(ELT) && *x == (STATIC_EXT ? LEN * sizeof(ELT) : DYN), "as_bytes: same address, size_bytes() bytes");
    void* w = k_as_wbytes(p, n, x);
    vf_assert(w == (void*)p && *n == LEN * sizeof(ELT) && *x == (STATIC_EXT ? LEN * sizeof(ELT) : DYN), "as_writable_bytes: same address, size_bytes() bytes");
}
#endif
Q q_ctor()
{
    ELT* p = sym(); sz* n = cell(); sz* x = cell();
#if LEN > 0
    vf_assert(k_from_carray(p, n, x) == p && *n == LEN && *x == LEN, "span(T(&)[N])");
    vf_assert(k_from_carray_dyn(p, n) == p && *n == LEN, "span<T>(T(&)[N])");
#endif
    vf_assert(k_to_dyn(p, n) == p && *n == LEN, "span<T>(span<T,N>)");
    vf_assert(k_to_static(p, n) == p && *n == LEN, "span<T,N>(span<T>)");
    vf_assert(k_to_const(p, n) == p && *n == LEN, "span<T const>(span<T>)");
}
// ---- etl::array<ELT, LEN>
static AR* symarr() { return (AR*)vf_sym_bytes(k_arr_sizeof()); }
Q q_array()
{
    vf_assert(k_arr_sizeof() == (LEN ? LEN * sizeof(ELT) : 1), "sizeof(array<T,N>) == sizeof(T[N])");
    AR* a = symarr(); ELT* p = (ELT*)a; sz* n = cell(); sz* x = cell();
    vf_assert(k_arr_size(a) == LEN, "array size()/max_size()"); vf_assert(k_arr_empty(a) == (LEN == 0), "array empty()");
#if LEN > 0
    vf_assert(k_arr_data(a) == p && k_arr_cdata(a) == p, "array data()");
    vf_assert(k_arr_begin(a) == p && k_arr_end(a) == p + LEN && k_arr_cbegin(a) == p && k_arr_cend(a) == p + LEN, "array begin()/end()");
    vf_assert(k_arr_rbegin_base(a) == p + LEN && k_arr_rend_base(a) == p, "array rbegin()/rend()");
    vf_assert(k_from_array(a, n, x) == p && *n == LEN && *x == LEN, "span(array&)");
    vf_assert(k_from_carr_const(a, n, x) == p && *n == LEN && *x == LEN, "span(array const&)");
    vf_assert(k_from_array_dyn(a, n) == p && *n == LEN, "span<T>(array&)");
#else
    vf_assert(k_arr_begin(a) == k_arr_end(a) && k_arr_cbegin(a) == k_arr_cend(a), "empty array: begin() == end()");
    k_from_array(a, n, x); vf_assert(*n == 0 && *x == 0, "span(array<T,0>&) is empty");
#endif
}
#if LEN > 0
Q q_array_access()
{
    AR* a = symarr(); ELT* p = (ELT*)a; sz i = vf_nd_u64(); vf_assume(i < LEN);
    vf_assert(k_arr_at(a, i) == p + i && k_arr_cat(a, i) == p + i, "array operator[](i) is element i of the storage");
    vf_assert(k_arr_get(a, i) == p + i, "get<I>(array) is element I");
    vf_assert(k_arr_front(a) == p && k_arr_cfront(a) == p, "array front()"); vf_assert(k_arr_back(a) == p + (LEN - 1) && k_arr_cback(a) == p + (LEN - 1), "array back()");
}
#endif
