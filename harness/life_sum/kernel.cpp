// C03 kernels (family life_sum): thin wrappers around etl::optional<TA>, etl::variant<TA,TB,int> and etl::expected<TA,TB>
// with the instrumented alternatives TA = Tracked<1,FLAV>, TB = Tracked<2,FLAV> (../life_vec/tracked.h). No logic besides
// marshalling: objects are addressed through void*, the active alternative travels as an index, the payload as an int.
#include <etl/expected.hpp>
#include <etl/optional.hpp>
#include <etl/utility.hpp>
#include <etl/variant.hpp>
#include <etl/new.hpp>
#include "vf.h" // after the library headers (K and Q are macros)
#include "../life_vec/tracked.h"
using TA = Tracked<1, FLAV>;
using TB = Tracked<2, FLAV>;
using PV = uint32_t;
using u64 = uint64_t;
using O = etl::optional<TA>;
using OS = etl::optional<SrcV>;
using V = etl::variant<TA, TB, int>;
using X = etl::expected<TA, TB>;
#define OR(p) (*static_cast<O*>(p))
#define OC(p) (*static_cast<O const*>(p))
#define VR(p) (*static_cast<V*>(p))
#define VC(p) (*static_cast<V const*>(p))
#define XR(p) (*static_cast<X*>(p))
#define XC(p) (*static_cast<X const*>(p))
static inline u64 off_of(void const* obj, void const* member) { return u64(static_cast<unsigned char const*>(member) - static_cast<unsigned char const*>(obj)); }

// ---- free-standing elements in a driver-provided block (sources of converting operations; a ledger region of the driver)
K u64 k_esize() { return sizeof(TA); }
K void k_ta_new(void* p, PV x) { ::new (p) TA((int)x); }
K void k_tb_new(void* p, PV x) { ::new (p) TB((int)x); }
K void k_ta_dtor(void* p) { static_cast<TA*>(p)->~TA(); }
K void k_tb_dtor(void* p) { static_cast<TB*>(p)->~TB(); }
K PV k_ta_get(void const* p) { return (PV) static_cast<TA const*>(p)->get(); }
K PV k_tb_get(void const* p) { return (PV) static_cast<TB const*>(p)->get(); }
K void k_ta_set(void* p, PV x) { *static_cast<TA*>(p) = TA((int)x); }
K void k_tb_set(void* p, PV x) { *static_cast<TB*>(p) = TB((int)x); }

// where the alternatives live inside the owners (all alternatives of a variant share one address): measured on temporaries
// holding the int / nullopt alternative where there is one, so the ledger is not touched
K u64 k_v_alt_off() { V const t(etl::in_place_index<2>, 0); return off_of(&t, etl::get_if<2>(&t)); }
K u64 k_o_alt_off() { etl::optional<int> const t(0); static_assert(sizeof(etl::optional<int>) <= sizeof(O)); return off_of(&t, &*t); } // int and TA have the same alignment
K u64 k_x_alt_off() { etl::expected<int, int> const t(etl::in_place, 0); return off_of(&t, &*t); }
// =====================================================================================================================
// optional<TA>
// =====================================================================================================================
K u64 k_o_sizeof() { return sizeof(O); }
K void k_o_dtor(void* p) { OR(p).~O(); }
K bool k_o_has(void const* p) { return OC(p).has_value(); }
K PV k_o_val(void const* p) { return (PV)(*OC(p)).get(); }
K u64 k_o_off(void const* p) { return off_of(p, &*OC(p)); } // only called when engaged
// constructors
K void k_o_default(void* p) { ::new (p) O; }
K void k_o_nullopt(void* p) { ::new (p) O(etl::nullopt); }
K void k_o_inplace(void* p, PV x) { ::new (p) O(etl::in_place, (int)x); }
K void k_o_from_src(void* p, PV x) { ::new (p) O(SrcV{(int)x}); }                    // optional(U&&), U = SrcV
K void k_o_from_os(void* p, bool has, PV x) { OS const s = has ? OS(SrcV{(int)x}) : OS(); ::new (p) O(s); } // optional(optional<U> const&)
K void k_o_from_os_move(void* p, bool has, PV x) { OS s = has ? OS(SrcV{(int)x}) : OS(); ::new (p) O(etl::move(s)); }
K void k_o_move_ctor(void* d, void* s) { ::new (d) O(etl::move(OR(s))); }
K void k_o_from_ta_move(void* p, void* ta) { ::new (p) O(etl::move(*static_cast<TA*>(ta))); } // optional(U&&), U = TA
// assignment / modifiers
K void k_o_assign_nullopt(void* p) { OR(p) = etl::nullopt; }
K void k_o_move_assign(void* d, void* s) { OR(d) = etl::move(OR(s)); }
K void k_o_assign_src(void* p, PV x) { OR(p) = SrcV{(int)x}; }                        // operator=(U&&), U = SrcV
K void k_o_assign_os(void* p, bool has, PV x) { OS const s = has ? OS(SrcV{(int)x}) : OS(); OR(p) = s; }
K void k_o_assign_os_move(void* p, bool has, PV x) { OS s = has ? OS(SrcV{(int)x}) : OS(); OR(p) = etl::move(s); }
K void k_o_assign_ta_move(void* p, void* ta) { OR(p) = etl::move(*static_cast<TA*>(ta)); } // through optional(U&&) + move assignment
K void k_o_emplace(void* p, PV x) { OR(p).emplace((int)x); }
K void k_o_reset(void* p) { OR(p).reset(); }
K void k_o_swap(void* a, void* b) { OR(a).swap(OR(b)); }
K void k_o_swap_free(void* a, void* b) { using etl::swap; swap(OR(a), OR(b)); }
K void k_o_set(void* p, PV x) { *OR(p) = TA((int)x); } // write through operator*
K PV k_o_value_or_move(void* p, PV d) { return (PV)etl::move(OR(p)).value_or(TA((int)d)).get(); }
#if FLAV != 1
K void k_o_copy_ctor(void* d, void const* s) { ::new (d) O(OC(s)); }
K void k_o_from_ta(void* p, void const* ta) { ::new (p) O(*static_cast<TA const*>(ta)); }
K void k_o_copy_assign(void* d, void const* s) { OR(d) = OC(s); }
K void k_o_assign_ta(void* p, void const* ta) { OR(p) = *static_cast<TA const*>(ta); }
K PV k_o_value_or(void const* p, PV d) { return (PV)OC(p).value_or(TA((int)d)).get(); }
K void k_o_assign_own(void* p) { OR(p) = *OR(p); }
#else
K void k_o_assign_own(void*) {}
K void k_o_copy_ctor(void*, void const*) {}
K void k_o_from_ta(void*, void const*) {}
K void k_o_copy_assign(void*, void const*) {}
K void k_o_assign_ta(void*, void const*) {}
K PV k_o_value_or(void const*, PV) { return 0; }
#endif

// =====================================================================================================================
// variant<TA, TB, int>
// =====================================================================================================================
K u64 k_v_sizeof() { return sizeof(V); }
K void k_v_dtor(void* p) { VR(p).~V(); }
K u64 k_v_index(void const* p) { return VC(p).index(); }
K PV k_v_val(void const* p)
{
    V const& v = VC(p);
    switch (v.index()) {
    case 0: return (PV)etl::get_if<0>(&v)->get();
    case 1: return (PV)etl::get_if<1>(&v)->get();
    default: return (PV)*etl::get_if<2>(&v);
    }
}
K u64 k_v_off(void const* p) // offset of the active alternative (valid index assumed)
{
    V const& v = VC(p);
    switch (v.index()) {
    case 0: return off_of(p, etl::get_if<0>(&v));
    case 1: return off_of(p, etl::get_if<1>(&v));
    default: return off_of(p, etl::get_if<2>(&v));
    }
}
K void k_v_default(void* p) { ::new (p) V; }
K void k_v_inplace(void* p, unsigned i, PV x)
{
    switch (i) {
    case 0: ::new (p) V(etl::in_place_index<0>, (int)x); break;
    case 1: ::new (p) V(etl::in_place_index<1>, (int)x); break;
    default: ::new (p) V(etl::in_place_index<2>, (int)x); break;
    }
}
K void k_v_inplace_type(void* p, unsigned i, PV x)
{
    switch (i) {
    case 0: ::new (p) V(etl::in_place_type<TA>, (int)x); break;
    case 1: ::new (p) V(etl::in_place_type<TB>, (int)x); break;
    default: ::new (p) V(etl::in_place_type<int>, (int)x); break;
    }
}
K void k_v_move_ctor(void* d, void* s) { ::new (d) V(etl::move(VR(s))); }
K void k_v_move_assign(void* d, void* s) { VR(d) = etl::move(VR(s)); }
K void k_v_emplace(void* p, unsigned i, PV x)
{
    switch (i) {
    case 0: VR(p).emplace<0>((int)x); break;
    case 1: VR(p).emplace<1>((int)x); break;
    default: VR(p).emplace<2>((int)x); break;
    }
}
K void k_v_emplace_type(void* p, unsigned i, PV x)
{
    switch (i) {
    case 0: VR(p).emplace<TA>((int)x); break;
    case 1: VR(p).emplace<TB>((int)x); break;
    default: VR(p).emplace<int>((int)x); break;
    }
}
// converting construction / assignment from a free-standing element (i = 0: TA, 1: TB) or an int (i = 2)
K void k_v_conv_ctor_move(void* p, unsigned i, void* e, PV x)
{
    switch (i) {
    case 0: ::new (p) V(etl::move(*static_cast<TA*>(e))); break;
    case 1: ::new (p) V(etl::move(*static_cast<TB*>(e))); break;
    default: ::new (p) V((int)x); break;
    }
}
K void k_v_conv_assign_move(void* p, unsigned i, void* e, PV x)
{
    switch (i) {
    case 0: VR(p) = etl::move(*static_cast<TA*>(e)); break;
    case 1: VR(p) = etl::move(*static_cast<TB*>(e)); break;
    default: VR(p) = (int)x; break;
    }
}
K void k_v_swap(void* a, void* b) { using etl::swap; swap(VR(a), VR(b)); }
K void k_v_set(void* p, PV x) // write through unchecked_get
{
    V& v = VR(p);
    switch (v.index()) {
    case 0: etl::unchecked_get<0>(v) = TA((int)x); break;
    case 1: etl::unchecked_get<1>(v) = TB((int)x); break;
    default: etl::unchecked_get<2>(v) = (int)x; break;
    }
}
K unsigned k_v_rel(void const* a, void const* b)
{
    V const& x = VC(a); V const& y = VC(b);
    return unsigned(x == y) | unsigned(x < y) << 1 | unsigned(x <= y) << 2 | unsigned(x > y) << 3 | unsigned(x >= y) << 4;
}
#if FLAV != 1
K void k_v_copy_ctor(void* d, void const* s) { ::new (d) V(VC(s)); }
K void k_v_copy_assign(void* d, void const* s) { VR(d) = VC(s); }
K void k_v_conv_ctor(void* p, unsigned i, void const* e, PV x)
{
    switch (i) {
    case 0: ::new (p) V(*static_cast<TA const*>(e)); break;
    case 1: ::new (p) V(*static_cast<TB const*>(e)); break;
    default: { int const y = (int)x; ::new (p) V(y); break; }
    }
}
K void k_v_conv_assign(void* p, unsigned i, void const* e, PV x)
{
    switch (i) {
    case 0: VR(p) = *static_cast<TA const*>(e); break;
    case 1: VR(p) = *static_cast<TB const*>(e); break;
    default: { int const y = (int)x; VR(p) = y; break; }
    }
}
// v = (the alternative v itself holds): std assigns the contained value to itself (a no-op for the value)
K void k_v_assign_own_alt(void* p)
{
    V& v = VR(p);
    switch (v.index()) {
    case 0: v = etl::unchecked_get<0>(v); break;
    case 1: v = etl::unchecked_get<1>(v); break;
    default: v = etl::unchecked_get<2>(v); break;
    }
}
#else
K void k_v_copy_ctor(void*, void const*) {}
K void k_v_copy_assign(void*, void const*) {}
K void k_v_conv_ctor(void*, unsigned, void const*, PV) {}
K void k_v_conv_assign(void*, unsigned, void const*, PV) {}
K void k_v_assign_own_alt(void*) {}
#endif

// =====================================================================================================================
// expected<TA, TB>   (index 0 = value, 1 = error)
// =====================================================================================================================
K u64 k_x_sizeof() { return sizeof(X); }
K void k_x_dtor(void* p) { XR(p).~X(); }
K bool k_x_has(void const* p) { return XC(p).has_value(); }
K PV k_x_val(void const* p) { return XC(p).has_value() ? (PV)(*XC(p)).get() : (PV)XC(p).error().get(); }
K u64 k_x_off(void const* p) { return XC(p).has_value() ? off_of(p, &*XC(p)) : off_of(p, &XC(p).error()); }
K void k_x_default(void* p) { ::new (p) X(); }
K void k_x_inplace(void* p, PV x) { ::new (p) X(etl::in_place, (int)x); }
K void k_x_unexpect(void* p, PV x) { ::new (p) X(etl::unexpect, (int)x); }
K void k_x_move_ctor(void* d, void* s) { ::new (d) X(etl::move(XR(s))); }
K void k_x_move_assign(void* d, void* s) { XR(d) = etl::move(XR(s)); }
K void k_x_emplace(void* p, PV x) { XR(p).emplace((int)x); }
K void k_x_swap(void* a, void* b) { using etl::swap; swap(XR(a), XR(b)); }
K void k_x_set(void* p, PV x) { if (XR(p).has_value()) *XR(p) = TA((int)x); else XR(p).error() = TB((int)x); }
K PV k_x_value_or_move(void* p, PV d) { return (PV)etl::move(XR(p)).value_or(TA((int)d)).get(); }
#if FLAV != 1
K void k_x_copy_ctor(void* d, void const* s) { ::new (d) X(XC(s)); }
K void k_x_copy_assign(void* d, void const* s) { XR(d) = XC(s); }
K PV k_x_value_or(void const* p, PV d) { return (PV)XC(p).value_or(TA((int)d)).get(); }
#else
K void k_x_copy_ctor(void*, void const*) {}
K void k_x_copy_assign(void*, void const*) {}
K PV k_x_value_or(void const*, PV) { return 0; }
#endif
