// C03 driver (family life_sum): ONE operation from EVERY state of etl::optional<TA>, etl::variant<TA,TB,int> and
// etl::expected<TA,TB> (TA/TB = instrumented Tracked alternatives, ../life_vec/tracked.h), every (from, to) index pair.
// Symbolic: the active index of each object and the target index (case-split, so each path is concrete for the ledger while
// the solver decides over all of them in one query), every payload value, every byte of the object blocks before construction.
// Checked after every kernel call: index/has_value and payload equal the model; exactly the slot of the active Tracked
// alternative holds a live object with the right type tag; no temporary is alive; no illegal transition. At the end, after
// the destructors: no slot alive, constructions == destructions. Moved-from sources are then assigned to and destroyed.
#define LIFE_DRIVER 1
#include "vf.h"
#include "../life_vec/tracked.h"
#ifndef KSTEPS
#define KSTEPS 2
#endif
#ifndef HSA
#define HSA (-1) // histories: initial state of the first / second object (-1: symbolic, case-split over every state)
#endif
#ifndef HSB
#define HSB (-1)
#endif
#ifndef FIRST
#define FIRST (-1) // histories: op code of the first step (-1: symbolic)
#endif
extern "C" {
Ledger vf_led;
}
using u64 = uint64_t;
using PV = uint32_t;
#define ESZ 8u
extern "C" {
u64 k_esize(); void k_ta_new(void*, PV); void k_tb_new(void*, PV); void k_ta_dtor(void*); void k_tb_dtor(void*); PV k_ta_get(void const*); PV k_tb_get(void const*); void k_ta_set(void*, PV); void k_tb_set(void*, PV);
u64 k_o_alt_off(); u64 k_v_alt_off(); u64 k_x_alt_off(); u64 k_o_sizeof(); void k_o_dtor(void*); bool k_o_has(void const*); PV k_o_val(void const*); u64 k_o_off(void const*);
void k_o_default(void*); void k_o_nullopt(void*); void k_o_inplace(void*, PV); void k_o_from_src(void*, PV); void k_o_from_os(void*, bool, PV); void k_o_from_os_move(void*, bool, PV);
void k_o_move_ctor(void*, void*); void k_o_from_ta_move(void*, void*); void k_o_assign_nullopt(void*); void k_o_move_assign(void*, void*); void k_o_assign_src(void*, PV);
void k_o_assign_os(void*, bool, PV); void k_o_assign_os_move(void*, bool, PV); void k_o_assign_ta_move(void*, void*); void k_o_emplace(void*, PV); void k_o_reset(void*);
void k_o_swap(void*, void*); void k_o_swap_free(void*, void*); void k_o_set(void*, PV); PV k_o_value_or_move(void*, PV); void k_o_copy_ctor(void*, void const*);
void k_o_from_ta(void*, void const*); void k_o_copy_assign(void*, void const*); void k_o_assign_ta(void*, void const*); PV k_o_value_or(void const*, PV); void k_o_assign_own(void*);
u64 k_v_sizeof(); void k_v_dtor(void*); u64 k_v_index(void const*); PV k_v_val(void const*); u64 k_v_off(void const*); void k_v_default(void*); void k_v_inplace(void*, unsigned, PV);
void k_v_inplace_type(void*, unsigned, PV); void k_v_move_ctor(void*, void*); void k_v_move_assign(void*, void*); void k_v_emplace(void*, unsigned, PV); void k_v_emplace_type(void*, unsigned, PV);
void k_v_conv_ctor_move(void*, unsigned, void*, PV); void k_v_conv_assign_move(void*, unsigned, void*, PV); void k_v_swap(void*, void*); void k_v_set(void*, PV); unsigned k_v_rel(void const*, void const*);
void k_v_copy_ctor(void*, void const*); void k_v_copy_assign(void*, void const*); void k_v_conv_ctor(void*, unsigned, void const*, PV); void k_v_conv_assign(void*, unsigned, void const*, PV);
void k_v_assign_own_alt(void*);
u64 k_x_sizeof(); void k_x_dtor(void*); bool k_x_has(void const*); PV k_x_val(void const*); u64 k_x_off(void const*); void k_x_default(void*); void k_x_inplace(void*, PV); void k_x_unexpect(void*, PV);
void k_x_move_ctor(void*, void*); void k_x_move_assign(void*, void*); void k_x_emplace(void*, PV); void k_x_swap(void*, void*); void k_x_set(void*, PV); PV k_x_value_or_move(void*, PV);
void k_x_copy_ctor(void*, void const*); void k_x_copy_assign(void*, void const*); PV k_x_value_or(void const*, PV);
}
static inline PV nd_pv() { return (PV)lg_nd_payload(); }
static inline u64 nd_idx(unsigned maxv) { u64 i = vf_nd_u8(); vf_assume(i <= maxv); return i; }
extern "C" __attribute__((noinline)) void* d_sym_block(u64 n)
{
    unsigned char* p = (unsigned char*)vf_alloc(n);
    for (u64 i = 0; i < n; i++) p[i] = vf_nd_u8();
    return p;
}
struct S { // model of a sum object: active index (optional: 0 empty / 1 engaged; expected: 0 value / 1 error) and payload
    u64 idx;
    PV val;
};
#define END() lg_balanced()
// free-standing element of alternative i (0: TA, 1: TB; 2: none, an int is passed by value) in ledger region r
static inline void* el_make(unsigned i, PV x, unsigned r)
{
    void* e = d_sym_block(ESZ);
    lg_register(r, e, ESZ); lg_layout(r, 0, ESZ);
    if (i == 0) k_ta_new(e, x); else if (i == 1) k_tb_new(e, x);
    lg_expect(r, 0, i < 2 ? 1 : 0, ESZ, i + 1);
    return e;
}
// the element is still alive (possibly moved-from): assignable and destructible
static inline void el_fin(void* e, unsigned i, unsigned r)
{
    lg_expect(r, 0, i < 2 ? 1 : 0, ESZ, i + 1);
    PV y = nd_pv();
    if (i == 0) { k_ta_set(e, y); vf_assert(k_ta_get(e) == y, "a (moved-from) source element is assignable"); k_ta_dtor(e); }
    else if (i == 1) { k_tb_set(e, y); vf_assert(k_tb_get(e) == y, "a (moved-from) source element is assignable"); k_tb_dtor(e); }
    lg_expect(r, 0, 0, ESZ, 1);
    lg_quiet();
}

// =====================================================================================================================
// optional<TA>
// =====================================================================================================================
static inline void* o_raw(unsigned r) { void* p = d_sym_block(k_o_sizeof()); lg_register(r, p, k_o_sizeof()); lg_layout(r, k_o_alt_off(), ESZ); vf_led.nslot[r] = 1; return p; }
static inline void o_check(void* p, S const& s, unsigned r)
{
    bool h = k_o_has(p);
    vf_assert(h == (s.idx == 1), "has_value() == model");
    if (h != (s.idx == 1)) return;
    if (h) vf_assert(k_o_val(p) == s.val, "*opt == model");
    lg_expect(r, h ? k_o_off(p) : 0, h ? 1 : 0, ESZ, 1);
    lg_quiet();
}
// validity only (moved-from / self-move-assigned): whatever has_value() says, exactly that is alive
static inline void o_valid(void* p, unsigned r) { bool h = k_o_has(p); lg_expect(r, h ? k_o_off(p) : 0, h ? 1 : 0, ESZ, 1); lg_quiet(); }
static inline void* o_make(u64 st, PV x, unsigned r)
{
    void* p = o_raw(r);
    uint32_t c0 = vf_led.nctor;
    if (st) k_o_inplace(p, x); else k_o_default(p);
    vf_assert(vf_led.nctor - c0 == (st ? 1u : 0u), "ledger is shared between the TUs: optional(in_place, args) constructs exactly one object");
    S s{st, x}; o_check(p, s, r);
    return p;
}
static inline void o_fin(void* p, unsigned r) { k_o_dtor(p); lg_expect(r, 0, 0, ESZ, 1); lg_quiet(); }
// a moved-from optional is assignable (emplace) and destructible
static inline void o_reuse_fin(void* p, unsigned r) { o_valid(p, r); PV y = nd_pv(); k_o_emplace(p, y); S s{1, y}; o_check(p, s, r); o_fin(p, r); }

// one-object operations: BODY sees the pre-state (a, x) of object p and must leave the model in s
#define O_UN(NAME, ...)                                                                                                 \
    Q q_o_##NAME()                                                                                                       \
    {                                                                                                                    \
        u64 sa = nd_idx(1); PV x = nd_pv(), y = nd_pv();                                                                 \
        split<1>(sa, [&](u64 a) { void* p = o_make(a, x, 0); S s{a, x}; __VA_ARGS__; o_check(p, s, 0); o_fin(p, 0); END(); });  \
    }
O_UN(assign_nullopt, k_o_assign_nullopt(p); s.idx = 0)
O_UN(reset, k_o_reset(p); s.idx = 0)
O_UN(emplace, k_o_emplace(p, y); s = S{1, y})
O_UN(assign_src, k_o_assign_src(p, y); s = S{1, y})
O_UN(set, if (a) { k_o_set(p, y); s.val = y; })
O_UN(value_or, PV r = k_o_value_or(p, y); vf_assert(r == (a ? x : y), "value_or() const&"))
O_UN(copy_assign_self, k_o_copy_assign(p, p))
O_UN(swap_self, k_o_swap(p, p))
O_UN(assign_own_value, if (a) k_o_assign_own(p)) // o = *o leaves the value unchanged
O_UN(assign_ta, void* e = el_make(0, y, 2); k_o_assign_ta(p, e); s = S{1, y}; o_check(p, s, 0); vf_assert(k_ta_get(e) == y, "copy source unchanged"); el_fin(e, 0, 2))
O_UN(assign_ta_move, void* e = el_make(0, y, 2); k_o_assign_ta_move(p, e); s = S{1, y}; o_check(p, s, 0); el_fin(e, 0, 2))
Q q_o_value_or_move()
{
    u64 sa = nd_idx(1); PV x = nd_pv(), y = nd_pv();
    split<1>(sa, [&](u64 a) { void* p = o_make(a, x, 0); PV r = k_o_value_or_move(p, y); vf_assert(r == (a ? x : y), "value_or() &&"); o_reuse_fin(p, 0); END(); });
}
Q q_o_move_assign_self() // valid afterwards, nothing leaks, nothing is destroyed twice
{
    u64 sa = nd_idx(1); PV x = nd_pv();
    split<1>(sa, [&](u64 a) { void* p = o_make(a, x, 0); k_o_move_assign(p, p); o_reuse_fin(p, 0); END(); });
}
// assignment from optional<SrcV> in state b
#define O_OS(NAME)                                                                                                       \
    Q q_o_##NAME()                                                                                                       \
    {                                                                                                                    \
        u64 sa = nd_idx(1), sb = nd_idx(1); PV x = nd_pv(), y = nd_pv();                                                 \
        split<1>(sa, [&](u64 a) { split<1>(sb, [&](u64 b) {                                                              \
            void* p = o_make(a, x, 0); k_o_##NAME(p, b != 0, y); S s{b, y}; o_check(p, s, 0); o_fin(p, 0); END(); }); }); \
    }
O_OS(assign_os)
O_OS(assign_os_move)
// constructors
#define O_CT(NAME, CALL, IDX, VAL)                                                                                       \
    Q q_o_##NAME()                                                                                                       \
    {                                                                                                                    \
        PV y = nd_pv(); void* p = o_raw(0); CALL; S s{IDX, VAL}; o_check(p, s, 0); o_fin(p, 0); END();                   \
    }
O_CT(default, k_o_default(p), 0, y)
O_CT(nullopt, k_o_nullopt(p), 0, y)
O_CT(inplace, k_o_inplace(p, y), 1, y)
O_CT(from_src, k_o_from_src(p, y), 1, y)
#define O_CT_OS(NAME)                                                                                                    \
    Q q_o_##NAME()                                                                                                       \
    {                                                                                                                    \
        u64 sb = nd_idx(1); PV y = nd_pv();                                                                              \
        split<1>(sb, [&](u64 b) { void* p = o_raw(0); k_o_##NAME(p, b != 0, y); S s{b, y}; o_check(p, s, 0); o_fin(p, 0); END(); }); \
    }
O_CT_OS(from_os)
O_CT_OS(from_os_move)
Q q_o_from_ta()
{
    PV y = nd_pv(); void* e = el_make(0, y, 2); void* p = o_raw(0);
    k_o_from_ta(p, e); S s{1, y}; o_check(p, s, 0); vf_assert(k_ta_get(e) == y, "copy source unchanged"); el_fin(e, 0, 2); o_check(p, s, 0); o_fin(p, 0); END();
}
Q q_o_from_ta_move()
{
    PV y = nd_pv(); void* e = el_make(0, y, 2); void* p = o_raw(0);
    k_o_from_ta_move(p, e); S s{1, y}; o_check(p, s, 0); el_fin(e, 0, 2); o_check(p, s, 0); o_fin(p, 0); END();
}
Q q_o_copy_ctor()
{
    u64 sa = nd_idx(1); PV x = nd_pv();
    split<1>(sa, [&](u64 a) { void* p = o_make(a, x, 0); void* q = o_raw(1); S s{a, x};
                              k_o_copy_ctor(q, p); o_check(q, s, 1); o_check(p, s, 0); o_fin(p, 0); o_check(q, s, 1); o_fin(q, 1); END(); });
}
Q q_o_move_ctor()
{
    u64 sa = nd_idx(1); PV x = nd_pv();
    split<1>(sa, [&](u64 a) { void* p = o_make(a, x, 0); void* q = o_raw(1); S s{a, x};
                              k_o_move_ctor(q, p); o_check(q, s, 1); vf_assert(k_o_has(p) == (a == 1), "moved-from optional keeps its engaged state (as std does)");
                              o_reuse_fin(p, 0); o_check(q, s, 1); o_fin(q, 1); END(); });
}
// two-object operations from every (a, b) state pair
#define O_BIN(NAME, ...)                                                                                                \
    Q q_o_##NAME()                                                                                                       \
    {                                                                                                                    \
        u64 sa = nd_idx(1), sb = nd_idx(1); PV x = nd_pv(), y = nd_pv();                                                 \
        split<1>(sa, [&](u64 a) { split<1>(sb, [&](u64 b) {                                                              \
            void* p = o_make(a, x, 0); void* q = o_make(b, y, 1); S sp{a, x}, sq{b, y}; __VA_ARGS__; END(); }); });             \
    }
O_BIN(copy_assign, k_o_copy_assign(p, q); o_check(p, sq, 0); o_check(q, sq, 1); o_fin(q, 1); o_check(p, sq, 0); o_fin(p, 0))
O_BIN(move_assign, k_o_move_assign(p, q); o_check(p, sq, 0); vf_assert(k_o_has(q) == (b == 1), "moved-from optional keeps its engaged state (as std does)");
      o_reuse_fin(q, 1); o_check(p, sq, 0); o_fin(p, 0))
O_BIN(swap, k_o_swap(p, q); o_check(p, sq, 0); o_check(q, sp, 1); o_fin(p, 0); o_check(q, sp, 1); o_fin(q, 1))
O_BIN(swap_free, k_o_swap_free(p, q); o_check(p, sq, 0); o_check(q, sp, 1); o_fin(q, 1); o_check(p, sq, 0); o_fin(p, 0))

// =====================================================================================================================
// variant<TA, TB, int>
// =====================================================================================================================
static inline void* v_raw(unsigned r) { void* p = d_sym_block(k_v_sizeof()); lg_register(r, p, k_v_sizeof()); lg_layout(r, k_v_alt_off(), ESZ); vf_led.nslot[r] = 1; return p; }
static inline void v_pattern(void* p, u64 i, unsigned r) { lg_expect(r, i < 2 ? k_v_off(p) : 0, i < 2 ? 1 : 0, ESZ, (unsigned)i + 1); lg_quiet(); }
static inline void v_check(void* p, S const& s, unsigned r)
{
    u64 i = k_v_index(p);
    vf_assert(i == s.idx, "index() == model");
    if (i != s.idx) return;
    vf_assert(k_v_val(p) == s.val, "held value == model");
    v_pattern(p, i, r);
}
static inline void* v_make(u64 i, PV x, unsigned r)
{
    void* p = v_raw(r);
    uint32_t c0 = vf_led.nctor;
    k_v_inplace(p, (unsigned)i, x);
    vf_assert(vf_led.nctor - c0 == (i < 2 ? 1u : 0u), "ledger is shared between the TUs: variant(in_place_index<I>, args) constructs exactly one object");
    S s{i, x}; v_check(p, s, r);
    return p;
}
static inline void v_fin(void* p, unsigned r) { k_v_dtor(p); lg_expect(r, 0, 0, ESZ, 1); lg_quiet(); }
// a moved-from variant keeps its alternative (as std does); it is assignable and destructible
static inline void v_reuse_fin(void* p, u64 i, unsigned r)
{
    vf_assert(k_v_index(p) == i, "moved-from variant keeps its index (as std does)");
    v_pattern(p, k_v_index(p) == i ? i : 2, r);
    PV y = nd_pv(); k_v_emplace(p, 1, y); S s{1, y}; v_check(p, s, r); v_fin(p, r);
}
#define V_UN(NAME, ...)                                                                                                 \
    Q q_v_##NAME()                                                                                                       \
    {                                                                                                                    \
        u64 sa = nd_idx(2), st = nd_idx(2); PV x = nd_pv(), y = nd_pv();                                                 \
        split<2>(sa, [&](u64 a) { split<2>(st, [&](u64 t) {                                                              \
            void* p = v_make(a, x, 0); S s{a, x}; (void)t; __VA_ARGS__; v_check(p, s, 0); v_fin(p, 0); END(); }); });           \
    }
V_UN(emplace, k_v_emplace(p, (unsigned)t, y); s = S{t, y})
V_UN(emplace_type, k_v_emplace_type(p, (unsigned)t, y); s = S{t, y})
V_UN(conv_assign, void* e = el_make((unsigned)t, y, 2); k_v_conv_assign(p, (unsigned)t, e, y); s = S{t, y}; v_check(p, s, 0);
     if (t == 0) vf_assert(k_ta_get(e) == y, "copy source unchanged"); if (t == 1) vf_assert(k_tb_get(e) == y, "copy source unchanged"); el_fin(e, (unsigned)t, 2))
V_UN(conv_assign_move, void* e = el_make((unsigned)t, y, 2); k_v_conv_assign_move(p, (unsigned)t, e, y); s = S{t, y}; v_check(p, s, 0); el_fin(e, (unsigned)t, 2))
#define V_UN1(NAME, ...)                                                                                                \
    Q q_v_##NAME()                                                                                                       \
    {                                                                                                                    \
        u64 sa = nd_idx(2); PV x = nd_pv(), y = nd_pv();                                                                 \
        split<2>(sa, [&](u64 a) { void* p = v_make(a, x, 0); S s{a, x}; (void)y; __VA_ARGS__; v_check(p, s, 0); v_fin(p, 0); END(); }); \
    }
V_UN1(set, k_v_set(p, y); s.val = y)
V_UN1(copy_assign_self, k_v_copy_assign(p, p))
V_UN1(swap_self, k_v_swap(p, p))
Q q_v_assign_own_alt() // v = get<I>(v): the converting assignment with the held alternative as source leaves the value unchanged (std: assigns it to itself)
{
    u64 sa = nd_idx(1); PV x = nd_pv(); // the two instrumented alternatives
    VF_KNOWN(C03_variant_assign_own_alternative, true);
    split<1>(sa, [&](u64 a) { void* p = v_make(a, x, 0); S s{a, x}; k_v_assign_own_alt(p); v_check(p, s, 0); v_fin(p, 0); END(); });
}
Q q_v_assign_own_int() // the same with the int alternative
{
    PV x = nd_pv(); void* p = v_make(2, x, 0); S s{2, x}; k_v_assign_own_alt(p); v_check(p, s, 0); v_fin(p, 0); END();
}
Q q_v_move_assign_self()
{
    u64 sa = nd_idx(2); PV x = nd_pv();
    split<2>(sa, [&](u64 a) { void* p = v_make(a, x, 0); k_v_move_assign(p, p); v_reuse_fin(p, a, 0); END(); });
}
// constructors
Q q_v_default() { void* p = v_raw(0); k_v_default(p); S s{0, 0}; v_check(p, s, 0); v_fin(p, 0); END(); }
#define V_CT(NAME, ...)                                                                                                 \
    Q q_v_##NAME()                                                                                                       \
    {                                                                                                                    \
        u64 st = nd_idx(2); PV y = nd_pv();                                                                              \
        split<2>(st, [&](u64 t) { void* p = v_raw(0); S s{t, y}; __VA_ARGS__; v_check(p, s, 0); v_fin(p, 0); END(); });         \
    }
V_CT(inplace, k_v_inplace(p, (unsigned)t, y))
V_CT(inplace_type, k_v_inplace_type(p, (unsigned)t, y))
V_CT(conv_ctor, void* e = el_make((unsigned)t, y, 2); k_v_conv_ctor(p, (unsigned)t, e, y); v_check(p, s, 0); el_fin(e, (unsigned)t, 2))
V_CT(conv_ctor_move, void* e = el_make((unsigned)t, y, 2); k_v_conv_ctor_move(p, (unsigned)t, e, y); v_check(p, s, 0); el_fin(e, (unsigned)t, 2))
Q q_v_copy_ctor()
{
    u64 sa = nd_idx(2); PV x = nd_pv();
    split<2>(sa, [&](u64 a) { void* p = v_make(a, x, 0); void* q = v_raw(1); S s{a, x};
                              k_v_copy_ctor(q, p); v_check(q, s, 1); v_check(p, s, 0); v_fin(p, 0); v_check(q, s, 1); v_fin(q, 1); END(); });
}
Q q_v_move_ctor()
{
    u64 sa = nd_idx(2); PV x = nd_pv();
    split<2>(sa, [&](u64 a) { void* p = v_make(a, x, 0); void* q = v_raw(1); S s{a, x};
                              k_v_move_ctor(q, p); v_check(q, s, 1); v_reuse_fin(p, a, 0); v_check(q, s, 1); v_fin(q, 1); END(); });
}
#define V_BIN(NAME, ...)                                                                                                \
    Q q_v_##NAME()                                                                                                       \
    {                                                                                                                    \
        u64 sa = nd_idx(2), sb = nd_idx(2); PV x = nd_pv(), y = nd_pv();                                                 \
        split<2>(sa, [&](u64 a) { split<2>(sb, [&](u64 b) {                                                              \
            void* p = v_make(a, x, 0); void* q = v_make(b, y, 1); S sp{a, x}, sq{b, y}; __VA_ARGS__; END(); }); });             \
    }
V_BIN(copy_assign, k_v_copy_assign(p, q); v_check(p, sq, 0); v_check(q, sq, 1); v_fin(q, 1); v_check(p, sq, 0); v_fin(p, 0))
V_BIN(move_assign, k_v_move_assign(p, q); v_check(p, sq, 0); v_reuse_fin(q, b, 1); v_check(p, sq, 0); v_fin(p, 0))
V_BIN(swap, k_v_swap(p, q); v_check(p, sq, 0); v_check(q, sp, 1); v_fin(p, 0); v_check(q, sp, 1); v_fin(q, 1))
V_BIN(rel, (void)k_v_rel(p, q); v_check(p, sp, 0); v_check(q, sq, 1); v_fin(p, 0); v_fin(q, 1))

// =====================================================================================================================
// expected<TA, TB>: model index 0 = value (TA), 1 = error (TB)
// =====================================================================================================================
static inline void* x_raw(unsigned r) { void* p = d_sym_block(k_x_sizeof()); lg_register(r, p, k_x_sizeof()); lg_layout(r, k_x_alt_off(), ESZ); vf_led.nslot[r] = 1; return p; }
static inline void x_pattern(void* p, bool h, unsigned r) { lg_expect(r, k_x_off(p), 1, ESZ, h ? 1 : 2); lg_quiet(); }
static inline void x_check(void* p, S const& s, unsigned r)
{
    bool h = k_x_has(p);
    vf_assert(h == (s.idx == 0), "has_value() == model");
    if (h != (s.idx == 0)) return;
    vf_assert(k_x_val(p) == s.val, "value / error == model");
    x_pattern(p, h, r);
}
static inline void* x_make(u64 i, PV x, unsigned r)
{
    void* p = x_raw(r);
    uint32_t c0 = vf_led.nctor;
    if (i == 0) k_x_inplace(p, x); else k_x_unexpect(p, x);
    vf_assert(vf_led.nctor - c0 == 1, "ledger is shared between the TUs: expected(in_place / unexpect, args) constructs exactly one object");
    S s{i, x}; x_check(p, s, r);
    return p;
}
static inline void x_fin(void* p, unsigned r) { k_x_dtor(p); lg_expect(r, 0, 0, ESZ, 1); lg_quiet(); }
static inline void x_reuse_fin(void* p, u64 i, unsigned r)
{
    vf_assert(k_x_has(p) == (i == 0), "moved-from expected keeps its state (as std does)");
    x_pattern(p, k_x_has(p), r);
    PV y = nd_pv(); k_x_emplace(p, y); S s{0, y}; x_check(p, s, r); x_fin(p, r);
}
#define X_UN(NAME, ...)                                                                                                 \
    Q q_x_##NAME()                                                                                                       \
    {                                                                                                                    \
        u64 sa = nd_idx(1); PV x = nd_pv(), y = nd_pv();                                                                 \
        split<1>(sa, [&](u64 a) { void* p = x_make(a, x, 0); S s{a, x}; (void)y; __VA_ARGS__; x_check(p, s, 0); x_fin(p, 0); END(); }); \
    }
X_UN(emplace, k_x_emplace(p, y); s = S{0, y})
X_UN(set, k_x_set(p, y); s.val = y)
X_UN(value_or, PV r = k_x_value_or(p, y); vf_assert(r == (a == 0 ? x : y), "value_or() const&"))
X_UN(copy_assign_self, k_x_copy_assign(p, p))
X_UN(swap_self, k_x_swap(p, p))
Q q_x_value_or_move()
{
    u64 sa = nd_idx(1); PV x = nd_pv(), y = nd_pv();
    split<1>(sa, [&](u64 a) { void* p = x_make(a, x, 0); PV r = k_x_value_or_move(p, y); vf_assert(r == (a == 0 ? x : y), "value_or() &&"); x_reuse_fin(p, a, 0); END(); });
}
Q q_x_move_assign_self()
{
    u64 sa = nd_idx(1); PV x = nd_pv();
    split<1>(sa, [&](u64 a) { void* p = x_make(a, x, 0); k_x_move_assign(p, p); x_reuse_fin(p, a, 0); END(); });
}
Q q_x_default() { void* p = x_raw(0); k_x_default(p); S s{0, 0}; x_check(p, s, 0); x_fin(p, 0); END(); }
Q q_x_inplace() { PV y = nd_pv(); void* p = x_raw(0); k_x_inplace(p, y); S s{0, y}; x_check(p, s, 0); x_fin(p, 0); END(); }
Q q_x_unexpect() { PV y = nd_pv(); void* p = x_raw(0); k_x_unexpect(p, y); S s{1, y}; x_check(p, s, 0); x_fin(p, 0); END(); }
Q q_x_copy_ctor()
{
    u64 sa = nd_idx(1); PV x = nd_pv();
    split<1>(sa, [&](u64 a) { void* p = x_make(a, x, 0); void* q = x_raw(1); S s{a, x};
                              k_x_copy_ctor(q, p); x_check(q, s, 1); x_check(p, s, 0); x_fin(p, 0); x_check(q, s, 1); x_fin(q, 1); END(); });
}
Q q_x_move_ctor()
{
    u64 sa = nd_idx(1); PV x = nd_pv();
    split<1>(sa, [&](u64 a) { void* p = x_make(a, x, 0); void* q = x_raw(1); S s{a, x};
                              k_x_move_ctor(q, p); x_check(q, s, 1); x_reuse_fin(p, a, 0); x_check(q, s, 1); x_fin(q, 1); END(); });
}
#define X_BIN(NAME, ...)                                                                                                \
    Q q_x_##NAME()                                                                                                       \
    {                                                                                                                    \
        u64 sa = nd_idx(1), sb = nd_idx(1); PV x = nd_pv(), y = nd_pv();                                                 \
        split<1>(sa, [&](u64 a) { split<1>(sb, [&](u64 b) {                                                              \
            void* p = x_make(a, x, 0); void* q = x_make(b, y, 1); S sp{a, x}, sq{b, y}; __VA_ARGS__; END(); }); });             \
    }
X_BIN(copy_assign, k_x_copy_assign(p, q); x_check(p, sq, 0); x_check(q, sq, 1); x_fin(q, 1); x_check(p, sq, 0); x_fin(p, 0))
X_BIN(move_assign, k_x_move_assign(p, q); x_check(p, sq, 0); x_reuse_fin(q, b, 1); x_check(p, sq, 0); x_fin(p, 0))
X_BIN(swap, k_x_swap(p, q); x_check(p, sq, 0); x_check(q, sp, 1); x_fin(p, 0); x_check(q, sp, 1); x_fin(q, 1))

// =====================================================================================================================
// histories: KSTEPS symbolic operations on two variants / two optionals, all checks after every step. Every step is a case
// split over (op, operands), and the rest of the history runs inside each case, so each path stays concrete for the ledger.
// =====================================================================================================================
template <int NSTEP>
static void v_hist(void* p, void* q, S sp, S sq)
{
    if constexpr (NSTEP == 0) {
        v_check(p, sp, 0); v_check(q, sq, 1); lg_history_done(); v_fin(p, 0); v_check(q, sq, 1); v_fin(q, 1); END();
    } else {
        u64 op = (NSTEP == KSTEPS && FIRST >= 0) ? u64(FIRST) : nd_idx(FLAV == 1 ? 3 : 5), st = nd_idx(2); PV y = nd_pv();
        auto next = [&](S const& a, S const& b) { v_check(p, a, 0); v_check(q, b, 1); v_hist<NSTEP - 1>(p, q, a, b); };
        split_q<(FLAV == 1 ? 3 : 5)>(op, [&](u64 o) {
            switch (o) {
            case 0: split_q<2>(st, [&](u64 t) { k_v_emplace(p, (unsigned)t, y); next(S{t, y}, sq); }); break;
            case 1: k_v_swap(p, q); next(sq, sp); break;
            case 2: k_v_move_assign(p, q); next(sq, S{sq.idx, (FLAV != 2 && sq.idx < 2 && (FLAV != 3 || sp.idx != sq.idx)) ? PV(LG_MOVED_V) : sq.val}); break; // FLAV 3: same alternative = defaulted assignment, source untouched
            case 3: split_q<2>(st, [&](u64 t) { void* e = el_make((unsigned)t, y, 2); k_v_conv_assign_move(q, (unsigned)t, e, y); el_fin(e, (unsigned)t, 2); next(sp, S{t, y}); }); break;
            case 4: k_v_copy_assign(q, p); next(sp, sp); break;
            default: split_q<2>(st, [&](u64 t) { void* e = el_make((unsigned)t, y, 2); k_v_conv_assign(p, (unsigned)t, e, y); el_fin(e, (unsigned)t, 2); next(S{t, y}, sq); }); break;
            }
        });
    }
}
Q q_v_hist()
{
    u64 sa = HSA >= 0 ? u64(HSA) : nd_idx(2), sb = HSB >= 0 ? u64(HSB) : nd_idx(2); PV x = nd_pv(), y = nd_pv();
    split_q<2>(sa, [&](u64 a) { split_q<2>(sb, [&](u64 b) { void* p = v_make(a, x, 0); void* q = v_make(b, y, 1); v_hist<KSTEPS>(p, q, S{a, x}, S{b, y}); }); });
}
template <int NSTEP>
static void o_hist(void* p, void* q, S sp, S sq)
{
    if constexpr (NSTEP == 0) {
        o_check(p, sp, 0); o_check(q, sq, 1); lg_history_done(); o_fin(p, 0); o_check(q, sq, 1); o_fin(q, 1); END();
    } else {
        u64 op = (NSTEP == KSTEPS && FIRST >= 0) ? u64(FIRST) : nd_idx(FLAV == 1 ? 5 : 6), st = nd_idx(1); PV y = nd_pv();
        auto next = [&](S const& a, S const& b) { o_check(p, a, 0); o_check(q, b, 1); o_hist<NSTEP - 1>(p, q, a, b); };
        split_q<(FLAV == 1 ? 5 : 6)>(op, [&](u64 o) {
            switch (o) {
            case 0: k_o_emplace(p, y); next(S{1, y}, sq); break;
            case 1: k_o_reset(p); next(S{0, sp.val}, sq); break;
            case 2: k_o_swap(p, q); next(sq, sp); break;
            case 3: k_o_move_assign(p, q); next(sq, S{sq.idx, (FLAV != 2 && sq.idx && (FLAV != 3 || !sp.idx)) ? PV(LG_MOVED_V) : sq.val}); break;
            case 4: k_o_assign_src(q, y); next(sp, S{1, y}); break;
            case 5: split_q<1>(st, [&](u64 t) { k_o_assign_os_move(p, t != 0, y); next(S{t, y}, sq); }); break;
            default: k_o_copy_assign(q, p); next(sp, sp); break;
            }
        });
    }
}
Q q_o_hist()
{
    u64 sa = HSA >= 0 ? u64(HSA) : nd_idx(1), sb = HSB >= 0 ? u64(HSB) : nd_idx(1); PV x = nd_pv(), y = nd_pv();
    split_q<1>(sa, [&](u64 a) { split_q<1>(sb, [&](u64 b) { void* p = o_make(a, x, 0); void* q = o_make(b, y, 1); o_hist<KSTEPS>(p, q, S{a, x}, S{b, y}); }); });
}
