PROPERTIES = ['C03', 'C02']
BOUNDS = {
    'quick': 'optional<TA>, variant<TA,TB,int>, expected<TA,TB> with instrumented alternatives (copy+move; move-only and copy-only for the subset that compiles; and alternatives with user-provided constructors/destructor but defaulted, trivial assignment): one operation from every state, '
             'every (from, to) index pair of assignment / swap / emplace / converting construction and assignment (index symbolic, case-split inside one query); payloads and object bytes symbolic; '
             'histories of 2 symbolic operations on two objects from the default-constructed pair (copy+move; 6 op codes variant, 7 optional)',
    'thorough': 'the same single steps plus histories: 2 operations on two variants from every state pair except (int, int) (copy+move; that pair and the defaulted-assignment flavour gave no verdict within the 8 GB per-query memory cap) and from (TA, TB) (move-only, copy-only); 3 operations on two optionals from the empty pair, '
                'one query per first operation (copy+move), 2 operations from (engaged, empty) (move-only, copy-only)',
}
ASSUMPTIONS = [
    'C03: operator*, error(), unchecked_get are called inside their precondition (has_value / index match); contract checks compiled out',
    'C03: etl::variant has no member swap and no valueless state; swap is etl::swap(a, b) (move construct + two move assignments); etl::expected has no swap/assignment of its own beyond the implicit ones of its variant member',
    'C03: a moved-from optional / variant / expected keeps its index (as std does) and holds a moved-from alternative; asserted: it is alive, assignable (emplace) and destructible',
    'C03: self move assignment: only validity is asserted (std leaves the value unspecified)',
    'C03: emplace(args) with args aliasing the current content is undefined in std as well and is not exercised; the converting assignment v = get<I>(v) is (std assigns the held value to itself)',
]
O_ALL = ['assign_nullopt', 'reset', 'emplace', 'assign_src', 'set', 'value_or_move', 'move_assign_self', 'swap_self', 'assign_ta_move', 'assign_os', 'assign_os_move',
         'default', 'nullopt', 'inplace', 'from_src', 'from_os', 'from_os_move', 'from_ta_move', 'move_ctor', 'move_assign', 'swap', 'swap_free']
O_COPY = ['value_or', 'copy_assign_self', 'assign_own_value', 'assign_ta', 'from_ta', 'copy_ctor', 'copy_assign']
V_ALL = ['emplace', 'emplace_type', 'conv_assign_move', 'set', 'swap_self', 'move_assign_self', 'default', 'inplace', 'inplace_type', 'conv_ctor_move', 'move_ctor', 'move_assign', 'swap', 'rel']
V_COPY = ['conv_assign', 'copy_assign_self', 'assign_own_alt', 'assign_own_int', 'conv_ctor', 'copy_ctor', 'copy_assign']
X_ALL = ['emplace', 'set', 'value_or_move', 'swap_self', 'move_assign_self', 'default', 'inplace', 'unexpect', 'move_ctor', 'move_assign', 'swap']
X_COPY = ['value_or', 'copy_assign_self', 'copy_ctor', 'copy_assign']
UW = {'ll_memset.0': 130, 'll_memcpy.0': 130, 'll_memmove.0': 130, 'll_memmove.1': 130}
for f_, n_ in (('d_sym_block', 40), ('lg_register', 18), ('lg_expect', 18), ('lg_marks', 70)):
    for i_ in range(4): UW['%s.%d' % (f_, i_)] = n_


def queries(tier, prop='C03'):
    ub = prop == 'C02'
    out = []

    def add(e, fl, budget=120, **cfg):
        c = {'FLAV': fl}; c.update(cfg)
        q = dict(entry='q_' + e, cfg=c, unwind=24, unwindset=UW, budget=budget, ub=ub, nofunc=ub, solver='minisat' if 'hist' in e else ['cadical', 'minisat'])   # histories: minisat (cadical exceeded the 8 GB cap)
        if e == 'v_assign_own_alt': q['kf_only'] = 'C03_variant_assign_own_alternative'   # the whole query lies inside the known-finding region
        if e.endswith('_hist'): q['object_bits'] = 14
        out.append(q)
    flavs = (0, 1, 2, 3) if not ub else (0,)   # 3: user-provided constructors/destructor, defaulted (trivial) assignment
    for fl in flavs:
        for (pre, al, cp) in (('o_', O_ALL, O_COPY), ('v_', V_ALL, V_COPY), ('x_', X_ALL, X_COPY)):
            for e in al + ([] if fl == 1 else cp):
                add(pre + e, fl)
    if not ub:
        if tier == 'quick':   # from the default-constructed pair of objects
            for f in range(6): add('v_hist', 0, budget=300, KSTEPS=2, HSA=0, HSB=0, FIRST=f)   # one query per first operation
            for f in range(7): add('o_hist', 0, budget=300, KSTEPS=2, HSA=0, HSB=0, FIRST=f)
        else:
            for a in (0, 1, 2):
                for b in (0, 1, 2):
                    if (a, b) == (2, 2): continue   # no verdict within the 8 GB per-query memory cap: outside the bound
                    add('v_hist', 0, budget=2400, KSTEPS=2, HSA=a, HSB=b)
            for fl in (1, 2): add('v_hist', fl, budget=2400, KSTEPS=2, HSA=0, HSB=1)   # flavour 3 (defaulted assignment): no verdict within the 8 GB per-query memory cap; its single steps run in both tiers
            for f in range(7): add('o_hist', 0, budget=2400, KSTEPS=3, HSA=0, HSB=0, FIRST=f)
            for fl in (1, 2, 3): add('o_hist', fl, budget=2400, KSTEPS=2, HSA=1, HSB=0)
    for q_ in out:
        q_['lazy_trace'] = True   # verdict first, counterexample trace only when an obligation fails (engine/runner.py)
        if q_['cfg'].get('FLAV') == 3: q_['cbmc_flags'] = ['--max-field-sensitivity-array-size', '256']   # defaulted assignment = memcpy through pointers: keep the ledger global field-sensitive
    return out
