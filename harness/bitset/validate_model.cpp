// Native validation of the boolean-array model (model.h) against std::bitset: random histories of every modelled operation,
// all observers compared after each step; string constructors (std::string based, with pos, n, zero, one) and to_string.
// usage: validate_model [seed]; exit 0 = agreement.
#include "model.h"
#include <bitset>
#include <cstdio>
#include <cstdlib>
#include <random>
#include <string>

static std::mt19937_64 rng;
static unsigned long nchecks = 0;
static int fails = 0;
#define CHECK(c, what)                                                                                                 \
    do {                                                                                                               \
        ++nchecks;                                                                                                     \
        if (!(c)) { if (fails++ < 10) std::printf("MISMATCH N=%u: %s\n", NB, what); }                                  \
    } while (0)

template <unsigned NB>
static void compare(bsm::M<NB> const& m, std::bitset<size_t(NB)> const& s)
{
    for (unsigned i = 0; i < NB; i++) CHECK(m.b[i] == s.test(i), "bit");
    unsigned long long p = rng() % NB;
    CHECK(m.test(p) == s[p], "test(pos)");
    CHECK(m.count() == s.count(), "count");
    CHECK(m.all() == s.all(), "all");
    CHECK(m.any() == s.any(), "any");
    CHECK(!m.any() == s.none(), "none");
    if (m.fits_ull()) CHECK(m.to_ull() == s.to_ullong(), "to_ullong");
    char zero = char(rng()), one = char(rng());
    char buf[NB];
    m.to_str(buf, zero, one);
    CHECK(std::string(buf, NB) == s.template to_string<char>(zero, one), "to_string");
}

template <unsigned NB>
static void run(unsigned rounds)
{
    for (unsigned r = 0; r < rounds; r++) {
        bsm::M<NB> m, m2;
        std::bitset<NB> s, s2;
        unsigned long long v = rng(), v2 = rng();
        m.from_ull(v); s = std::bitset<NB>(v);
        m2.from_ull(v2); s2 = std::bitset<NB>(v2);
        if (rng() & 1) { m2.flip_all(); s2.flip(); }
        compare<NB>(m, s);
        for (unsigned step = 0; step < 24; step++) {
            unsigned long long pos = rng() % NB; bool val = rng() & 1;
            switch (rng() % 12) {
            case 0: m.set_all(); s.set(); break;
            case 1: m.set(pos, val); s.set(pos, val); break;
            case 2: m.reset_all(); s.reset(); break;
            case 3: m.set(pos, false); s.reset(pos); break;
            case 4: m.flip_all(); s.flip(); break;
            case 5: m.flip(pos); s.flip(pos); break;
            case 6: m.set(pos, val); s[pos] = val; break;
            case 7: m.flip(pos); s[pos].flip(); break;
            case 8: m.and_eq_(m2); s &= s2; break;
            case 9: m.or_eq_(m2); s |= s2; break;
            case 10: m.xor_eq_(m2); s ^= s2; break;
            default: m.flip_all(); s = ~s; break;
            }
            compare<NB>(m, s);
            CHECK(m.eq(m2) == (s == s2), "==");
        }
        // string constructors
        constexpr unsigned SMAX = NB + 3;
        unsigned sn = rng() % (SMAX + 1);
        char zero = char(rng()), one = char(rng());
        if (rng() % 4 == 0) one = zero;
        char str[SMAX + 1];
        for (unsigned i = 0; i < sn; i++) str[i] = (rng() & 1) ? one : zero;
        unsigned long long pos = rng() % (sn + 1);
        unsigned long long n = (rng() % 3 == 0) ? ~0ull : rng() % (sn + 2);
        // characters beyond the ones the constructor uses may be anything
        {
            unsigned long long rlen = n < sn - pos ? n : sn - pos, mm = rlen < NB ? rlen : NB;
            for (unsigned i = 0; i < sn; i++) if (!(i >= pos && i - pos < mm)) str[i] = char(rng());
        }
        CHECK((bsm::str_valid<char, SMAX>(str, sn, pos, n, zero, one, NB)), "str_valid");
        bsm::M<NB> ms; ms.template from_str<char, SMAX>(str, sn, pos, n, zero, one);
        std::bitset<NB> ss(std::string(str, sn), pos, n == ~0ull ? std::string::npos : n, zero, one);
        compare<NB>(ms, ss);
        // palindrome predicate against a direct definition
        {
            unsigned long long rlen = n < sn - pos ? n : sn - pos;
            bool np = false;
            for (unsigned long long i = 0; i < rlen; i++) np = np || ((str[pos + i] == zero) != (str[pos + rlen - 1 - i] == zero));
            CHECK((bsm::str_nonpal<char, SMAX>(str, sn, pos, rlen, zero)) == np, "str_nonpal");
        }
    }
}

int main(int argc, char** argv)
{
    rng.seed(argc > 1 ? std::strtoull(argv[1], nullptr, 10) + 12345 : 12345);
    run<1>(300); run<7>(300); run<8>(300); run<9>(300); run<31>(200); run<32>(200); run<33>(200); run<63>(150); run<64>(150); run<65>(150);
    run<127>(80); run<128>(80); run<129>(80);
    std::printf("model.h vs std::bitset: %lu comparisons, %d mismatches\n", nchecks, fails);
    return fails ? 1 : 0;
}
