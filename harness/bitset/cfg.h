// configuration macros shared by kernel.cpp and driver.cpp (supplied by spec.py as -D)
//   NBITS     number of bits
//   WSEL     0: etl::bitset<NBITS> (words are etl::size_t); 8/16/32/64: etl::basic_bitset<NBITS, uintW_t>
//   CHT   character type of the string constructors / to_string: 0 char, 1 wchar_t, 2 char16_t
//   SLEN    length of the string handed to the string constructors (enumerated)
//   SCAP  capacity of the inplace string returned by to_string (>= NBITS)
//   KH    number of operations in the history query
#ifndef BITSET_CFG_H
#define BITSET_CFG_H
#include <stdint.h>
#ifndef NBITS
    #define NBITS 9
#endif
#ifndef WSEL
    #define WSEL 0
#endif
#ifndef CHT
    #define CHT 0
#endif
#ifndef SLEN
    #define SLEN 3
#endif
#ifndef SCAP
    #define SCAP NBITS
#endif
#ifndef KH
    #define KH 2
#endif
#if WSEL == 0 || WSEL == 64
    #define WBITS 64
using WT = uint64_t;
#elif WSEL == 32
    #define WBITS 32
using WT = uint32_t;
#elif WSEL == 16
    #define WBITS 16
using WT = uint16_t;
#elif WSEL == 8
    #define WBITS 8
using WT = uint8_t;
#else
    #error "WSEL must be 0, 8, 16, 32 or 64"
#endif
#if CHT == 0
using CH = char;
    #define CH_IS_CHAR 1
#elif CHT == 1
using CH = wchar_t;
    #define CH_IS_CHAR 0
#else
using CH = char16_t;
    #define CH_IS_CHAR 0
#endif
#define NWORDS ((NBITS + WBITS - 1) / WBITS)     // number of storage words
#define OBJSZ (NWORDS * (WBITS / 8))         // sizeof of the object under test
#define PADBITS (NWORDS * WBITS - NBITS)      // unused high bits of the last word
#endif
