PROPERTIES = ['C17', 'C02']
BOUNDS = {'quick': 'wip', 'thorough': 'wip'}
ASSUMPTIONS = []
import os
def queries(tier, prop='C17'):
    ub = prop == 'C02'
    out = []
    ns = [int(x) for x in os.environ.get('C17_N', '9').split(',')]
    ws = [int(x) for x in os.environ.get('C17_W', '0').split(',')]
    sns = [int(x) for x in os.environ.get('C17_SN', '3').split(',')]
    ALL = ['observe','observe_anypad','eq','ctor_default','ctor_ull','copy','assign','set_all','reset_all','flip_all','set','set_dflt','reset','flip','ref_set','ref_set_chain','ref_flip','ref_flip_chain','ref_set_ref_self','ref_set_ref_other','and_eq','or_eq','xor_eq','and_eq_self','or_eq_self','xor_eq_self','and','or','xor','hist']
    BO = ['not','to_string','to_string_anypad','to_string_dflt']
    STR = ['ctor_sv','ctor_sv_pn','ctor_sv_p','ctor_sv_dflt','ctor_cs','ctor_cs_npos','ctor_cs_n','ctor_cs_dflt']
    for n in ns:
        for w in ws:
            for e in ALL + (BO if w == 0 else []):
                out.append(dict(entry='q_'+e, cfg={'NBITS': n, 'WSEL': w}, unwind=max(n,64)+2, unwindset={'ll_memset.0': n+40, 'll_memcpy.0': n+40}, solver=os.environ.get('C17_SOLVER','kissat'), budget=300, ub=ub, nofunc=ub))
            if w == 0:
                for sn in sns:
                    for e in STR:
                        out.append(dict(entry='q_'+e, cfg={'NBITS': n, 'WSEL': w, 'SLEN': sn}, unwind=max(n,64,sn)+2, unwindset={'ll_memset.0': n+40, 'll_memcpy.0': n+40}, solver=os.environ.get('C17_SOLVER','kissat'), budget=300, ub=ub, nofunc=ub))
    return out
