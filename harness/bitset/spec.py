"""C17: etl::bitset<N> / etl::basic_bitset<N, Word> against std::bitset (boolean-array model, model.h).
cfg: NBITS width, WSEL 0 = etl::bitset<N> (size_t words), 8/16/32/64 = basic_bitset<N, uintW_t>, SLEN string length,
CHT character type (0 char, 1 wchar_t, 2 char16_t), SCAP capacity of the to_string result, KH history length."""
import json
import os

PROPERTIES = ['C17', 'C02']
BOUNDS = {
    'quick': 'one operation from every state (all storage words symbolic, unused high bits zero; positions, values, operands symbolic over their full range): '
             'etl::bitset<N> for N in {1,7,8,9,31,32,33,63,64,65} (core operation list at every N, the remaining overloads/self-operand/binary-operator forms at {1,9,33,64,65}); '
             'basic_bitset<N,uintW_t> for W=8: N in {7,8,9,17}, W=16: {15,16,17}, W=32: {31,32,33}, W=64: {65} (core list; remaining forms at the last N of each W); '
             'histories of 2 symbolic operations (12 operation kinds) from bitset(unsigned long long) states, no invariant assumed: etl::bitset N in {9,33,65}, uint8 words N in {9,17}; '
             'to_string with symbolic zero/one: N in {1,7,8,9,31,32,33} (three forms), N=65, wchar_t/char16_t and capacity N+3 at N=9; '
             'string constructors (8 overload/default-argument forms, all characters, pos, n, zero, one symbolic): N in {1,8,9} with string lengths {0,1,2,3,N,N+1}; '
             'N=65 length 3 all forms; N in {33,64} length 3 (string_view full form + default forms); N in {33,64,65} length N default-argument forms; wchar_t/char16_t at N=9 length 3; '
             'oracle cross-check against libstdc++ std::bitset through the pipeline: one symbolic operation N in {1,9,33,64}, string constructor (N,len) in {(1,2),(9,3),(9,10),(33,5)}',
    'thorough': 'N in {1,7,8,9,31,32,33,63,64,65,127,128,129}: etl::bitset every operation; basic_bitset with uint8/16/32 words core list at every N and every form at N = W+1 and 129; '
                'uint64 words (same instantiation as inside etl::bitset) at N in {65,129}; histories of 3 operations (4 for N <= 9) for etl::bitset, uint8 and uint32 words at every N; '
                'to_string (three forms + capacity N+3) at every N, wchar_t/char16_t at N in {9,33}; string constructors: N in {1,7,8,9} lengths {0,1,2,3,4,N-1,N,N+1} all forms, '
                'N in {31,32,33,63,64,65} lengths {0,3,5} all forms, length N default forms and (ptr,n) form, length N+1 (ptr,n) form; N in {127,128,129} length 3 all forms, length N default forms; '
                'wchar_t/char16_t at N=9 lengths {3,9}; oracle cross-check against std::bitset for every N <= 64 (string constructor lengths 3, and N, N+1 for N <= 9). '
                'Not covered: symbolic pos/n with strings longer than 5 characters for N >= 31 (no verdict within 300 s), widths other than the 13 listed',
}
ASSUMPTIONS = [
    'C17: pre-states are written directly into the object: every storage word symbolic, the unused high bits of the last word zero (representation invariant). '
    'Every query asserts the invariant again after the operation, so it holds after every history that starts from a constructor; q_hist additionally runs short histories with no assumption at all',
    'C17: the model reads bit i as bit i % W of word i / W; q_observe checks exactly this reading through test()/operator[] for every state, so a wrong reading cannot hide a defect',
    'C17: count()/all()/any()/none()/== are functions of all storage words, i.e. they do depend on the unused high bits if those could be set; they cannot (invariant above). '
    'Observers defined bit by bit (test, operator[], to_ulong/to_ullong, to_string) are additionally checked with symbolic unused bits (q_observe_anypad, q_to_string_anypad)',
    'C17: single-bit operations are called inside their documented precondition pos < size() (std throws out_of_range there); contract checks are compiled out (default build)',
    'C17: string constructors: pos <= str.size() (std throws out_of_range), every character the constructor uses is zero or one (std throws invalid_argument); '
    'C-string overloads with n == npos get non-zero characters and a terminator; with n != npos a block of exactly the stated length and n <= that length',
    'C17: to_ulong/to_ullong only exist for N <= 64 in etl (requires-clause), so the overflow case of std (N > 64, high bits set) cannot be expressed; etl has no shift operators and no to_string() returning std::string',
    'C17: count() is compared with the number of positions where test() is true (each test(i) is compared with the model in the same query); the sum is formed word by word so that the solver sees the same adder shape as the popcount loops',
    'C17: oracle = boolean-array model harness/bitset/model.h written from [template.bitset]; validated natively against std::bitset (validate_model.cpp, run by spec.py on every C17 run: random histories incl. '
    'string constructors with pos/n/zero/one and to_string) and symbolically against libstdc++ std::bitset through the pipeline for N <= 64 (q_model_vs_std, q_model_vs_std_str)',
    'C02: the string constructors are called with effective length <= N (TETL_PRECONDITION(len <= size())); everything else as for C17',
]
_here = os.path.dirname(os.path.abspath(__file__))

CORE = ['observe', 'observe_anypad', 'eq', 'ctor_default', 'ctor_ull', 'copy', 'assign', 'set_all', 'reset_all', 'flip_all', 'set', 'reset', 'flip',
        'ref_set', 'ref_flip', 'ref_set_ref_self', 'ref_set_ref_other', 'and_eq', 'or_eq', 'xor_eq']
MORE = ['set_dflt', 'ref_set_chain', 'ref_flip_chain', 'and_eq_self', 'or_eq_self', 'xor_eq_self', 'and', 'or', 'xor']
BITSET_ONLY = ['not']
TOSTR = ['to_string', 'to_string_anypad', 'to_string_dflt']
STR_SYM = ['ctor_sv', 'ctor_sv_pn', 'ctor_sv_p', 'ctor_cs', 'ctor_cs_n']      # effective length can be made <= N by pos / n
STR_DFLT = ['ctor_sv_dflt', 'ctor_cs_npos', 'ctor_cs_dflt']                   # effective length == SLEN
# queries with several witnesses need several solver rounds: an incremental back end first
SOLVERS = {e: ['cadical', 'kissat'] for e in ['ctor_sv', 'ctor_cs', 'observe', 'observe_anypad', 'ref_set_ref_self', 'eq', 'ctor_ull']}
ALLW = [1, 7, 8, 9, 31, 32, 33, 63, 64, 65]
BIG = [127, 128, 129]


def open_findings():
    try:
        import sys
        sys.path.insert(0, os.path.join(os.path.dirname(os.path.dirname(_here)), 'engine'))
        import runner
        return {k['id'] for k in runner.load_findings().get('open', [])}
    except Exception:
        kp = os.path.join(_here, 'kf.json')
        return {k['id'] for k in json.load(open(kp))} if os.path.exists(kp) else set()


def mkq(entry, n, w, ub, tier, sn=None, cht=0, scap=None, kh=None):
    cfg = {'NBITS': n, 'WSEL': w}
    if sn is not None:
        cfg['SLEN'] = sn
    if cht:
        cfg['CHT'] = cht
    if scap is not None:
        cfg['SCAP'] = scap
    if kh is not None:
        cfg['KH'] = kh
    big = max(n, sn or 0, scap or 0, 8)     # 8: the smallest object is one 8-byte word (filled byte by byte)
    chsz = {0: 1, 1: 4, 2: 2}[cht]          # memset/memcpy of the inplace string run over bytes
    # loops: driver/model loops run NBITS (or SLEN) times; the kernel loops over characters/bits are bounded by the same numbers;
    # popcount intrinsics are modelled by a loop over the word width; memset/memcpy of the inplace string / of the object
    us = {'ll_ctpop_64.0': 66, 'll_ctpop_32.0': 34, 'll_ctpop_16.0': 18, 'll_ctpop_8.0': 10,
          'll_memset.0': big * chsz + 40, 'll_memcpy.0': big * chsz + 40, 'll_memmove.0': big * chsz + 40, 'll_memmove.1': big * chsz + 40}
    # NB the character loop of the string constructors has a symbolic trip count (<= SLEN) and is therefore unrolled big + 3 times;
    # it cannot be given a tighter bound by name because its number inside k_new_* differs between the plain and the UB build
    return dict(entry='q_' + entry, cfg=cfg, unwind=big + 3, unwindset=us, solver=SOLVERS.get(entry, ['kissat', 'cadical']),
                budget=150 if tier == 'quick' else 900, ub=ub, nofunc=ub)


def queries(tier, prop='C17'):
    ub = prop == 'C02'
    if prop == 'C17':
        validate()
    opn = open_findings()
    long_open = 'C17_str_ctor_longer_than_bits' in opn
    out = []
    seen = set()

    def add(entry, n, w, **kw):
        key = (entry, n, w, tuple(sorted(kw.items())))
        if key in seen:
            return
        seen.add(key)
        q = mkq(entry, n, w, ub, tier, **kw)
        sn = kw.get('sn')
        # a default-argument string constructor with a string longer than N lies wholly inside the open region (HARNESS.md)
        if sn is not None and sn > n and entry in STR_DFLT and (long_open or ub):
            return
        out.append(q)

    if os.environ.get('C17_N'):     # development aid: C17_N=65 C17_W=0,8 C17_SN=3 [C17_E=set,flip]
        ents = os.environ.get('C17_E')
        for n in [int(x) for x in os.environ['C17_N'].split(',')]:
            for w in [int(x) for x in os.environ.get('C17_W', '0').split(',')]:
                for e in CORE + MORE + ['hist'] + ((BITSET_ONLY + TOSTR) if w == 0 else []) + (['model_vs_std'] if w == 0 and n <= 64 else []):
                    if not ents or e in ents.split(','):
                        add(e, n, w)
                if w == 0:
                    for sn in [int(x) for x in os.environ.get('C17_SN', '3').split(',')]:
                        for e in STR_SYM + STR_DFLT + (['model_vs_std_str'] if n <= 64 else []):
                            if not ents or e in ents.split(','):
                                add(e, n, w, sn=sn, cht=int(os.environ.get('C17_CHT', '0')))
        return out

    if ub:
        # C02: the UB/memory build of the same queries on a smaller grid (the kernels are the same code for every width)
        for (n, w) in [(9, 0), (64, 0), (65, 0), (9, 8), (17, 8), (33, 32)] + ([(129, 0), (129, 8), (17, 16)] if tier != 'quick' else []):
            for e in CORE + MORE + (BITSET_ONLY + ['to_string'] if w == 0 else []):
                add(e, n, w)
        for n in [8, 9] + ([64, 65] if tier != 'quick' else []):
            for sn in sorted({0, 3, n}):
                for e in STR_SYM + STR_DFLT:
                    add(e, n, 0, sn=sn)
        return out
    if tier == 'quick':
        full = [1, 9, 33, 64, 65]
        for n in ALLW:
            for e in CORE + BITSET_ONLY + (MORE if n in full else []):
                add(e, n, 0)
        for (w, ns) in [(8, [7, 8, 9, 17]), (16, [15, 16, 17]), (32, [31, 32, 33]), (64, [65])]:
            for n in ns:
                for e in CORE:
                    add(e, n, w)
            for e in MORE:
                add(e, ns[-1], w)
        for (n, w) in [(9, 0), (33, 0), (65, 0), (9, 8), (17, 8)]:
            add('hist', n, w, kh=2)
        for n in [1, 9, 33, 64]:     # the oracle itself against libstdc++ std::bitset through the pipeline
            add('model_vs_std', n, 0)
        for (n, sn) in [(1, 2), (9, 3), (9, 10), (33, 5)]:
            add('model_vs_std_str', n, 0, sn=sn)
        for n in [1, 7, 8, 9, 31, 32, 33]:
            for e in TOSTR:
                add(e, n, 0)
        add('to_string', 65, 0)
        add('to_string', 9, 0, cht=1)
        add('to_string', 9, 0, cht=2)
        add('to_string', 9, 0, scap=12)
        for n in [1, 8, 9]:
            for sn in sorted({0, 1, 2, 3, n, n + 1}):
                for e in STR_SYM + STR_DFLT:
                    add(e, n, 0, sn=sn)
        for n in [33, 64, 65]:
            for e in (STR_SYM if n == 65 else ['ctor_sv']) + STR_DFLT:
                add(e, n, 0, sn=3)
            for e in STR_DFLT:
                add(e, n, 0, sn=n)
        for cht in (1, 2):
            for e in ['ctor_sv', 'ctor_cs_npos']:
                add(e, 9, 0, sn=3, cht=cht)
    else:
        for n in ALLW + BIG:
            for e in CORE + MORE + BITSET_ONLY:
                add(e, n, 0)
            for w in (8, 16, 32):
                for e in CORE + (MORE if n in (w + 1, 129) else []):
                    add(e, n, w)
            for w in (0, 8, 32):
                add('hist', n, w, kh=4 if n <= 9 else 3)
            for e in TOSTR:
                add(e, n, 0)
            add('to_string', n, 0, scap=n + 3)
        for n in [x for x in ALLW if x <= 64]:
            add('model_vs_std', n, 0)
            for sn in ((3, n, n + 1) if n <= 9 else (3,)):
                add('model_vs_std_str', n, 0, sn=sn)
        for n in (65, 129):      # uint64_t words: the same instantiation as the one inside etl::bitset<N> (size_t)
            for e in CORE + MORE:
                add(e, n, 64)
        for n in (9, 33):
            for cht in (1, 2):
                add('to_string', n, 0, cht=cht)
        for n in [1, 7, 8, 9]:
            for sn in sorted({0, 1, 2, 3, 4, n - 1, n, n + 1}):
                for e in STR_SYM + STR_DFLT:
                    add(e, n, 0, sn=sn)
        for n in [31, 32, 33, 63, 64, 65]:
            for sn in [0, 3, 5]:
                for e in STR_SYM + STR_DFLT:
                    add(e, n, 0, sn=sn)
            for e in STR_DFLT + ['ctor_cs_n']:
                add(e, n, 0, sn=n)
            add('ctor_cs_n', n, 0, sn=n + 1)
        for n in BIG:
            for e in STR_SYM + STR_DFLT:
                add(e, n, 0, sn=3)
            for e in STR_DFLT:
                add(e, n, 0, sn=n)
        for cht in (1, 2):
            for sn in (3, 9):
                for e in STR_SYM + STR_DFLT:
                    add(e, 9, 0, sn=sn, cht=cht)
    return out


_validated = [False]


def validate():
    """DESIGN.md 1.7(3): the boolean-array model of model.h against std::bitset, natively (g++), random histories"""
    if _validated[0] or os.environ.get('C17_SKIP_MODEL_VALIDATION'):
        return
    import shutil
    import subprocess
    import tempfile
    _validated[0] = True
    src = os.path.join(_here, 'validate_model.cpp')
    if not os.path.exists(src):
        return
    d = tempfile.mkdtemp(prefix='c17_model_')
    exe = os.path.join(d, 'validate_model')
    try:
        r = subprocess.run(['g++', '-std=c++20', '-O1', '-I' + _here, src, '-o', exe], capture_output=True, text=True, timeout=600)
        if r.returncode != 0:
            raise RuntimeError('bitset: validate_model.cpp does not compile: ' + r.stderr[-1500:])
        r = subprocess.run([exe, os.environ.get('VERIF_SEED', '0') or '0'], capture_output=True, text=True, timeout=600)
        if r.returncode != 0:
            raise RuntimeError('bitset: boolean-array model disagrees with std::bitset: ' + (r.stdout + r.stderr)[-1500:])
        print('[bitset] ' + r.stdout.strip().splitlines()[-1], flush=True)
    finally:
        shutil.rmtree(d, ignore_errors=True)
