// C17 kernels: thin wrappers around etl::bitset<NBITS> (WSEL == 0) or etl::basic_bitset<NBITS, uintW_t> (WSEL in {8,16,32,64}).
// No logic besides marshalling: objects are addressed through void*, mutators report whether the returned
// reference is *this, strings travel as pointer + length.
#include "vf.h"
#include <etl/bitset.hpp>
#include <etl/new.hpp>
#include <etl/string_view.hpp>
#include "cfg.h"
using u64 = uint64_t;
#if WSEL == 0
using BS = etl::bitset<NBITS>;
    #define SET1(b, pos, v) (b).set(pos, v)
    #define SET1D(b, pos)   (b).set(pos)
    #define RESET1(b, pos)  (b).reset(pos)
    #define FLIP1(b, pos)   (b).flip(pos)
    #define TEST1(b, pos)   (b).test(pos)
#else
using BS = etl::basic_bitset<NBITS, WT>;
    #define SET1(b, pos, v) (b).unchecked_set(pos, v)
    #define SET1D(b, pos)   (b).unchecked_set(pos)
    #define RESET1(b, pos)  (b).unchecked_reset(pos)
    #define FLIP1(b, pos)   (b).unchecked_flip(pos)
    #define TEST1(b, pos)   (b).unchecked_test(pos)
#endif
#define B(p)  (*static_cast<BS*>(p))
#define BC(p) (*static_cast<BS const*>(p))

K u64 k_sizeof() { return sizeof(BS); }
K u64 k_size(void const* p) { return BC(p).size(); }
// ---- construction (placement new into the driver's exact-size block)
K void k_new(void* p) { ::new (p) BS; } // default-initialisation: bytes no constructor writes stay as the driver made them
K void k_new_ull(void* p, unsigned long long v) { ::new (p) BS(v); }
K void k_copy(void* d, void const* s) { ::new (d) BS(BC(s)); }
K void k_assign(void* d, void const* s) { B(d) = BC(s); }
// ---- whole-set and single-bit mutators; result: returned reference is *this
K bool k_set_all(void* p) { return &B(p).set() == &B(p); }
K bool k_set(void* p, u64 pos, bool v) { return &SET1(B(p), pos, v) == &B(p); }
K bool k_set_dflt(void* p, u64 pos) { return &SET1D(B(p), pos) == &B(p); }
K bool k_reset_all(void* p) { return &B(p).reset() == &B(p); }
K bool k_reset(void* p, u64 pos) { return &RESET1(B(p), pos) == &B(p); }
K bool k_flip_all(void* p) { return &B(p).flip() == &B(p); }
K bool k_flip(void* p, u64 pos) { return &FLIP1(B(p), pos) == &B(p); }
// ---- proxy reference
K bool k_ref_get(void* p, u64 pos) { return static_cast<bool>(B(p)[pos]); }
K bool k_ref_not(void* p, u64 pos) { return ~B(p)[pos]; }
K void k_ref_set(void* p, u64 pos, bool v) { B(p)[pos] = v; }
K bool k_ref_set_chain(void* p, u64 pos, bool v) { return static_cast<bool>(B(p)[pos] = v); } // value of the assignment expression
K void k_ref_set_ref(void* p, u64 pos, void* q, u64 j) { B(p)[pos] = B(q)[j]; }                // reference = reference (q may be p)
K void k_ref_flip(void* p, u64 pos) { B(p)[pos].flip(); }
K bool k_ref_flip_chain(void* p, u64 pos) { return static_cast<bool>(B(p)[pos].flip()); }
// ---- observers
K bool k_test(void const* p, u64 pos) { return TEST1(BC(p), pos); }
K bool k_idx(void const* p, u64 pos) { return BC(p)[pos]; }
K bool k_all(void const* p) { return BC(p).all(); }
K bool k_any(void const* p) { return BC(p).any(); }
K bool k_none(void const* p) { return BC(p).none(); }
K u64 k_count(void const* p) { return BC(p).count(); }
K bool k_eq(void const* a, void const* b) { return BC(a) == BC(b); }
K bool k_ne(void const* a, void const* b) { return BC(a) != BC(b); }
// ---- logic operators
K bool k_and_eq(void* p, void const* q) { return &(B(p) &= BC(q)) == &B(p); }
K bool k_or_eq(void* p, void const* q) { return &(B(p) |= BC(q)) == &B(p); }
K bool k_xor_eq(void* p, void const* q) { return &(B(p) ^= BC(q)) == &B(p); }
K void k_and(void* d, void const* a, void const* b) { ::new (d) BS(BC(a) & BC(b)); }
K void k_or(void* d, void const* a, void const* b) { ::new (d) BS(BC(a) | BC(b)); }
K void k_xor(void* d, void const* a, void const* b) { ::new (d) BS(BC(a) ^ BC(b)); }
#if WSEL == 0
// ---- etl::bitset only: ~, conversions, strings
K void k_not(void* d, void const* s) { ::new (d) BS(~BC(s)); }
    #if NBITS <= 64
K unsigned long k_to_ulong(void const* p) { return BC(p).to_ulong(); }
K unsigned long long k_to_ullong(void const* p) { return BC(p).to_ullong(); }
    #endif
using SV = etl::basic_string_view<CH>;
K void k_new_sv(void* p, CH const* s, u64 sn, u64 pos, u64 n, CH zero, CH one) { ::new (p) BS(SV(s, sn), pos, n, zero, one); }
K void k_new_sv_pn(void* p, CH const* s, u64 sn, u64 pos, u64 n) { ::new (p) BS(SV(s, sn), pos, n); }
K void k_new_sv_p(void* p, CH const* s, u64 sn, u64 pos) { ::new (p) BS(SV(s, sn), pos); }
K void k_new_sv_dflt(void* p, CH const* s, u64 sn) { ::new (p) BS(SV(s, sn)); }
K void k_new_cs(void* p, CH const* s, u64 n, CH zero, CH one) { ::new (p) BS(s, n, zero, one); }
K void k_new_cs_n(void* p, CH const* s, u64 n) { ::new (p) BS(s, n); }
K void k_new_cs_dflt(void* p, CH const* s) { ::new (p) BS(s); }
// to_string<SCAP>(zero, one): copies size() characters to out, returns size(); *term = the character at data()[size()]
K u64 k_to_string(void const* p, CH* out, CH zero, CH one, CH* term)
{
    auto s = BC(p).template to_string<SCAP, CH>(zero, one);
    for (u64 i = 0; i < s.size(); i++) { out[i] = s[i]; }
    *term = s.data()[s.size()];
    return s.size();
}
    #if CH_IS_CHAR
K u64 k_to_string_dflt(void const* p, CH* out)
{
    auto s = BC(p).template to_string<SCAP>();
    for (u64 i = 0; i < s.size(); i++) { out[i] = s[i]; }
    return s.size();
}
    #endif
#endif
