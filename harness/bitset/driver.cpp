// C17 driver. One operation from an arbitrary state that satisfies the representation invariant (unused high bits of the
// last storage word are zero); afterwards the invariant is asserted again (so it holds after every history) and every
// public observer is compared with the boolean-array model of std::bitset (model.h). Widths, word type and string
// lengths are enumerated by spec.py; words, positions, values, characters, pos/n are symbolic over their full range.
#include "vf.h"
#include "cfg.h"
#include "model.h"
using u64 = uint64_t;
using Mo = bm::M<NBITS>;
extern "C" {
u64 k_sizeof(); u64 k_size(void const*);
void k_new(void*); void k_new_ull(void*, unsigned long long); void k_copy(void*, void const*); void k_assign(void*, void const*);
bool k_set_all(void*); bool k_set(void*, u64, bool); bool k_set_dflt(void*, u64); bool k_reset_all(void*); bool k_reset(void*, u64); bool k_flip_all(void*); bool k_flip(void*, u64);
bool k_ref_get(void*, u64); bool k_ref_not(void*, u64); void k_ref_set(void*, u64, bool); bool k_ref_set_chain(void*, u64, bool); void k_ref_set_ref(void*, u64, void*, u64);
void k_ref_flip(void*, u64); bool k_ref_flip_chain(void*, u64);
bool k_test(void const*, u64); bool k_idx(void const*, u64); bool k_all(void const*); bool k_any(void const*); bool k_none(void const*); u64 k_count(void const*);
bool k_eq(void const*, void const*); bool k_ne(void const*, void const*);
bool k_and_eq(void*, void const*); bool k_or_eq(void*, void const*); bool k_xor_eq(void*, void const*);
void k_and(void*, void const*, void const*); void k_or(void*, void const*, void const*); void k_xor(void*, void const*, void const*);
void k_not(void*, void const*); unsigned long k_to_ulong(void const*); unsigned long long k_to_ullong(void const*);
void k_new_sv(void*, CH const*, u64, u64, u64, CH, CH); void k_new_sv_pn(void*, CH const*, u64, u64, u64); void k_new_sv_p(void*, CH const*, u64, u64); void k_new_sv_dflt(void*, CH const*, u64);
void k_new_cs(void*, CH const*, u64, CH, CH); void k_new_cs_n(void*, CH const*, u64); void k_new_cs_dflt(void*, CH const*);
u64 k_to_string(void const*, CH*, CH, CH, CH*); u64 k_to_string_dflt(void const*, CH*);
}
static constexpr u64 NPOS = ~u64(0);
static WT nd_wt() { return WBITS == 8 ? WT(vf_nd_u8()) : WBITS == 16 ? WT(vf_nd_u16()) : WBITS == 32 ? WT(vf_nd_u32()) : WT(vf_nd_u64()); }
static CH nd_ch() { return sizeof(CH) == 1 ? CH(vf_nd_u8()) : sizeof(CH) == 2 ? CH(vf_nd_u16()) : CH(vf_nd_u32()); }
static bool nd_bool() { return (vf_nd_u8() & 1) != 0; }
static u64 nd_pos() { u64 p = vf_nd_u64(); vf_assume(p < NBITS); return p; } // documented precondition of every single-bit operation: pos < size()
static constexpr WT LASTMASK = PADBITS ? WT(WT(~WT(0)) >> PADBITS) : WT(~WT(0));

// NB: the object pointer is kept in a local (SSA value), never in memory: a pointer re-loaded from a byte array costs the
// solver a symbolic-offset access on every dereference.
static WT rd_word(uint8_t const* p, unsigned j) { WT w; __builtin_memcpy(&w, p + j * sizeof(WT), sizeof(WT)); return w; }
static void wr_word(uint8_t* p, unsigned j, WT w) { __builtin_memcpy(p + j * sizeof(WT), &w, sizeof(WT)); }
// exact-size block of symbolic bytes for an object that a constructor kernel is about to create
static uint8_t* raw() { return vf_sym_bytes(OBJSZ); }
// an object in an arbitrary state: all storage words symbolic; the padding bits are zero (anypad == false) or symbolic too.
// The model is read off the same words: bit i is bit i % WBITS of word i / WBITS (q_observe checks exactly this reading through test()).
static uint8_t* mk(Mo& m, bool anypad = false)
{
    uint8_t* p = raw();
    k_new(p);
    WT w[NWORDS];
    for (unsigned j = 0; j < NWORDS; j++) w[j] = nd_wt();
    if (!anypad) w[NWORDS - 1] &= LASTMASK;
    for (unsigned j = 0; j < NWORDS; j++) wr_word(p, j, w[j]);
    for (unsigned i = 0; i < NBITS; i++) m.b[i] = ((w[i / WBITS] >> (i % WBITS)) & 1u) != 0;
    return p;
}
static bool pad_zero(uint8_t const* p) { return (rd_word(p, NWORDS - 1) & WT(~LASTMASK)) == 0; }

// every public observer against the model, and the representation invariant
static void observe(uint8_t* p, Mo const& m, bool proxy = false)
{
    vf_assert(pad_zero(o.p), "unused high bits of the last word are zero after the operation");
    for (unsigned i = 0; i < NBITS; i++) {
        bool e = o.m.b[i];
        vf_assert(k_test(o.p, i) == e, "test(i) == std");
        vf_assert(k_idx(o.p, i) == e, "operator[](i) const == std");
        if (proxy) {
            vf_assert(k_ref_get(o.p, i) == e, "bool(operator[](i)) == std");
            vf_assert(k_ref_not(o.p, i) == !e, "~operator[](i) == std");
        }
    }
    vf_assert(k_count(o.p) == o.m.count(), "count() == std");
    vf_assert(k_all(o.p) == o.m.all(), "all() == std");
    vf_assert(k_any(o.p) == o.m.any(), "any() == std");
    vf_assert(k_none(o.p) == !o.m.any(), "none() == std");
    vf_assert(k_size(o.p) == NBITS, "size() == NBITS");
#if WSEL == 0 && NBITS <= 64
    vf_assert(k_to_ullong(o.p) == o.m.to_ull(), "to_ullong() == std");
    vf_assert(k_to_ulong(o.p) == o.m.to_ull(), "to_ulong() == std");
#endif
}

// ---------------------------------------------------------------------------------------------------------------------
// observers
// ---------------------------------------------------------------------------------------------------------------------
Q q_observe()
{
    vf_assert(k_sizeof() == OBJSZ, "object is exactly its storage words");
    Obj o; mk(o);
    observe(o, true);
    u64 pos = nd_pos(); // symbolic position as well (the loop above uses constant positions)
    bool e = o.m.test(pos);
    vf_assert(k_test(o.p, pos) == e, "test(pos) == std");
    vf_assert(k_idx(o.p, pos) == e, "operator[](pos) const == std");
    vf_assert(k_ref_get(o.p, pos) == e, "bool(operator[](pos)) == std");
    vf_assert(k_ref_not(o.p, pos) == !e, "~operator[](pos) == std");
    if (e) vf_witness("bit set"); else vf_witness("bit clear");
    if (k_all(o.p)) vf_witness("all");
    if (k_none(o.p)) vf_witness("none");
}
// the observers that are defined bit by bit must not look at the unused high bits at all (padding bits symbolic here)
Q q_observe_anypad()
{
    Obj o; mk(o, true);
    u64 pos = nd_pos();
    for (unsigned i = 0; i < NBITS; i++) {
        bool e = o.m.b[i];
        vf_assert(k_test(o.p, i) == e, "test(i) independent of unused bits");
        vf_assert(k_idx(o.p, i) == e, "operator[](i) const independent of unused bits");
        vf_assert(k_ref_get(o.p, i) == e, "bool(operator[](i)) independent of unused bits");
    }
    vf_assert(k_test(o.p, pos) == o.m.test(pos), "test(pos) independent of unused bits");
#if WSEL == 0 && NBITS <= 64
    vf_assert(k_to_ullong(o.p) == o.m.to_ull(), "to_ullong() independent of unused bits");
    vf_assert(k_to_ulong(o.p) == o.m.to_ull(), "to_ulong() independent of unused bits");
#endif
    if (PADBITS && !pad_zero(o.p)) vf_witness("unused bits set");
}
Q q_eq()
{
    Obj a, b; mk(a); mk(b);
    bool e = a.m.eq(b.m);
    vf_assert(k_eq(a.p, b.p) == e, "operator== == std");
    vf_assert(k_ne(a.p, b.p) == !e, "operator!= == std");
    vf_assert(k_eq(a.p, a.p), "a == a");
    vf_assert(!k_ne(b.p, b.p), "!(b != b)");
    if (e) vf_witness("equal"); else vf_witness("different");
}
// ---------------------------------------------------------------------------------------------------------------------
// construction, copy
// ---------------------------------------------------------------------------------------------------------------------
Q q_ctor_default()
{
    Obj o; o.p = raw(); k_new(o.p); o.m.reset_all();
    observe(o);
}
Q q_ctor_ull()
{
    unsigned long long v = vf_nd_u64();
    Obj o; o.p = raw(); k_new_ull(o.p, v); o.m.from_ull(v);
    observe(o);
    if (NBITS < 64 && (v >> (NBITS < 64 ? NBITS : 0)) != 0) vf_witness("value wider than the bitset");
}
Q q_copy()
{
    Obj a; mk(a);
    Obj d; d.p = raw(); k_copy(d.p, a.p); d.m = a.m;
    observe(d); observe(a);
    vf_assert(k_eq(d.p, a.p), "copy == original");
    Obj c; mk(c); k_assign(c.p, a.p); c.m = a.m;
    observe(c);
    k_assign(a.p, a.p);
    observe(a);
}
// ---------------------------------------------------------------------------------------------------------------------
// whole-set operations
// ---------------------------------------------------------------------------------------------------------------------
Q q_set_all() { Obj o; mk(o); vf_assert(k_set_all(o.p), "set() returns *this"); o.m.set_all(); observe(o); }
Q q_reset_all() { Obj o; mk(o); vf_assert(k_reset_all(o.p), "reset() returns *this"); o.m.reset_all(); observe(o); }
Q q_flip_all() { Obj o; mk(o); vf_assert(k_flip_all(o.p), "flip() returns *this"); o.m.flip_all(); observe(o); }
// ---------------------------------------------------------------------------------------------------------------------
// single-bit operations, position symbolic in [0, NBITS)
// ---------------------------------------------------------------------------------------------------------------------
Q q_set() { u64 pos = nd_pos(); bool v = nd_bool(); Obj o; mk(o); vf_assert(k_set(o.p, pos, v), "set(pos, v) returns *this"); o.m.set(pos, v); observe(o); }
Q q_set_dflt() { u64 pos = nd_pos(); Obj o; mk(o); vf_assert(k_set_dflt(o.p, pos), "set(pos) returns *this"); o.m.set(pos, true); observe(o); }
Q q_reset() { u64 pos = nd_pos(); Obj o; mk(o); vf_assert(k_reset(o.p, pos), "reset(pos) returns *this"); o.m.set(pos, false); observe(o); }
Q q_flip() { u64 pos = nd_pos(); Obj o; mk(o); vf_assert(k_flip(o.p, pos), "flip(pos) returns *this"); o.m.flip(pos); observe(o); }
// ---------------------------------------------------------------------------------------------------------------------
// proxy reference
// ---------------------------------------------------------------------------------------------------------------------
Q q_ref_set()
{
    u64 pos = nd_pos(); bool v = nd_bool(); Obj o; mk(o);
    k_ref_set(o.p, pos, v); o.m.set(pos, v); observe(o);
    u64 p2 = nd_pos(); bool v2 = nd_bool();
    vf_assert(k_ref_set_chain(o.p, p2, v2) == v2, "(b[pos] = v) reads back v");
    o.m.set(p2, v2); observe(o);
}
Q q_ref_flip()
{
    u64 pos = nd_pos(); Obj o; mk(o);
    k_ref_flip(o.p, pos); o.m.flip(pos); observe(o);
    u64 p2 = nd_pos();
    bool e = !o.m.test(p2);
    vf_assert(k_ref_flip_chain(o.p, p2) == e, "b[pos].flip() reads back the flipped bit");
    o.m.flip(p2); observe(o);
}
// b[i] = b[j] inside one bitset (i == j included)
Q q_ref_set_ref_self()
{
    u64 i = nd_pos(), j = nd_pos(); Obj o; mk(o);
    k_ref_set_ref(o.p, i, o.p, j); o.m.set(i, o.m.test(j)); observe(o);
    if (i == j) vf_witness("same bit");
}
// b[i] = c[j] across two bitsets
Q q_ref_set_ref_other()
{
    u64 i = nd_pos(), j = nd_pos(); Obj o, c; mk(o); mk(c);
    k_ref_set_ref(o.p, i, c.p, j); o.m.set(i, c.m.test(j)); observe(o); observe(c);
}
// ---------------------------------------------------------------------------------------------------------------------
// logic operators
// ---------------------------------------------------------------------------------------------------------------------
Q q_and_eq() { Obj a, b; mk(a); mk(b); vf_assert(k_and_eq(a.p, b.p), "&= returns *this"); a.m.and_eq_(b.m); observe(a); observe(b); }
Q q_or_eq() { Obj a, b; mk(a); mk(b); vf_assert(k_or_eq(a.p, b.p), "|= returns *this"); a.m.or_eq_(b.m); observe(a); observe(b); }
Q q_xor_eq() { Obj a, b; mk(a); mk(b); vf_assert(k_xor_eq(a.p, b.p), "^= returns *this"); a.m.xor_eq_(b.m); observe(a); observe(b); }
Q q_logic_self()
{
    Obj a; mk(a);
    k_and_eq(a.p, a.p); observe(a);
    k_or_eq(a.p, a.p); observe(a);
    k_xor_eq(a.p, a.p); a.m.reset_all(); observe(a);
}
Q q_binops()
{
    Obj a, b; mk(a); mk(b);
    Obj d; d.p = raw(); k_and(d.p, a.p, b.p); d.m = a.m; d.m.and_eq_(b.m); observe(d);
    Obj e; e.p = raw(); k_or(e.p, a.p, b.p); e.m = a.m; e.m.or_eq_(b.m); observe(e);
    Obj f; f.p = raw(); k_xor(f.p, a.p, b.p); f.m = a.m; f.m.xor_eq_(b.m); observe(f);
    observe(a); observe(b);
}
// ---------------------------------------------------------------------------------------------------------------------
// a short history through the public interface only: no assumption about the representation at all
// ---------------------------------------------------------------------------------------------------------------------
Q q_hist()
{
    unsigned long long v = vf_nd_u64(), v2 = vf_nd_u64();
    Obj o; o.p = raw(); k_new_ull(o.p, v); o.m.from_ull(v);
    Obj c; c.p = raw(); k_new_ull(c.p, v2); c.m.from_ull(v2);
    if (nd_bool()) { k_flip_all(c.p); c.m.flip_all(); } // so that bits >= 64 of the operand are not always zero
    uint8_t* tmp = raw();
    for (unsigned s = 0; s < KH; s++) {
        unsigned op = vf_nd_u8(); u64 pos = nd_pos(); bool val = nd_bool();
        vf_assume(op < (WSEL == 0 ? 12 : 11));
        switch (op) {
        case 0: k_set_all(o.p); o.m.set_all(); break;
        case 1: k_set(o.p, pos, val); o.m.set(pos, val); break;
        case 2: k_reset_all(o.p); o.m.reset_all(); break;
        case 3: k_reset(o.p, pos); o.m.set(pos, false); break;
        case 4: k_flip_all(o.p); o.m.flip_all(); break;
        case 5: k_flip(o.p, pos); o.m.flip(pos); break;
        case 6: k_ref_set(o.p, pos, val); o.m.set(pos, val); break;
        case 7: k_ref_flip(o.p, pos); o.m.flip(pos); break;
        case 8: k_and_eq(o.p, c.p); o.m.and_eq_(c.m); break;
        case 9: k_or_eq(o.p, c.p); o.m.or_eq_(c.m); break;
        case 10: k_xor_eq(o.p, c.p); o.m.xor_eq_(c.m); break;
#if WSEL == 0
        default: k_not(tmp, o.p); k_assign(o.p, tmp); o.m.flip_all(); break;
#endif
        }
    }
    observe(o);
    Obj d; d.p = raw(); k_copy(d.p, o.p);
    vf_assert(k_eq(d.p, o.p), "copy of the result == result");
}
#if WSEL == 0
// ---------------------------------------------------------------------------------------------------------------------
// etl::bitset only: operator~, to_string, string constructors
// ---------------------------------------------------------------------------------------------------------------------
Q q_not()
{
    Obj a; mk(a);
    Obj d; d.p = raw(); k_not(d.p, a.p); d.m = a.m; d.m.flip_all(); observe(d); observe(a);
}
Q q_to_string()
{
    Obj a; mk(a); CH zero = nd_ch(), one = nd_ch();
    CH* out = (CH*)vf_alloc(NBITS * sizeof(CH)); CH* term = (CH*)vf_alloc(sizeof(CH));
    CH exp[NBITS]; a.m.to_str(exp, zero, one);
    vf_assert(k_to_string(a.p, out, zero, one, term) == NBITS, "to_string().size() == NBITS");
    for (unsigned j = 0; j < NBITS; j++) vf_assert(out[j] == exp[j], "to_string(zero, one) characters == std");
    vf_assert(*term == CH(0), "to_string() is NUL-terminated");
    observe(a);
}
// unused bits symbolic: to_string must not depend on them
Q q_to_string_anypad()
{
    Obj a; mk(a, true); CH zero = nd_ch(), one = nd_ch();
    CH* out = (CH*)vf_alloc(NBITS * sizeof(CH)); CH* term = (CH*)vf_alloc(sizeof(CH));
    CH exp[NBITS]; a.m.to_str(exp, zero, one);
    vf_assert(k_to_string(a.p, out, zero, one, term) == NBITS, "to_string().size() == NBITS");
    for (unsigned j = 0; j < NBITS; j++) vf_assert(out[j] == exp[j], "to_string characters independent of unused bits");
}
    #if CH_IS_CHAR
Q q_to_string_dflt()
{
    Obj a; mk(a);
    CH* out = (CH*)vf_alloc(NBITS * sizeof(CH));
    CH exp[NBITS]; a.m.to_str(exp, '0', '1');
    vf_assert(k_to_string_dflt(a.p, out) == NBITS, "to_string().size() == NBITS");
    for (unsigned j = 0; j < NBITS; j++) vf_assert(out[j] == exp[j], "to_string() characters == std");
}
    #endif
// exact-size block of n symbolic characters
static CH* sym(u64 n) { CH* p = (CH*)vf_alloc(n * sizeof(CH)); for (u64 i = 0; i < n; i++) p[i] = nd_ch(); return p; }
// C string: block of n + 1, the n characters non-zero, terminator forced
static CH* symz(u64 n) { CH* p = (CH*)vf_alloc((n + 1) * sizeof(CH)); for (u64 i = 0; i < n; i++) { p[i] = nd_ch(); vf_assume(p[i] != CH(0)); } p[n] = CH(0); return p; }
static u64 rlen_of(u64 sn, u64 pos, u64 n) { return n < sn - pos ? n : sn - pos; }
static bool s_valid(CH const* s, u64 sn, u64 pos, u64 n, CH zero, CH one) { return bm::str_valid<CH, SLEN>(s, sn, pos, n, zero, one, NBITS); }
static bool s_nonpal(CH const* s, u64 sn, u64 pos, u64 n, CH zero) { return bm::str_nonpal<CH, SLEN>(s, sn, pos, rlen_of(sn, pos, n), zero); }
// Preconditions shared by the string constructors: pos <= size (std throws out_of_range otherwise) and every character
// the constructor uses is zero or one (std throws invalid_argument otherwise). Known-finding regions are stated here.
    #define STR_PRE(s, sn, pos, n, zero, one)                                                                          \
        vf_assume((pos) <= (sn));                                                                                      \
        vf_assume(s_valid(s, sn, pos, n, zero, one));                                                     \
        VF_KNOWN(C17_str_ctor_longer_than_bits, rlen_of(sn, pos, n) > NBITS);                                              \
        VF_KNOWN(C17_str_ctor_bit_order, rlen_of(sn, pos, n) <= NBITS && s_nonpal(s, sn, pos, n, zero))
static void str_witness(u64 sn, u64 pos, u64 n, CH zero, CH one)
{
    u64 r = rlen_of(sn, pos, n);
    if (r == sn) vf_witness("whole string used");
    if (SLEN > 0 && r < sn) vf_witness("part of the string used");
    (void)zero; (void)one;
}
Q q_ctor_sv()
{
    CH* s = sym(SLEN); u64 pos = vf_nd_u64(), n = vf_nd_u64(); CH zero = nd_ch(), one = nd_ch();
    STR_PRE(s, SLEN, pos, n, zero, one);
    Obj o; o.p = raw(); k_new_sv(o.p, s, SLEN, pos, n, zero, one); o.m.from_str<CH, SLEN>(s, SLEN, pos, n, zero, one);
    observe(o); str_witness(SLEN, pos, n, zero, one);
    if (zero == one) vf_witness("zero == one");
}
Q q_ctor_sv_pn()
{
    CH* s = sym(SLEN); u64 pos = vf_nd_u64(), n = vf_nd_u64();
    STR_PRE(s, SLEN, pos, n, CH('0'), CH('1'));
    Obj o; o.p = raw(); k_new_sv_pn(o.p, s, SLEN, pos, n); o.m.from_str<CH, SLEN>(s, SLEN, pos, n, CH('0'), CH('1'));
    observe(o); str_witness(SLEN, pos, n, CH('0'), CH('1'));
}
Q q_ctor_sv_p()
{
    CH* s = sym(SLEN); u64 pos = vf_nd_u64();
    STR_PRE(s, SLEN, pos, NPOS, CH('0'), CH('1'));
    Obj o; o.p = raw(); k_new_sv_p(o.p, s, SLEN, pos); o.m.from_str<CH, SLEN>(s, SLEN, pos, NPOS, CH('0'), CH('1'));
    observe(o);
}
Q q_ctor_sv_dflt()
{
    CH* s = sym(SLEN);
    STR_PRE(s, SLEN, u64(0), NPOS, CH('0'), CH('1'));
    Obj o; o.p = raw(); k_new_sv_dflt(o.p, s, SLEN); o.m.from_str<CH, SLEN>(s, SLEN, 0, NPOS, CH('0'), CH('1'));
    observe(o);
}
// (str, n, zero, one) with n != npos: exactly the first n characters are the string (they may contain NUL), n <= block length
Q q_ctor_cs()
{
    CH* s = sym(SLEN); u64 n = vf_nd_u64(); CH zero = nd_ch(), one = nd_ch();
    vf_assume(n <= SLEN);
    STR_PRE(s, n, u64(0), n, zero, one);
    Obj o; o.p = raw(); k_new_cs(o.p, s, n, zero, one); o.m.from_str<CH, SLEN>(s, n, 0, n, zero, one);
    observe(o);
    if (n == SLEN) vf_witness("whole block used");
}
// (str, npos, zero, one): NUL-terminated
Q q_ctor_cs_npos()
{
    CH* s = symz(SLEN); CH zero = nd_ch(), one = nd_ch();
    STR_PRE(s, SLEN, u64(0), NPOS, zero, one);
    Obj o; o.p = raw(); k_new_cs(o.p, s, NPOS, zero, one); o.m.from_str<CH, SLEN>(s, SLEN, 0, NPOS, zero, one);
    observe(o);
}
Q q_ctor_cs_n()
{
    CH* s = sym(SLEN); u64 n = vf_nd_u64();
    vf_assume(n <= SLEN);
    STR_PRE(s, n, u64(0), n, CH('0'), CH('1'));
    Obj o; o.p = raw(); k_new_cs_n(o.p, s, n); o.m.from_str<CH, SLEN>(s, n, 0, n, CH('0'), CH('1'));
    observe(o);
}
Q q_ctor_cs_dflt()
{
    CH* s = symz(SLEN);
    STR_PRE(s, SLEN, u64(0), NPOS, CH('0'), CH('1'));
    Obj o; o.p = raw(); k_new_cs_dflt(o.p, s); o.m.from_str<CH, SLEN>(s, SLEN, 0, NPOS, CH('0'), CH('1'));
    observe(o);
}
#endif
