// C17 driver. One operation from an arbitrary state that satisfies the representation invariant (unused high bits of the
// last storage word are zero); afterwards the invariant is asserted again (so it holds after every history) and every
// public observer is compared with the boolean-array model of std::bitset (model.h). Widths, word type and string
// lengths are enumerated by spec.py; words, positions, values, characters, pos/n are symbolic over their full range.
#include "vf.h"
#include "cfg.h"
#include "model.h"
#if WSEL == 0 && NBITS <= 64
    #include <bitset> // second oracle: libstdc++ std::bitset through the same pipeline (q_model_vs_std*)
#endif
using u64 = uint64_t;
using Mo = bsm::M<NBITS>;
extern "C" {
u64 k_sizeof(); u64 k_size(void const*);
void k_new(void*); void k_new_ull(void*, unsigned long long); void k_copy(void*, void const*); void k_assign(void*, void const*);
bool k_set_all(void*); bool k_set(void*, u64, bool); bool k_set_dflt(void*, u64); bool k_reset_all(void*); bool k_reset(void*, u64); bool k_flip_all(void*); bool k_flip(void*, u64);
bool k_ref_get(void*, u64); bool k_ref_not(void*, u64); void k_ref_set(void*, u64, bool); bool k_ref_set_chain(void*, u64, bool); void k_ref_set_ref(void*, u64, void*, u64);
void k_ref_flip(void*, u64); bool k_ref_flip_chain(void*, u64);
bool k_test(void const*, u64); bool k_idx(void const*, u64); bool k_all(void const*); bool k_any(void const*); bool k_none(void const*); u64 k_count(void const*);
bool k_eq(void const*, void const*); bool k_ne(void const*, void const*);
bool k_and_eq(void*, void const*); bool k_or_eq(void*, void const*); bool k_xor_eq(void*, void const*);
void k_and(void*, void const*, void const*); void k_or(void*, void const*, void const*); void k_xor(void*, void const*, void const*);
void k_not(void*, void const*); unsigned long k_to_ulong(void const*); unsigned long long k_to_ullong(void const*);
void k_new_sv(void*, CH const*, u64, u64, u64, CH, CH); void k_new_sv_pn(void*, CH const*, u64, u64, u64); void k_new_sv_p(void*, CH const*, u64, u64); void k_new_sv_dflt(void*, CH const*, u64);
void k_new_cs(void*, CH const*, u64, CH, CH); void k_new_cs_n(void*, CH const*, u64); void k_new_cs_dflt(void*, CH const*);
u64 k_to_string(void const*, CH*, CH, CH, CH*); u64 k_to_string_dflt(void const*, CH*);
}
static constexpr u64 NPOS = ~u64(0);
static WT nd_wt() { return WBITS == 8 ? WT(vf_nd_u8()) : WBITS == 16 ? WT(vf_nd_u16()) : WBITS == 32 ? WT(vf_nd_u32()) : WT(vf_nd_u64()); }
static CH nd_ch() { return sizeof(CH) == 1 ? CH(vf_nd_u8()) : sizeof(CH) == 2 ? CH(vf_nd_u16()) : CH(vf_nd_u32()); }
static bool nd_bool() { return (vf_nd_u8() & 1) != 0; }
static u64 nd_pos() { u64 p = vf_nd_u64(); vf_assume(p < NBITS); return p; } // documented precondition of every single-bit operation: pos < size()
static constexpr WT LASTMASK = PADBITS ? WT(WT(~WT(0)) >> PADBITS) : WT(~WT(0));

// NB: the object pointer is kept in a local (SSA value), never in memory: a pointer re-loaded from a byte array costs the
// solver a symbolic-offset access on every dereference.
static WT rd_word(uint8_t const* p, unsigned j) { WT w; __builtin_memcpy(&w, p + j * sizeof(WT), sizeof(WT)); return w; }
static void wr_word(uint8_t* p, unsigned j, WT w) { __builtin_memcpy(p + j * sizeof(WT), &w, sizeof(WT)); }
// exact-size block of symbolic bytes for an object that a constructor kernel is about to create
static uint8_t* raw() { return vf_sym_bytes(OBJSZ); }
// an object in an arbitrary state: all storage words symbolic; the padding bits are zero (anypad == false) or symbolic too.
// The model is read off the same words: bit i is bit i % WBITS of word i / WBITS (q_observe checks exactly this reading through test()).
static uint8_t* mk(Mo& m, bool anypad = false)
{
    uint8_t* p = raw();
    k_new(p);
    WT w[NWORDS];
    for (unsigned j = 0; j < NWORDS; j++) w[j] = nd_wt();
    if (!anypad) w[NWORDS - 1] &= LASTMASK;
    for (unsigned j = 0; j < NWORDS; j++) wr_word(p, j, w[j]);
    for (unsigned i = 0; i < NBITS; i++) m.b[i] = ((w[i / WBITS] >> (i % WBITS)) & 1u) != 0;
    return p;
}
static bool pad_zero(uint8_t const* p) { return (rd_word(p, NWORDS - 1) & WT(~LASTMASK)) == 0; }

// every public observer against the model, and the representation invariant
static void observe(uint8_t* p, Mo const& m, bool proxy = false)
{
    vf_assert(pad_zero(p), "unused high bits of the last word are zero after the operation");
    // count() is compared with the number of positions at which test() answers true; every test(i) is itself compared with the
    // model in the same query, so this is count() == model.count(). The sum is formed word by word only to give the solver an
    // adder network of the same shape as the popcount loops (addition is associative: the value is the same).
    u64 cnt = 0, c = 0;
    for (unsigned i = 0; i < NBITS; i++) {
        bool e = m.b[i];
        bool t = k_test(p, i);
        vf_assert(t == e, "test(i) == std");
        vf_assert(k_idx(p, i) == e, "operator[](i) const == std");
        if (proxy) {
            vf_assert(k_ref_get(p, i) == e, "bool(operator[](i)) == std");
            vf_assert(k_ref_not(p, i) == !e, "~operator[](i) == std");
        }
        c += t ? 1u : 0u;
        if (i % WBITS == WBITS - 1 || i == NBITS - 1) { cnt = c + cnt; c = 0; }
    }
    vf_assert(k_count(p) == cnt, "count() == std");
    vf_assert(k_all(p) == m.all(), "all() == std");
    vf_assert(k_any(p) == m.any(), "any() == std");
    vf_assert(k_none(p) == !m.any(), "none() == std");
    vf_assert(k_size(p) == NBITS, "size() == N");
#if WSEL == 0 && NBITS <= 64
    vf_assert(k_to_ullong(p) == m.to_ull(), "to_ullong() == std");
    vf_assert(k_to_ulong(p) == m.to_ull(), "to_ulong() == std");
#endif
}
// OBJ(a): an object `a` in an arbitrary invariant-satisfying state with its model `am`
#define OBJ(a) Mo a##m; uint8_t* a = mk(a##m)
// NEW(a): an exact-size block of symbolic bytes `a` for a constructor kernel, and an uninitialised model `am`
#define NEW(a) Mo a##m; uint8_t* a = raw()

// ---------------------------------------------------------------------------------------------------------------------
// observers
// ---------------------------------------------------------------------------------------------------------------------
Q q_observe()
{
    vf_assert(k_sizeof() == OBJSZ, "object is exactly its storage words");
    OBJ(o);
    observe(o, om, true);
    u64 pos = nd_pos(); // symbolic position as well (the loop above uses constant positions)
    bool e = om.test(pos);
    vf_assert(k_test(o, pos) == e, "test(pos) == std");
    vf_assert(k_idx(o, pos) == e, "operator[](pos) const == std");
    vf_assert(k_ref_get(o, pos) == e, "bool(operator[](pos)) == std");
    vf_assert(k_ref_not(o, pos) == !e, "~operator[](pos) == std");
    if (NBITS > 1 && !e && k_any(o)) vf_witness("bit clear, others set");
    if (k_all(o)) vf_witness("all");
}
// the observers that are defined bit by bit must not look at the unused high bits at all (padding bits symbolic here)
Q q_observe_anypad()
{
    Mo om; uint8_t* o = mk(om, true);
    u64 pos = nd_pos();
    for (unsigned i = 0; i < NBITS; i++) {
        bool e = om.b[i];
        vf_assert(k_test(o, i) == e, "test(i) independent of unused bits");
        vf_assert(k_idx(o, i) == e, "operator[](i) const independent of unused bits");
        vf_assert(k_ref_get(o, i) == e, "bool(operator[](i)) independent of unused bits");
    }
    vf_assert(k_test(o, pos) == om.test(pos), "test(pos) independent of unused bits");
#if WSEL == 0 && NBITS <= 64
    vf_assert(k_to_ullong(o) == om.to_ull(), "to_ullong() independent of unused bits");
    vf_assert(k_to_ulong(o) == om.to_ull(), "to_ulong() independent of unused bits");
#endif
    if (PADBITS && !pad_zero(o)) vf_witness("unused bits set");
}
Q q_eq()
{
    OBJ(a); OBJ(b);
    bool e = am.eq(bm);
    vf_assert(k_eq(a, b) == e, "operator== == std");
    vf_assert(k_ne(a, b) == !e, "operator!= == std");
    vf_assert(k_eq(a, a), "a == a");
    vf_assert(!k_ne(b, b), "!(b != b)");
    if (e) vf_witness("equal");
}
// ---------------------------------------------------------------------------------------------------------------------
// construction, copy
// ---------------------------------------------------------------------------------------------------------------------
Q q_ctor_default() { NEW(o); k_new(o); om.reset_all(); observe(o, om); }
Q q_ctor_ull()
{
    unsigned long long v = vf_nd_u64();
    NEW(o); k_new_ull(o, v); om.from_ull(v);
    observe(o, om);
    if (NBITS < 64 && (v >> (NBITS < 64 ? NBITS : 0)) != 0) vf_witness("value wider than the bitset");
}
Q q_copy()
{
    OBJ(a);
    NEW(d); k_copy(d, a); dm = am;
    observe(d, dm); observe(a, am);
    vf_assert(k_eq(d, a), "copy == original");
}
Q q_assign()
{
    OBJ(a); OBJ(c);
    k_assign(c, a); cm = am;
    observe(c, cm); observe(a, am);
    k_assign(a, a);
    observe(a, am);
}
// ---------------------------------------------------------------------------------------------------------------------
// whole-set operations
// ---------------------------------------------------------------------------------------------------------------------
Q q_set_all() { OBJ(o); vf_assert(k_set_all(o), "set() returns *this"); om.set_all(); observe(o, om); }
Q q_reset_all() { OBJ(o); vf_assert(k_reset_all(o), "reset() returns *this"); om.reset_all(); observe(o, om); }
Q q_flip_all() { OBJ(o); vf_assert(k_flip_all(o), "flip() returns *this"); om.flip_all(); observe(o, om); }
// ---------------------------------------------------------------------------------------------------------------------
// single-bit operations, position symbolic in [0, N)
// ---------------------------------------------------------------------------------------------------------------------
Q q_set() { u64 pos = nd_pos(); bool v = nd_bool(); OBJ(o); vf_assert(k_set(o, pos, v), "set(pos, v) returns *this"); om.set(pos, v); observe(o, om); }
Q q_set_dflt() { u64 pos = nd_pos(); OBJ(o); vf_assert(k_set_dflt(o, pos), "set(pos) returns *this"); om.set(pos, true); observe(o, om); }
Q q_reset() { u64 pos = nd_pos(); OBJ(o); vf_assert(k_reset(o, pos), "reset(pos) returns *this"); om.set(pos, false); observe(o, om); }
Q q_flip() { u64 pos = nd_pos(); OBJ(o); vf_assert(k_flip(o, pos), "flip(pos) returns *this"); om.flip(pos); observe(o, om); }
// ---------------------------------------------------------------------------------------------------------------------
// proxy reference
// ---------------------------------------------------------------------------------------------------------------------
Q q_ref_set() { u64 pos = nd_pos(); bool v = nd_bool(); OBJ(o); k_ref_set(o, pos, v); om.set(pos, v); observe(o, om); }
Q q_ref_set_chain()
{
    u64 pos = nd_pos(); bool v = nd_bool(); OBJ(o);
    vf_assert(k_ref_set_chain(o, pos, v) == v, "(b[pos] = v) reads back v");
    om.set(pos, v); observe(o, om);
}
Q q_ref_flip() { u64 pos = nd_pos(); OBJ(o); k_ref_flip(o, pos); om.flip(pos); observe(o, om); }
Q q_ref_flip_chain()
{
    u64 pos = nd_pos(); OBJ(o);
    bool e = !om.test(pos);
    vf_assert(k_ref_flip_chain(o, pos) == e, "b[pos].flip() reads back the flipped bit");
    om.flip(pos); observe(o, om);
}
// b[i] = b[j] inside one bitset (i == j included)
Q q_ref_set_ref_self()
{
    u64 i = nd_pos(), j = nd_pos(); OBJ(o);
    k_ref_set_ref(o, i, o, j); om.set(i, om.test(j)); observe(o, om);
    if (i == j) vf_witness("same bit");
}
// b[i] = c[j] across two bitsets
Q q_ref_set_ref_other()
{
    u64 i = nd_pos(), j = nd_pos(); OBJ(o); OBJ(c);
    k_ref_set_ref(o, i, c, j); om.set(i, cm.test(j)); observe(o, om); observe(c, cm);
}
// ---------------------------------------------------------------------------------------------------------------------
// logic operators
// ---------------------------------------------------------------------------------------------------------------------
Q q_and_eq() { OBJ(a); OBJ(b); vf_assert(k_and_eq(a, b), "&= returns *this"); am.and_eq_(bm); observe(a, am); observe(b, bm); }
Q q_or_eq() { OBJ(a); OBJ(b); vf_assert(k_or_eq(a, b), "|= returns *this"); am.or_eq_(bm); observe(a, am); observe(b, bm); }
Q q_xor_eq() { OBJ(a); OBJ(b); vf_assert(k_xor_eq(a, b), "^= returns *this"); am.xor_eq_(bm); observe(a, am); observe(b, bm); }
Q q_and_eq_self() { OBJ(a); k_and_eq(a, a); observe(a, am); }
Q q_or_eq_self() { OBJ(a); k_or_eq(a, a); observe(a, am); }
Q q_xor_eq_self() { OBJ(a); k_xor_eq(a, a); am.reset_all(); observe(a, am); }
Q q_and() { OBJ(a); OBJ(b); NEW(d); k_and(d, a, b); dm = am; dm.and_eq_(bm); observe(d, dm); observe(a, am); observe(b, bm); }
Q q_or() { OBJ(a); OBJ(b); NEW(d); k_or(d, a, b); dm = am; dm.or_eq_(bm); observe(d, dm); observe(a, am); observe(b, bm); }
Q q_xor() { OBJ(a); OBJ(b); NEW(d); k_xor(d, a, b); dm = am; dm.xor_eq_(bm); observe(d, dm); observe(a, am); observe(b, bm); }
// ---------------------------------------------------------------------------------------------------------------------
// a short history through the public interface only: no assumption about the representation at all
// ---------------------------------------------------------------------------------------------------------------------
static __attribute__((noinline)) void hist_step(uint8_t* o, Mo& om, uint8_t* c, Mo const& cm, uint8_t* tmp, unsigned op, u64 pos, bool val)
{
    switch (op) {
    case 0: k_set_all(o); om.set_all(); break;
    case 1: k_set(o, pos, val); om.set(pos, val); break;
    case 2: k_reset_all(o); om.reset_all(); break;
    case 3: k_reset(o, pos); om.set(pos, false); break;
    case 4: k_flip_all(o); om.flip_all(); break;
    case 5: k_flip(o, pos); om.flip(pos); break;
    case 6: k_ref_set(o, pos, val); om.set(pos, val); break;
    case 7: k_ref_flip(o, pos); om.flip(pos); break;
    case 8: k_and_eq(o, c); om.and_eq_(cm); break;
    case 9: k_or_eq(o, c); om.or_eq_(cm); break;
    case 10: k_xor_eq(o, c); om.xor_eq_(cm); break;
#if WSEL == 0
    default: k_not(tmp, o); k_assign(o, tmp); om.flip_all(); break;
#endif
    }
}
Q q_hist()
{
    unsigned long long v = vf_nd_u64(), v2 = vf_nd_u64();
    NEW(o); k_new_ull(o, v); om.from_ull(v);
    NEW(c); k_new_ull(c, v2); cm.from_ull(v2);
    if (nd_bool()) { k_flip_all(c); cm.flip_all(); } // so that bits >= 64 of the operand are not always zero
    uint8_t* tmp = raw();
    for (unsigned s = 0; s < KH; s++) {
        unsigned op = vf_nd_u8(); u64 pos = nd_pos(); bool val = nd_bool();
        vf_assume(op < (WSEL == 0 ? 12 : 11));
        hist_step(o, om, c, cm, tmp, op, pos, val);
    }
    observe(o, om);
    NEW(d); k_copy(d, o);
    vf_assert(k_eq(d, o), "copy of the result == result");
}
#if WSEL == 0
// ---------------------------------------------------------------------------------------------------------------------
// etl::bitset only: operator~, to_string, string constructors
// ---------------------------------------------------------------------------------------------------------------------
Q q_not() { OBJ(a); NEW(d); k_not(d, a); dm = am; dm.flip_all(); observe(d, dm); observe(a, am); }
Q q_to_string()
{
    OBJ(a); CH zero = nd_ch(), one = nd_ch();
    CH* out = (CH*)vf_alloc(NBITS * sizeof(CH)); CH* term = (CH*)vf_alloc(sizeof(CH));
    CH exp[NBITS]; am.to_str(exp, zero, one);
    vf_assert(k_to_string(a, out, zero, one, term) == NBITS, "to_string().size() == N");
    for (unsigned j = 0; j < NBITS; j++) vf_assert(out[j] == exp[j], "to_string(zero, one) characters == std");
    vf_assert(*term == CH(0), "to_string() is NUL-terminated");
    observe(a, am);
}
// unused bits symbolic: to_string must not depend on them
Q q_to_string_anypad()
{
    Mo am; uint8_t* a = mk(am, true); CH zero = nd_ch(), one = nd_ch();
    CH* out = (CH*)vf_alloc(NBITS * sizeof(CH)); CH* term = (CH*)vf_alloc(sizeof(CH));
    CH exp[NBITS]; am.to_str(exp, zero, one);
    vf_assert(k_to_string(a, out, zero, one, term) == NBITS, "to_string().size() == N");
    for (unsigned j = 0; j < NBITS; j++) vf_assert(out[j] == exp[j], "to_string characters independent of unused bits");
}
    #if CH_IS_CHAR
Q q_to_string_dflt()
{
    OBJ(a);
    CH* out = (CH*)vf_alloc(NBITS * sizeof(CH));
    CH exp[NBITS]; am.to_str(exp, '0', '1');
    vf_assert(k_to_string_dflt(a, out) == NBITS, "to_string().size() == N");
    for (unsigned j = 0; j < NBITS; j++) vf_assert(out[j] == exp[j], "to_string() characters == std");
}
    #endif
// exact-size block of n symbolic characters
static CH* sym(u64 n) { CH* p = (CH*)vf_alloc(n * sizeof(CH)); for (u64 i = 0; i < n; i++) p[i] = nd_ch(); return p; }
// C string: block of n + 1, the n characters non-zero, terminator forced
static CH* symz(u64 n) { CH* p = (CH*)vf_alloc((n + 1) * sizeof(CH)); for (u64 i = 0; i < n; i++) { p[i] = nd_ch(); vf_assume(p[i] != CH(0)); } p[n] = CH(0); return p; }
static u64 rlen_of(u64 sn, u64 pos, u64 n) { return n < sn - pos ? n : sn - pos; }
static bool s_valid(CH const* s, u64 sn, u64 pos, u64 n, CH zero, CH one) { return bsm::str_valid<CH, SLEN>(s, sn, pos, n, zero, one, NBITS); }
static bool s_nonpal(CH const* s, u64 sn, u64 pos, u64 n, CH zero) { return bsm::str_nonpal<CH, SLEN>(s, sn, pos, rlen_of(sn, pos, n), zero); }
// Preconditions shared by the string constructors: pos <= size (std throws out_of_range otherwise) and every character
// the constructor uses is zero or one (std throws invalid_argument otherwise). Known-finding regions are stated here.
// C02 runs (VF_NO_FUNCTIONAL) are about valid use in tetl's own terms: TETL_PRECONDITION(len <= size()) is assumed there.
    #ifdef VF_NO_FUNCTIONAL
        #define STR_C02(sn, pos, n) vf_assume(rlen_of(sn, pos, n) <= NBITS)
    #else
        #define STR_C02(sn, pos, n) ((void)0)
    #endif
    #define STR_PRE(s, sn, pos, n, zero, one)                                                                          \
        vf_assume((pos) <= (sn));                                                                                      \
        vf_assume(s_valid(s, sn, pos, n, zero, one));                                                                  \
        STR_C02(sn, pos, n);                                                                                           \
        VF_KNOWN(C17_str_ctor_longer_than_bits, rlen_of(sn, pos, n) > NBITS);                                          \
        VF_KNOWN(C17_str_ctor_bit_order, rlen_of(sn, pos, n) <= NBITS && s_nonpal(s, sn, pos, n, zero))
Q q_ctor_sv()
{
    CH* s = sym(SLEN); u64 pos = vf_nd_u64(), n = vf_nd_u64(); CH zero = nd_ch(), one = nd_ch();
    STR_PRE(s, SLEN, pos, n, zero, one);
    NEW(o); k_new_sv(o, s, SLEN, pos, n, zero, one); om.from_str<CH, SLEN>(s, SLEN, pos, n, zero, one);
    observe(o, om);
    if (SLEN > 2 && pos > 0 && rlen_of(SLEN, pos, n) < SLEN - pos && rlen_of(SLEN, pos, n) > 0) vf_witness("inner part of the string used");
}
Q q_ctor_sv_pn()
{
    CH* s = sym(SLEN); u64 pos = vf_nd_u64(), n = vf_nd_u64();
    STR_PRE(s, SLEN, pos, n, CH('0'), CH('1'));
    NEW(o); k_new_sv_pn(o, s, SLEN, pos, n); om.from_str<CH, SLEN>(s, SLEN, pos, n, CH('0'), CH('1'));
    observe(o, om);
}
Q q_ctor_sv_p()
{
    CH* s = sym(SLEN); u64 pos = vf_nd_u64();
    STR_PRE(s, SLEN, pos, NPOS, CH('0'), CH('1'));
    NEW(o); k_new_sv_p(o, s, SLEN, pos); om.from_str<CH, SLEN>(s, SLEN, pos, NPOS, CH('0'), CH('1'));
    observe(o, om);
}
Q q_ctor_sv_dflt()
{
    CH* s = sym(SLEN);
    STR_PRE(s, SLEN, u64(0), NPOS, CH('0'), CH('1'));
    NEW(o); k_new_sv_dflt(o, s, SLEN); om.from_str<CH, SLEN>(s, SLEN, 0, NPOS, CH('0'), CH('1'));
    observe(o, om);
}
// (str, n, zero, one) with n != npos: exactly the first n characters are the string (they may contain NUL), n <= block length
Q q_ctor_cs()
{
    CH* s = sym(SLEN); u64 n = vf_nd_u64(); CH zero = nd_ch(), one = nd_ch();
    vf_assume(n <= SLEN);
    STR_PRE(s, n, u64(0), n, zero, one);
    NEW(o); k_new_cs(o, s, n, zero, one); om.from_str<CH, SLEN>(s, n, 0, n, zero, one);
    observe(o, om);
    if (SLEN <= NBITS && n == SLEN) vf_witness("whole block used");
}
// (str, npos, zero, one): NUL-terminated
Q q_ctor_cs_npos()
{
    CH* s = symz(SLEN); CH zero = nd_ch(), one = nd_ch();
    STR_PRE(s, SLEN, u64(0), NPOS, zero, one);
    NEW(o); k_new_cs(o, s, NPOS, zero, one); om.from_str<CH, SLEN>(s, SLEN, 0, NPOS, zero, one);
    observe(o, om);
}
Q q_ctor_cs_n()
{
    CH* s = sym(SLEN); u64 n = vf_nd_u64();
    vf_assume(n <= SLEN);
    STR_PRE(s, n, u64(0), n, CH('0'), CH('1'));
    NEW(o); k_new_cs_n(o, s, n); om.from_str<CH, SLEN>(s, n, 0, n, CH('0'), CH('1'));
    observe(o, om);
}
Q q_ctor_cs_dflt()
{
    CH* s = symz(SLEN);
    STR_PRE(s, SLEN, u64(0), NPOS, CH('0'), CH('1'));
    NEW(o); k_new_cs_dflt(o, s); om.from_str<CH, SLEN>(s, SLEN, 0, NPOS, CH('0'), CH('1'));
    observe(o, om);
}
    #if NBITS <= 64
// ---------------------------------------------------------------------------------------------------------------------
// the oracle itself against libstdc++'s std::bitset<N>, symbolically (no tetl code involved): one symbolic operation from a
// symbolic value, then every observer; and the string constructor (char const*, n, zero, one)
// ---------------------------------------------------------------------------------------------------------------------
static void model_eq_std(Mo const& m, std::bitset<NBITS> const& s)
{
    for (unsigned i = 0; i < NBITS; i++) vf_assert(s[i] == m.b[i], "model bit == std::bitset bit");
    vf_assert(s.count() == m.count(), "model count == std::bitset::count");
    vf_assert(s.all() == m.all(), "model all == std::bitset::all");
    vf_assert(s.any() == m.any(), "model any == std::bitset::any");
    vf_assert(s.none() == !m.any(), "model none == std::bitset::none");
    vf_assert(s.to_ullong() == m.to_ull(), "model to_ull == std::bitset::to_ullong");
}
Q q_model_vs_std()
{
    unsigned long long v = vf_nd_u64(), v2 = vf_nd_u64();
    unsigned op = vf_nd_u8(); u64 pos = nd_pos(); bool val = nd_bool();
    vf_assume(op < 12);
    Mo m, c; m.from_ull(v); c.from_ull(v2);
    std::bitset<NBITS> s(v), t(v2);
    vf_assert(m.eq(c) == (s == t), "model eq == std::bitset ==");
    switch (op) {
    case 0: m.set_all(); s.set(); break;
    case 1: m.set(pos, val); s.set(pos, val); break;
    case 2: m.reset_all(); s.reset(); break;
    case 3: m.set(pos, false); s.reset(pos); break;
    case 4: m.flip_all(); s.flip(); break;
    case 5: m.flip(pos); s.flip(pos); break;
    case 6: m.set(pos, val); s[pos] = val; break;
    case 7: m.flip(pos); s[pos].flip(); break;
    case 8: m.and_eq_(c); s &= t; break;
    case 9: m.or_eq_(c); s |= t; break;
    case 10: m.xor_eq_(c); s ^= t; break;
    default: m.flip_all(); s = ~s; break;
    }
    model_eq_std(m, s);
    vf_assert(m.test(pos) == s.test(pos), "model test(pos) == std::bitset::test");
}
Q q_model_vs_std_str()
{
    CH* s = sym(SLEN); u64 n = vf_nd_u64(); CH zero = nd_ch(), one = nd_ch();
    vf_assume(n <= SLEN);
    vf_assume(s_valid(s, n, 0, n, zero, one));
    Mo m; m.from_str<CH, SLEN>(s, n, 0, n, zero, one);
    std::bitset<NBITS> b(s, n, zero, one);
    model_eq_std(m, b);
    if (SLEN > NBITS && n > NBITS) vf_witness("string longer than the bitset");
}
    #endif
#endif
