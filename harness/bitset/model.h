// Oracle for C17: a bitset<NB> as an array of NB booleans, b[i] = value of bit i, with the operations of std::bitset
// written directly from [template.bitset] / cppreference. No symbolic indexing: a position is compared against every
// constant index, so the solver sees plain multiplexers. Shared by driver.cpp (through the pipeline) and
// validate_model.cpp (natively against std::bitset, random histories).
#ifndef BITSET_MODEL_H
#define BITSET_MODEL_H
#include <stdint.h>
namespace bsm {
using u64 = uint64_t;
// value of the character at index idx (idx < sn <= SMAX) read as a bit: zero -> 0, anything else (i.e. one) -> 1;
// the index is compared against every constant position
template <typename C, unsigned SMAX>
__attribute__((noinline)) bool str_bit(C const* s, u64 sn, u64 idx, C zero)
{
    bool v = false;
    for (unsigned j = 0; j < SMAX; j++) { if (j < sn && j == idx) v = !(s[j] == zero); }
    return v;
}
template <unsigned NB>
struct M {
    bool b[NB];
    void set_all() { for (unsigned i = 0; i < NB; i++) b[i] = true; }
    void reset_all() { for (unsigned i = 0; i < NB; i++) b[i] = false; }
    void flip_all() { for (unsigned i = 0; i < NB; i++) b[i] = !b[i]; }
    void set(u64 pos, bool v) { for (unsigned i = 0; i < NB; i++) b[i] = (i == pos) ? v : b[i]; }
    void flip(u64 pos) { for (unsigned i = 0; i < NB; i++) b[i] = (i == pos) ? !b[i] : b[i]; }
    bool test(u64 pos) const { bool r = false; for (unsigned i = 0; i < NB; i++) r = (i == pos) ? b[i] : r; return r; }
    void and_eq_(M const& o) { for (unsigned i = 0; i < NB; i++) b[i] = b[i] && o.b[i]; }
    void or_eq_(M const& o) { for (unsigned i = 0; i < NB; i++) b[i] = b[i] || o.b[i]; }
    void xor_eq_(M const& o) { for (unsigned i = 0; i < NB; i++) b[i] = b[i] != o.b[i]; }
    bool eq(M const& o) const { bool r = true; for (unsigned i = 0; i < NB; i++) r = r && (b[i] == o.b[i]); return r; }
    u64 count() const { u64 c = 0; for (unsigned i = 0; i < NB; i++) c += b[i] ? 1u : 0u; return c; }
    bool all() const { bool r = true; for (unsigned i = 0; i < NB; i++) r = r && b[i]; return r; }
    bool any() const { bool r = false; for (unsigned i = 0; i < NB; i++) r = r || b[i]; return r; }
    // bitset(unsigned long long): the first min(64, NB) positions take the bits of val, the rest are zero
    void from_ull(unsigned long long val) { for (unsigned i = 0; i < NB; i++) b[i] = i < 64 ? ((val >> i) & 1u) != 0 : false; }
    // to_ullong for a value that fits (all bits >= 64 zero)
    unsigned long long to_ull() const { unsigned long long r = 0; for (unsigned i = 0; i < NB && i < 64; i++) r |= (unsigned long long)(b[i] ? 1u : 0u) << i; return r; }
    bool fits_ull() const { bool r = true; for (unsigned i = 64; i < NB; i++) r = r && !b[i]; return r; }
    // bitset(str, pos, n, zero, one), [bitset.cons]: rlen = min(n, size - pos); M = min(NB, rlen); the character at
    // pos + M - 1 - i gives bit i (zero -> 0, one -> 1; zero is tested first), the remaining positions are zero.
    // Requires pos <= sn and that every one of the M characters used is zero or one (std throws otherwise).
    // SMAX: compile-time upper bound of sn (every loop has a constant trip count; helpers are not inlined so that no
    // loop is nested inside another one in the generated code)
    template <typename C, unsigned SMAX>
    void from_str(C const* s, u64 sn, u64 pos, u64 n, C zero, C one)
    {
        u64 rlen = n < sn - pos ? n : sn - pos;
        u64 m = rlen < NB ? rlen : NB;
        (void)one;
        for (unsigned i = 0; i < NB; i++) b[i] = i < m ? str_bit<C, SMAX>(s, sn, pos + m - 1 - i, zero) : false;
    }
    // to_string(zero, one): NB characters, character j shows bit NB - 1 - j
    template <typename C>
    void to_str(C* out, C zero, C one) const { for (unsigned j = 0; j < NB; j++) out[j] = b[NB - 1 - j] ? one : zero; }
};
// every character of the effective string [pos, pos + min(n, sn - pos)) that the constructor uses (the first min(NB, rlen)) is zero or one
template <typename C, unsigned SMAX>
inline bool str_valid(C const* s, u64 sn, u64 pos, u64 n, C zero, C one, u64 nb)
{
    u64 rlen = n < sn - pos ? n : sn - pos;
    u64 m = rlen < nb ? rlen : nb;
    bool ok = true;
    for (unsigned j = 0; j < SMAX; j++) { if (j < sn && j >= pos && j - pos < m) ok = ok && (s[j] == zero || s[j] == one); }
    return ok;
}
// the used characters, read as bits, are not a palindrome (so the order in which characters map to bits is observable)
template <typename C, unsigned SMAX>
inline bool str_nonpal(C const* s, u64 sn, u64 pos, u64 rlen, C zero)
{
    bool r = false;
    for (unsigned j = 0; j < SMAX; j++) {
        if (j < sn && j >= pos && j - pos < rlen) r = r || (str_bit<C, SMAX>(s, sn, j, zero) != str_bit<C, SMAX>(s, sn, pos + (rlen - 1 - (j - pos)), zero));
    }
    return r;
}
} // namespace bsm
#endif
