// C10 kernels (parsing side): thin wrappers around etl::from_chars, etl::strings::to_integer, etl::strto*, etl::ato*,
// etl::sto*. No logic besides marshalling. TY = the integer type under test (macro) for the two templates.
#include "vf.h"
#include <etl/charconv.hpp>
#include <etl/cstdlib.hpp>
#include <etl/string.hpp>
#include <etl/strings.hpp>
#ifndef TY
#define TY int
#endif
using VT = TY;
using sz = etl::size_t;
// error class: 0 = none, 1 = value_too_large, 2 = result_out_of_range, 3 = invalid_argument, 4 = anything else
static int ecls(etl::errc e)
{
    return e == etl::errc{} ? 0 : e == etl::errc::value_too_large ? 1 : e == etl::errc::result_out_of_range ? 2 : e == etl::errc::invalid_argument ? 3 : 4;
}
K int k_from_chars(char const* first, char const* last, VT* value, int base, char const** optr)
{
    auto r = etl::from_chars(first, last, *value, base); *optr = r.ptr; return ecls(r.ec);
}
K int k_from_chars_def(char const* first, char const* last, VT* value, char const** optr)
{
    auto r = etl::from_chars(first, last, *value); *optr = r.ptr; return ecls(r.ec);
}
// strings::to_integer with its default options (skips white space, checks overflow). returns 0 = none, 1 = invalid_input, 2 = overflow
K int k_to_integer(char const* s, sz n, VT base, VT* value, char const** oend)
{
    auto r = etl::strings::to_integer<VT>(etl::string_view{s, n}, base); *value = r.value; *oend = r.end;
    return r.error == etl::strings::to_integer_error::none ? 0 : r.error == etl::strings::to_integer_error::invalid_input ? 1 : 2;
}
K long k_strtol(char const* s, char const** last, int base) { return etl::strtol(s, last, base); }
K long long k_strtoll(char const* s, char const** last, int base) { return etl::strtoll(s, last, base); }
K unsigned long k_strtoul(char const* s, char const** last, int base) { return etl::strtoul(s, last, base); }
K unsigned long long k_strtoull(char const* s, char const** last, int base) { return etl::strtoull(s, last, base); }
K int k_atoi(char const* s) { return etl::atoi(s); }
K long k_atol(char const* s) { return etl::atol(s); }
K long long k_atoll(char const* s) { return etl::atoll(s); }
K int k_stoi(char const* s, sz n, sz* pos, int base) { return etl::stoi(etl::string_view{s, n}, pos, base); }
K long k_stol(char const* s, sz n, sz* pos, int base) { return etl::stol(etl::string_view{s, n}, pos, base); }
K long long k_stoll(char const* s, sz n, sz* pos, int base) { return etl::stoll(etl::string_view{s, n}, pos, base); }
K unsigned long k_stoul(char const* s, sz n, sz* pos, int base) { return etl::stoul(etl::string_view{s, n}, pos, base); }
K unsigned long long k_stoull(char const* s, sz n, sz* pos, int base) { return etl::stoull(etl::string_view{s, n}, pos, base); }
// default arguments of sto*: pos = nullptr, base = 10
K int k_stoi_def(char const* s, sz n) { return etl::stoi(etl::string_view{s, n}); }
