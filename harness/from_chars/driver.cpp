// C10 driver (parsing side). SN (text length) and TY (integer type) are enumerated by spec.py; every character is
// symbolic over the full char range (so signs, white space, leading zeros, garbage, lone '-' are all in); base is
// symbolic over the documented range unless BASE is given.
// Oracles: std::from_chars (libstdc++, through the same pipeline) for from_chars; the reference parser refparse.hpp
// (C standard strtol semantics; compared natively with glibc by model_check.cpp) for strto*, ato*, sto*, to_integer.
#include "vf.h"
#include "refparse.hpp"
#include <charconv>
#include <limits>
#include <type_traits>
#ifndef TY
#define TY int
#endif
#ifndef SN
#define SN 3
#endif
using VT = TY;
using sz = size_t;
using U64 = unsigned long long;
extern "C" {
int k_from_chars(char const* first, char const* last, VT* value, int base, char const** optr);
int k_from_chars_def(char const* first, char const* last, VT* value, char const** optr);
int k_to_integer(char const* s, sz n, VT base, VT* value, char const** oend);
long k_strtol(char const* s, char const** last, int base);
long long k_strtoll(char const* s, char const** last, int base);
unsigned long k_strtoul(char const* s, char const** last, int base);
unsigned long long k_strtoull(char const* s, char const** last, int base);
int k_atoi(char const* s);
long k_atol(char const* s);
long long k_atoll(char const* s);
int k_stoi(char const* s, sz n, sz* pos, int base);
long k_stol(char const* s, sz n, sz* pos, int base);
long long k_stoll(char const* s, sz n, sz* pos, int base);
unsigned long k_stoul(char const* s, sz n, sz* pos, int base);
unsigned long long k_stoull(char const* s, sz n, sz* pos, int base);
int k_stoi_def(char const* s, sz n);
}
// Known-finding regions whose inputs stay in the main query (only the one wrong observable is skipped there):
//   mode 1 (listed open): the named assertion is skipped inside the region; mode 2 (confirm query): restricted to the region.
// The runner discovers the ids from the VF_KNOWN( spelling:
//   VF_KNOWN(C10_from_chars_overflow_ptr, std reports result_out_of_range)
//   VF_KNOWN(C10_to_integer_overflow_result, the reference parser reports a range error)
#define KF_MODE(ID) (VF_KF_##ID)
// branch witnesses are demanded only where the branch is reachable: a text of SN >= 1 characters can parse; spec.py sets
// WOVF where a text of SN characters can overflow TY
#if SN >= 1
#define WIT_PARSED vf_witness("parsed")
#else
#define WIT_PARSED ((void)0)
#endif
#if defined(WOVF) && WOVF
#define WIT_OVERFLOW vf_witness("overflow")
#else
#define WIT_OVERFLOW ((void)0)
#endif
template <class T> static T nd_as()
{
    if constexpr (sizeof(T) == 1) return T(vf_nd_u8());
    else if constexpr (sizeof(T) == 2) return T(vf_nd_u16());
    else if constexpr (sizeof(T) == 4) return T(vf_nd_u32());
    else return T(vf_nd_u64());
}
// base for from_chars / to_integer: 2..36
static int nd_base()
{
#ifdef BASE
    return BASE;
#else
    int b = vf_nd_u8(); vf_assume(b >= 2 && b <= 36); return b;
#endif
}
// base for strto* / sto*: 0 or 2..36 (C standard)
static int nd_base0()
{
#ifdef BASE
    return BASE;
#else
    int b = vf_nd_u8(); vf_assume(b == 0 || (b >= 2 && b <= 36)); return b;
#endif
}
// exactly SN symbolic characters, no terminator
static char* sym() { char* p = (char*)vf_alloc(SN); for (sz i = 0; i < SN; i++) p[i] = char(vf_nd_u8()); return p; }
// C string in a block of exactly SN+1 bytes: SN symbolic characters (a '\0' among them simply ends the text earlier) and a terminator
static char* symz() { char* p = (char*)vf_alloc(SN + 1); for (sz i = 0; i < SN; i++) p[i] = char(vf_nd_u8()); p[SN] = '\0'; return p; }
static sz zlen(char const* p) { sz n = 0; while (p[n] != '\0') n++; return n; }
// Texts at the type limits (q_lim_*): LIMTXT is the text of a limit of the result type in base BASE (spec.py); its first LEAD and
// last TAIL characters are symbolic over all 256 values, the characters in between are the limit's own digits. So every query
// covers a window of values around (and beyond) the limit, plus garbage endings, at the cost of a few symbolic characters.
#ifdef LIMTXT
#ifndef LEAD
#define LEAD 0
#endif
#ifndef TAIL
#define TAIL 3
#endif
static constexpr sz LIMN = sizeof(LIMTXT) - 1;
static char* limz()
{
    char* p = (char*)vf_alloc(LIMN + 1);
    for (sz i = 0; i < LIMN; i++) p[i] = (i < LEAD || i + TAIL >= LIMN) ? char(vf_nd_u8()) : LIMTXT[i];
    p[LIMN] = '\0';
    return p;
}
#else
static constexpr sz LIMN = 0;
static char* limz() { return nullptr; }
#endif
static int std_cls(std::errc e) { return e == std::errc{} ? 0 : e == std::errc::value_too_large ? 1 : e == std::errc::result_out_of_range ? 2 : e == std::errc::invalid_argument ? 3 : 4; }

// ---------------------------------------------------------------- from_chars vs std::from_chars
static void check_from_chars(bool defbase)
{
    char* s = sym(); VT init = nd_as<VT>(); int base = defbase ? 10 : nd_base();
    VT ev = init; auto er = std::from_chars(s, s + SN, ev, base);
    bool ovf = er.ec == std::errc::result_out_of_range;
    if (KF_MODE(C10_from_chars_overflow_ptr) == 2) vf_assume(ovf);
    VT* v = (VT*)vf_alloc(sizeof(VT)); *v = init;
    char const** op = (char const**)vf_alloc(sizeof(char*));
    int ec = defbase ? k_from_chars_def(s, s + SN, v, op) : k_from_chars(s, s + SN, v, base, op);
    vf_assert(ec == std_cls(er.ec), "from_chars error class == std::from_chars");
    vf_assert(*v == ev, "from_chars value == std::from_chars (unmodified on error)");
    if (!(KF_MODE(C10_from_chars_overflow_ptr) == 1 && ovf))
        vf_assert(*op == s + (er.ptr - s), "from_chars ptr == std::from_chars (characters consumed)");
    // (each witness is followed by its own assertion so that the optimiser cannot merge the three calls into one)
    if (er.ec == std::errc{}) { WIT_PARSED; vf_assert(ec == 0, "from_chars: parsed text reports no error"); }
    if (ovf) { WIT_OVERFLOW; vf_assert(ec == 2, "from_chars: result_out_of_range exactly when std reports it"); }
    if (er.ec == std::errc::invalid_argument) { vf_witness("invalid"); vf_assert(ec == 3, "from_chars: invalid_argument exactly when std reports it"); }
}
Q q_from_chars() { check_from_chars(false); }
Q q_from_chars_def() { check_from_chars(true); }

// ---------------------------------------------------------------- strtol family semantics (reference parser)
// What etl must return for a text the reference parser classified; shared by to_integer / strto* / sto* / ato*.
#define KNOWN_STRTO_REGIONS(r, base, is_unsigned)                                                                       \
    VF_KNOWN(C10_strto_base_zero, (base) == 0);                                                                         \
    VF_KNOWN(C10_strto_plus_sign, (r).plus);                                                                             \
    VF_KNOWN(C10_strto_hex_prefix, (r).prefix);                                                                          \
    VF_KNOWN(C10_strtoul_minus_sign, (is_unsigned) && (r).minus && (r).err != 1)

// strings::to_integer<VT> (default options) = strtol semantics at the width of VT, bases 2..36
Q q_to_integer()
{
    char* s = sym(); int base = nd_base();
    RefParse r = ref_strto<VT>(s, SN, base);
    KNOWN_STRTO_REGIONS(r, base, std::is_unsigned_v<VT>);
    if (KF_MODE(C10_to_integer_overflow_result) == 2) vf_assume(r.err == 2);
    VT* v = (VT*)vf_alloc(sizeof(VT)); *v = nd_as<VT>();
    char const** oe = (char const**)vf_alloc(sizeof(char*));
    int err = k_to_integer(s, SN, VT(base), v, oe);
    vf_assert(err == r.err, "to_integer error class (none / invalid_input / overflow) == reference strtol semantics");
    if (r.err == 0) { WIT_PARSED; vf_assert(U64(*v) == r.bits, "to_integer value == reference"); }
    if (r.err == 1) { vf_witness("invalid"); vf_assert(*oe == s, "to_integer end == start when nothing was converted"); }
    if (r.err == 2) WIT_OVERFLOW;
    if (r.err != 1 && !(KF_MODE(C10_to_integer_overflow_result) == 1 && r.err == 2))
        vf_assert(*oe == s + r.consumed, "to_integer end == one past the last digit (also on overflow, as strtol)");
}

template <class R, bool LIM = false, class F> static void check_strto(F kernel, bool nullend)
{
    char* s = LIM ? limz() : symz(); int base = nd_base0();
    RefParse r = ref_strto<R>(s, zlen(s), base);
    KNOWN_STRTO_REGIONS(r, base, std::is_unsigned_v<R>);
    if (KF_MODE(C10_to_integer_overflow_result) == 2) vf_assume(r.err == 2);
    char const** last = nullend ? nullptr : (char const**)vf_alloc(sizeof(char*));
    R v = kernel(s, last, base);
    if (!(KF_MODE(C10_to_integer_overflow_result) == 1 && r.err == 2)) {
        vf_assert(U64(v) == r.bits, "strto* value == C standard (0 if no conversion, the limit on overflow)");
        if (!nullend) vf_assert(*last == s + r.consumed, "strto* end pointer == C standard");
    }
    if constexpr (!LIM) {
        if (r.err == 0) { WIT_PARSED; vf_assert(nullend || *last != s, "strto*: a conversion consumes at least one character"); }
        if (r.err == 1) { vf_witness("no_conversion"); vf_assert(v == 0, "strto*: 0 when no conversion is performed"); }
    } else {
        if (r.err == 0) { vf_witness("limit_text_parsed"); vf_assert(nullend || *last != s, "strto*: a conversion consumes at least one character"); }
    }
    if constexpr (LIM && std::is_unsigned_v<R>) {
        if (r.err == 0 && (r.bits >> 63) != 0) { vf_witness("upper_half"); vf_assert((U64(v) >> 63) != 0, "strtoul/strtoull accept values above LONG_MAX"); }
    }
}
Q q_strtol() { check_strto<long>(k_strtol, false); }
Q q_strtoll() { check_strto<long long>(k_strtoll, false); }
Q q_strtoul() { check_strto<unsigned long>(k_strtoul, false); }
Q q_strtoull() { check_strto<unsigned long long>(k_strtoull, false); }
Q q_strtol_null() { check_strto<long>(k_strtol, true); }
Q q_strtoul_null() { check_strto<unsigned long>(k_strtoul, true); }

// atoi/atol/atoll: strtol(s, nullptr, 10) narrowed; behaviour is undefined in C when the value is not representable (assumed away)
template <class R, bool LIM = false, class F> static void check_ato(F kernel)
{
    char* s = LIM ? limz() : symz();
    RefParse r = ref_strto<R>(s, zlen(s), 10);
    vf_assume(r.err != 2);
    VF_KNOWN(C10_strto_plus_sign, r.plus);
    R v = kernel(s);
    vf_assert(U64(v) == r.bits, "ato* value == strtol(s, nullptr, 10)");
    if constexpr (!LIM) {
        if (r.err == 0) { WIT_PARSED; vf_assert(U64(v) == r.bits, "ato*: parsed value"); }
        if (r.err == 1) { vf_witness("no_conversion"); vf_assert(v == 0, "ato*: 0 when no conversion is performed"); }
    } else {
        if (r.err == 0) { vf_witness("limit_text_parsed"); vf_assert(U64(v) == r.bits, "ato*: parsed value"); }
    }
}
Q q_atoi() { check_ato<int>(k_atoi); }
Q q_atol() { check_ato<long>(k_atol); }
Q q_atoll() { check_ato<long long>(k_atoll); }

// sto*: std::sto* = strto* on the characters + exceptions. etl has no exceptions: texts on which std::sto* throws
// (no conversion: invalid_argument, out of range: out_of_range) are outside this check (ASSUMPTIONS in spec.py).
template <class R, bool LIM = false, class F> static void check_sto(F kernel, bool nullpos)
{
    constexpr sz TN = LIM ? LIMN : sz(SN);   // the view covers exactly the text, no terminator is passed
    char* s = LIM ? limz() : sym(); int base = nd_base0();
    RefParse r = ref_strto<R>(s, TN, base);
    vf_assume(r.err == 0);
    KNOWN_STRTO_REGIONS(r, base, std::is_unsigned_v<R>);
    sz* pos = nullpos ? nullptr : (sz*)vf_alloc(sizeof(sz));
    if (pos) *pos = vf_nd_u64();
    R v = kernel(s, TN, pos, base);
    vf_assert(U64(v) == r.bits, "sto* value == std::sto*");
    if (pos) vf_assert(*pos == r.consumed, "sto* *pos == number of characters processed");
    if constexpr (LIM && std::is_unsigned_v<R>) {
        if ((r.bits >> 63) != 0) { vf_witness("upper_half"); vf_assert((U64(v) >> 63) != 0, "stoul/stoull accept values above LONG_MAX"); }
    }
}
#if SN >= 1
Q q_stoi() { check_sto<int>(k_stoi, false); }
Q q_stol() { check_sto<long>(k_stol, false); }
Q q_stoll() { check_sto<long long>(k_stoll, false); }
Q q_stoul() { check_sto<unsigned long>(k_stoul, false); }
Q q_stoull() { check_sto<unsigned long long>(k_stoull, false); }
Q q_stoi_nullpos() { check_sto<int>(k_stoi, true); }
Q q_stoi_def()
{
    char* s = sym(); RefParse r = ref_strto<int>(s, SN, 10);
    vf_assume(r.err == 0);
    VF_KNOWN(C10_strto_plus_sign, r.plus);
    vf_assert(U64(k_stoi_def(s, SN)) == r.bits, "stoi(str) == std::stoi(str)");
}
#endif

// ---------------------------------------------------------------- every wrapper at the limits of its result type
#ifdef LIMTXT
Q q_lim_strtol() { check_strto<long, true>(k_strtol, false); }
Q q_lim_strtoll() { check_strto<long long, true>(k_strtoll, false); }
Q q_lim_strtoul() { check_strto<unsigned long, true>(k_strtoul, false); }
Q q_lim_strtoull() { check_strto<unsigned long long, true>(k_strtoull, false); }
Q q_lim_atoi() { check_ato<int, true>(k_atoi); }
Q q_lim_atol() { check_ato<long, true>(k_atol); }
Q q_lim_atoll() { check_ato<long long, true>(k_atoll); }
Q q_lim_stoi() { check_sto<int, true>(k_stoi, false); }
Q q_lim_stol() { check_sto<long, true>(k_stol, false); }
Q q_lim_stoll() { check_sto<long long, true>(k_stoll, false); }
Q q_lim_stoul() { check_sto<unsigned long, true>(k_stoul, false); }
Q q_lim_stoull() { check_sto<unsigned long long, true>(k_stoull, false); }
#endif
