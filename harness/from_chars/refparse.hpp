// Reference parser for the strtol family, written from the C standard (7.22.1.4 strtol, strtoll, strtoul, strtoull;
// "C" locale), parameterised by the result type so that the same text decides strto*, ato*, sto* and to_integer<Int>.
// model_check.cpp compares it with glibc's strtol/strtoul/strtoll/strtoull natively.
#ifndef C10_REFPARSE_HPP
#define C10_REFPARSE_HPP
#include <limits>
#include <stddef.h>
#include <type_traits>
struct RefParse {
    unsigned long long bits; // the result converted to unsigned long long (two's complement for signed types)
    size_t consumed;         // characters of the subject sequence incl. leading white space (0 if no conversion)
    int err;                 // 0 = ok, 1 = no conversion performed, 2 = out of range (ERANGE; value is the limit)
    bool plus, minus, prefix; // which optional parts the subject sequence used ('+', '-', 0x/0X)
};
static inline int ref_digit(char c)
{
    if (c >= '0' && c <= '9') return c - '0';
    if (c >= 'a' && c <= 'z') return c - 'a' + 10;
    if (c >= 'A' && c <= 'Z') return c - 'A' + 10;
    return 99;
}
static inline bool ref_space(char c) { return c == ' ' || c == '\t' || c == '\n' || c == '\v' || c == '\f' || c == '\r'; }
// s[0..n): the characters before the terminator (an embedded '\0' also ends the text). base: 0 or 2..36.
template <class Int>
static inline RefParse ref_strto(char const* s, size_t n, int base)
{
    using U = unsigned long long;
    RefParse r{0, 0, 1, false, false, false};
    size_t i = 0;
    while (i < n && ref_space(s[i])) i++;
    bool neg = false;
    if (i < n && (s[i] == '+' || s[i] == '-')) { neg = s[i] == '-'; r.plus = !neg; r.minus = neg; i++; }
    if ((base == 0 || base == 16) && i + 2 < n + 0 && s[i] == '0' && (s[i + 1] == 'x' || s[i + 1] == 'X') && ref_digit(s[i + 2]) < 16) {
        i += 2; base = 16; r.prefix = true;
    } else if (base == 0) {
        base = (i < n && s[i] == '0') ? 8 : 10;
    }
    U const maxpos = U(std::numeric_limits<Int>::max());
    U const lim = (std::is_signed_v<Int> && neg) ? maxpos + 1 : maxpos;
    U acc = 0; bool ovf = false; bool any = false;
    for (; i < n; i++) {
        int d = ref_digit(s[i]);
        if (d >= base) break;
        any = true;
        if (!ovf) {
            U t;
            if (__builtin_mul_overflow(acc, U(base), &t) || __builtin_add_overflow(t, U(d), &t) || t > lim) ovf = true;
            else acc = t;
        }
    }
    if (!any) return r; // no conversion: value 0, nothing consumed
    r.consumed = i;
    if (ovf) { r.err = 2; r.bits = std::is_signed_v<Int> ? (neg ? U(std::numeric_limits<Int>::min()) : maxpos) : maxpos; return r; }
    r.err = 0;
    r.bits = neg ? U(Int(U(0) - acc)) : U(Int(acc));
    return r;
}
#endif
