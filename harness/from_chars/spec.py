import os
PROPERTIES = ['C10', 'C02']
BOUNDS = {'quick': 'tbd', 'thorough': 'tbd'}
ASSUMPTIONS = []
def queries(tier, prop='C10'):
    ub = prop == 'C02'
    out = []
    sv = os.environ.get('SV', 'minisat')
    for t in os.environ.get('TYS', 'int').split(','):
        for n in [int(x) for x in os.environ.get('NS', '3').split(',')]:
            cfg = {'TY': t, 'SN': n}
            for e in os.environ.get('ENTS', 'q_from_chars').split(','):
                out.append(dict(entry=e, cfg=cfg, unwind=n + 3, budget=300, ub=ub, nofunc=ub, solver=sv.split('+')))
    return out
