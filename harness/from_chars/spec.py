# C10 parsing side: from_chars / strings::to_integer / strtol family / ato* / sto*
PROPERTIES = ['C10', 'C02']
BOUNDS = {
    'quick': ('text length SN 0..4 enumerated, every character symbolic (all 256 values); from_chars and to_integer: 8- and 16-bit types with base symbolic 2..36 (overflow reachable), '
              'unsigned/int/unsigned long/long with base symbolic, SN 0..3; strtol/strtoll/strtoul/strtoull/atoi/atol/atoll/stoi/stol/stoll/stoul/stoull: SN 0..4, base symbolic over {0, 2..36}; '
              '64-bit overflow of strto* is outside the bound (needs >= 13 characters)'),
    'thorough': ('SN 0..6 for the 8/16-bit types (base symbolic), SN 0..5 for 32/64-bit types and the strtol family; adds char, long long, unsigned long long; '
                 '32-bit overflow: SN 7 and 8 with base 36 enumerated (from_chars, to_integer); base-10 overflow of 32/64-bit types (11/20 characters) is outside the bound'),
}
ASSUMPTIONS = [
    'C10/from_chars, to_integer: base in 2..36 (documented precondition); [first,last) is its own object of exactly SN bytes',
    'C10/strto*, sto*: base is 0 or in 2..36 (C standard); the text is a NUL-terminated block of exactly SN+1 bytes (strto*, ato*) or a view of exactly SN bytes (sto*)',
    'C10/ato*: texts whose value is not representable are excluded (undefined behaviour in C)',
    'C10/sto*: texts on which std::sto* throws (no conversion -> invalid_argument, not representable -> out_of_range) are excluded: etl has no exceptions and no other error channel there, so the error class cannot be compared',
    'C10/strto*, sto*, ato*, to_integer: oracle is the reference parser harness/from_chars/refparse.hpp (C standard 7.22.1.4, "C" locale, no errno: the error class is read off the returned limit value and end pointer); model_check.cpp compares it natively with glibc',
    'C10/to_integer<Int> (default options) is held to strtol semantics at the width of Int for bases 2..36',
]
TYPES = {'unsigned char': (8, 0), 'signed char': (8, 1), 'char': (8, 1), 'unsigned short': (16, 0), 'short': (16, 1), 'unsigned': (32, 0), 'int': (32, 1),
         'unsigned long': (64, 0), 'long': (64, 1), 'unsigned long long': (64, 0), 'long long': (64, 1)}
CFUNCS = ['q_strtol', 'q_strtoll', 'q_strtoul', 'q_strtoull', 'q_strtol_null', 'q_strtoul_null', 'q_atoi', 'q_atol', 'q_atoll']
STOFUNCS = ['q_stoi', 'q_stol', 'q_stoll', 'q_stoul', 'q_stoull', 'q_stoi_nullpos', 'q_stoi_def']
US = {'ll_undef_bytes.0': 80, 'll_memcpy.0': 80, 'll_memset.0': 80}
for _w, _n in ((8, 10), (16, 18), (32, 34), (64, 66)):
    for _f in ('ctpop', 'ctlz', 'cttz'): US['ll_%s_%d.0' % (_f, _w)] = _n
def can_overflow(t, n, base=None):
    """can a text of n characters overflow t in the given base (None: symbolic base, i.e. base 36)"""
    bits, s = TYPES[t]
    if n < 1: return False
    return (base or 36) ** n - 1 > (1 << (bits - s)) - 1
def q(entry, cfg, ub, solver='minisat', budget=120):
    return dict(entry=entry, cfg=cfg, unwind=cfg['SN'] + 3, unwindset=US, budget=budget, ub=ub, nofunc=ub, solver=solver)
def queries(tier, prop='C10'):
    ub = prop == 'C02'
    thorough = tier == 'thorough' and not ub      # the C02 (UB build) run rides on the quick grid
    out = []
    narrow = ['unsigned char', 'signed char', 'unsigned short', 'short'] + (['char'] if thorough else [])
    wide = ['unsigned', 'int', 'unsigned long', 'long'] + (['unsigned long long', 'long long'] if thorough else [])
    def both(cfg, sv='minisat', bud=120):
        out.append(q('q_from_chars', cfg, ub, sv, bud))
        out.append(q('q_to_integer', cfg, ub, sv, bud))
    # ---- base symbolic over 2..36
    for t in narrow + wide:
        bits, s = TYPES[t]
        nmax = {8: 4, 16: 3}.get(bits, 2) if thorough else {8: 2}.get(bits, 1)
        for n in range(0, nmax + 1):
            cfg = {'TY': t, 'SN': n, 'WOVF': int(can_overflow(t, n))}
            sv, bud = ('minisat', 120) if not thorough else ('kissat', 900)
            both(cfg, sv, bud)
            if n in (0, 1, 3): out.append(q('q_from_chars_def', dict(cfg, WOVF=int(can_overflow(t, n, 10))), ub, sv, bud))
    # ---- base enumerated
    for t in narrow + wide:
        bits, s = TYPES[t]
        if thorough: bases, ns = (2, 8, 10, 16, 36), (range(0, 7) if bits <= 16 else range(0, 6))
        elif bits <= 16: bases, ns = (2, 10, 16, 36), range(0, 5)
        elif bits == 32: bases, ns = (10, 16, 36), (0, 1, 3, 4)
        else: bases, ns = (10, 16), (0, 1, 3, 4)
        for b in bases:
            for n in ns:
                cfg = {'TY': t, 'SN': n, 'BASE': b, 'WOVF': int(can_overflow(t, n, b))}
                sv, bud = ('minisat', 120) if n <= 4 else ('kissat', 900)
                both(cfg, sv, bud)
                if b == 10 and n in (3, 4): out.append(q('q_from_chars_def', cfg, ub, sv, bud))
    if thorough:
        for t in ('unsigned', 'int'):
            for n in (7, 8):
                both({'TY': t, 'SN': n, 'BASE': 36, 'WOVF': 1}, 'kissat', 900)
    # ---- strtol family, ato*, sto* (TY is irrelevant for them): base symbolic over {0, 2..36} for short texts, enumerated for longer ones
    ATO = ('q_atoi', 'q_atol', 'q_atoll', 'q_stoi_def')
    for n in range(0, (3 if thorough else 2) + 1):
        cfg = {'TY': 'int', 'SN': n, 'WOVF': 0}
        sv, bud = ('minisat', 120) if n <= 2 else ('kissat', 900)
        for e in CFUNCS + (STOFUNCS if n >= 1 else []):
            out.append(q(e, cfg, ub, sv, bud))
    for b in ((2, 8, 10, 16, 36) if thorough else (10, 16)):
        for n in ((3, 4, 5) if thorough else (3, 4)):
            cfg = {'TY': 'int', 'SN': n, 'BASE': b, 'WOVF': 0}
            sv, bud = ('minisat', 120) if n <= 4 else ('kissat', 900)
            for e in CFUNCS + STOFUNCS:
                if e in ATO and b != 10: continue
                out.append(q(e, cfg, ub, sv, bud))
    return out
