# C10 parsing side: from_chars / strings::to_integer / strtol family / ato* / sto*
PROPERTIES = ['C10', 'C02']
BOUNDS = {
    'quick': ('text length SN enumerated, every character symbolic over all 256 values (signs, white space, leading zeros, garbage, embedded NUL, lone minus are all included). '
              'from_chars and strings::to_integer: unsigned char/signed char with base symbolic 2..36 for SN 0..2, every other type with base symbolic for SN 0..1; base enumerated {2,10,16,36} x SN 0..4 for the 8/16-bit types '
              '(overflow by one digit and by one unit reachable), {10,16,36} x SN {0,1,3,4} for unsigned/int, {10,16} x SN {0,1,3,4} for unsigned long/long. '
              'strtol, strtoll, strtoul, strtoull (with and without end pointer), atoi, atol, atoll, stoi, stol, stoll, stoul, stoull (with pos, null pos, defaults): SN 0..2 with base symbolic over {0, 2..36}, SN 3..4 with base {10,16}. '
              'Every wrapper at the limits of its result type (q_lim_*): the text of INT/LONG/LLONG MIN and MAX, of ULONG_MAX and of LONG_MAX for the unsigned wrappers (window crossing 2^63), bases {10,16}, '
              'with the last 2..3 characters (and for base 16 / ULONG_MAX also the first one) symbolic over all 256 values, the other characters being the digits of the limit. '
              'Outside: overflow of the 32/64-bit types other than in these windows, longer texts.'),
    'thorough': ('quick grid plus: char, long long, unsigned long long; base symbolic up to SN 4 (8-bit) / SN 2 (all other types); 8-bit types SN 5..6 in bases {2,10,16,36}, 16-bit types SN 5..6 in bases {10,16}, base 8 for the 8/16-bit types; '
                 'limit texts also in bases 8 and 36 and with 4..5 symbolic characters; 32-bit types SN 5 in bases {10,16} and overflow of unsigned with SN 7 in base 36 (int: no verdict within 900 s); strtol family SN 3 with symbolic base, bases {8,36} for SN 3..4, base 10 for SN 5. '
                 'Outside: base-10 overflow of 32/64-bit types (11/20 characters), overflow of strtol/strtoul themselves (>= 13 characters; the defect there is recorded from to_integer<narrow>, the shared implementation).'),
}
ASSUMPTIONS = [
    'C10/from_chars, to_integer: base in 2..36 (documented precondition); [first,last) is its own object of exactly SN bytes',
    'C10/strto*, sto*: base is 0 or in 2..36 (C standard); the text is a NUL-terminated block of exactly SN+1 bytes (strto*, ato*) or a view of exactly SN bytes (sto*)',
    'C10/ato*: texts whose value is not representable are excluded (undefined behaviour in C)',
    'C10/sto*: texts on which std::sto* throws (no conversion -> invalid_argument, not representable -> out_of_range) are excluded: etl has no exceptions and no other error channel there, so the error class cannot be compared',
    'C10/strto*, sto*, ato*, to_integer: oracle is the reference parser harness/from_chars/refparse.hpp (C standard 7.22.1.4, "C" locale, no errno: the error class is read off the returned limit value and end pointer); model_check.cpp compares it natively with glibc',
    'C10/to_integer<Int> (default options) is held to strtol semantics at the width of Int for bases 2..36',
]
TYPES = {'unsigned char': (8, 0), 'signed char': (8, 1), 'char': (8, 1), 'unsigned short': (16, 0), 'short': (16, 1), 'unsigned': (32, 0), 'int': (32, 1),
         'unsigned long': (64, 0), 'long': (64, 1), 'unsigned long long': (64, 0), 'long long': (64, 1)}
CFUNCS = ['q_strtol', 'q_strtoll', 'q_strtoul', 'q_strtoull', 'q_strtol_null', 'q_strtoul_null', 'q_atoi', 'q_atol', 'q_atoll']
STOFUNCS = ['q_stoi', 'q_stol', 'q_stoll', 'q_stoul', 'q_stoull', 'q_stoi_nullpos', 'q_stoi_def']
US = {'ll_undef_bytes.0': 80, 'll_memcpy.0': 80, 'll_memset.0': 80}
for _w, _n in ((8, 10), (16, 18), (32, 34), (64, 66)):
    for _f in ('ctpop', 'ctlz', 'cttz'): US['ll_%s_%d.0' % (_f, _w)] = _n
def can_overflow(t, n, base=None):
    """can a text of n characters overflow t in the given base (None: symbolic base, i.e. base 36)"""
    bits, s = TYPES[t]
    if n < 1: return False
    return (base or 36) ** n - 1 > (1 << (bits - s)) - 1
def q(entry, cfg, ub, solver='minisat', budget=300):
    return dict(entry=entry, cfg=cfg, unwind=cfg['SN'] + 3, unwindset=US, budget=budget, ub=ub, nofunc=ub, solver=solver)
def queries(tier, prop='C10'):
    ub = prop == 'C02'
    thorough = tier == 'thorough' and not ub      # the C02 (UB build) run rides on the quick grid
    out = []
    narrow = ['unsigned char', 'signed char', 'unsigned short', 'short'] + (['char'] if thorough else [])
    wide = ['unsigned', 'int', 'unsigned long', 'long'] + (['unsigned long long', 'long long'] if thorough else [])
    def both(cfg, sv='minisat', bud=300):
        out.append(q('q_from_chars', cfg, ub, sv, bud))
        out.append(q('q_to_integer', cfg, ub, sv, bud))
    # ---- base symbolic over 2..36
    for t in narrow + wide:
        bits, s = TYPES[t]
        nmax = {8: 4, 16: 2}.get(bits, 2) if thorough else {8: 2}.get(bits, 1)
        for n in range(0, nmax + 1):
            cfg = {'TY': t, 'SN': n, 'WOVF': int(can_overflow(t, n))}
            sv, bud = ('minisat', 300) if n <= (2 if bits == 8 else 1) else ('kissat', 900)
            both(cfg, sv, bud)
            if n in (0, 1, 3): out.append(q('q_from_chars_def', dict(cfg, WOVF=int(can_overflow(t, n, 10))), ub, sv, bud))
    # ---- base enumerated
    for t in narrow + wide:
        bits, s = TYPES[t]
        if bits <= 16: grid = [(b, n) for b in (2, 10, 16, 36) for n in range(0, 5)]
        elif bits == 32: grid = [(b, n) for b in (10, 16, 36) for n in (0, 1, 3, 4)]
        else: grid = [(b, n) for b in (10, 16) for n in (0, 1, 3, 4)]
        if thorough:
            if bits == 8: grid += [(b, n) for b in (2, 10, 16, 36) for n in (5, 6)] + [(8, n) for n in range(0, 5)]
            elif bits == 16: grid += [(b, n) for b in (10, 16) for n in (5, 6)] + [(8, n) for n in range(0, 5)]
            elif bits == 32: grid += [(b, 5) for b in (10, 16)] + [(2, n) for n in (1, 4)]
        for b, n in grid:
            cfg = {'TY': t, 'SN': n, 'BASE': b, 'WOVF': int(can_overflow(t, n, b))}
            sv, bud = ('minisat', 300) if n <= 4 else ('kissat', 900)
            both(cfg, sv, bud)
            if b == 10 and n in (3, 4): out.append(q('q_from_chars_def', cfg, ub, sv, bud))
    if thorough:
        both({'TY': 'unsigned', 'SN': 7, 'BASE': 36, 'WOVF': 1}, 'kissat', 900)   # (int: to_integer gave no verdict within 900 s)
    # ---- strtol family, ato*, sto* (TY is irrelevant for them): base symbolic over {0, 2..36} for short texts, enumerated for longer ones
    ATO = ('q_atoi', 'q_atol', 'q_atoll', 'q_stoi_def')
    for n in range(0, (3 if thorough else 2) + 1):
        cfg = {'TY': 'int', 'SN': n, 'WOVF': 0}
        sv, bud = ('minisat', 300) if n <= 2 else ('kissat', 900)
        for e in CFUNCS + (STOFUNCS if n >= 1 else []):
            out.append(q(e, cfg, ub, sv, bud))
    for b, n in [(b, n) for b in (10, 16) for n in (3, 4)] + ([(b, n) for b in (8, 36) for n in (3, 4)] + [(10, 5)] if thorough else []):
        cfg = {'TY': 'int', 'SN': n, 'BASE': b, 'WOVF': 0}
        sv, bud = ('minisat', 300) if n <= 4 else ('kissat', 900)
        for e in CFUNCS + STOFUNCS:
            if e in ATO and b != 10: continue
            out.append(q(e, cfg, ub, sv, bud))
    # ---- every wrapper at the limits of its result type (q_lim_*): text of the limit with LEAD leading and TAIL trailing symbolic characters
    I32, I64, U64W = ('q_lim_stoi',), ('q_lim_strtol', 'q_lim_strtoll', 'q_lim_stol', 'q_lim_stoll'), ('q_lim_strtoul', 'q_lim_strtoull', 'q_lim_stoul', 'q_lim_stoull')
    LIMS = [  # (text, base, LEAD, TAIL, entries)
        ('2147483647', 10, 0, 3, I32 + ('q_lim_atoi',)), ('-2147483648', 10, 0, 3, I32 + ('q_lim_atoi',)),
        ('7fffffff', 16, 1, 2, I32), ('-80000000', 16, 0, 2, I32),
        ('9223372036854775807', 10, 0, 3, I64 + ('q_lim_atol', 'q_lim_atoll') + U64W),      # unsigned wrappers: the window crosses 2^63
        ('-9223372036854775808', 10, 0, 3, I64 + ('q_lim_atol', 'q_lim_atoll')),
        ('7fffffffffffffff', 16, 1, 2, I64 + U64W), ('-8000000000000000', 16, 0, 2, I64),
        ('18446744073709551615', 10, 1, 3, U64W), ('ffffffffffffffff', 16, 1, 2, U64W),
    ]
    if thorough:
        LIMS += [('zik0zj', 36, 1, 2, I32), ('-zik0zk', 36, 0, 2, I32), ('1y2p0ij32e8e7', 36, 1, 2, I64 + U64W), ('-1y2p0ij32e8e8', 36, 0, 2, I64), ('3w5e11264sgsf', 36, 1, 2, U64W),
                 ('17777777777', 8, 1, 2, I32), ('777777777777777777777', 8, 1, 2, I64), ('1777777777777777777777', 8, 1, 2, U64W),
                 ('9223372036854775807', 10, 1, 4, I64 + U64W), ('18446744073709551615', 10, 2, 3, U64W)]
    for txt, b, lead, tail, ents in LIMS:
        cfg = {'TY': 'int', 'SN': 1, 'WOVF': 0, 'BASE': b, 'LIMTXT': '"%s"' % txt, 'LEAD': lead, 'TAIL': tail}
        for e in ents:
            d = q(e, cfg, ub, 'minisat', 300)
            d['unwind'] = len(txt) + 4
            out.append(d)
    return out
