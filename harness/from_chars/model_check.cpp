// Native validation of the hand-written oracles of C10 (DESIGN.md 1.7(3)); does not decide the property.
//   g++ -std=c++20 -O1 -I/verif/harness/from_chars model_check.cpp -o model_check && ./model_check [seed]
// 1. ref_strto<long / unsigned long / long long / unsigned long long> against glibc strtol/strtoul/strtoll/strtoull
//    (value, end pointer, errno == ERANGE) on grammar-generated and random texts, bases 0 and 2..36;
// 2. ref_strto<narrow Int> against strtol/strtoul followed by the range check that defines strtol semantics at that width;
// 3. the reference text loop of harness/to_chars/driver.cpp (ref_text) against std::to_chars for 32/64-bit values.
#include "refparse.hpp"
#include <cerrno>
#include <charconv>
#include <cstdint>
#include <cstdio>
#include <cstdlib>
#include <cstring>
#include <random>
#include <string>
static std::mt19937_64 rng;
static unsigned long fails, runs;
static std::string gen()
{
    static char const* pieces[] = {" ", "\t", "\n", "\v", "\f", "\r", "+", "-", "0", "0x", "0X", "00", "x", "1", "7", "8", "9", "a", "f", "F", "g", "z", "Z", "_", ".", "",
        "9223372036854775807", "9223372036854775808", "18446744073709551615", "18446744073709551616", "7fffffffffffffff", "8000000000000000", "ffffffffffffffff",
        "1y2p0ij32e8e7", "1y2p0ij32e8e8", "3w5e11264sgsf", "3w5e11264sgsg", "777777777777777777777", "1000000000000000000000", "2147483647", "2147483648", "4294967295", "4294967296",
        "127", "128", "129", "255", "256", "32767", "32768", "65535", "65536"};
    std::string s; int n = int(rng() % 6);
    for (int i = 0; i < n; i++) {
        if (rng() % 8 == 0) s += char(rng() % 255 + 1);
        else s += pieces[rng() % (sizeof(pieces) / sizeof(pieces[0]))];
    }
    return s;
}
template <class R, class F> static void cmp_glibc(char const* name, F f, std::string const& s, int base)
{
    errno = 0; char* e = nullptr; R v = f(s.c_str(), &e, base); int en = errno;
    RefParse r = ref_strto<R>(s.c_str(), std::strlen(s.c_str()), base);
    bool ok = (unsigned long long)v == r.bits && size_t(e - s.c_str()) == r.consumed && (en == ERANGE) == (r.err == 2);
    runs++;
    if (!ok && fails++ < 20) std::printf("MISMATCH %s(\"%s\", base %d): glibc %lld end+%zu errno %d; ref bits %llu consumed %zu err %d\n", name, s.c_str(), base, (long long)v, size_t(e - s.c_str()), en, r.bits, r.consumed, r.err);
}
template <class Int> static void cmp_narrow(std::string const& s, int base)
{
    RefParse r = ref_strto<Int>(s.c_str(), std::strlen(s.c_str()), base);
    errno = 0; char* e = nullptr; unsigned long long bits; int err;
    if constexpr (std::is_signed_v<Int>) {
        long long v = std::strtoll(s.c_str(), &e, base);
        if (e == s.c_str()) { err = 1; bits = 0; }
        else if (v > (long long)std::numeric_limits<Int>::max()) { err = 2; bits = (unsigned long long)std::numeric_limits<Int>::max(); }
        else if (v < (long long)std::numeric_limits<Int>::min()) { err = 2; bits = (unsigned long long)(long long)std::numeric_limits<Int>::min(); }
        else { err = 0; bits = (unsigned long long)v; }
    } else {
        // unsigned narrow: magnitude must fit Int, then negation in Int
        char const* p = s.c_str(); while (ref_space(*p)) p++;
        bool neg = *p == '-';
        std::string t = s; if (neg) t[size_t(p - s.c_str())] = '+';
        unsigned long long m = std::strtoull(t.c_str(), &e, base); int en = errno;
        e = const_cast<char*>(s.c_str()) + (e - t.c_str());
        if (e == s.c_str()) { err = 1; bits = 0; }
        else if (en == ERANGE || m > (unsigned long long)std::numeric_limits<Int>::max()) { err = 2; bits = (unsigned long long)std::numeric_limits<Int>::max(); }
        else { err = 0; bits = (unsigned long long)Int(neg ? Int(0) - Int(m) : Int(m)); }
    }
    size_t cons = err == 1 ? 0 : size_t(e - s.c_str());
    runs++;
    if ((r.err != err || r.bits != bits || r.consumed != cons) && fails++ < 20)
        std::printf("MISMATCH narrow<%zu,%d>(\"%s\", base %d): expect bits %llu cons %zu err %d; ref %llu %zu %d\n", sizeof(Int), int(std::is_signed_v<Int>), s.c_str(), base, bits, cons, err, r.bits, r.consumed, r.err);
}
template <class VT> static size_t ref_text(char* out, VT val, int base)
{
    char tmp[sizeof(VT) * 8]; size_t n = 0; VT v = val;
    do { int d = int(v % VT(base)); if (d < 0) d = -d; tmp[n++] = char(d < 10 ? '0' + d : 'a' + (d - 10)); v = VT(v / VT(base)); } while (v != 0);
    size_t k = 0;
    if (val < 0) out[k++] = '-';
    while (n != 0) out[k++] = tmp[--n];
    return k;
}
template <class VT> static void cmp_text(VT v, int base)
{
    char a[80], b[80]; auto r = std::to_chars(a, a + 80, v, base); size_t n = ref_text<VT>(b, v, base);
    runs++;
    if ((size_t(r.ptr - a) != n || std::memcmp(a, b, n) != 0) && fails++ < 20) std::printf("MISMATCH ref_text<%zu>(%lld, base %d)\n", sizeof(VT), (long long)v, base);
}
template <class VT> static void texts()
{
    using U = std::make_unsigned_t<VT>;
    for (int base = 2; base <= 36; base++) {
        VT edge[] = {0, 1, VT(-1), std::numeric_limits<VT>::max(), std::numeric_limits<VT>::min(), VT(std::numeric_limits<VT>::max() / base), VT(std::numeric_limits<VT>::min() / base)};
        for (VT e : edge) for (int d = -2; d <= 2; d++) cmp_text<VT>(VT(U(e) + U(d)), base);
        U p = 1;
        for (;;) { for (int d = -1; d <= 1; d++) { cmp_text<VT>(VT(p + U(d)), base); cmp_text<VT>(VT(U(0) - p + U(d)), base); } if (p > std::numeric_limits<U>::max() / U(base)) break; p *= U(base); }
        for (int i = 0; i < 20000; i++) { U x = U(rng()); x >>= (rng() % (sizeof(VT) * 8)); cmp_text<VT>(VT(x), base); cmp_text<VT>(VT(U(0) - x), base); }
    }
}
int main(int argc, char** argv)
{
    rng.seed(argc > 1 ? std::strtoull(argv[1], nullptr, 10) : 1);
    for (int i = 0; i < 400000; i++) {
        std::string s = gen(); int base = int(rng() % 36) + 1; if (base == 1) base = 0;
        cmp_glibc<long>("strtol", std::strtol, s, base); cmp_glibc<unsigned long>("strtoul", std::strtoul, s, base);
        cmp_glibc<long long>("strtoll", std::strtoll, s, base); cmp_glibc<unsigned long long>("strtoull", std::strtoull, s, base);
        cmp_narrow<signed char>(s, base); cmp_narrow<unsigned char>(s, base); cmp_narrow<short>(s, base); cmp_narrow<unsigned short>(s, base); cmp_narrow<int>(s, base); cmp_narrow<unsigned>(s, base);
    }
    texts<int>(); texts<unsigned>(); texts<long>(); texts<unsigned long>(); texts<long long>(); texts<unsigned long long>();
    std::printf("model_check: %lu comparisons, %lu mismatches\n", runs, fails);
    return fails != 0;
}
