// C03 driver (family life_set): ONE operation from EVERY size of etl::static_set<E,CAP> and etl::flat_set<E, static_vector<E,CAP>>
// holding the instrumented key type Tracked (../life_vec/tracked.h).
// Configuration (enumerated by spec.py): CAP, NA = number of keys before the operation, NB = size of the second set / source block,
// FLAV = key flavour. Symbolic: every key value (pre-state keys pairwise distinct, otherwise unconstrained), every byte of the
// object blocks before construction, erase positions (case-split).
// Checked after every kernel call: size() <= capacity and equal to the membership model where the documented result is
// unambiguous; the stored keys are strictly increasing (every one of them is read, so must be alive); exactly the slots of
// the size() current elements hold a live object; no temporary is alive; no illegal transition. At the end: nothing alive,
// constructions == destructions. (Which keys a set ends up with is C09's subject; here only what is needed for lifetimes.)
#define LIFE_DRIVER 1
#include "vf.h"
#include "../life_vec/tracked.h"
#ifndef CAP
#define CAP 3
#endif
#ifndef NA
#define NA 0
#endif
#ifndef NB
#define NB 0
#endif
extern "C" {
Ledger vf_led;
}
using u64 = uint64_t;
using PV = uint32_t;
#define NA1 (NA > 0 ? NA - 1 : 0)
#define ESZ 8u
#define TAG 1u
extern "C" {
u64 k_esize(); void k_mk_array(void*, PV const*, u64); PV k_rd_array(void const*, u64); void k_destroy_array(void*, u64);
u64 k_sv_sizeof(); u64 k_sv_size(void const*); u64 k_sv_data_off(void*); void k_sv_dtor(void*); void k_sv_new(void*); void k_sv_emplace_back(void*, PV);
#define SET_PROTOS(P)                                                                                                    \
    u64 k_##P##_sizeof(); void k_##P##_new(void*); void k_##P##_dtor(void*); u64 k_##P##_size(void const*); u64 k_##P##_data_off(void const*); PV k_##P##_at(void const*, u64); \
    unsigned k_##P##_insert_r(void*, PV); unsigned k_##P##_insert_l(void*, PV); unsigned k_##P##_emplace(void*, PV); u64 k_##P##_erase_it(void*, u64);                         \
    u64 k_##P##_erase_range(void*, u64, u64); u64 k_##P##_erase_key(void*, PV); void k_##P##_clear(void*); bool k_##P##_contains(void const*, PV);                              \
    void k_##P##_move_ctor(void*, void*); void k_##P##_insert_range(void*, void const*, u64); void k_##P##_ctor_range(void*, void const*, u64);                                 \
    void k_##P##_copy_ctor(void*, void const*); void k_##P##_copy_assign(void*, void const*); void k_##P##_move_assign(void*, void*); void k_##P##_swap(void*, void*);          \
    void k_##P##_swap_free(void*, void*);
SET_PROTOS(ss)
SET_PROTOS(fs)
u64 k_fs_insert_hint_r(void*, u64, PV); u64 k_fs_erase_cit(void*, u64); u64 k_fs_erase_if(void*, PV); void k_fs_extract(void*, void*); void k_fs_replace(void*, void*);
void k_fs_ctor_container(void*, void const*); void k_fs_make_sorted(void*, PV const*, u64); void k_fs_ctor_sorted(void*, void const*);
}
static inline PV nd_pv() { return (PV)lg_nd_payload(); }
static inline u64 nd_idx(unsigned maxv) { u64 i = vf_nd_u8(); vf_assume(i <= maxv); return i; }
static inline bool lt(PV a, PV b) { return (int32_t)a < (int32_t)b; }
extern "C" __attribute__((noinline)) void* d_sym_block(u64 n)
{
    unsigned char* p = (unsigned char*)vf_alloc(n);
    for (u64 i = 0; i < n; i++) p[i] = vf_nd_u8();
    return p;
}
struct M { // membership model: the distinct keys (in no particular order)
    PV k[2 * CAP + 2];
    unsigned n = 0;
    bool has(PV x) const { bool h = false; for (unsigned i = 0; i < n; i++) h = h || k[i] == x; return h; }
    unsigned below(PV x) const { unsigned c = 0; for (unsigned i = 0; i < n; i++) c += lt(k[i], x) ? 1 : 0; return c; }
    bool insert(PV x) { if (n >= CAP || has(x)) return false; k[n++] = x; return true; } // a full set rejects every insertion
    void erase(PV x) { for (unsigned i = 0; i < n; i++) if (k[i] == x) { k[i] = k[n - 1]; n--; return; } }
};
#define END() lg_balanced()
static inline void* src_make(PV* vals, unsigned cnt, unsigned r)
{
    for (unsigned i = 0; i < cnt; i++) vals[i] = nd_pv();
    void* blk = d_sym_block(u64(cnt) * ESZ);
    lg_register(r, blk, u64(cnt) * ESZ); lg_layout(r, 0, ESZ);
    k_mk_array(blk, vals, cnt);
    lg_expect(r, 0, cnt, ESZ, TAG);
    return blk;
}
static inline void src_fin(void* blk, PV const* vals, unsigned cnt, unsigned r)
{
    lg_expect(r, 0, cnt, ESZ, TAG);
    for (unsigned i = 0; i < cnt; i++) vf_assert(k_rd_array(blk, i) == vals[i], "range insertion leaves the source range unchanged");
    k_destroy_array(blk, cnt);
    lg_expect(r, 0, 0, ESZ, TAG);
}

#define SET_HELPERS(P)                                                                                                   \
    static inline void* P##_raw(unsigned r) { void* p = d_sym_block(k_##P##_sizeof()); lg_register(r, p, k_##P##_sizeof()); if (CAP > 0) lg_layout(r, k_##P##_data_off(p), ESZ); return p; } \
    /* lifetime census of a set in any valid state: returns size() */                                                    \
    static inline unsigned P##_valid(void* p, unsigned r)                                                                \
    {                                                                                                                    \
        u64 n = k_##P##_size(p);                                                                                         \
        vf_assert(n <= CAP, "size() <= capacity");                                                                       \
        if (n > CAP) return 0;                                                                                           \
        lg_expect(r, n ? k_##P##_data_off(p) : 0, (unsigned)n, ESZ, TAG);                                                \
        lg_quiet();                                                                                                      \
        return (unsigned)n;                                                                                              \
    }                                                                                                                    \
    /* census + the stored keys are strictly increasing + size() == expected */                                          \
    static inline void P##_check(void* p, unsigned want, unsigned r)                                                     \
    {                                                                                                                    \
        unsigned n = P##_valid(p, r);                                                                                    \
        vf_assert(n == want, "size() == membership model");                                                              \
        for (unsigned i = 0; i + 1 < n; i++) vf_assert(lt(k_##P##_at(p, i), k_##P##_at(p, i + 1)), "keys strictly increasing"); \
        if (n == 1) (void)k_##P##_at(p, 0);                                                                              \
        lg_quiet();                                                                                                      \
    }                                                                                                                    \
    static inline void P##_same(void* p, M const& m, unsigned r)                                                         \
    {                                                                                                                    \
        P##_check(p, m.n, r);                                                                                            \
        for (unsigned i = 0; i < m.n; i++) vf_assert(k_##P##_contains(p, m.k[i]), "every key of the model is in the set"); \
        lg_quiet();                                                                                                      \
    }                                                                                                                    \
    static inline void* P##_make_ins(M& m, unsigned n, unsigned r)                                                       \
    {                                                                                                                    \
        void* p = P##_raw(r);                                                                                            \
        k_##P##_new(p);                                                                                                  \
        m.n = 0;                                                                                                         \
        for (unsigned i = 0; i < n; i++) {                                                                               \
            PV v = nd_pv(); vf_assume(!m.has(v));                                                                        \
            unsigned res = k_##P##_insert_r(p, v); m.insert(v);                                                          \
            vf_assert((res & 0x100u) != 0, "inserting a new key into a set that is not full succeeds");                  \
        }                                                                                                                \
        vf_assert(vf_led.nctor > 0 || n == 0, "ledger is shared between the TUs");                                       \
        P##_same(p, m, r);                                                                                               \
        return p;                                                                                                        \
    }                                                                                                                    \
    static inline void P##_fin(void* p, unsigned r) { k_##P##_dtor(p); lg_expect(r, 0, 0, ESZ, TAG); lg_quiet(); }
SET_HELPERS(ss)
SET_HELPERS(fs)
// pre-states. static_set: n insertions of pairwise distinct symbolic keys (the only way in). flat_set: adopted from a
// container with n increasing symbolic keys (flat_set(sorted_unique, container&&)), so the slot of every key is known.
static inline void* ss_make(M& m, unsigned n, unsigned r) { return ss_make_ins(m, n, r); }
static inline void* fs_make(M& m, unsigned n, unsigned r)
{
    void* p = fs_raw(r);
    PV* vals = (PV*)vf_alloc(u64(n ? n : 1) * sizeof(PV));
    m.n = 0;
    for (unsigned i = 0; i < n; i++) { PV v = nd_pv(); if (i) vf_assume(lt(vals[i - 1], v)); vals[i] = v; m.k[m.n++] = v; }
    k_fs_make_sorted(p, vals, n);
    vf_assert(vf_led.nctor > 0 || n == 0, "ledger is shared between the TUs");
    fs_same(p, m, r);
    return p;
}

// ---- the operations both sets have
#define SET_QUERIES(P, KFR, FULLOK)                                                                                             \
    Q q_##P##_insert_l() { M m; void* p = P##_make(m, NA, 0); PV x = nd_pv(); vf_assume(FULLOK || m.n < CAP || m.has(x)); bool e = m.insert(x); unsigned r = k_##P##_insert_l(p, x);                          \
                           vf_assert(((r & 0x100u) != 0) == e, "insert(const&): inserted flag"); P##_same(p, m, 0); P##_fin(p, 0); END(); }                         \
    Q q_##P##_insert_r() { M m; void* p = P##_make(m, NA, 0); PV x = nd_pv(); vf_assume(FULLOK || m.n < CAP || m.has(x)); bool e = m.insert(x); unsigned r = k_##P##_insert_r(p, x);                          \
                           vf_assert(((r & 0x100u) != 0) == e, "insert(&&): inserted flag"); P##_same(p, m, 0); P##_fin(p, 0); END(); }                             \
    Q q_##P##_emplace() { M m; void* p = P##_make(m, NA, 0); PV x = nd_pv(); vf_assume(FULLOK || m.n < CAP || m.has(x)); bool e = m.insert(x); unsigned r = k_##P##_emplace(p, x);                           \
                          vf_assert(((r & 0x100u) != 0) == e, "emplace(args): inserted flag"); P##_same(p, m, 0); P##_fin(p, 0); END(); }                           \
    Q q_##P##_insert_range()                                                                                             \
    {                                                                                                                    \
        M m; void* p = P##_make(m, NA, 0); PV sv[NB + 1]; void* src = src_make(sv, NB, 2);                               \
        for (unsigned i = 0; i < NB; i++) { vf_assume(FULLOK || m.n < CAP || m.has(sv[i])); m.insert(sv[i]); }          \
        k_##P##_insert_range(p, src, NB);                                                                                \
        P##_same(p, m, 0); P##_fin(p, 0); src_fin(src, sv, NB, 2); END();                                                \
    }                                                                                                                    \
    Q q_##P##_ctor_range()                                                                                               \
    {                                                                                                                    \
        M m; void* p = P##_raw(0); PV sv[NA + 1]; void* src = src_make(sv, NA, 2);                                       \
        for (unsigned i = 0; i < NA; i++) m.insert(sv[i]);                                                               \
        k_##P##_ctor_range(p, src, NA);                                                                                  \
        P##_same(p, m, 0); src_fin(src, sv, NA, 2); P##_same(p, m, 0); P##_fin(p, 0); END();                             \
    }                                                                                                                    \
    Q q_##P##_erase_it()                                                                                                 \
    {                                                                                                                    \
        M m; void* p = P##_make(m, NA, 0); u64 i = nd_idx(NA1);                                                          \
        split<NA1>(i, [&](u64 c) { u64 r = k_##P##_erase_it(p, c); vf_assert(r == c, "erase(pos) returns the iterator following the erased element"); }); \
        P##_check(p, NA - 1, 0); P##_fin(p, 0); END();                                                                   \
    }                                                                                                                    \
    Q q_##P##_erase_range()                                                                                              \
    {                                                                                                                    \
        M m; void* p = P##_make(m, NA, 0); u64 i = nd_idx(NA), j = nd_idx(NA); vf_assume(i <= j);                        \
        KFR;                                                                                                             \
        split<NA>(i, [&](u64 a) { split<NA>(j, [&](u64 b) { if (a <= b) {                                                \
            (void)k_##P##_erase_range(p, a, b); P##_check(p, unsigned(NA - (b - a)), 0); P##_fin(p, 0); END(); } }); }); \
    }                                                                                                                    \
    Q q_##P##_erase_key() /* how many / which keys go is C09's subject: here the census must match whatever size() says */ \
    {                                                                                                                    \
        M m; void* p = P##_make(m, NA, 0); PV x = nd_pv();                                                               \
        u64 r = k_##P##_erase_key(p, x); unsigned n = P##_valid(p, 0);                                                   \
        vf_assert(n + r == NA, "erase(key): size() shrinks by the returned count"); P##_check(p, n, 0); P##_fin(p, 0); END(); \
    }                                                                                                                    \
    Q q_##P##_clear() { M m; void* p = P##_make(m, NA, 0); k_##P##_clear(p); P##_check(p, 0, 0); P##_fin(p, 0); END(); } \
    Q q_##P##_copy_ctor()                                                                                                \
    {                                                                                                                    \
        M m; void* p = P##_make(m, NA, 0); void* q = P##_raw(1);                                                         \
        k_##P##_copy_ctor(q, p); P##_same(q, m, 1); P##_same(p, m, 0); P##_fin(p, 0); P##_same(q, m, 1); P##_fin(q, 1); END(); \
    }                                                                                                                    \
    Q q_##P##_move_ctor() /* the source stays valid: usable (clear + insert) and destructible */                         \
    {                                                                                                                    \
        M m; void* p = P##_make(m, NA, 0); void* q = P##_raw(1);                                                         \
        k_##P##_move_ctor(q, p); P##_same(q, m, 1); P##_valid(p, 0); k_##P##_clear(p); P##_check(p, 0, 0);               \
        if (CAP > 0) { PV y = nd_pv(); (void)k_##P##_insert_r(p, y); P##_check(p, 1, 0); }                               \
        P##_fin(p, 0); P##_same(q, m, 1); P##_fin(q, 1); END();                                                          \
    }                                                                                                                    \
    Q q_##P##_copy_assign()                                                                                              \
    {                                                                                                                    \
        M m; void* p = P##_make(m, NA, 0); M m2; void* q = P##_make(m2, NB, 1);                                          \
        k_##P##_copy_assign(p, q); P##_same(p, m2, 0); P##_same(q, m2, 1); P##_fin(q, 1); P##_same(p, m2, 0); P##_fin(p, 0); END(); \
    }                                                                                                                    \
    Q q_##P##_move_assign()                                                                                              \
    {                                                                                                                    \
        M m; void* p = P##_make(m, NA, 0); M m2; void* q = P##_make(m2, NB, 1);                                          \
        k_##P##_move_assign(p, q); P##_same(p, m2, 0); P##_valid(q, 1);                                                  \
        k_##P##_move_assign(q, p); P##_same(q, m2, 1); P##_valid(p, 0); /* the moved-from set is assignable */           \
        P##_fin(p, 0); P##_same(q, m2, 1); P##_fin(q, 1); END();                                                         \
    }                                                                                                                    \
    Q q_##P##_copy_assign_self() /* s = s leaves the value unchanged */                                                  \
    {                                                                                                                    \
        M m; void* p = P##_make(m, NA, 0); k_##P##_copy_assign(p, p); P##_same(p, m, 0); P##_fin(p, 0); END();           \
    }                                                                                                                    \
    Q q_##P##_move_assign_self() { M m; void* p = P##_make(m, NA, 0); k_##P##_move_assign(p, p); P##_valid(p, 0); P##_fin(p, 0); END(); } \
    Q q_##P##_swap()                                                                                                     \
    {                                                                                                                    \
        M m; void* p = P##_make(m, NA, 0); M m2; void* q = P##_make(m2, NB, 1);                                          \
        k_##P##_swap(p, q); P##_same(p, m2, 0); P##_same(q, m, 1); P##_fin(p, 0); P##_same(q, m, 1); P##_fin(q, 1); END(); \
    }                                                                                                                    \
    Q q_##P##_swap_free()                                                                                                \
    {                                                                                                                    \
        M m; void* p = P##_make(m, NA, 0); M m2; void* q = P##_make(m2, NB, 1);                                          \
        k_##P##_swap_free(p, q); P##_same(p, m2, 0); P##_same(q, m, 1); P##_fin(q, 1); P##_same(p, m2, 0); P##_fin(p, 0); END(); \
    }                                                                                                                    \
    Q q_##P##_swap_self() { M m; void* p = P##_make(m, NA, 0); k_##P##_swap(p, p); P##_same(p, m, 0); P##_fin(p, 0); END(); }
SET_QUERIES(ss, VF_KNOWN(C03_static_set_erase_range, j - i >= 2), true) // a full static_set rejects insertions
SET_QUERIES(fs, (void)0, false) // inserting a new key into a full flat_set over a fixed-capacity container is outside its precondition

// ---- flat_set only
Q q_fs_insert_hint_r()
{
    M m; void* p = fs_make(m, NA, 0); PV x = nd_pv(); u64 h = nd_idx(NA); vf_assume(m.n < CAP || m.has(x));
    (void)k_fs_insert_hint_r(p, h, x); m.insert(x); // the hint is any valid iterator (symbolic)
    fs_same(p, m, 0); fs_fin(p, 0); END();
}
Q q_fs_erase_cit()
{
    M m; void* p = fs_make(m, NA, 0); u64 i = nd_idx(NA1);
    split<NA1>(i, [&](u64 c) { u64 r = k_fs_erase_cit(p, c); vf_assert(r == c, "erase(const_iterator) returns the iterator following the erased element"); });
    fs_check(p, NA - 1, 0); fs_fin(p, 0); END();
}
Q q_fs_erase_if()
{
    M m; void* p = fs_make(m, NA, 0); PV x = nd_pv();
    u64 r = k_fs_erase_if(p, x); vf_assert(r == m.below(x), "erase_if(c, pred) returns the number of erased keys");
    fs_check(p, NA - m.below(x), 0); fs_fin(p, 0); END();
}
// extract() && hands the elements out as a container (constructed into region 1) and leaves the set empty and usable;
// replace() adopts a container. Whatever the containers hold afterwards, every element is accounted for.
Q q_fs_extract()
{
    M m; void* p = fs_make(m, NA, 0); void* c = d_sym_block(k_sv_sizeof()); lg_register(1, c, k_sv_sizeof()); if (CAP > 0) lg_layout(1, k_sv_data_off(c), ESZ);
    k_fs_extract(p, c);
    u64 cn = k_sv_size(c); vf_assert(cn <= CAP, "extracted container: size() <= capacity");
    lg_expect(1, cn ? k_sv_data_off(c) : 0, (unsigned)cn, ESZ, TAG);
    fs_check(p, 0, 0);
    if (CAP > 0) { PV y = nd_pv(); (void)k_fs_insert_r(p, y); fs_check(p, 1, 0); }
    fs_fin(p, 0); k_sv_dtor(c); lg_expect(1, 0, 0, ESZ, TAG); lg_quiet(); END();
}
Q q_fs_replace() // the adopted container holds NB increasing keys
{
    M m; void* p = fs_make(m, NA, 0); void* c = d_sym_block(k_sv_sizeof()); lg_register(1, c, k_sv_sizeof()); if (CAP > 0) lg_layout(1, k_sv_data_off(c), ESZ);
    k_sv_new(c); M m2; PV prev = 0;
    for (unsigned i = 0; i < NB; i++) { PV v = nd_pv(); if (i) vf_assume(lt(prev, v)); prev = v; k_sv_emplace_back(c, v); m2.k[m2.n++] = v; }
    k_fs_replace(p, c); fs_same(p, m2, 0);
    u64 cn = k_sv_size(c); vf_assert(cn <= CAP, "moved-from container: size() <= capacity");
    lg_expect(1, cn ? k_sv_data_off(c) : 0, (unsigned)cn, ESZ, TAG); lg_quiet();
    k_sv_dtor(c); lg_expect(1, 0, 0, ESZ, TAG); fs_same(p, m2, 0); fs_fin(p, 0); END();
}
Q q_fs_ctor_container() // flat_set(container const&): sorts / deduplicates a copy; the argument stays untouched
{
    void* c = d_sym_block(k_sv_sizeof()); lg_register(1, c, k_sv_sizeof()); if (CAP > 0) lg_layout(1, k_sv_data_off(c), ESZ); k_sv_new(c); M m;
    for (unsigned i = 0; i < NA; i++) { PV v = nd_pv(); k_sv_emplace_back(c, v); m.insert(v); }
    void* p = fs_raw(0); k_fs_ctor_container(p, c); fs_same(p, m, 0);
    lg_expect(1, NA ? k_sv_data_off(c) : 0, NA, ESZ, TAG); k_sv_dtor(c); lg_expect(1, 0, 0, ESZ, TAG); fs_same(p, m, 0); fs_fin(p, 0); END();
}
Q q_fs_ctor_sorted() // flat_set(sorted_unique, container): precondition: the container is sorted and unique
{
    void* c = d_sym_block(k_sv_sizeof()); lg_register(1, c, k_sv_sizeof()); if (CAP > 0) lg_layout(1, k_sv_data_off(c), ESZ); k_sv_new(c); M m; PV prev = 0;
    for (unsigned i = 0; i < NA; i++) { PV v = nd_pv(); if (i) vf_assume(lt(prev, v)); prev = v; k_sv_emplace_back(c, v); m.k[m.n++] = v; }
    void* p = fs_raw(0); k_fs_ctor_sorted(p, c); fs_same(p, m, 0);
    lg_expect(1, NA ? k_sv_data_off(c) : 0, NA, ESZ, TAG); k_sv_dtor(c); lg_expect(1, 0, 0, ESZ, TAG); fs_same(p, m, 0); fs_fin(p, 0); END();
}
