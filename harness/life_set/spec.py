PROPERTIES = ['C03', 'C02']
BOUNDS = {
    'quick': 'static_set<Tracked,CAP> and flat_set<Tracked, static_vector<Tracked,CAP>>: one operation from every size; static_set at capacity 2, flat_set at capacity 2 (copy+move keys, every size NA, second set / source block size NB in {0,1}); move-only and copy-only keys at capacity 2 from size 1; '
             ' key values symbolic (pre-state keys pairwise distinct), erase positions symbolic (case-split)',
    'thorough': 'static_set: copy+move keys at capacity 2 (every NB) and 3 (NB = 0), move-only and copy-only at capacity 2 (every NB); flat_set: copy+move keys at capacity 3 (every NB), '
                'move-only and copy-only at capacity 3 (NB in {0,1}); keys with defaulted (trivial) assignment but user-provided constructors/destructor at capacity 2 (both sets, every NB); every size NA',
}
ASSUMPTIONS = [
    'C03: erase positions are valid iterators (pos < size(), first <= last <= size()); inserting a NEW key into a FULL flat_set over static_vector is outside its precondition '
    '(the underlying emplace requires !full()) and is assumed away; a full static_set rejects the insertion, which is checked',
    'C03: the key comparison is operator< of the instrumented key (reads both operands: comparing a dead key is an illegal transition)',
    'C03: which keys a set holds after an operation is C09; here: size() against a membership model where the result is unambiguous, strictly increasing stored keys, and the lifetime census',
    'C03: moved-from set: valid (size() <= capacity, exactly size() live keys), usable and destructible; its value is unspecified',
]
NEED_COPY = {'insert_l', 'emplace_ss', 'insert_range', 'ctor_range', 'copy_ctor', 'copy_assign', 'copy_assign_self', 'move_assign', 'move_assign_self', 'swap', 'swap_free', 'swap_self',
             'replace', 'ctor_container', 'ctor_sorted'}
ANY = ['insert_l', 'insert_r', 'emplace', 'erase_key', 'clear', 'copy_ctor', 'move_ctor', 'copy_assign_self', 'move_assign_self', 'swap_self', 'ctor_range', 'erase_range']
NONEMPTY = ['erase_it']
PAIR = ['copy_assign', 'move_assign', 'swap', 'swap_free']
RANGE = ['insert_range']
FS_ANY = ['insert_hint_r', 'erase_if', 'extract', 'ctor_container', 'ctor_sorted']
FS_NONEMPTY = ['erase_cit']
FS_PAIR = ['replace']
KF_WHOLE = {}


def uw(blk, cap):
    d = {'ll_memset.0': 130, 'll_memcpy.0': 130, 'll_memmove.0': 130, 'll_memmove.1': 130, 'll_undef_bytes.0': 66}
    for f, n in (('d_sym_block', blk), ('lg_register', 2 * cap + 4), ('lg_expect', 2 * cap + 4), ('lg_marks', 4 * (2 * cap + 2) + 4)):
        for i in range(4): d['%s.%d' % (f, i)] = n
    return d


def queries(tier, prop='C03'):
    ub = prop == 'C02'
    out = []
    # (container prefix, flavour, capacity, NB values of the two-object / range operations)
    only_na = {}
    if tier == 'quick':
        grid = [('ss_', 0, 2, (0, 1)), ('ss_', 1, 2, (0, 1)), ('ss_', 2, 2, (0, 1)),
                ('fs_', 0, 2, (0, 1)), ('fs_', 1, 2, (0, 1)), ('fs_', 2, 2, (0, 1))]   # flat_set capacity 3 is thorough-only (quick-tier budget)
        only_na = {1: (1,), 2: (1,)}   # quick: move-only and copy-only keys from the middle size only
    else:
        grid = [('ss_', 0, 2, (0, 1, 2)), ('ss_', 0, 3, (0,)), ('ss_', 1, 2, (0, 1, 2)), ('ss_', 2, 2, (0, 1, 2))]
        grid += [('fs_', 0, 3, (0, 1, 2, 3)), ('fs_', 1, 3, (0, 1)), ('fs_', 2, 3, (0, 1)), ('ss_', 3, 2, (0, 1, 2)), ('fs_', 3, 2, (0, 1, 2))]   # flat_set capacity 4: swap_self from size 3 had no verdict in 900 s, bound reduced to 3
    if ub:
        grid = [('ss_', 0, 2, (0, 1)), ('fs_', 0, 2, (0, 1))]
        only_na = {0: (1,)} if tier == 'quick' else {}
    for (pre, fl, cap, nbs) in grid:
        for na in range(cap + 1):
            if fl in only_na and na not in only_na[fl]: continue
            for nb in nbs:
                ents = []
                if nb == 0:
                    ents += [pre + e for e in ANY] + ([pre + e for e in NONEMPTY] if na else [])
                    if pre == 'fs_': ents += ['fs_' + e for e in FS_ANY] + (['fs_' + e for e in FS_NONEMPTY] if na else [])
                ents += [pre + e for e in PAIR + RANGE]
                if pre == 'fs_': ents += ['fs_' + e for e in FS_PAIR]
                for e in ents:
                    base = e[3:]
                    if fl == 1 and (base in NEED_COPY or e == 'ss_emplace'): continue   # static_set::emplace requires a copy-constructible key
                    q = dict(entry='q_' + e, cfg={'FLAV': fl, 'CAP': cap, 'NA': na, 'NB': nb, 'LG_SLOTS': 2 * cap + 2}, unwind=cap + 3, unwindset=uw(cap * 8 + 18, cap),
                             budget=240 if tier == 'quick' else 900, ub=ub, nofunc=ub)
                    if base in KF_WHOLE and KF_WHOLE[base][1](na): q['kf_only'] = KF_WHOLE[base][0]
                    out.append(q)
    for q_ in out:
        q_['solver'] = ['cadical', 'minisat']   # minisat is erratic on these obligations (seconds to > 240 s for the same query shape); cadical is steady
        q_['lazy_trace'] = True   # verdict first, counterexample trace only when an obligation fails (engine/runner.py)
        q_['cbmc_flags'] = ['--max-field-sensitivity-array-size', '256']   # the ledger (a 160-byte global) stays field-sensitive, so its contents are constants for symex
    return out
