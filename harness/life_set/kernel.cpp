// C03 kernels (family life_set): thin wrappers around etl::static_set<E,CAP> and etl::flat_set<E, etl::static_vector<E,CAP>>
// with the instrumented key type E = Tracked<1,FLAV> (../life_vec/tracked.h). No logic besides marshalling.
#include <etl/flat_set.hpp>
#include <etl/set.hpp>
#include <etl/utility.hpp>
#include <etl/vector.hpp>
#include <etl/new.hpp>
#include "vf.h" // after the library headers (K and Q are macros)
#include "../life_vec/tracked.h"
#ifndef CAP
#define CAP 3
#endif
using E = Tracked<1, FLAV>;
using PV = uint32_t;
using u64 = uint64_t;
using SV = etl::static_vector<E, CAP>;
using SS = etl::static_set<E, CAP>;
using FS = etl::flat_set<E, SV>;
#define SSR(p) (*static_cast<SS*>(p))
#define SSC(p) (*static_cast<SS const*>(p))
#define FSR(p) (*static_cast<FS*>(p))
#define FSC(p) (*static_cast<FS const*>(p))
#define SVR(p) (*static_cast<SV*>(p))
static inline E mk(PV x) { return E((int)x); }
static inline u64 off_of(void const* obj, void const* member) { return u64(static_cast<unsigned char const*>(member) - static_cast<unsigned char const*>(obj)); }
// result of an insertion: bit 8 = inserted, low bits = index of the returned iterator (0xff for a null iterator)
template <typename S, typename R>
static inline unsigned ins_result(S& s, R const& r) { return (r.second ? 0x100u : 0u) | (r.first == nullptr ? 0xffu : unsigned(r.first - s.begin())); }

K u64 k_esize() { return sizeof(E); }
K void k_mk_array(void* blk, PV const* vals, u64 cnt) { for (u64 i = 0; i < cnt; i++) ::new (static_cast<E*>(blk) + i) E((int)vals[i]); }
K PV k_rd_array(void const* blk, u64 i) { return (PV) static_cast<E const*>(blk)[i].get(); }
K void k_destroy_array(void* blk, u64 cnt) { for (u64 i = 0; i < cnt; i++) static_cast<E*>(blk)[i].~E(); }

// =====================================================================================================================
// static_set
// =====================================================================================================================
K u64 k_ss_sizeof() { return sizeof(SS); }
K void k_ss_new(void* p) { ::new (p) SS; }
K void k_ss_dtor(void* p) { SSR(p).~SS(); }
K u64 k_ss_size(void const* p) { return SSC(p).size(); }
K u64 k_ss_data_off(void const* p) { return off_of(p, SSC(p).begin()); }
K PV k_ss_at(void const* p, u64 i) { return (PV)(SSC(p).begin() + i)->get(); }
K unsigned k_ss_insert_r(void* p, PV x) { return ins_result(SSR(p), SSR(p).insert(mk(x))); }
K u64 k_ss_erase_it(void* p, u64 i) { return u64(SSR(p).erase(SSR(p).begin() + i) - SSR(p).begin()); }
K u64 k_ss_erase_range(void* p, u64 i, u64 j) { return u64(SSR(p).erase(SSR(p).begin() + i, SSR(p).begin() + j) - SSR(p).begin()); }
K u64 k_ss_erase_key(void* p, PV x) { E const e = mk(x); return SSR(p).erase(e); }
K void k_ss_clear(void* p) { SSR(p).clear(); }
K bool k_ss_contains(void const* p, PV x) { E const e = mk(x); return SSC(p).contains(e); }
K void k_ss_move_ctor(void* d, void* s) { ::new (d) SS(etl::move(SSR(s))); }
#if FLAV != 1
K unsigned k_ss_insert_l(void* p, PV x) { E const e = mk(x); return ins_result(SSR(p), SSR(p).insert(e)); }
K unsigned k_ss_emplace(void* p, PV x) { return ins_result(SSR(p), SSR(p).emplace((int)x)); }
K void k_ss_insert_range(void* p, void const* src, u64 cnt) { auto const* s = static_cast<E const*>(src); SSR(p).insert(s, s + cnt); }
K void k_ss_ctor_range(void* p, void const* src, u64 cnt) { auto const* s = static_cast<E const*>(src); ::new (p) SS(s, s + cnt); }
K void k_ss_copy_ctor(void* d, void const* s) { ::new (d) SS(SSC(s)); }
K void k_ss_copy_assign(void* d, void const* s) { SSR(d) = SSC(s); }
K void k_ss_move_assign(void* d, void* s) { SSR(d) = etl::move(SSR(s)); }
K void k_ss_swap(void* a, void* b) { SSR(a).swap(SSR(b)); }
K void k_ss_swap_free(void* a, void* b) { using etl::swap; swap(SSR(a), SSR(b)); }
#else
K unsigned k_ss_insert_l(void*, PV) { return 0; }
K unsigned k_ss_emplace(void*, PV) { return 0; }
K void k_ss_insert_range(void*, void const*, u64) {}
K void k_ss_ctor_range(void*, void const*, u64) {}
K void k_ss_copy_ctor(void*, void const*) {}
K void k_ss_copy_assign(void*, void const*) {}
K void k_ss_move_assign(void*, void*) {}
K void k_ss_swap(void*, void*) {}
K void k_ss_swap_free(void*, void*) {}
#endif

// =====================================================================================================================
// flat_set over static_vector
// =====================================================================================================================
K u64 k_fs_sizeof() { return sizeof(FS); }
K void k_fs_new(void* p) { ::new (p) FS; }
// pre-state installation: flat_set(sorted_unique, container&&) adopts a container whose keys are already increasing
K void k_fs_make_sorted(void* p, PV const* vals, u64 cnt)
{
    SV c;
    for (u64 i = 0; i < cnt; i++) c.emplace_back((int)vals[i]);
    ::new (p) FS(etl::sorted_unique, etl::move(c));
}
K void k_fs_dtor(void* p) { FSR(p).~FS(); }
K u64 k_fs_size(void const* p) { return FSC(p).size(); }
K u64 k_fs_data_off(void const* p) { return off_of(p, FSC(p).begin()); }
K PV k_fs_at(void const* p, u64 i) { return (PV)(FSC(p).begin() + i)->get(); }
K unsigned k_fs_insert_r(void* p, PV x) { return ins_result(FSR(p), FSR(p).insert(mk(x))); }
K unsigned k_fs_emplace(void* p, PV x) { return ins_result(FSR(p), FSR(p).emplace((int)x)); }
K u64 k_fs_insert_hint_r(void* p, u64 hint, PV x) { return u64(FSR(p).insert(FSC(p).begin() + hint, mk(x)) - FSR(p).begin()); }
K u64 k_fs_erase_it(void* p, u64 i) { return u64(FSR(p).erase(FSR(p).begin() + i) - FSR(p).begin()); }
K u64 k_fs_erase_cit(void* p, u64 i) { return u64(FSR(p).erase(FSC(p).begin() + i) - FSR(p).begin()); }
K u64 k_fs_erase_range(void* p, u64 i, u64 j) { return u64(FSR(p).erase(FSC(p).begin() + i, FSC(p).begin() + j) - FSR(p).begin()); }
K u64 k_fs_erase_key(void* p, PV x) { E const e = mk(x); return FSR(p).erase(e); }
K u64 k_fs_erase_if(void* p, PV x) { E const e = mk(x); return etl::erase_if(FSR(p), [&e](E const& k) { return k < e; }); }
K void k_fs_clear(void* p) { FSR(p).clear(); }
K bool k_fs_contains(void const* p, PV x) { E const e = mk(x); return FSC(p).contains(e); }
K void k_fs_move_ctor(void* d, void* s) { ::new (d) FS(etl::move(FSR(s))); }
// extract() && hands the container out (constructed into the driver's block c); replace() takes one back
K void k_fs_extract(void* p, void* c) { ::new (c) SV(etl::move(FSR(p)).extract()); }
K u64 k_sv_sizeof() { return sizeof(SV); }
K u64 k_sv_size(void const* c) { return static_cast<SV const*>(c)->size(); }
K u64 k_sv_data_off(void* c) { return off_of(c, SVR(c).data()); }
K void k_sv_dtor(void* c) { SVR(c).~SV(); }
K void k_sv_new(void* c) { ::new (c) SV; }
K void k_sv_emplace_back(void* c, PV x) { SVR(c).emplace_back((int)x); }
#if FLAV != 1
K unsigned k_fs_insert_l(void* p, PV x) { E const e = mk(x); return ins_result(FSR(p), FSR(p).insert(e)); }
K void k_fs_insert_range(void* p, void const* src, u64 cnt) { auto const* s = static_cast<E const*>(src); FSR(p).insert(s, s + cnt); }
K void k_fs_ctor_range(void* p, void const* src, u64 cnt) { auto const* s = static_cast<E const*>(src); ::new (p) FS(s, s + cnt); }
K void k_fs_ctor_container(void* p, void const* c) { ::new (p) FS(*static_cast<SV const*>(c)); }
K void k_fs_ctor_sorted(void* p, void const* c) { ::new (p) FS(etl::sorted_unique, *static_cast<SV const*>(c)); }
K void k_fs_copy_ctor(void* d, void const* s) { ::new (d) FS(FSC(s)); }
K void k_fs_copy_assign(void* d, void const* s) { FSR(d) = FSC(s); }
K void k_fs_move_assign(void* d, void* s) { FSR(d) = etl::move(FSR(s)); }
K void k_fs_swap(void* a, void* b) { FSR(a).swap(FSR(b)); }
K void k_fs_swap_free(void* a, void* b) { swap(FSR(a), FSR(b)); }
K void k_fs_replace(void* p, void* c) { FSR(p).replace(etl::move(SVR(c))); }
#else
K unsigned k_fs_insert_l(void*, PV) { return 0; }
K void k_fs_insert_range(void*, void const*, u64) {}
K void k_fs_ctor_range(void*, void const*, u64) {}
K void k_fs_ctor_container(void*, void const*) {}
K void k_fs_ctor_sorted(void*, void const*) {}
K void k_fs_copy_ctor(void*, void const*) {}
K void k_fs_copy_assign(void*, void const*) {}
K void k_fs_move_assign(void*, void*) {}
K void k_fs_swap(void*, void*) {}
K void k_fs_swap_free(void*, void*) {}
K void k_fs_replace(void*, void*) {}
#endif
