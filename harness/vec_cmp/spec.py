PROPERTIES = ['C01', 'C02']
BOUNDS = {
    'quick': 'two static_vectors / stacks of capacity CAP in {0,1,3}, sizes NA, NB in 0..CAP (all pairs, enumerated), all element values symbolic; int, POD{int,int}, NT at CAP 3; int and NT at CAP 0/1',
    'thorough': 'CAP in {0,1,2,3,4,5,6} for int, {0,1,3,5} for POD and NT, all size pairs',
}
ASSUMPTIONS = ['C01: element order is the element type\'s own operator< / operator== (int: built-in; POD: lexicographic on (a,b); NT: on its int); inplace_vector has no comparison operators (nothing to compare)']


def uw(blk, slack):
    return {'d_sym_block.0': blk, 'd_sym_block.1': blk, 'd_slack.0': slack, 'd_slack.1': slack,
            'll_memset.0': blk, 'll_memcpy.0': blk, 'll_memmove.0': blk, 'll_memmove.1': blk}


def grid(tier):
    if tier == 'quick':
        return [(0, 0), (0, 1), (0, 3), (1, 3), (2, 0), (2, 1), (2, 3)]
    return [(0, c) for c in range(7)] + [(e, c) for e in (1, 2) for c in (0, 1, 3, 5)]


def queries(tier, prop='C01'):
    ub = prop == 'C02'
    out = []
    g = grid(tier)
    if ub and tier == 'quick': g = [(0, 3), (2, 3)]
    for (elt, cap) in g:
        esz = 8 if elt == 1 else 4
        for na in range(cap + 1):
            for nb in range(cap + 1):
                ents = ['sv_rel', 'st_rel'] + (['sv_rel_self', 'sv_rel_copy'] if nb == 0 else [])
                for e in ents:
                    out.append(dict(entry='q_' + e, cfg={'ELT': elt, 'CAP': cap, 'NA': na, 'NB': nb}, unwind=cap + 3,
                                    unwindset=uw(cap * esz + 18, cap * esz + 2), budget=600, ub=ub, nofunc=ub))
    return out
