// C01 comparison kernels: the wrappers live in ../vec_step/kernel.cpp (k_sv_rel, k_st_rel and the installation calls).
#include "../vec_step/kernel.cpp"
