// C01 comparison driver: two vectors (or stacks) of enumerated sizes NA, NB with symbolic contents; the six relational
// operators == != < <= > >= against the lexicographic model (std::vector semantics: == is size + element-wise ==,
// < is lexicographical_compare with the element's operator<). Returned as one bit mask so one query decides all six.
#include "vf.h"
#include "../vec_step/elem.h"
#include "../vec_step/model.h"
#ifndef CAP
#define CAP 3
#endif
#ifndef NA
#define NA 0
#endif
#ifndef NB
#define NB 0
#endif
using u64 = uint64_t;
using M = Model<PV, CAP>;
#include "../vec_step/protos.h"
#include "../vec_step/common.h"

static unsigned expect(M const& a, M const& b) { return model_rel(a.a, a.n, b.a, b.n, pv_eq, pv_less); }
Q q_sv_rel()
{
    M a, b; void* p = sv_make(a, NA); void* q = sv_make(b, NB);
    unsigned e = expect(a, b);
    vf_assert(k_sv_rel(p, q) == e, "static_vector == != < <= > >= agree with std::vector's");
    if (NA == NB && (e & 1)) vf_witness("equal vectors");
    sv_check(p, a); sv_check(q, b); // comparing changes nothing
}
Q q_sv_rel_self() { M a; void* p = sv_make(a, NA); vf_assert(k_sv_rel(p, p) == (1u | 1u << 3 | 1u << 5), "a vector equals itself"); }
// a copy compares equal to its source; after changing one element it compares like the changed element
Q q_sv_rel_copy()
{
    M a; void* p = sv_make(a, NA); void* q = d_sym_block(k_sv_sizeof()); k_sv_copy_ctor(q, p);
    vf_assert(k_sv_rel(p, q) == (1u | 1u << 3 | 1u << 5), "a copy equals its source");
#if NA > 0
    M b = a; u64 i = vf_nd_u64(); PV x = nd_pv(); vf_assume(i < NA); k_sv_set_at(q, i, x); b.a[i] = x;
    vf_assert(k_sv_rel(p, q) == expect(a, b), "comparison after modifying the copy");
#endif
}
Q q_st_rel()
{
    M a, b; void* p = st_make(a, NA); void* q = st_make(b, NB);
    vf_assert(k_st_rel(p, q) == expect(a, b), "stack == != < <= > >= compare the underlying containers as std::stack does");
    st_check(p, a); st_check(q, b);
}
