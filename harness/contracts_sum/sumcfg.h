// Value / error / alternative types of the contracts_sum family (shared by kernel.cpp and driver.cpp; no tetl code).
// SUMT=0: trivial types (int, char, long); SUMT=1: non-trivial types (user-provided copy/move/destructor).
#ifndef C05_SUMCFG_H
#define C05_SUMCFG_H
#include <stdint.h>
typedef uint32_t PV;
#ifndef SUMT
#define SUMT 0
#endif
struct NT {
    int v;
    NT() noexcept : v(7) {}
    explicit NT(int x) noexcept : v(x) {}
    NT(NT const& o) noexcept : v(o.v) {}
    NT(NT&& o) noexcept : v(o.v) { o.v = 0x0A0B0C0D; }
    NT& operator=(NT const& o) noexcept { v = o.v; return *this; }
    NT& operator=(NT&& o) noexcept { int t = o.v; o.v = 0x0A0B0C0D; v = t; return *this; }
    ~NT() { v = 0x0DEAD00D; }
};
struct NT2 {
    long long w;
    NT2() noexcept : w(9) {}
    explicit NT2(int x) noexcept : w(x) {}
    NT2(NT2 const& o) noexcept : w(o.w) {}
    NT2(NT2&& o) noexcept : w(o.w) { o.w = 0x0A0B0C0D; }
    NT2& operator=(NT2 const& o) noexcept { w = o.w; return *this; }
    NT2& operator=(NT2&& o) noexcept { long long t = o.w; o.w = 0x0A0B0C0D; w = t; return *this; }
    ~NT2() { w = 0x0DEAD00D; }
};
static inline PV rdv(int a) { return (PV)a; }
static inline PV rdv(char a) { return (PV)(uint8_t)a; }
static inline PV rdv(long a) { return (PV)a; }
static inline PV rdv(NT const& a) { return (PV)a.v; }
static inline PV rdv(NT2 const& a) { return (PV)a.w; }
template <class A> static inline A mkv(PV x) { return A((int)x); }
#if SUMT == 0
typedef int TV; typedef char TE;           // optional<TV>, expected<TV, TE>
#define VAR_ALTS int, char, long            // variant<VAR_ALTS>
typedef int A0; typedef char A1; typedef long A2;
#else
typedef NT TV; typedef NT2 TE;
#define VAR_ALTS int, NT, NT2
typedef int A0; typedef NT A1; typedef NT2 A2;
#endif
// what reading alternative I back gives for payload x (char truncates)
static inline PV expect_tv(PV x) { return rdv(mkv<TV>(x)); }
static inline PV expect_te(PV x) { return rdv(mkv<TE>(x)); }
static inline PV expect_alt(unsigned i, PV x) { return i == 0 ? rdv(mkv<A0>(x)) : i == 1 ? rdv(mkv<A1>(x)) : rdv(mkv<A2>(x)); }
#endif
