// C05 driver (sum types): optional / optional<T&> / expected / variant accessors whose precondition is "holds a value",
// "holds an error", "holds alternative I". The state (engaged or not / which alternative, and the payload) is SYMBOLIC, so one
// query covers the violating and the valid states: violating -> handler at the accessor's own site, object untouched;
// valid -> no handler and the stored value is returned.
#include "c05.h"
#include "sumcfg.h"
extern "C" {
u64 k_o_sizeof(); void k_o_new(void*, bool, PV); bool k_o_has(void const*);
PV k_o_get_l(void*); PV k_o_get_cl(void const*); PV k_o_get_r(void*); PV k_o_get_cr(void const*);
u64 k_or_sizeof(); void k_or_new(void*, bool, void*); void k_tv_new(void*, PV); u64 k_tv_sizeof(); PV k_or_get(void const*);
u64 k_x_sizeof(); void k_x_new(void*, bool, PV); bool k_x_has(void const*);
PV k_x_get_l(void*); PV k_x_get_cl(void const*); PV k_x_get_r(void*); PV k_x_get_cr(void const*);
PV k_x_err_l(void*); PV k_x_err_cl(void const*); PV k_x_err_r(void*); PV k_x_err_cr(void const*);
u64 k_va_sizeof(); void k_va_new(void*, u64, PV); u64 k_va_index(void const*);
PV k_va_sub_l(void*, u64); PV k_va_sub_cl(void const*, u64); PV k_va_sub_r(void*, u64); PV k_va_sub_cr(void const*, u64);
PV k_va_uget_l(void*, u64); PV k_va_uget_cl(void const*, u64); PV k_va_uget_r(void*, u64); PV k_va_uget_cr(void const*, u64);
}
extern "C" __attribute__((noinline)) void* d_sym_block(u64 n)
{
    unsigned char* p = (unsigned char*)vf_alloc(n);
    for (u64 i = 0; i < n; i++) p[i] = vf_nd_u8();
    return p;
}

// ---- optional<TV>::operator* (const&, &, const&&, &&)
#define OPT_Q(NAME, SITE, KFN)                                                                                         \
    Q NAME()                                                                                                           \
    {                                                                                                                  \
        bool has = vf_nd_u8() & 1; PV x = vf_nd_u32();                                                                 \
        void* p = d_sym_block(k_o_sizeof()); k_o_new(p, has, x);                                                       \
        vf_assert(k_o_has(p) == has, "pre-state installed");                                                           \
        c05_watch0(p, k_o_sizeof());                                                                                   \
        C05_CLAUSE(0, SITE, !has);                                                                                     \
        c05_arm(); PV r = KFN(p); c05_done();                                                                          \
        vf_assert(r == expect_tv(x), "operator* returns the contained value");                                         \
    }
OPT_Q(q_o_get_cl, SITE_optional_1, k_o_get_cl)
OPT_Q(q_o_get_l, SITE_optional_2, k_o_get_l)
OPT_Q(q_o_get_cr, SITE_optional_3, k_o_get_cr)
OPT_Q(q_o_get_r, SITE_optional_4, k_o_get_r)
// ---- optional<TV&>::operator*
Q q_or_get()
{
    bool has = vf_nd_u8() & 1; PV x = vf_nd_u32();
    void* t = d_sym_block(k_tv_sizeof()); k_tv_new(t, x);
    void* p = d_sym_block(k_or_sizeof()); k_or_new(p, has, t);
    c05_watch0(p, k_or_sizeof()); c05_watch1(t, k_tv_sizeof());
    C05_CLAUSE(0, SITE_optional_5, !has);
    c05_arm(); PV r = k_or_get(p); c05_done();
    vf_assert(r == expect_tv(x), "optional<T&>::operator* returns the referenced object");
}
// ---- expected<TV,TE>::operator* and error()
#define EXP_Q(NAME, SITE, KFN, WANT_VALUE)                                                                             \
    Q NAME()                                                                                                           \
    {                                                                                                                  \
        bool has = vf_nd_u8() & 1; PV x = vf_nd_u32();                                                                 \
        void* p = d_sym_block(k_x_sizeof()); k_x_new(p, has, x);                                                       \
        vf_assert(k_x_has(p) == has, "pre-state installed");                                                           \
        c05_watch0(p, k_x_sizeof());                                                                                   \
        C05_CLAUSE(0, SITE, has != WANT_VALUE);                                                                        \
        c05_arm(); PV r = KFN(p); c05_done();                                                                          \
        vf_assert(r == (WANT_VALUE ? expect_tv(x) : expect_te(x)), "accessor returns the stored value / error");       \
    }
EXP_Q(q_x_get_cl, SITE_expected_1, k_x_get_cl, true)
EXP_Q(q_x_get_l, SITE_expected_2, k_x_get_l, true)
EXP_Q(q_x_get_cr, SITE_expected_3, k_x_get_cr, true)
EXP_Q(q_x_get_r, SITE_expected_4, k_x_get_r, true)
EXP_Q(q_x_err_l, SITE_expected_5, k_x_err_l, false)
EXP_Q(q_x_err_cl, SITE_expected_6, k_x_err_cl, false)
EXP_Q(q_x_err_r, SITE_expected_7, k_x_err_r, false)
EXP_Q(q_x_err_cr, SITE_expected_8, k_x_err_cr, false)
// ---- variant<A0,A1,A2>: operator[](index_v<I>) and unchecked_get<I>; held alternative and I both symbolic in 0..2
// Known finding C05_variant_subscript_check_tautology: in operator[](index_constant<I> index) the parameter `index` hides the member
// function index(), so the check reads I == index() == I and never fires; the whole violating region i != held is affected.
#define VAR_Q(NAME, SITE, KFN, KNOWN)                                                                                       \
    Q NAME()                                                                                                           \
    {                                                                                                                  \
        u64 held = vf_nd_u8(), i = vf_nd_u8(); PV x = vf_nd_u32();                                                     \
        vf_assume(held < 3 && i < 3); /* I is a template argument: only existing alternatives can be named */          \
        KNOWN;                                                                                                         \
        void* p = d_sym_block(k_va_sizeof()); k_va_new(p, held, x);                                                    \
        vf_assert(k_va_index(p) == held, "pre-state installed");                                                       \
        c05_watch0(p, k_va_sizeof());                                                                                  \
        C05_CLAUSE(0, SITE, i != held);                                                                                \
        c05_arm(); PV r = KFN(p, i); c05_done();                                                                       \
        vf_assert(r == expect_alt((unsigned)i, x), "accessor returns the held alternative");                           \
    }
VAR_Q(q_va_sub_l, SITE_variant_1, k_va_sub_l, VF_KNOWN(C05_variant_subscript_check_tautology, i != held))
VAR_Q(q_va_sub_cl, SITE_variant_2, k_va_sub_cl, VF_KNOWN(C05_variant_subscript_check_tautology, i != held))
VAR_Q(q_va_sub_r, SITE_variant_3, k_va_sub_r, VF_KNOWN(C05_variant_subscript_check_tautology, i != held))
VAR_Q(q_va_sub_cr, SITE_variant_4, k_va_sub_cr, VF_KNOWN(C05_variant_subscript_check_tautology, i != held))
VAR_Q(q_va_uget_l, SITE_variant_5, k_va_uget_l, (void)0)
VAR_Q(q_va_uget_cl, SITE_variant_6, k_va_uget_cl, (void)0)
VAR_Q(q_va_uget_r, SITE_variant_7, k_va_uget_r, (void)0)
VAR_Q(q_va_uget_cr, SITE_variant_8, k_va_uget_cr, (void)0)
