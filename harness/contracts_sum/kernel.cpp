// C05 kernels (sum types): thin wrappers around the precondition-carrying accessors of etl::optional<TV>, etl::optional<TV&>,
// etl::expected<TV,TE> and etl::variant<A0,A1,A2> in all four value categories, built with contract checks and the custom handler.
// No logic besides marshalling (the alternative index of variant accessors is a template argument: switch over the three values).
#include "c05_kernel.h" // first: contract configuration + etl::assert_handler
#include <etl/expected.hpp>
#include <etl/new.hpp>
#include <etl/optional.hpp>
#include <etl/utility.hpp>
#include <etl/variant.hpp>
#include "vf.h" // after the library headers (K and Q are macros)
#include "sumcfg.h"
using u64 = uint64_t;
using O = etl::optional<TV>;
using OREF = etl::optional<TV&>;
using X = etl::expected<TV, TE>;
using VA = etl::variant<VAR_ALTS>;
#define OM(p) (*static_cast<O*>(p))
#define OC(p) (*static_cast<O const*>(p))
#define XM(p) (*static_cast<X*>(p))
#define XC(p) (*static_cast<X const*>(p))
#define VM(p) (*static_cast<VA*>(p))
#define VC(p) (*static_cast<VA const*>(p))

// ---- optional<TV>
K u64 k_o_sizeof() { return sizeof(O); }
K void k_o_new(void* p, bool has, PV x) { if (has) { ::new (p) O(mkv<TV>(x)); } else { ::new (p) O(); } }
K bool k_o_has(void const* p) { return OC(p).has_value(); }
K PV k_o_get_l(void* p) { return rdv(*OM(p)); }
K PV k_o_get_cl(void const* p) { return rdv(*OC(p)); }
K PV k_o_get_r(void* p) { TV t(*etl::move(OM(p))); return rdv(t); }
K PV k_o_get_cr(void const* p) { TV t(*etl::move(OC(p))); return rdv(t); }
// ---- optional<TV&>
K u64 k_or_sizeof() { return sizeof(OREF); }
K void k_or_new(void* p, bool has, void* target) { if (has) { ::new (p) OREF(*static_cast<TV*>(target)); } else { ::new (p) OREF(); } }
K void k_tv_new(void* t, PV x) { ::new (t) TV(mkv<TV>(x)); }
K u64 k_tv_sizeof() { return sizeof(TV); }
K PV k_or_get(void const* p) { return rdv(*(*static_cast<OREF const*>(p))); }
// ---- expected<TV, TE>
K u64 k_x_sizeof() { return sizeof(X); }
K void k_x_new(void* p, bool has, PV x) { if (has) { ::new (p) X(etl::in_place, mkv<TV>(x)); } else { ::new (p) X(etl::unexpect, mkv<TE>(x)); } }
K bool k_x_has(void const* p) { return XC(p).has_value(); }
K PV k_x_get_l(void* p) { return rdv(*XM(p)); }
K PV k_x_get_cl(void const* p) { return rdv(*XC(p)); }
K PV k_x_get_r(void* p) { TV t(*etl::move(XM(p))); return rdv(t); }
K PV k_x_get_cr(void const* p) { TV t(*etl::move(XC(p))); return rdv(t); }
K PV k_x_err_l(void* p) { return rdv(XM(p).error()); }
K PV k_x_err_cl(void const* p) { return rdv(XC(p).error()); }
K PV k_x_err_r(void* p) { TE e(etl::move(XM(p)).error()); return rdv(e); }
K PV k_x_err_cr(void const* p) { TE e(etl::move(XC(p)).error()); return rdv(e); }
// ---- variant<A0, A1, A2>
K u64 k_va_sizeof() { return sizeof(VA); }
K void k_va_new(void* p, u64 held, PV x)
{
    switch (held) {
    case 0: ::new (p) VA(etl::in_place_index<0>, mkv<A0>(x)); break;
    case 1: ::new (p) VA(etl::in_place_index<1>, mkv<A1>(x)); break;
    default: ::new (p) VA(etl::in_place_index<2>, mkv<A2>(x)); break;
    }
}
K u64 k_va_index(void const* p) { return VC(p).index(); }
#define SW3(EXPR0, EXPR1, EXPR2) switch (i) { case 0: return EXPR0; case 1: return EXPR1; default: return EXPR2; }
K PV k_va_sub_l(void* p, u64 i) { SW3(rdv(VM(p)[etl::index_v<0>]), rdv(VM(p)[etl::index_v<1>]), rdv(VM(p)[etl::index_v<2>])) }
K PV k_va_sub_cl(void const* p, u64 i) { SW3(rdv(VC(p)[etl::index_v<0>]), rdv(VC(p)[etl::index_v<1>]), rdv(VC(p)[etl::index_v<2>])) }
template <unsigned long I, class V> static PV sub_move(V&& v) { auto t(etl::move(v)[etl::index_v<I>]); return rdv(t); }
K PV k_va_sub_r(void* p, u64 i) { SW3(sub_move<0>(etl::move(VM(p))), sub_move<1>(etl::move(VM(p))), sub_move<2>(etl::move(VM(p)))) }
K PV k_va_sub_cr(void const* p, u64 i) { SW3(sub_move<0>(etl::move(VC(p))), sub_move<1>(etl::move(VC(p))), sub_move<2>(etl::move(VC(p)))) }
K PV k_va_uget_l(void* p, u64 i) { SW3(rdv(etl::unchecked_get<0>(VM(p))), rdv(etl::unchecked_get<1>(VM(p))), rdv(etl::unchecked_get<2>(VM(p)))) }
K PV k_va_uget_cl(void const* p, u64 i) { SW3(rdv(etl::unchecked_get<0>(VC(p))), rdv(etl::unchecked_get<1>(VC(p))), rdv(etl::unchecked_get<2>(VC(p)))) }
template <unsigned long I, class V> static PV uget_move(V&& v) { auto t(etl::unchecked_get<I>(etl::move(v))); return rdv(t); }
K PV k_va_uget_r(void* p, u64 i) { SW3(uget_move<0>(etl::move(VM(p))), uget_move<1>(etl::move(VM(p))), uget_move<2>(etl::move(VM(p)))) }
K PV k_va_uget_cr(void const* p, u64 i) { SW3(uget_move<0>(etl::move(VC(p))), uget_move<1>(etl::move(VC(p))), uget_move<2>(etl::move(VC(p)))) }
