// C18 driver (cstring / cwchar): symbolic strings in exact-size blocks, oracle = reference loops of ref.h (C standard).
// W=0: char functions, W=1: wchar_t functions. A, B: enumerated string / block lengths. G: see kernel.cpp.
// Strings for the str* functions: A (B) characters, each symbolic and non-zero, terminator forced in the last slot of a block of
// A+1 (B+1) characters -> a read past the terminator or a write past the extent C defines leaves the block (CBMC bounds check).
// The *_u entries and the mem* entries use unterminated blocks whose characters are symbolic over the full range (zeros included).
#include "vf.h"
#include "ref.h"
#ifndef W
#define W 0
#endif
#ifndef G
#define G 0
#endif
#ifndef A
#define A 3
#endif
#ifndef B
#define B 2
#endif
#if W
using CH = wchar_t;
#else
using CH = char;
#endif
// G=1: gcc configuration of the public headers (portable templates), see kernel.cpp
#if G
#define GCC 1
#else
#define GCC 0
#endif
using sz = size_t;
using pd = long;
extern "C" {
sz k_strlen(CH const*); int k_strcmp(CH const*, CH const*); int k_strncmp(CH const*, CH const*, sz);
pd k_strcpy(CH*, CH const*); pd k_strncpy(CH*, CH const*, sz); pd k_strcat(CH*, CH const*); pd k_strncat(CH*, CH const*, sz);
pd k_strchr(CH const*, int); pd k_strchr_nc(CH*, int); pd k_strrchr(CH const*, int); pd k_strrchr_nc(CH*, int);
sz k_strspn(CH const*, CH const*); sz k_strcspn(CH const*, CH const*); pd k_strpbrk(CH const*, CH const*); pd k_strpbrk_nc(CH*, CH*);
pd k_strstr(CH const*, CH const*); pd k_strstr_nc(CH*, CH*);
pd k_memcpy(CH*, CH const*, sz); pd k_memmove(CH*, CH const*, sz); pd k_memset(CH*, int, sz); int k_memcmp(CH const*, CH const*, sz);
pd k_memchr(CH const*, int, sz); pd k_memchr_nc(CH*, int, sz);
}
static CH nd_ch() { if (sizeof(CH) == 1) return CH(vf_nd_u8()); return CH(vf_nd_u32()); }
// exact-size block of n characters, all symbolic (zeros included), no terminator
static CH* sym(sz n) { CH* p = (CH*)vf_alloc(n * sizeof(CH)); for (sz i = 0; i < n; i++) p[i] = nd_ch(); return p; }
// C string of length exactly n: block of n+1, characters symbolic non-zero, terminator forced
static CH* symz(sz n) { CH* p = (CH*)vf_alloc((n + 1) * sizeof(CH)); for (sz i = 0; i < n; i++) { p[i] = nd_ch(); vf_assume(p[i] != CH(0)); } p[n] = CH(0); return p; }
static CH* dup(CH const* s, sz n) { CH* p = (CH*)vf_alloc(n * sizeof(CH)); for (sz i = 0; i < n; i++) p[i] = s[i]; return p; }
static int sgn(int x) { return (x > 0) - (x < 0); }
// the int difference of two wide characters is not representable
static bool ovf(CH x, CH y) { long long d = (long long)x - (long long)y; return d > 2147483647LL || d < -2147483647LL - 1; }
// narrow characters whose order differs between char (signed on this target) and unsigned char
static bool sdiff(CH x, CH y) { return sizeof(CH) == 1 && x != y && (((unsigned)x ^ (unsigned)y) & 0x80u) != 0; }
static sz const NOLIMIT = ~sz(0);
// per-branch reachability witness; nomerge keeps clang from folding sibling witnesses into one call with a selected string
#define WIT(name) do { [[clang::nomerge]] vf_witness(name); } while (0)

Q q_strlen() { CH* s = symz(A); vf_assert(k_strlen(s) == A, "strlen == length"); }

Q q_strcmp()
{
    CH* a = symz(A); CH* b = symz(B);
    sz fd = ref::decide(a, b, NOLIMIT);
    VF_KNOWN(C18_strcmp_signed_char, !W && GCC && sdiff(a[fd], b[fd]));
    VF_KNOWN(C18_wcscmp_diff_overflow, W && ovf(a[fd], b[fd]));
    int e = ref::strcmp(a, b);
    vf_assert(sgn(k_strcmp(a, b)) == e, "strcmp sign == C");
#if A == B
    if (e == 0) WIT("equal");
#endif
#if B > 0
    if (e < 0) WIT("less");
#endif
#if A > 0
    if (e > 0) WIT("greater");
#endif
}
// terminated strings, count over the full size_t range
Q q_strncmp()
{
    CH* a = symz(A); CH* b = symz(B); sz n = vf_nd_u64();
    sz fd = ref::decide(a, b, n);
    VF_KNOWN(C18_strncmp_signed_char, !W && GCC && fd < n && sdiff(a[fd], b[fd]));
    VF_KNOWN(C18_wcsncmp_diff_overflow, W && fd < n && ovf(a[fd], b[fd]));
    int e = ref::strncmp(a, b, n);
    vf_assert(sgn(k_strncmp(a, b, n)) == e, "strncmp sign == C");
#if A > 0 && B > 0
    if (n <= fd) WIT("count_reached_first");
#endif
}
// arrays without terminator (zeros may occur anywhere), count <= both array lengths: nothing beyond count may be read
Q q_strncmp_u()
{
    CH* a = sym(A); CH* b = sym(B); sz n = vf_nd_u64(); vf_assume(n <= A && n <= B);
    sz fd = ref::decide(a, b, n);
    VF_KNOWN(C18_strncmp_signed_char, !W && GCC && fd < n && sdiff(a[fd], b[fd]));
    VF_KNOWN(C18_wcsncmp_diff_overflow, W && fd < n && ovf(a[fd], b[fd]));
    vf_assert(sgn(k_strncmp(a, b, n)) == ref::strncmp(a, b, n), "strncmp (unterminated arrays) sign == C");
}
Q q_strcpy()
{
    CH* s = symz(A); CH* d = sym(A + 1);
    vf_assert(k_strcpy(d, s) == 0, "strcpy returns dest");
    for (sz i = 0; i <= A; i++) vf_assert(d[i] == s[i], "strcpy destination == source incl. terminator");
}
// destination: A+2 characters of symbolic garbage; count symbolic 0..A+2; characters at and after count are guard characters
Q q_strncpy()
{
    CH* s = symz(A); CH* d = sym(A + 2); CH* o = dup(d, A + 2); sz n = vf_nd_u64(); vf_assume(n <= A + 2);
    VF_KNOWN(C18_strncpy_no_padding, n > A);
    vf_assert(k_strncpy(d, s, n) == 0, "strncpy returns dest");
    for (sz i = 0; i < A + 2; i++) vf_assert(d[i] == (i < n ? (i < A ? s[i] : CH(0)) : o[i]), "strncpy destination: copy, zero padding up to count, nothing after count");
#if A > 0
    if (n < A) WIT("truncated");
#endif
#if !VF_KF_C18_strncpy_no_padding
    if (n > A + 1) WIT("padded");
#endif
}
// source array of A characters without forced terminator, count <= A
Q q_strncpy_u()
{
    CH* s = sym(A); CH* d = sym(A); CH* o = dup(d, A); sz n = vf_nd_u64(); vf_assume(n <= A);
    sz l = ref::strnlen(s, n);
    VF_KNOWN(C18_strncpy_no_padding, n > l);
    vf_assert(k_strncpy(d, s, n) == 0, "strncpy returns dest");
    for (sz i = 0; i < A; i++) vf_assert(d[i] == (i < n ? (i < l ? s[i] : CH(0)) : o[i]), "strncpy (unterminated source) destination");
}
// destination: string of length A in a block of exactly A+B+1 characters (tail = symbolic garbage)
static CH* dest_str(sz len, sz block)
{
    CH* d = (CH*)vf_alloc(block * sizeof(CH));
    for (sz i = 0; i < len; i++) { d[i] = nd_ch(); vf_assume(d[i] != CH(0)); }
    d[len] = CH(0);
    for (sz i = len + 1; i < block; i++) d[i] = nd_ch();
    return d;
}
Q q_strcat()
{
    CH* d = dest_str(A, A + B + 1); CH* s = symz(B); CH* o = dup(d, A + B + 1);
    vf_assert(k_strcat(d, s) == 0, "strcat returns dest");
    for (sz i = 0; i < A + B + 1; i++) vf_assert(d[i] == (i < A ? o[i] : i < A + B ? s[i - A] : CH(0)), "strcat destination == dest + src + terminator");
}
Q q_strncat()
{
    CH* d = dest_str(A, A + B + 1); CH* s = symz(B); CH* o = dup(d, A + B + 1); sz n = vf_nd_u64();
    sz m = n < B ? n : B;
    vf_assert(k_strncat(d, s, n) == 0, "strncat returns dest");
    for (sz i = 0; i < A + B + 1; i++) vf_assert(d[i] == (i < A ? o[i] : i < A + m ? s[i - A] : i == A + m ? CH(0) : o[i]), "strncat destination == dest + min(count,len) of src + terminator, rest untouched");
#if B > 0
    if (n < B) WIT("count_limited");
#endif
    if (n > B) WIT("terminator_limited");
}
// source array of B characters without forced terminator, count <= B: src[count] must not be read
Q q_strncat_u()
{
    CH* d = dest_str(A, A + B + 1); CH* s = sym(B); CH* o = dup(d, A + B + 1); sz n = vf_nd_u64(); vf_assume(n <= B);
    sz m = ref::strnlen(s, n);
    VF_KNOWN(C18_strncat_reads_past_count, n == B && m == n);
    vf_assert(k_strncat(d, s, n) == 0, "strncat returns dest");
    for (sz i = 0; i < A + B + 1; i++) vf_assert(d[i] == (i < A ? o[i] : i < A + m ? s[i - A] : i == A + m ? CH(0) : o[i]), "strncat (unterminated source) destination");
}
Q q_strchr()
{
    CH* s = symz(A); int c = (int)vf_nd_u32();
    pd e = ref::strchr(s, CH(c));
    vf_assert(k_strchr(s, c) == e, "strchr offset == C");
    vf_assert(k_strchr_nc(s, c) == e, "strchr (non-const overload) offset == C");
    if (e == -1) WIT("absent");
    if (e == pd(A)) WIT("terminator");
#if A > 0
    if (e >= 0 && e < pd(A)) WIT("found");
#endif
}
Q q_strrchr()
{
    CH* s = symz(A); int c = (int)vf_nd_u32();
    pd e = ref::strrchr(s, CH(c));
    vf_assert(k_strrchr(s, c) == e, "strrchr offset == C");
    vf_assert(k_strrchr_nc(s, c) == e, "strrchr (non-const overload) offset == C");
    if (e == -1) WIT("absent");
    if (e == pd(A)) WIT("terminator");
#if A > 1
    if (e >= 0 && e + 1 < pd(A)) WIT("found_not_last");
#endif
}
Q q_strspn() { CH* s = symz(A); CH* t = symz(B); vf_assert(k_strspn(s, t) == ref::strspn(s, t), "strspn == C"); }
Q q_strcspn() { CH* s = symz(A); CH* t = symz(B); vf_assert(k_strcspn(s, t) == ref::strcspn(s, t), "strcspn == C"); }
Q q_strpbrk()
{
    CH* s = symz(A); CH* t = symz(B);
    pd e = ref::strpbrk(s, t);
    VF_KNOWN(C18_strpbrk_no_match, A > 0 && e == -1);
    vf_assert(k_strpbrk(s, t) == e, "strpbrk offset == C");
    vf_assert(k_strpbrk_nc(s, t) == e, "strpbrk (non-const overload) offset == C");
#if A > 0 && B > 0
    if (e >= 0) WIT("found");
#endif
}
// wcsstr calls detail::strcmp<wchar_t> at every position whose first character matches, up to the first position where it returns 0:
// true if one of those calls subtracts two wide characters whose difference overflows int (root cause of C18_wcscmp_diff_overflow)
static bool strstr_cmp_overflows(CH const* h, CH const* n)
{
    for (sz i = 0; h[i] != CH(0); ++i) {
        if (h[i] != n[0]) continue;
        sz fd = ref::decide(h + i, n, NOLIMIT);
        if (ovf(h[i + fd], n[fd])) return true;
        if (h[i + fd] == n[fd]) break;
    }
    return false;
}
Q q_strstr()
{
    CH* h = symz(A); CH* n = symz(B);
    pd e = ref::strstr(h, n);
    VF_KNOWN(C18_strstr_suffix_only, B == 0 || (e != -1 && e != pd(A) - pd(B)));
    VF_KNOWN(C18_wcscmp_diff_overflow, W && strstr_cmp_overflows(h, n));
    vf_assert(k_strstr(h, n) == e, "strstr offset == C");
    vf_assert(k_strstr_nc(h, n) == e, "strstr (non-const overload) offset == C");
#if B > 0 && A >= B
    if (e >= 0) WIT("found");
#endif
#if B > 0
    if (e == -1) WIT("absent");
#endif
}
// two distinct blocks of A characters; count symbolic 0..A; characters at and after count are guard characters
Q q_memcpy()
{
    CH* s = sym(A); CH* d = sym(A); CH* o = dup(d, A); sz n = vf_nd_u64(); vf_assume(n <= A);
    VF_KNOWN(C18_wmemcpy_stops_at_nul, W && GCC && ref::strnlen(s, n) < n);
    vf_assert(k_memcpy(d, s, n) == 0, "memcpy returns dest");
    for (sz i = 0; i < A; i++) vf_assert(d[i] == (i < n ? s[i] : o[i]), "memcpy destination: count characters copied, nothing after count");
}
// one block of A characters; destination offset, source offset and count symbolic: every overlap inside the block
Q q_memmove()
{
    CH* p = sym(A); CH* o = dup(p, A); sz doff = vf_nd_u64(), soff = vf_nd_u64(), n = vf_nd_u64();
    vf_assume(doff <= A && soff <= A); vf_assume(n <= A - doff && n <= A - soff);
    vf_assert(k_memmove(p + doff, p + soff, n) == 0, "memmove returns dest");
    for (sz i = 0; i < A; i++) vf_assert(p[i] == (i >= doff && i - doff < n ? o[soff + (i - doff)] : o[i]), "memmove: destination range == old source range, rest of the block untouched");
#if A >= 3
    if (doff > soff && doff < soff + n) WIT("overlap_dest_above_src");
    if (soff > doff && soff < doff + n) WIT("overlap_dest_below_src");
#endif
}
Q q_memset()
{
    CH* p = sym(A); CH* o = dup(p, A); int c = (int)vf_nd_u32(); sz n = vf_nd_u64(); vf_assume(n <= A);
    CH v = W ? CH(c) : CH((unsigned char)c);
    vf_assert(k_memset(p, c, n) == 0, "memset returns dest");
    for (sz i = 0; i < A; i++) vf_assert(p[i] == (i < n ? v : o[i]), "memset: count characters set, nothing after count");
}
Q q_memcmp()
{
    CH* a = sym(A); CH* b = sym(B); sz n = vf_nd_u64(); vf_assume(n <= A && n <= B);
    int e = ref::memcmp(a, b, n);
    sz fd = ref::decide(a, b, n);      // first difference or first common zero
    sz md = fd; while (md < n && a[md] == b[md]) md++;   // first difference
    VF_KNOWN(C18_memcmp_stops_at_nul, !W && GCC && fd < n && a[fd] == b[fd] && e != 0);
    VF_KNOWN(C18_wmemcmp_stops_at_nul, W && fd < n && a[fd] == b[fd] && e != 0);
    VF_KNOWN(C18_wcsncmp_diff_overflow, W && md < n && ovf(a[md], b[md]));
    vf_assert(sgn(k_memcmp(a, b, n)) == e, "memcmp sign == C");
}
// memchr is defined when the character occurs within the array even if count is larger
Q q_memchr()
{
    CH* s = sym(A); int c = (int)vf_nd_u32(); sz n = vf_nd_u64();
    CH v = W ? CH(c) : CH((unsigned char)c);
    vf_assume(n <= A || ref::memchr(s, v, A) != -1);
    pd e = ref::memchr(s, v, n < A ? n : A);
    vf_assert(k_memchr(s, c, n) == e, "memchr offset == C");
    vf_assert(k_memchr_nc(s, c, n) == e, "memchr (non-const overload) offset == C");
    if (e == -1) WIT("absent");
#if A > 0
    if (e >= 0) WIT("found");
    if (e >= 0 && n > A) WIT("found_count_beyond_array");
#endif
}
