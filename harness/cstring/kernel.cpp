// C18 kernels: thin wrappers around etl::str*/mem* (W=0) or etl::wcs*/wmem* (W=1). No logic besides marshalling
// (pointer results are returned as offsets from the argument, -1 = null pointer).
// Ten public headers (strlen strcmp strncmp strchr memchr memcmp memcpy memmove wmemcpy wmemmove) have two branches:
// `#if defined(__clang__)` forwards to __builtin_*, `#else` uses the portable etl::detail templates. G selects the configuration:
//   G=0: the clang configuration, G=1: the gcc configuration. The public entry is called in every case:
//   * clang, G=1 (the solver build of the gcc configuration): __clang__ is undefined before the first tetl header is included, so the
//     real `#else` branches of the real headers are compiled - nothing is replicated here;
//   * g++ (native replay / translator validation), G=1: the public entry is the gcc configuration anyway;
//   * g++, G=0: g++ cannot compile the clang branch (no __builtin_wmemcpy), so for these ten functions the builtin call of that
//     branch is written out (CLANGCFG). This path never decides a query.
// All other functions have a single implementation: G makes no difference.
#include "vf.h"
#ifndef W
#define W 0
#endif
#ifndef G
#define G 0
#endif
#if defined(__clang__)
#define VF_REAL_CLANG 1
#else
#define VF_REAL_CLANG 0
#include <wchar.h>
#endif
#if G && VF_REAL_CLANG
#undef __clang__
#endif
#define CLANGCFG (!G && !VF_REAL_CLANG)
#include <etl/cstring.hpp>
#include <etl/cwchar.hpp>
using sz = etl::size_t;
using pd = long;
#if W
using CH = wchar_t;
#else
using CH = char;
#endif
template <class P> static pd off(P const* r, P const* base) { return r != nullptr ? pd(r - base) : pd(-1); }

#if !W
// ---------------------------------------------------------------- narrow
K sz k_strlen(char const* s)
{
#if CLANGCFG
    return __builtin_strlen(s);
#else
    return etl::strlen(s);
#endif
}
K int k_strcmp(char const* a, char const* b)
{
#if CLANGCFG
    return __builtin_strcmp(a, b);
#else
    return etl::strcmp(a, b);
#endif
}
K int k_strncmp(char const* a, char const* b, sz n)
{
#if CLANGCFG
    return __builtin_strncmp(a, b, n);
#else
    return etl::strncmp(a, b, n);
#endif
}
K pd k_strcpy(char* d, char const* s) { return off(etl::strcpy(d, s), d); }
K pd k_strncpy(char* d, char const* s, sz n) { return off(etl::strncpy(d, s, n), d); }
K pd k_strcat(char* d, char const* s) { return off(etl::strcat(d, s), d); }
K pd k_strncat(char* d, char const* s, sz n) { return off(etl::strncat(d, s, n), d); }
K pd k_strchr(char const* s, int c)
{
#if CLANGCFG
    return off(static_cast<char const*>(__builtin_strchr(s, c)), s);
#else
    return off(etl::strchr(s, c), s);
#endif
}
K pd k_strchr_nc(char* s, int c)
{
#if CLANGCFG
    return off(static_cast<char*>(__builtin_strchr(s, c)), s);
#else
    return off(etl::strchr(s, c), s);
#endif
}
K pd k_strrchr(char const* s, int c) { return off(etl::strrchr(s, c), s); }
K pd k_strrchr_nc(char* s, int c) { return off(etl::strrchr(s, c), s); }
K sz k_strspn(char const* s, char const* set) { return etl::strspn(s, set); }
K sz k_strcspn(char const* s, char const* set) { return etl::strcspn(s, set); }
K pd k_strpbrk(char const* s, char const* set) { return off(etl::strpbrk(s, set), s); }
K pd k_strpbrk_nc(char* s, char* set) { return off(etl::strpbrk(s, set), s); }
K pd k_strstr(char const* h, char const* n) { return off(etl::strstr(h, n), h); }
K pd k_strstr_nc(char* h, char* n) { return off(etl::strstr(h, n), h); }
K pd k_memcpy(char* d, char const* s, sz n)
{
#if CLANGCFG
    return off(static_cast<char*>(__builtin_memcpy(d, s, n)), d);
#else
    return off(static_cast<char*>(etl::memcpy(d, s, n)), d);
#endif
}
K pd k_memmove(char* d, char const* s, sz n)
{
#if CLANGCFG
    return off(static_cast<char*>(__builtin_memmove(d, s, n)), d);
#else
    return off(static_cast<char*>(etl::memmove(d, s, n)), d);
#endif
}
K pd k_memset(char* d, int c, sz n) { return off(static_cast<char*>(etl::memset(d, c, n)), d); }
K int k_memcmp(char const* a, char const* b, sz n)
{
#if CLANGCFG
    return __builtin_memcmp(a, b, n);
#else
    return etl::memcmp(a, b, n);
#endif
}
K pd k_memchr(char const* s, int c, sz n)
{
#if CLANGCFG
    return off(static_cast<char const*>(__builtin_memchr(static_cast<void const*>(s), c, n)), s);
#else
    return off(static_cast<char const*>(etl::memchr(static_cast<void const*>(s), c, n)), s);
#endif
}
K pd k_memchr_nc(char* s, int c, sz n)
{
#if CLANGCFG
    return off(static_cast<char*>(__builtin_memchr(static_cast<void*>(s), c, n)), s);
#else
    return off(static_cast<char*>(etl::memchr(static_cast<void*>(s), c, n)), s);
#endif
}
#else
// ---------------------------------------------------------------- wide
K sz k_strlen(wchar_t const* s) { return etl::wcslen(s); }
K int k_strcmp(wchar_t const* a, wchar_t const* b) { return etl::wcscmp(a, b); }
K int k_strncmp(wchar_t const* a, wchar_t const* b, sz n) { return etl::wcsncmp(a, b, n); }
K pd k_strcpy(wchar_t* d, wchar_t const* s) { return off(etl::wcscpy(d, s), d); }
K pd k_strncpy(wchar_t* d, wchar_t const* s, sz n) { return off(etl::wcsncpy(d, s, n), d); }
K pd k_strcat(wchar_t* d, wchar_t const* s) { return off(etl::wcscat(d, s), d); }
K pd k_strncat(wchar_t* d, wchar_t const* s, sz n) { return off(etl::wcsncat(d, s, n), d); }
K pd k_strchr(wchar_t const* s, int c) { return off(etl::wcschr(s, c), s); }
K pd k_strchr_nc(wchar_t* s, int c) { return off(etl::wcschr(s, c), s); }
K pd k_strrchr(wchar_t const* s, int c) { return off(etl::wcsrchr(s, c), s); }
K pd k_strrchr_nc(wchar_t* s, int c) { return off(etl::wcsrchr(s, c), s); }
K sz k_strspn(wchar_t const* s, wchar_t const* set) { return etl::wcsspn(s, set); }
K sz k_strcspn(wchar_t const* s, wchar_t const* set) { return etl::wcscspn(s, set); }
K pd k_strpbrk(wchar_t const* s, wchar_t const* set) { return off(etl::wcspbrk(s, set), s); }
K pd k_strpbrk_nc(wchar_t* s, wchar_t* set) { return off(etl::wcspbrk(s, set), s); }
K pd k_strstr(wchar_t const* h, wchar_t const* n) { return off(etl::wcsstr(h, n), h); }
K pd k_strstr_nc(wchar_t* h, wchar_t* n) { return off(etl::wcsstr(h, n), h); }
K pd k_memcpy(wchar_t* d, wchar_t const* s, sz n)
{
#if CLANGCFG
    return off(::wmemcpy(d, s, n), d);   /* g++ has no __builtin_wmemcpy; the clang builtin lowers to this libc call */
#else
    return off(etl::wmemcpy(d, s, n), d);
#endif
}
K pd k_memmove(wchar_t* d, wchar_t const* s, sz n)
{
#if CLANGCFG
    return off(::wmemmove(d, s, n), d);  /* likewise */
#else
    return off(etl::wmemmove(d, s, n), d);
#endif
}
K pd k_memset(wchar_t* d, int c, sz n) { return off(etl::wmemset(d, static_cast<wchar_t>(c), n), d); }
K int k_memcmp(wchar_t const* a, wchar_t const* b, sz n) { return etl::wmemcmp(a, b, n); }
K pd k_memchr(wchar_t const* s, int c, sz n) { return off(etl::wmemchr(s, static_cast<wchar_t>(c), n), s); }
K pd k_memchr_nc(wchar_t* s, int c, sz n) { return off(etl::wmemchr(s, static_cast<wchar_t>(c), n), s); }
#endif
