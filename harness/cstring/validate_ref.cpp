// DESIGN.md 1.7(3): the reference loops of ref.h (the C18 oracle) against the host C library, natively.
// Boundary alphabet (0, 'a', 'b', 0x7f, 0x80, 0xff / wide: 0, 1, 'a', INT_MAX, INT_MIN, -1) x all strings up to length 3 exhaustively,
// plus seeded random strings up to length 7; all counts 0..len+2. Exit 0 = agreement.
#include "ref.h"
#include <cstdio>
#include <cstdlib>
#include <cstring>
#include <cwchar>
#include <climits>
#include <random>
static long nchk = 0, nbad = 0;
static int sgn(int x) { return (x > 0) - (x < 0); }
#define CHK(c, what) do { ++nchk; if (!(c)) { if (nbad++ < 10) std::printf("MISMATCH %s\n", what); } } while (0)
template <class T> static long po(T const* r, T const* b) { return r ? long(r - b) : -1L; }

static void pair_narrow(char const* a, size_t la, char const* b, size_t lb, char const* alpha, int na)
{
    CHK(ref::strlen(a) == std::strlen(a), "strlen");
    CHK(ref::strcmp(a, b) == sgn(std::strcmp(a, b)), "strcmp");
    for (size_t n = 0; n <= la + lb + 2; ++n) CHK(ref::strncmp(a, b, n) == sgn(std::strncmp(a, b, n)), "strncmp");
    CHK(ref::strncmp(a, b, ~size_t(0)) == sgn(std::strncmp(a, b, ~size_t(0))), "strncmp max");
    size_t m = la < lb ? la : lb;
    for (size_t n = 0; n <= m + 1; ++n) { CHK(ref::memcmp(a, b, n) == sgn(std::memcmp(a, b, n)), "memcmp"); CHK(ref::strnlen(a, n) == ::strnlen(a, n), "strnlen"); }
    CHK(ref::strspn(a, b) == std::strspn(a, b), "strspn");
    CHK(ref::strcspn(a, b) == std::strcspn(a, b), "strcspn");
    CHK(ref::strpbrk(a, b) == po(std::strpbrk(a, b), a), "strpbrk");
    CHK(ref::strstr(a, b) == po(std::strstr(a, b), a), "strstr");
    for (int i = 0; i < na; ++i) {
        int c = (unsigned char)alpha[i];
        CHK(ref::strchr(a, char(c)) == po(std::strchr(a, c), a), "strchr");
        CHK(ref::strrchr(a, char(c)) == po(std::strrchr(a, c), a), "strrchr");
        CHK(ref::strchr(a, char(c + 256)) == po(std::strchr(a, c + 256), a), "strchr int conversion");
        for (size_t n = 0; n <= la + 1; ++n) CHK(ref::memchr(a, char(c), n) == po((char const*)std::memchr(a, c, n), a), "memchr");
    }
}
static void pair_wide(wchar_t const* a, size_t la, wchar_t const* b, size_t lb, wchar_t const* alpha, int na)
{
    CHK(ref::strlen(a) == std::wcslen(a), "wcslen");
    CHK(ref::strcmp(a, b) == sgn(std::wcscmp(a, b)), "wcscmp");
    for (size_t n = 0; n <= la + lb + 2; ++n) CHK(ref::strncmp(a, b, n) == sgn(std::wcsncmp(a, b, n)), "wcsncmp");
    size_t m = la < lb ? la : lb;
    for (size_t n = 0; n <= m + 1; ++n) { CHK(ref::memcmp(a, b, n) == sgn(std::wmemcmp(a, b, n)), "wmemcmp"); CHK(ref::strnlen(a, n) == ::wcsnlen(a, n), "wcsnlen"); }
    CHK(ref::strspn(a, b) == std::wcsspn(a, b), "wcsspn");
    CHK(ref::strcspn(a, b) == std::wcscspn(a, b), "wcscspn");
    CHK(ref::strpbrk(a, b) == po(std::wcspbrk(a, b), a), "wcspbrk");
    CHK(ref::strstr(a, b) == po(std::wcsstr(a, b), a), "wcsstr");
    for (int i = 0; i < na; ++i) {
        wchar_t c = alpha[i];
        CHK(ref::strchr(a, c) == po(std::wcschr(a, c), a), "wcschr");
        CHK(ref::strrchr(a, c) == po(std::wcsrchr(a, c), a), "wcsrchr");
        for (size_t n = 0; n <= la + 1; ++n) CHK(ref::memchr(a, c, n) == po(std::wmemchr(a, c, n), a), "wmemchr");
    }
}
template <class CH, class F> static void run(CH const* alpha, int na, unsigned seed, F pairfn)
{
    CH a[16], b[16];
    // exhaustive: all strings of length <= 3 over the non-zero part of the alphabet
    auto gen = [&](CH* s, size_t len, unsigned long idx) { for (size_t i = 0; i < len; ++i) { s[i] = alpha[1 + idx % (na - 1)]; idx /= (na - 1); } s[len] = 0; s[len + 1] = alpha[1]; s[len + 2] = 0; };
    for (size_t la = 0; la <= 3; ++la) for (size_t lb = 0; lb <= 3; ++lb) {
        unsigned long ca = 1, cb = 1; for (size_t i = 0; i < la; ++i) ca *= (na - 1); for (size_t i = 0; i < lb; ++i) cb *= (na - 1);
        for (unsigned long ia = 0; ia < ca; ++ia) for (unsigned long ib = 0; ib < cb; ++ib) { gen(a, la, ia); gen(b, lb, ib); pairfn(a, la, b, lb, alpha, na); }
    }
    std::mt19937_64 rng(seed * 2654435761u + 12345u);
    for (int it = 0; it < 20000; ++it) {
        size_t la = rng() % 8, lb = rng() % 8;
        for (size_t i = 0; i < la; ++i) { a[i] = (rng() % 4) ? alpha[1 + rng() % (na - 1)] : CH(rng()); if (a[i] == 0) a[i] = alpha[1]; }
        for (size_t i = 0; i < lb; ++i) { b[i] = (rng() % 4) ? alpha[1 + rng() % (na - 1)] : CH(rng()); if (b[i] == 0) b[i] = alpha[1]; }
        a[la] = 0; b[lb] = 0; a[la + 1] = alpha[1]; b[lb + 1] = alpha[2]; a[la + 2] = 0; b[lb + 2] = 0;
        pairfn(a, la, b, lb, alpha, na);
    }
}
int main(int argc, char** argv)
{
    unsigned seed = argc > 1 ? unsigned(std::strtoul(argv[1], nullptr, 10)) : 0;
    char const an[] = {0, 'a', 'b', 0x7f, char(0x80), char(0xff)};
    wchar_t const aw[] = {0, 1, L'a', wchar_t(INT_MAX), wchar_t(INT_MIN), wchar_t(-1)};
    run<char>(an, 6, seed, pair_narrow);
    run<wchar_t>(aw, 6, seed, pair_wide);
    std::printf("ref.h vs glibc: %ld comparisons, %ld mismatches (seed %u)\n", nchk, nbad, seed);
    return nbad ? 1 : 0;
}
