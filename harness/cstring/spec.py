import json
import os

PROPERTIES = ['C18', 'C02']
_here = os.path.dirname(os.path.abspath(__file__))

BOUNDS = {
    'quick': 'char functions (W=0): string/block lengths A in 0..4, second string B in 0..3 (enumerated); wchar_t functions (W=1): A in 0..3, B in 0..2; '
             'every character symbolic over its full range (char: 0..255, wchar_t: all 2^32 values; non-zero inside terminated strings), counts symbolic '
             '(strncmp/strncat: full size_t range; strncpy: 0..A+2; mem*: 0..block length; memchr: full range when the character occurs), int arguments '
             '(strchr/strrchr/memset/memchr) full 32 bit; memmove: one block, destination offset/source offset/count symbolic (every overlap); '
             'both the clang configuration of the public entry (G=0) and the gcc configuration (portable etl::detail templates, G=1)',
    'thorough': 'W=0: A in 0..8, B in 0..5; W=1: A in 0..6, B in 0..4; otherwise as quick',
}
ASSUMPTIONS = [
    'C18: oracle = reference loops of harness/cstring/ref.h written from C11 7.24/7.29.4 (narrow characters ordered as unsigned char, wide characters as '
    'the signed 32-bit wchar_t of this target, which is what glibc does); ref.h is validated natively against glibc by validate_ref.cpp on every run (spec.validate())',
    'C18: G=0 is the public entry as clang builds it: etl::strlen/strcmp/strncmp/strchr/memchr/memcmp/memcpy/memmove/wmemcpy/wmemmove forward to __builtin_*; '
    'the builtins are modelled by the reference loops of engine/ll_rt_libc.h, so for those ten functions G=0 only shows that the arguments are forwarded unchanged; '
    'G=1 is the gcc configuration: the kernel TU undefines __clang__ before including tetl, so clang compiles the real #else branches (portable etl::detail templates) of the real headers',
    'C18: str* arguments are terminated strings with the terminator in the last slot of their block (characters before it non-zero); *_u entries and mem* use '
    'unterminated blocks with count <= block length; source and destination never overlap except for memmove; the destination of strcat/strncat is a block of '
    'exactly len(dest)+len(src)+1 characters, of strcpy exactly len+1',
    'C18: strncpy/memcpy/memset/strncat: characters of the destination block at and after the extent C defines are symbolic guard characters that must be unchanged '
    '(writes beyond the block are caught by the bounds check)',
    'C18: returned pointers are compared as offsets from the argument (null = -1); strcmp-family results are compared by sign only',
]

TWO = ['strcmp', 'strncmp', 'strncmp_u', 'strcat', 'strncat', 'strncat_u', 'strspn', 'strcspn', 'strpbrk', 'strstr', 'memcmp']
ONE = ['strlen', 'strcpy', 'strncpy', 'strncpy_u', 'strchr', 'strrchr', 'memcpy', 'memmove', 'memset', 'memchr']
# functions whose public header has a builtin branch (clang) and a portable branch (gcc): harnessed in both configurations
GVAR = {0: ['strlen', 'strcmp', 'strncmp', 'strncmp_u', 'strchr', 'memchr', 'memcmp', 'memcpy', 'memmove'], 1: ['memcpy', 'memmove']}


def open_findings():
    ids = set()
    for p in (os.path.join(_here, 'kf.json'), os.path.join(os.path.dirname(os.path.dirname(_here)), 'known_findings.json')):
        if os.path.exists(p):
            d = json.load(open(p))
            for k in (d.get('open', []) if isinstance(d, dict) else d):
                ids.add(k['id'])
    return ids


def queries(tier, prop='C18'):
    ub = prop == 'C02'
    if prop == 'C18':
        validate()
    if tier == 'quick':
        lim = {0: (4, 3), 1: (3, 2)}
    else:
        lim = {0: (8, 5), 1: (6, 4)}
    opn = open_findings()
    out = []
    for w in (0, 1):
        amax, bmax = lim[w]
        for g in (0, 1):
            for a in range(amax + 1):
                for b in range(bmax + 1):
                    ents = [e for e in TWO + (ONE if b == 0 else []) if g == 0 or e in GVAR[w]]
                    nb = (4 if w else 1) * (a + b + 2) + 2     # byte loops of the runtime (wmemcpy/wmemmove builtins, loops clang turned into llvm.mem*)
                    us = {'ll_memcpy.0': nb, 'll_memmove.0': nb, 'll_memmove.1': nb, 'll_memset.0': nb}
                    for e in ents:
                        if e in ONE and b != 0:
                            continue
                        q = dict(entry='q_' + e, cfg={'W': w, 'G': g, 'A': a, 'B': b}, unwind=a + b + 4, unwindset=us, budget=120 if tier == 'quick' else 600, solver=['cadical', 'minisat'], ub=ub, nofunc=ub)
                        # configurations wholly inside an open known-finding region: only the confirm query may use them
                        if e == 'strstr' and b == 0 and 'C18_strstr_suffix_only' in opn:
                            q['confirm_only'] = True
                        if e == 'strpbrk' and b == 0 and a > 0 and 'C18_strpbrk_no_match' in opn:
                            q['confirm_only'] = True
                        if e == 'strncat_u' and b == 0 and 'C18_strncat_reads_past_count' in opn:
                            q['confirm_only'] = True
                        out.append(q)
    return out


_validated = [False]


def validate():
    """DESIGN.md 1.7(3): the reference loops of ref.h against glibc, natively (g++), boundary + seeded random inputs"""
    if _validated[0] or os.environ.get('C18_SKIP_REF_VALIDATION'):
        return
    import shutil
    import subprocess
    import tempfile
    _validated[0] = True
    src = os.path.join(_here, 'validate_ref.cpp')
    d = tempfile.mkdtemp(prefix='c18_ref_')
    exe = os.path.join(d, 'validate_ref')
    try:
        r = subprocess.run(['g++', '-std=c++20', '-O1', '-fno-builtin', '-I' + _here, src, '-o', exe], capture_output=True, text=True, timeout=300)
        if r.returncode != 0:
            raise RuntimeError('cstring: validate_ref.cpp does not compile: ' + r.stderr[-1500:])
        r = subprocess.run([exe, os.environ.get('VERIF_SEED', '0') or '0'], capture_output=True, text=True, timeout=300)
        if r.returncode != 0:
            raise RuntimeError('cstring: reference loops of ref.h disagree with glibc: ' + (r.stdout + r.stderr)[-1500:])
        print('[cstring] ' + r.stdout.strip().splitlines()[-1], flush=True)
    finally:
        shutil.rmtree(d, ignore_errors=True)
