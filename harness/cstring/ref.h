// C18 oracle: reference loops written from the C standard (7.24 / 7.29.4), shared by driver.cpp (symbolic) and
// validate_ref.cpp (natively against glibc). CH is char or wchar_t. Pointer results are offsets, -1 = null pointer.
// Ordering: narrow characters as unsigned char (7.24.4), wide characters as the integers of type wchar_t (7.29.4.4).
#ifndef C18_REF_H
#define C18_REF_H
#include <stddef.h>
namespace ref {
using sz = size_t;
using pd = long;
template <class CH> struct ord;
template <> struct ord<char> { static long long v(char c) { return (unsigned char)c; } };
template <> struct ord<wchar_t> { static long long v(wchar_t c) { return (long long)c; } };
template <class CH> static int cmp1(CH a, CH b) { return (ord<CH>::v(a) > ord<CH>::v(b)) - (ord<CH>::v(a) < ord<CH>::v(b)); }

template <class CH> static sz strlen(CH const* s) { sz n = 0; while (s[n] != CH(0)) ++n; return n; }
template <class CH> static int strcmp(CH const* a, CH const* b)
{
    for (sz i = 0;; ++i) { if (a[i] != b[i]) return cmp1(a[i], b[i]); if (a[i] == CH(0)) return 0; }
}
template <class CH> static int strncmp(CH const* a, CH const* b, sz n)
{
    for (sz i = 0; i < n; ++i) { if (a[i] != b[i]) return cmp1(a[i], b[i]); if (a[i] == CH(0)) return 0; }
    return 0;
}
// index of the character pair that decides strncmp (first difference, or first terminator, or n)
template <class CH> static sz decide(CH const* a, CH const* b, sz n)
{
    sz i = 0; while (i < n && a[i] == b[i] && a[i] != CH(0)) ++i; return i;
}
template <class CH> static int memcmp(CH const* a, CH const* b, sz n)
{
    for (sz i = 0; i < n; ++i) if (a[i] != b[i]) return cmp1(a[i], b[i]);
    return 0;
}
template <class CH> static pd strchr(CH const* s, CH c)
{
    for (sz i = 0;; ++i) { if (s[i] == c) return pd(i); if (s[i] == CH(0)) return -1; }
}
template <class CH> static pd strrchr(CH const* s, CH c)
{
    pd r = -1; for (sz i = 0;; ++i) { if (s[i] == c) r = pd(i); if (s[i] == CH(0)) return r; }
}
template <class CH> static bool in_set(CH const* set, CH c) { for (sz j = 0; set[j] != CH(0); ++j) if (set[j] == c) return true; return false; }
template <class CH> static sz strspn(CH const* s, CH const* set) { sz i = 0; while (s[i] != CH(0) && in_set(set, s[i])) ++i; return i; }
template <class CH> static sz strcspn(CH const* s, CH const* set) { sz i = 0; while (s[i] != CH(0) && !in_set(set, s[i])) ++i; return i; }
template <class CH> static pd strpbrk(CH const* s, CH const* set) { sz i = strcspn(s, set); return s[i] != CH(0) ? pd(i) : -1; }
template <class CH> static pd strstr(CH const* h, CH const* n)
{
    for (sz i = 0;; ++i) {
        sz j = 0; while (n[j] != CH(0) && h[i + j] == n[j]) ++j;   // h[i+j] == 0 != n[j] stops the scan inside h
        if (n[j] == CH(0)) return pd(i);
        if (h[i] == CH(0)) return -1;
    }
}
template <class CH> static pd memchr(CH const* s, CH c, sz n) { for (sz i = 0; i < n; ++i) if (s[i] == c) return pd(i); return -1; }
// number of characters strncpy/strncat take from src: up to the first terminator among the first n characters, else n
template <class CH> static sz strnlen(CH const* s, sz n) { sz i = 0; while (i < n && s[i] != CH(0)) ++i; return i; }
}
#endif
