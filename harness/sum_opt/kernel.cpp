// C07 kernels (optional): thin wrappers around etl::optional<T>, etl::optional<U> (mixed forms) and etl::optional<int&>.
// No logic besides marshalling: objects are addressed through void*, values travel as their payload PV (sum_types.h).
#include <etl/optional.hpp>
#include <etl/utility.hpp>
#include <etl/new.hpp>
#include "sum_types.h"
#include "vf.h" // after the library headers (K and Q are macros)
#include "optcfg.h"
using O = etl::optional<T>;
using OU = etl::optional<U>;
#define OR(p) (*static_cast<O*>(p))
#define OC(p) (*static_cast<O const*>(p))
#define UR(p) (*static_cast<OU*>(p))
#define UC(p) (*static_cast<OU const*>(p))

K u64 k_o_sizeof() { return sizeof(O); }
K u64 k_ou_sizeof() { return sizeof(OU); }
// ---- construction / destruction
K void k_o_default(void* p) { ::new (p) O; }
K void k_o_valueinit(void* p) { ::new (p) O{}; }
K void k_o_nullopt(void* p) { ::new (p) O(etl::nullopt); }
K void k_o_value_l(void* p, PV x) { T const t = mk<T>(x); ::new (p) O(t); }
K void k_o_value_r(void* p, PV x) { ::new (p) O(mk<T>(x)); }
K void k_o_value_u(void* p, PV x) { ::new (p) O(mk<U>(x)); } // converting constructor from a U
K void k_o_inplace(void* p, PV x) { ::new (p) O(etl::in_place, (int)x); }
K void k_o_copy(void* p, void const* q) { ::new (p) O(OC(q)); }
K void k_o_move(void* p, void* q) { ::new (p) O(etl::move(OR(q))); }
K void k_o_conv_copy(void* p, void const* q) { ::new (p) O(UC(q)); }
K void k_o_conv_move(void* p, void* q) { ::new (p) O(etl::move(UR(q))); }
K void k_o_make_deduced(void* p, PV x) { ::new (p) O(etl::make_optional(mk<T>(x))); }
K void k_o_make_inplace(void* p, PV x) { ::new (p) O(etl::make_optional<T>((int)x)); }
K void k_o_dtor(void* p) { OR(p).~O(); }
K void k_ou_default(void* p) { ::new (p) OU; }
K void k_ou_value(void* p, PV x) { ::new (p) OU(mk<U>(x)); }
K void k_ou_dtor(void* p) { UR(p).~OU(); }
K bool k_ou_has(void const* p) { return UC(p).has_value(); }
K PV k_ou_get(void const* p) { return rd(*UC(p)); }
// ---- assignment, emplace, reset, swap
K void k_o_asg_nullopt(void* p) { OR(p) = etl::nullopt; }
K void k_o_asg_braces(void* p) { OR(p) = {}; }
K void k_o_asg_value_l(void* p, PV x) { T const t = mk<T>(x); OR(p) = t; }
K void k_o_asg_value_r(void* p, PV x) { OR(p) = mk<T>(x); }
K void k_o_asg_value_u(void* p, PV x) { OR(p) = mk<U>(x); }
K void k_o_asg_copy(void* p, void const* q) { OR(p) = OC(q); }
K void k_o_asg_move(void* p, void* q) { OR(p) = etl::move(OR(q)); }
K void k_o_asg_conv_copy(void* p, void const* q) { OR(p) = UC(q); }
K void k_o_asg_conv_move(void* p, void* q) { OR(p) = etl::move(UR(q)); }
K PV k_o_emplace(void* p, PV x) { return rd(OR(p).emplace((int)x)); }
K void k_o_reset(void* p) { OR(p).reset(); }
K void k_o_swap_m(void* p, void* q) { OR(p).swap(OR(q)); }
K void k_o_swap_f(void* p, void* q) { using etl::swap; swap(OR(p), OR(q)); }
// ---- observers
K bool k_o_has(void const* p) { return OC(p).has_value(); }
K bool k_o_bool(void const* p) { return static_cast<bool>(OC(p)); }
K PV k_o_get(void* p) { return rd(*OR(p)); }
K PV k_o_get_c(void const* p) { return rd(*OC(p)); }
K PV k_o_get_r(void* p) { T t(*etl::move(OR(p))); return rd(t); }        // T&& overload: the value is moved out
K PV k_o_get_cr(void const* p) { T t(*etl::move(OC(p))); return rd(t); } // T const&& overload: copies
K PV k_o_arrow(void* p) { return rd(*OR(p).operator->()); }
K PV k_o_arrow_c(void const* p) { return rd(*OC(p).operator->()); }
K u64 k_o_arrow_off(void* p) { return u64(reinterpret_cast<unsigned char*>(OR(p).operator->()) - static_cast<unsigned char*>(p)); }
K bool k_o_arrow_null(void* p) { return OR(p).operator->() == nullptr && OC(p).operator->() == nullptr; }
K void k_o_write(void* p, PV x) { *OR(p) = mk<T>(x); } // assignment through the reference returned by operator*
K PV k_o_value_or_l(void const* p, PV x) { return rd(OC(p).value_or(mk<T>(x))); }
K PV k_o_value_or_r(void* p, PV x) { return rd(etl::move(OR(p)).value_or(mk<T>(x))); }
K PV k_o_value_or_u(void const* p, PV x) { return rd(OC(p).value_or(mk<U>(x))); }
// and_then: the callable counts its invocations, records the argument it got and returns optional<long>: engaged (arg payload + add) unless the payload is odd.
// cat selects the value category / constness of *this (0 &, 1 const&, 2 &&, 3 const&&). out = {calls, seen payload, result engaged, result value}
K void k_o_and_then(void* p, unsigned cat, PV add, u64* out)
{
    u64 calls = 0, seen = 0;
    auto f = [&](T const& t) { calls++; seen = rd(t); return (rd(t) & 1U) ? etl::optional<long>{} : etl::optional<long>{long(rd(t)) + long(add)}; };
    etl::optional<long> r;
    switch (cat) {
    case 0: r = OR(p).and_then(f); break;
    case 1: r = OC(p).and_then(f); break;
    case 2: r = etl::move(OR(p)).and_then(f); break;
    default: r = etl::move(OC(p)).and_then(f); break;
    }
    out[0] = calls; out[1] = seen; out[2] = r.has_value(); out[3] = r.has_value() ? u64(*r) : 0;
}
// or_else: the callable counts its invocations and returns optional<T>: engaged with payload x unless x is odd. res receives the result.
K u64 k_o_or_else(void* p, unsigned cat, PV x, void* res)
{
    u64 calls = 0;
    auto f = [&]() { calls++; return (x & 1U) ? O{} : O{mk<T>(x)}; };
    if (cat == 0) { ::new (res) O(OC(p).or_else(f)); } else { ::new (res) O(etl::move(OR(p)).or_else(f)); }
    return calls;
}
// ---- relational operators: bit i set for ==, !=, <, <=, >, >=
#define REL6(a, b) (unsigned((a) == (b)) | unsigned((a) != (b)) << 1 | unsigned((a) < (b)) << 2 | unsigned((a) <= (b)) << 3 | unsigned((a) > (b)) << 4 | unsigned((a) >= (b)) << 5)
K unsigned k_o_rel(void const* p, void const* q) { return REL6(OC(p), OC(q)); }
K unsigned k_o_rel_u(void const* p, void const* q) { return REL6(OC(p), UC(q)); }     // optional<T> op optional<U>
K unsigned k_o_rel_u_rev(void const* q, void const* p) { return REL6(UC(q), OC(p)); } // optional<U> op optional<T>
// optional op nullopt: etl provides ==, != (rewritten) and <; `<=`, `>`, `>=` against nullopt do not compile (hard error inside the value overloads)
K unsigned k_o_rel_null(void const* p)
{
    O const& o = OC(p);
    return unsigned(o == etl::nullopt) | unsigned(etl::nullopt == o) << 1 | unsigned(o != etl::nullopt) << 2 | unsigned(etl::nullopt != o) << 3
         | unsigned(o < etl::nullopt) << 4 | unsigned(etl::nullopt < o) << 5;
}
K unsigned k_o_rel_val(void const* p, PV x) { T const t = mk<T>(x); return REL6(OC(p), t) | REL6(t, OC(p)) << 6; }
K unsigned k_o_rel_valu(void const* p, PV x) { U const u = mk<U>(x); return REL6(OC(p), u) | REL6(u, OC(p)) << 6; }

#if TSEL == 0
// ---- optional<int&> (P2988): rebinding reference wrapper; referents are ints owned by the driver
using R = etl::optional<int&>;
using RC = etl::optional<int const&>;
#define RR(p) (*static_cast<R*>(p))
#define RK(p) (*static_cast<R const*>(p))
K u64 k_r_sizeof() { return sizeof(R); }
K void k_r_default(void* p) { ::new (p) R; }
K void k_r_valueinit(void* p) { ::new (p) R{}; }
K void k_r_nullopt(void* p) { ::new (p) R(etl::nullopt); }
K void k_r_bind(void* p, int* x) { ::new (p) R(*x); }
K void k_r_copy(void* p, void const* q) { ::new (p) R(RK(q)); }
K void k_r_move(void* p, void* q) { ::new (p) R(etl::move(RR(q))); }
K void k_r_dtor(void* p) { RR(p).~R(); }
K void k_r_asg_nullopt(void* p) { RR(p) = etl::nullopt; }
K void k_r_asg_bind(void* p, int* x) { RR(p) = *x; }
K void k_r_asg_copy(void* p, void const* q) { RR(p) = RK(q); }
K void k_r_asg_move(void* p, void* q) { RR(p) = etl::move(RR(q)); }
K void k_r_emplace(void* p, int* x) { RR(p).emplace(*x); }
K void k_r_reset(void* p) { RR(p).reset(); }
K void k_r_swap_m(void* p, void* q) { RR(p).swap(RR(q)); }
K void k_r_swap_f(void* p, void* q) { using etl::swap; swap(RR(p), RR(q)); }
K bool k_r_has(void const* p) { return RK(p).has_value(); }
K bool k_r_bool(void const* p) { return static_cast<bool>(RK(p)); }
K int* k_r_ptr(void const* p) { return RK(p).operator->(); }
K int* k_r_addr(void const* p) { return &*RK(p); }
K void k_r_write(void const* p, int x) { *RK(p) = x; }
K unsigned k_r_rel(void const* p, void const* q) { return REL6(RK(p), RK(q)); }
K unsigned k_r_rel_opt(void const* p, void const* q) { return REL6(RK(p), OC(q)) | REL6(OC(q), RK(p)) << 6; } // optional<int&> op optional<int>
K unsigned k_r_rel_null(void const* p)
{
    R const& o = RK(p);
    return unsigned(o == etl::nullopt) | unsigned(etl::nullopt == o) << 1 | unsigned(o != etl::nullopt) << 2 | unsigned(etl::nullopt != o) << 3
         | unsigned(o < etl::nullopt) << 4 | unsigned(etl::nullopt < o) << 5;
}
K unsigned k_r_rel_val(void const* p, int x) { return REL6(RK(p), x) | REL6(x, RK(p)) << 6; }
// optional<int> from / assigned from optional<int&> (copies the referent)
K void k_o_from_r(void* p, void const* r) { ::new (p) O(RK(r)); }
K void k_o_asg_r(void* p, void const* r) { OR(p) = RK(r); }
// optional<int const&> constructed from an optional<int> (binds to the contained value; disengaged source -> disengaged reference)
K u64 k_rc_sizeof() { return sizeof(RC); }
K void k_rc_from_opt(void* p, void const* o) { ::new (p) RC(OC(o)); }
K bool k_rc_has(void const* p) { return static_cast<RC const*>(p)->has_value(); }
K int const* k_rc_ptr(void const* p) { return static_cast<RC const*>(p)->operator->(); }
#endif
