PROPERTIES = ['C07', 'C02']
BOUNDS = {
    'quick': 'optional<int> (mixed forms against optional<short>/short), optional<NT> (non-trivial copy/move/dtor; mixed forms against optional<int>/int), optional<int&>: '
             'one operation from every pre-state (engaged flag, 32-bit payload, object bytes before construction and constructor form all symbolic), every (from,to) state pair '
             'for assignment/swap/relational operators; histories of 3 symbolic operations (14 operation kinds, two objects) from default-constructed; optional<int&> histories of 4',
    'thorough': 'same plus mixed forms against long, unsigned char and unsigned; histories of 5 operations',
}
ASSUMPTIONS = [
    'C07: operator*/operator-> value reads only on engaged optionals (documented precondition); operator-> on a disengaged optional is checked against the etl documentation (null)',
    'C07: std::optional::and_then/or_else (C++23) are not available from libstdc++-12 in C++20 mode: the oracle is their definition in [optional.monadic]; transform is not provided by etl',
    'C07: optional<T&> has no std counterpart here: the oracle is the pointer model of P2988R3 (assignment rebinds, comparison through the referent)',
    'C07: `opt <= nullopt`, `opt > nullopt`, `opt >= nullopt` (either order) do not compile with etl (hard error inside the value overloads) and are therefore not compared',
    'C07: the moved-from value of NT is the marker its move operations leave; std and etl perform the same single move in every compared operation',
]
STEP = ['ctor_empty', 'ctor_value', 'ctor_copy', 'ctor_move', 'ctor_conv_copy', 'ctor_conv_move',
        'asg_nullopt', 'asg_braces', 'asg_value_l', 'asg_value_r', 'asg_value_u', 'asg_copy', 'asg_move', 'asg_conv_copy', 'asg_conv_move', 'asg_self',
        'emplace', 'reset', 'swap_m', 'swap_f', 'swap_self', 'observe', 'value_or', 'and_then', 'or_else',
        'rel', 'rel_u', 'rel_null', 'rel_val', 'rel_valu']
MIXED = ['ctor_value', 'ctor_conv_copy', 'ctor_conv_move', 'asg_value_u', 'asg_conv_copy', 'asg_conv_move', 'value_or', 'rel_u', 'rel_valu']
REF = ['r_ctor', 'r_asg', 'r_rebind_keeps_referent', 'r_swap', 'r_rel', 'r_rel_val', 'r_rel_opt', 'o_from_r', 'rc_from_opt', 'r_hist']
UNWIND = 26   # vf_sym_bytes over sizeof(optional) <= 16, ll_undef_bytes for by-value returns, history loops <= 5


def queries(tier, prop='C07'):
    ub = prop == 'C02'
    out = []

    def add(e, cfg, budget=120, solver='minisat'):
        out.append(dict(entry='q_' + e, cfg=cfg, unwind=UNWIND, budget=budget, solver=solver, ub=ub, nofunc=ub))
    base = [{'TSEL': 0, 'USEL': 0}, {'TSEL': 1, 'USEL': 3}]
    for cfg in base:
        for e in STEP:
            add(e, cfg)
        add('hist3' if tier == 'quick' else 'hist5', cfg, budget=300 if tier == 'quick' else 1500)
        if tier != 'quick':
            add('hist3', cfg)
    for e in REF:
        add(e, base[0])
    if tier != 'quick':
        for us in (1, 2, 4):
            for e in MIXED:
                add(e, {'TSEL': 0, 'USEL': us})
    if ub and tier == 'quick':   # C02 quick: the non-trivial instantiation and optional<int&> only; C02 thorough runs the whole grid with the UB build
        out = [q for q in out if q['cfg']['TSEL'] == 1 or q['entry'][2:] in REF]
    return out
