// type configuration of the sum_opt family (-DTSEL, -DUSEL from spec.py)
#ifndef OPTCFG_H
#define OPTCFG_H
#ifndef TSEL
#define TSEL 0
#endif
#ifndef USEL
#define USEL 0
#endif
#if TSEL == 0
typedef int T;
#elif TSEL == 1
typedef NT T;
#endif
#if USEL == 0
typedef short U;
#elif USEL == 1
typedef long U;
#elif USEL == 2
typedef unsigned char U;
#elif USEL == 3
typedef int U;
#elif USEL == 4
typedef unsigned U;
#endif
#endif
