// C07 driver (optional): every query drives an etl::optional (through the kernels) and a std::optional (here, compiled through the same
// pipeline) with the same operation from the same symbolic pre-state(s) and compares engaged flag and value afterwards.
// Pre-states: engaged flag and 32-bit payload symbolic, object bytes before construction symbolic, constructor form chosen symbolically.
// optional<int&> has no std counterpart in libstdc++-12: the oracle is the pointer model of P2988 (rebind on assignment, compare by referent).
#include <optional>
#include <utility>
#include "sum_types.h"
#include "vf.h"
#include "optcfg.h"
using SO = std::optional<T>;
using SU = std::optional<U>;
extern "C" {
u64 k_o_sizeof(); u64 k_ou_sizeof();
void k_o_default(void*); void k_o_valueinit(void*); void k_o_nullopt(void*); void k_o_value_l(void*, PV); void k_o_value_r(void*, PV); void k_o_value_u(void*, PV);
void k_o_inplace(void*, PV); void k_o_copy(void*, void const*); void k_o_move(void*, void*); void k_o_conv_copy(void*, void const*); void k_o_conv_move(void*, void*);
void k_o_make_deduced(void*, PV); void k_o_make_inplace(void*, PV); void k_o_dtor(void*);
void k_ou_default(void*); void k_ou_value(void*, PV); void k_ou_dtor(void*); bool k_ou_has(void const*); PV k_ou_get(void const*);
void k_o_asg_nullopt(void*); void k_o_asg_braces(void*); void k_o_asg_value_l(void*, PV); void k_o_asg_value_r(void*, PV); void k_o_asg_value_u(void*, PV);
void k_o_asg_copy(void*, void const*); void k_o_asg_move(void*, void*); void k_o_asg_conv_copy(void*, void const*); void k_o_asg_conv_move(void*, void*);
PV k_o_emplace(void*, PV); void k_o_reset(void*); void k_o_swap_m(void*, void*); void k_o_swap_f(void*, void*);
bool k_o_has(void const*); bool k_o_bool(void const*); PV k_o_get(void*); PV k_o_get_c(void const*); PV k_o_get_r(void*); PV k_o_get_cr(void const*);
PV k_o_arrow(void*); PV k_o_arrow_c(void const*); u64 k_o_arrow_off(void*); bool k_o_arrow_null(void*); void k_o_write(void*, PV);
PV k_o_value_or_l(void const*, PV); PV k_o_value_or_r(void*, PV); PV k_o_value_or_u(void const*, PV);
void k_o_and_then(void*, unsigned, PV, u64*); u64 k_o_or_else(void*, unsigned, PV, void*);
unsigned k_o_rel(void const*, void const*); unsigned k_o_rel_u(void const*, void const*); unsigned k_o_rel_u_rev(void const*, void const*);
unsigned k_o_rel_null(void const*); unsigned k_o_rel_val(void const*, PV); unsigned k_o_rel_valu(void const*, PV);
#if TSEL == 0
u64 k_r_sizeof(); void k_r_default(void*); void k_r_valueinit(void*); void k_r_nullopt(void*); void k_r_bind(void*, int*); void k_r_copy(void*, void const*); void k_r_move(void*, void*);
void k_r_dtor(void*); void k_r_asg_nullopt(void*); void k_r_asg_bind(void*, int*); void k_r_asg_copy(void*, void const*); void k_r_asg_move(void*, void*);
void k_r_emplace(void*, int*); void k_r_reset(void*); void k_r_swap_m(void*, void*); void k_r_swap_f(void*, void*);
bool k_r_has(void const*); bool k_r_bool(void const*); int* k_r_ptr(void const*); int* k_r_addr(void const*); void k_r_write(void const*, int);
unsigned k_r_rel(void const*, void const*); unsigned k_r_rel_opt(void const*, void const*); unsigned k_r_rel_null(void const*); unsigned k_r_rel_val(void const*, int);
void k_o_from_r(void*, void const*); void k_o_asg_r(void*, void const*);
u64 k_rc_sizeof(); void k_rc_from_opt(void*, void const*); bool k_rc_has(void const*); int const* k_rc_ptr(void const*);
#endif
}
#define REL6(a, b) (unsigned((a) == (b)) | unsigned((a) != (b)) << 1 | unsigned((a) < (b)) << 2 | unsigned((a) <= (b)) << 3 | unsigned((a) > (b)) << 4 | unsigned((a) >= (b)) << 5)

// ---- symbolic states
struct St { bool e; PV v; };
static St nd_state() { St s; s.e = (vf_nd_u8() & 1) != 0; s.v = vf_nd_u32(); return s; }
// etl object in an exact-size block of symbolic bytes, built through a symbolically chosen public constructor
static void* new_o(St s)
{
    void* p = vf_sym_bytes(k_o_sizeof());
    bool alt = (vf_nd_u8() & 1) != 0;
    if (s.e) { if (alt) k_o_value_l(p, s.v); else k_o_inplace(p, s.v); }
    else { if (alt) k_o_default(p); else k_o_nullopt(p); }
    return p;
}
static void* new_ou(St s)
{
    void* p = vf_sym_bytes(k_ou_sizeof());
    if (s.e) k_ou_value(p, s.v); else k_ou_default(p);
    return p;
}
static SO std_o(St s) { return s.e ? SO(mk<T>(s.v)) : SO(); }
static SU std_ou(St s) { return s.e ? SU(mk<U>(s.v)) : SU(); }
// the comparison every query ends with: engaged flag (both spellings) and the value through every accessor
template <bool W = true> static void same(void* p, SO const& s)
{
    vf_assert(k_o_has(p) == s.has_value(), "has_value() == std");
    vf_assert(k_o_bool(p) == static_cast<bool>(s), "operator bool == std");
    if (s.has_value() && k_o_has(p)) {
        if (W) vf_witness("engaged result compared");
        vf_assert(k_o_get(p) == rd(*s), "*opt == std");
        vf_assert(k_o_get_c(p) == rd(*s), "*const opt == std");
        vf_assert(k_o_arrow(p) == rd(*s), "opt-> == std");
    }
}
static void same_u(void* p, SU const& s)
{
    vf_assert(k_ou_has(p) == s.has_value(), "optional<U>: has_value() == std");
    if (s.has_value() && k_ou_has(p)) vf_assert(k_ou_get(p) == rd(*s), "optional<U>: value == std");
}
#define TWO_STATES St sa = nd_state(), sb = nd_state(); void* a = new_o(sa); void* b = new_o(sb); SO xa = std_o(sa), xb = std_o(sb); \
    if (sa.e && !sb.e) vf_witness("engaged/disengaged"); if (!sa.e && sb.e) vf_witness("disengaged/engaged");               \
    if (sa.e && sb.e) vf_witness("engaged/engaged"); if (!sa.e && !sb.e) vf_witness("disengaged/disengaged");
#define ONE_STATE St sa = nd_state(); void* a = new_o(sa); SO xa = std_o(sa); if (sa.e) vf_witness("pre engaged"); else vf_witness("pre disengaged");
#define MIXED_STATES St sa = nd_state(), su = nd_state(); void* a = new_o(sa); void* u = new_ou(su); SO xa = std_o(sa); SU xu = std_ou(su); \
    if (sa.e && !su.e) vf_witness("engaged/disengaged"); if (!sa.e && su.e) vf_witness("disengaged/engaged");                         \
    if (sa.e && su.e) vf_witness("engaged/engaged"); if (!sa.e && !su.e) vf_witness("disengaged/disengaged");

// ---- construction
Q q_ctor_empty()
{
    void* p = vf_sym_bytes(k_o_sizeof()); uint8_t how = vf_nd_u8(); vf_assume(how < 3);
    if (how == 0) { k_o_default(p); SO s; same<false>(p, s); vf_witness("default-initialised"); }
    else if (how == 1) { k_o_valueinit(p); SO s{}; same<false>(p, s); }
    else { k_o_nullopt(p); SO s(std::nullopt); same<false>(p, s); }
    vf_assert(k_o_arrow_null(p), "operator-> of a disengaged optional is null (etl documentation)");
    k_o_dtor(p);
}
Q q_ctor_value()
{
    void* p = vf_sym_bytes(k_o_sizeof()); uint8_t how = vf_nd_u8(); PV x = vf_nd_u32(); vf_assume(how < 6);
    switch (how) {
    case 0: { k_o_value_l(p, x); T const t = mk<T>(x); SO s(t); same(p, s); break; }
    case 1: { k_o_value_r(p, x); SO s(mk<T>(x)); same(p, s); break; }
    case 2: { k_o_value_u(p, x); SO s(mk<U>(x)); same(p, s); vf_witness("converting constructor from U"); break; }
    case 3: { k_o_inplace(p, x); SO s(std::in_place, (int)x); same(p, s); break; }
    case 4: { k_o_make_deduced(p, x); SO s(std::make_optional(mk<T>(x))); same(p, s); break; }
    default: { k_o_make_inplace(p, x); SO s(std::make_optional<T>((int)x)); same(p, s); break; }
    }
    vf_assert(k_o_arrow_off(p) < k_o_sizeof(), "the value lives inside the optional object");
    k_o_dtor(p);
}
Q q_ctor_copy()
{
    ONE_STATE void* p = vf_sym_bytes(k_o_sizeof()); k_o_copy(p, a); SO s(xa);
    same(p, s); same(a, xa); k_o_dtor(p); k_o_dtor(a);
}
Q q_ctor_move()
{
    ONE_STATE void* p = vf_sym_bytes(k_o_sizeof()); k_o_move(p, a); SO s(std::move(xa));
    same(p, s); same(a, xa); k_o_dtor(p); k_o_dtor(a);
}
Q q_ctor_conv_copy()
{
    St su = nd_state(); void* u = new_ou(su); SU xu = std_ou(su); void* p = vf_sym_bytes(k_o_sizeof());
    if (su.e) vf_witness("source engaged"); else vf_witness("source disengaged");
    k_o_conv_copy(p, u); SO s(xu); same(p, s); same_u(u, xu); k_o_dtor(p); k_ou_dtor(u);
}
Q q_ctor_conv_move()
{
    St su = nd_state(); void* u = new_ou(su); SU xu = std_ou(su); void* p = vf_sym_bytes(k_o_sizeof());
    if (su.e) vf_witness("source engaged"); else vf_witness("source disengaged");
    k_o_conv_move(p, u); SO s(std::move(xu)); same(p, s); same_u(u, xu); k_o_dtor(p); k_ou_dtor(u);
}
// ---- assignment
Q q_asg_nullopt() { ONE_STATE k_o_asg_nullopt(a); xa = std::nullopt; same<false>(a, xa); k_o_dtor(a); }
Q q_asg_braces() { ONE_STATE k_o_asg_braces(a); xa = {}; same<false>(a, xa); k_o_dtor(a); }
Q q_asg_value_l() { ONE_STATE PV x = vf_nd_u32(); k_o_asg_value_l(a, x); T const t = mk<T>(x); xa = t; same(a, xa); k_o_dtor(a); }
Q q_asg_value_r() { ONE_STATE PV x = vf_nd_u32(); k_o_asg_value_r(a, x); xa = mk<T>(x); same(a, xa); k_o_dtor(a); }
Q q_asg_value_u() { ONE_STATE PV x = vf_nd_u32(); k_o_asg_value_u(a, x); xa = mk<U>(x); same(a, xa); k_o_dtor(a); }
Q q_asg_copy() { TWO_STATES k_o_asg_copy(a, b); xa = xb; same(a, xa); same(b, xb); k_o_dtor(a); k_o_dtor(b); }
Q q_asg_move() { TWO_STATES k_o_asg_move(a, b); xa = std::move(xb); same(a, xa); same(b, xb); k_o_dtor(a); k_o_dtor(b); }
Q q_asg_conv_copy() { MIXED_STATES k_o_asg_conv_copy(a, u); xa = xu; same(a, xa); same_u(u, xu); k_o_dtor(a); k_ou_dtor(u); }
Q q_asg_conv_move() { MIXED_STATES k_o_asg_conv_move(a, u); xa = std::move(xu); same(a, xa); same_u(u, xu); k_o_dtor(a); k_ou_dtor(u); }
Q q_asg_self()
{
    ONE_STATE k_o_asg_copy(a, a); SO const& r = xa; xa = r; same(a, xa); k_o_dtor(a);
}
Q q_emplace()
{
    ONE_STATE PV x = vf_nd_u32(); PV got = k_o_emplace(a, x); T& r = xa.emplace((int)x);
    vf_assert(got == rd(r), "emplace returns a reference to the new value"); same(a, xa); k_o_dtor(a);
}
Q q_reset() { ONE_STATE k_o_reset(a); xa.reset(); same<false>(a, xa); vf_assert(k_o_arrow_null(a), "operator-> null after reset"); k_o_dtor(a); }
Q q_swap_m() { TWO_STATES k_o_swap_m(a, b); xa.swap(xb); same(a, xa); same(b, xb); k_o_dtor(a); k_o_dtor(b); }
Q q_swap_f() { TWO_STATES k_o_swap_f(a, b); std::swap(xa, xb); same(a, xa); same(b, xb); k_o_dtor(a); k_o_dtor(b); }
Q q_swap_self() { ONE_STATE k_o_swap_m(a, a); xa.swap(xa); same(a, xa); k_o_dtor(a); }
// ---- observers
Q q_observe()
{
    ONE_STATE same(a, xa);
    if (sa.e) {
        vf_assert(k_o_get_cr(a) == rd(*xa), "*const&& == std"); same(a, xa);
        vf_assert(k_o_arrow_c(a) == rd(*xa), "const opt-> == std");
        vf_assert(k_o_arrow_off(a) < k_o_sizeof(), "the value lives inside the optional object");
        PV y = vf_nd_u32(); k_o_write(a, y); *xa = mk<T>(y); same(a, xa);
        T t(*std::move(xa)); vf_assert(k_o_get_r(a) == rd(t), "*&& == std"); same(a, xa); // moved-from value stays engaged
    } else {
        vf_assert(k_o_arrow_null(a), "operator-> of a disengaged optional is null (etl documentation)");
    }
    k_o_dtor(a);
}
Q q_value_or()
{
    ONE_STATE PV x = vf_nd_u32();
    vf_assert(k_o_value_or_l(a, x) == rd(xa.value_or(mk<T>(x))), "value_or const& == std");
    vf_assert(k_o_value_or_u(a, x) == rd(xa.value_or(mk<U>(x))), "value_or(U) == std");
    same(a, xa);
    vf_assert(k_o_value_or_r(a, x) == rd(std::move(xa).value_or(mk<T>(x))), "value_or && == std");
    same(a, xa); k_o_dtor(a);
}
// std::optional::and_then / or_else are C++23 (absent from libstdc++-12 in C++20 mode); their definition is used as the oracle:
// and_then(f): has_value() ? invoke(f, **this) : remove_cvref_t<invoke_result_t<F, ...>>{};  or_else(f): *this ? *this : f()
Q q_and_then()
{
    ONE_STATE unsigned cat = vf_nd_u8(); vf_assume(cat < 4); PV add = vf_nd_u32();
    u64* out = (u64*)vf_alloc(32); k_o_and_then(a, cat, add, out);
    if (sa.e) {
        PV pay = rd(*xa);
        vf_assert(out[0] == 1, "and_then invokes f exactly once on an engaged optional");
        vf_assert(out[1] == pay, "and_then passes the contained value");
        vf_assert(out[2] == ((pay & 1U) ? 0U : 1U), "and_then returns what f returned (engaged flag)");
        if (!(pay & 1U)) { vf_assert(out[3] == u64(long(pay) + long(add)), "and_then returns what f returned (value)"); vf_witness("and_then engaged result"); }
    } else {
        vf_assert(out[0] == 0, "and_then does not invoke f on a disengaged optional");
        vf_assert(out[2] == 0, "and_then of a disengaged optional is disengaged");
    }
    if (cat < 2) same(a, xa); else vf_assert(k_o_has(a) == xa.has_value(), "and_then && leaves the engaged flag");
    k_o_dtor(a);
}
Q q_or_else()
{
    ONE_STATE unsigned cat = vf_nd_u8(); vf_assume(cat < 2); PV x = vf_nd_u32();
    void* r = vf_sym_bytes(k_o_sizeof()); u64 calls = k_o_or_else(a, cat, x, r);
    SO alt = (x & 1U) ? SO{} : SO{mk<T>(x)};
    SO e = xa.has_value() ? (cat == 0 ? SO(xa) : SO(std::move(xa))) : SO(alt);
    vf_assert(calls == (sa.e ? 0U : 1U), "or_else invokes f exactly when disengaged");
    same(r, e); same(a, xa); k_o_dtor(r); k_o_dtor(a);
}
// ---- relational operators
Q q_rel() { TWO_STATES vf_assert(k_o_rel(a, b) == REL6(xa, xb), "optional<T> op optional<T> == std (six operators)"); k_o_dtor(a); k_o_dtor(b); }
Q q_rel_u()
{
    MIXED_STATES vf_assert(k_o_rel_u(a, u) == REL6(xa, xu), "optional<T> op optional<U> == std (six operators)");
    vf_assert(k_o_rel_u_rev(u, a) == REL6(xu, xa), "optional<U> op optional<T> == std (six operators)");
    k_o_dtor(a); k_ou_dtor(u);
}
Q q_rel_null()
{
    ONE_STATE unsigned e = unsigned(xa == std::nullopt) | unsigned(std::nullopt == xa) << 1 | unsigned(xa != std::nullopt) << 2 | unsigned(std::nullopt != xa) << 3
                         | unsigned(xa < std::nullopt) << 4 | unsigned(std::nullopt < xa) << 5;
    vf_assert(k_o_rel_null(a) == e, "optional op nullopt == std (==, != and < in both orders)"); k_o_dtor(a);
}
Q q_rel_val()
{
    ONE_STATE PV x = vf_nd_u32(); T const t = mk<T>(x);
    vf_assert(k_o_rel_val(a, x) == (REL6(xa, t) | REL6(t, xa) << 6), "optional op value / value op optional == std (six operators, both orders)"); k_o_dtor(a);
}
Q q_rel_valu()
{
    ONE_STATE PV x = vf_nd_u32(); U const t = mk<U>(x);
    vf_assert(k_o_rel_valu(a, x) == (REL6(xa, t) | REL6(t, xa) << 6), "optional<T> op U value / U value op optional<T> == std"); k_o_dtor(a);
}
// ---- histories: KH symbolic operations on two objects starting from default-constructed ones; full comparison after every step
#ifndef NOPS
#define NOPS 14
#endif
static void hist(unsigned steps)
{
    void* a = vf_sym_bytes(k_o_sizeof()); void* b = vf_sym_bytes(k_o_sizeof()); k_o_default(a); k_o_default(b); SO xa, xb;
    unsigned engaged_seen = 0;
    for (unsigned i = 0; i < steps; i++) {
        uint8_t op = vf_nd_u8(); PV x = vf_nd_u32(); vf_assume(op < NOPS);
        switch (op) {
        case 0: k_o_asg_nullopt(a); xa = std::nullopt; break;
        case 1: { k_o_asg_value_l(a, x); T const t = mk<T>(x); xa = t; break; }
        case 2: k_o_asg_value_r(b, x); xb = mk<T>(x); break;
        case 3: k_o_emplace(a, x); xa.emplace((int)x); break;
        case 4: k_o_emplace(b, x); xb.emplace((int)x); break;
        case 5: k_o_reset(a); xa.reset(); break;
        case 6: k_o_reset(b); xb.reset(); break;
        case 7: k_o_asg_copy(a, b); xa = xb; break;
        case 8: k_o_asg_copy(b, a); xb = xa; break;
        case 9: k_o_asg_move(a, b); xa = std::move(xb); break;
        case 10: k_o_swap_m(a, b); xa.swap(xb); break;
        case 11: k_o_swap_f(b, a); std::swap(xb, xa); break;
        case 12: k_o_asg_value_u(a, x); xa = mk<U>(x); break;
        default: if (xb.has_value() && k_o_has(b)) { k_o_write(b, x); *xb = mk<T>(x); } break;
        }
        same(a, xa); same(b, xb);
        vf_assert(k_o_rel(a, b) == REL6(xa, xb), "history: relational operators == std");
        if (xa.has_value() && xb.has_value()) engaged_seen++;
    }
    if (engaged_seen + 1 >= steps && steps >= 2) vf_witness("history with both engaged from the second step on");
    k_o_dtor(a); k_o_dtor(b);
}
Q q_hist2() { hist(2); }
Q q_hist3() { hist(3); }
Q q_hist4() { hist(4); }
Q q_hist5() { hist(5); }

#if TSEL == 0
// ---- optional<int&>: pointer model
struct RM { int* p; };
static int* cell() { int* c = (int*)vf_alloc(4); *c = (int)vf_nd_u32(); return c; }
static void* new_r(RM m)
{
    void* p = vf_sym_bytes(k_r_sizeof()); bool alt = (vf_nd_u8() & 1) != 0;
    if (m.p) k_r_bind(p, m.p); else if (alt) k_r_default(p); else k_r_nullopt(p);
    return p;
}
static void same_r(void* p, RM m)
{
    vf_assert(k_r_has(p) == (m.p != nullptr), "optional<T&>: has_value() == model");
    vf_assert(k_r_bool(p) == (m.p != nullptr), "optional<T&>: operator bool == model");
    vf_assert(k_r_ptr(p) == m.p, "optional<T&>: operator-> is the address of the referent (null when disengaged)");
    if (m.p && k_r_has(p)) { vf_witness("bound reference compared"); vf_assert(k_r_addr(p) == m.p, "optional<T&>: &*opt is the referent"); }
}
#define R_TWO int* c0 = cell(); int* c1 = cell(); RM ma{(vf_nd_u8() & 1) ? c0 : nullptr}, mb{(vf_nd_u8() & 1) ? c1 : nullptr}; void* a = new_r(ma); void* b = new_r(mb); \
    if (ma.p && !mb.p) vf_witness("bound/empty"); if (!ma.p && mb.p) vf_witness("empty/bound"); if (ma.p && mb.p) vf_witness("bound/bound"); if (!ma.p && !mb.p) vf_witness("empty/empty");
Q q_r_ctor()
{
    R_TWO same_r(a, ma); same_r(b, mb);
    void* p = vf_sym_bytes(k_r_sizeof()); k_r_copy(p, a); same_r(p, ma); same_r(a, ma);
    void* q = vf_sym_bytes(k_r_sizeof()); k_r_move(q, b); same_r(q, mb);
    void* v = vf_sym_bytes(k_r_sizeof()); k_r_valueinit(v); same_r(v, RM{nullptr});
    k_r_dtor(p); k_r_dtor(q); k_r_dtor(v); k_r_dtor(a); k_r_dtor(b);
}
Q q_r_asg()
{
    R_TWO uint8_t op = vf_nd_u8(); vf_assume(op < 7); int* c2 = cell();
    switch (op) {
    case 0: k_r_asg_nullopt(a); ma.p = nullptr; break;
    case 1: k_r_asg_bind(a, c2); ma.p = c2; vf_witness("rebind"); break; // assignment rebinds, it does not assign through (P2988)
    case 2: k_r_asg_copy(a, b); ma = mb; break;
    case 3: k_r_asg_move(a, b); ma = mb; break;
    case 4: k_r_emplace(a, c2); ma.p = c2; break;
    case 5: k_r_reset(a); ma.p = nullptr; break;
    default: k_r_asg_copy(a, a); break;
    }
    same_r(a, ma); same_r(b, mb);
    vf_assert(*c0 == *c0 && *c1 == *c1, "referents untouched");
    k_r_dtor(a); k_r_dtor(b);
}
Q q_r_rebind_keeps_referent()
{
    int* c0 = cell(); int* c2 = cell(); int v0 = *c0, v2 = *c2; RM m{c0}; void* a = new_r(m);
    k_r_asg_bind(a, c2); vf_assert(*c0 == v0 && *c2 == v2, "optional<T&> = lvalue rebinds and leaves both referents unchanged");
    int y = (int)vf_nd_u32(); k_r_write(a, y); vf_assert(*c2 == y && *c0 == v0, "*opt = y writes through to the current referent only");
    k_r_dtor(a);
}
Q q_r_swap()
{
    R_TWO bool fr = (vf_nd_u8() & 1) != 0; if (fr) k_r_swap_f(a, b); else k_r_swap_m(a, b);
    same_r(a, mb); same_r(b, ma); k_r_swap_m(a, a); same_r(a, mb); k_r_dtor(a); k_r_dtor(b);
}
// comparison of optional<T&>: by engaged flag, then by referent value (the generic optional operators)
static std::optional<int> val_of(RM m) { return m.p ? std::optional<int>(*m.p) : std::optional<int>(); }
Q q_r_rel()
{
    R_TWO std::optional<int> xa = val_of(ma), xb = val_of(mb);
    vf_assert(k_r_rel(a, b) == REL6(xa, xb), "optional<T&> op optional<T&> == std::optional over the referent values");
    unsigned e = unsigned(xa == std::nullopt) | unsigned(std::nullopt == xa) << 1 | unsigned(xa != std::nullopt) << 2 | unsigned(std::nullopt != xa) << 3
               | unsigned(xa < std::nullopt) << 4 | unsigned(std::nullopt < xa) << 5;
    vf_assert(k_r_rel_null(a) == e, "optional<T&> op nullopt");
    k_r_dtor(a); k_r_dtor(b);
}
Q q_r_rel_val()
{
    int* c0 = cell(); RM ma{(vf_nd_u8() & 1) ? c0 : nullptr}; void* a = new_r(ma); std::optional<int> xa = val_of(ma);
    if (ma.p) vf_witness("bound"); else vf_witness("empty");
    int t = (int)vf_nd_u32(); vf_assert(k_r_rel_val(a, t) == (REL6(xa, t) | REL6(t, xa) << 6), "optional<T&> op value");
    k_r_dtor(a);
}
Q q_r_rel_opt()
{
    int* c0 = cell(); RM ma{(vf_nd_u8() & 1) ? c0 : nullptr}; void* a = new_r(ma); std::optional<int> xa = val_of(ma);
    St so = nd_state(); void* o = new_o(so); SO xo = std_o(so);
    if (ma.p && so.e) vf_witness("bound/engaged"); if (!ma.p && so.e) vf_witness("empty/engaged"); if (ma.p && !so.e) vf_witness("bound/disengaged");
    vf_assert(k_r_rel_opt(a, o) == (REL6(xa, xo) | REL6(xo, xa) << 6), "optional<T&> op optional<T>");
    k_o_dtor(o); k_r_dtor(a);
}
Q q_o_from_r()
{
    int* c0 = cell(); RM m{(vf_nd_u8() & 1) ? c0 : nullptr}; void* r = new_r(m); std::optional<int> e = val_of(m);
    void* p = vf_sym_bytes(k_o_sizeof()); k_o_from_r(p, r); same(p, e);
    ONE_STATE k_o_asg_r(a, r); same(a, e); same_r(r, m);
    k_o_dtor(p); k_o_dtor(a); k_r_dtor(r);
}
// optional<int const&> from an optional<int>: binds to the contained value when engaged, is disengaged otherwise (P2988R3 [optional.ref.ctor])
Q q_rc_from_opt()
{
    ONE_STATE
    VF_KNOWN(C07_optional_ref_from_disengaged_optional, !sa.e);
    void* r = vf_sym_bytes(k_rc_sizeof()); k_rc_from_opt(r, a);
    vf_assert(k_rc_has(r) == sa.e, "optional<T const&>(optional<T> const&) is engaged exactly when the source is");
    if (sa.e) vf_assert((unsigned char const*)k_rc_ptr(r) == (unsigned char const*)a + k_o_arrow_off(a), "optional<T const&>(optional<T> const&) refers to the contained value");
    else vf_assert(k_rc_ptr(r) == nullptr, "optional<T const&> from a disengaged optional holds no reference");
    k_o_dtor(a);
}
Q q_r_hist()
{
    int* c[3] = {cell(), cell(), cell()}; RM ma{nullptr}, mb{nullptr};
    void* a = vf_sym_bytes(k_r_sizeof()); void* b = vf_sym_bytes(k_r_sizeof()); k_r_default(a); k_r_default(b);
    for (unsigned i = 0; i < 4; i++) {
        uint8_t op = vf_nd_u8(), k = vf_nd_u8(); vf_assume(op < 8 && k < 3);
        switch (op) {
        case 0: k_r_asg_nullopt(a); ma.p = nullptr; break;
        case 1: k_r_asg_bind(a, c[k]); ma.p = c[k]; break;
        case 2: k_r_emplace(b, c[k]); mb.p = c[k]; break;
        case 3: k_r_reset(b); mb.p = nullptr; break;
        case 4: k_r_asg_copy(a, b); ma = mb; break;
        case 5: k_r_asg_move(b, a); mb = ma; break;
        case 6: k_r_swap_m(a, b); { RM t = ma; ma = mb; mb = t; } break;
        default: if (ma.p && k_r_has(a)) { int y = (int)vf_nd_u32(); k_r_write(a, y); vf_assert(*ma.p == y, "write-through reaches the referent"); } break;
        }
        same_r(a, ma); same_r(b, mb);
    }
    k_r_dtor(a); k_r_dtor(b);
}
#endif
