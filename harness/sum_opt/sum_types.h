// Alternative / payload types shared by the kernel and driver TUs of the C07 families (sum_opt, sum_var, sum_exp).
// No tetl, no libstdc++ in here: both TUs compile the same definitions, the kernel feeds them to etl::, the driver to std::.
#ifndef SUM_TYPES_H
#define SUM_TYPES_H
#include <stdint.h>
typedef uint32_t PV; // payload of any alternative, as 32 bits (int: the value, float: the bit pattern, char: low 8 bits, ...)
typedef uint64_t u64;

#define NT_DEAD 0x0DEAD00D  /* value left behind by a destructor: reading a destroyed object shows up as a wrong value */
#define NT_MOVED 0x0A0B0C0D /* value left behind in a moved-from NT */

// Non-trivial alternative: user-provided copy/move construction and assignment and destructor, all noexcept.
// implicitly constructible from int (so optional<NT> = int, optional<NT>(optional<int>) and NT == int are well-formed)
struct NT {
    int v;
    NT() noexcept : v(7) {}
    NT(int x) noexcept : v(x) {}
    NT(NT const& o) noexcept : v(o.v) {}
    NT(NT&& o) noexcept : v(o.v) { o.v = NT_MOVED; }
    NT& operator=(NT const& o) noexcept { v = o.v; return *this; }
    NT& operator=(NT&& o) noexcept { int t = o.v; o.v = NT_MOVED; v = t; return *this; }
    ~NT() { v = NT_DEAD; }
    friend bool operator==(NT const& a, NT const& b) { return a.v == b.v; }
    friend bool operator!=(NT const& a, NT const& b) { return a.v != b.v; }
    friend bool operator<(NT const& a, NT const& b) { return a.v < b.v; }
    friend bool operator<=(NT const& a, NT const& b) { return a.v <= b.v; }
    friend bool operator>(NT const& a, NT const& b) { return a.v > b.v; }
    friend bool operator>=(NT const& a, NT const& b) { return a.v >= b.v; }
};
// Second non-trivial alternative with another size; only explicitly constructible (never chosen by a converting constructor from int)
struct NT2 {
    long long w;
    NT2() noexcept : w(9) {}
    explicit NT2(int x) noexcept : w(x) {}
    NT2(NT2 const& o) noexcept : w(o.w) {}
    NT2(NT2&& o) noexcept : w(o.w) { o.w = NT_MOVED; }
    NT2& operator=(NT2 const& o) noexcept { w = o.w; return *this; }
    NT2& operator=(NT2&& o) noexcept { long long t = o.w; o.w = NT_MOVED; w = t; return *this; }
    ~NT2() { w = NT_DEAD; }
    friend bool operator==(NT2 const& a, NT2 const& b) { return a.w == b.w; }
    friend bool operator!=(NT2 const& a, NT2 const& b) { return a.w != b.w; }
    friend bool operator<(NT2 const& a, NT2 const& b) { return a.w < b.w; }
    friend bool operator<=(NT2 const& a, NT2 const& b) { return a.w <= b.w; }
    friend bool operator>(NT2 const& a, NT2 const& b) { return a.w > b.w; }
    friend bool operator>=(NT2 const& a, NT2 const& b) { return a.w >= b.w; }
};

// payload <-> alternative
template <class A> struct pvx;
template <> struct pvx<int> { static int mk(PV x) { return (int)x; } static PV rd(int a) { return (PV)a; } };
template <> struct pvx<unsigned> { static unsigned mk(PV x) { return x; } static PV rd(unsigned a) { return a; } };
template <> struct pvx<short> { static short mk(PV x) { return (short)(uint16_t)x; } static PV rd(short a) { return (PV)(int)a; } };
template <> struct pvx<long> { static long mk(PV x) { return (long)(int)x * 65537L; } static PV rd(long a) { return (PV)(a ^ (a >> 32)); } };
template <> struct pvx<char> { static char mk(PV x) { return (char)(uint8_t)x; } static PV rd(char a) { return (PV)(uint8_t)a; } };
template <> struct pvx<unsigned char> { static unsigned char mk(PV x) { return (unsigned char)x; } static PV rd(unsigned char a) { return a; } };
template <> struct pvx<float> {
    static float mk(PV x) { float f; __builtin_memcpy(&f, &x, 4); return f; }
    static PV rd(float a) { PV x; __builtin_memcpy(&x, &a, 4); return x; }
};
template <> struct pvx<NT> { static NT mk(PV x) { return NT((int)x); } static PV rd(NT const& a) { return (PV)a.v; } };
template <> struct pvx<NT2> { static NT2 mk(PV x) { return NT2((int)x); } static PV rd(NT2 const& a) { return (PV)a.w; } };
template <class A> static inline A mk(PV x) { return pvx<A>::mk(x); }
template <class A> static inline PV rd(A const& a) { return pvx<A>::rd(a); }
#endif
