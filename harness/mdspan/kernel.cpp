// C19 kernels (mdspan family): thin wrappers around etl::extents<IT, E...>, layout_left/right/stride::mapping, linalg::layout_transpose,
// mdspan, mdarray and submdspan_extents. No logic besides marshalling (packs are expanded from pointer arguments; template arguments that the
// driver draws symbolically - slice kinds - are instantiated for every value and selected by a fold).
// Configuration: IT (index type), OIT (a second index type), RANK 0..4, EX0..EX3 (a number or DYN), CAP (mdarray container size).
#include <etl/array.hpp>
#include <etl/linalg.hpp>
#include <etl/mdarray.hpp>
#include <etl/mdspan.hpp>
#include <etl/span.hpp>
#include <etl/utility.hpp>
#include "vf.h"   // after the tetl headers: vf.h defines the macros K and Q, tetl uses K as a template parameter name
#ifndef IT
#define IT int
#endif
#ifndef OIT
#define OIT long
#endif
#ifndef RANK
#define RANK 2
#define EX0 DYN
#define EX1 3
#endif
#ifndef CAP
#define CAP 16
#endif
#define DYN etl::dynamic_extent
using sz = etl::size_t;
using ELT = int;
template <typename I>
#if RANK == 0
using EXT_ = etl::extents<I>;
using TEXT = etl::extents<IT>;
#elif RANK == 1
using EXT_ = etl::extents<I, EX0>;
using TEXT = etl::extents<IT, EX0>;
#elif RANK == 2
using EXT_ = etl::extents<I, EX0, EX1>;
using TEXT = etl::extents<IT, EX1, EX0>;   // extents of the nested mapping of layout_transpose
#elif RANK == 3
using EXT_ = etl::extents<I, EX0, EX1, EX2>;
using TEXT = etl::extents<IT, EX0, EX1, EX2>;
#else
using EXT_ = etl::extents<I, EX0, EX1, EX2, EX3>;
using TEXT = etl::extents<IT, EX0, EX1, EX2, EX3>;
#endif
using EXT  = EXT_<IT>;
using OEXT = EXT_<OIT>;
constexpr sz R  = RANK;
constexpr sz RD = EXT::rank_dynamic();
using DEXT = etl::dextents<IT, R>;
using SQ   = etl::make_index_sequence<R>;

// extents object of type X whose dynamic extents are taken from e[0..R) (entries at static positions are not used)
template <typename X>
static X mkext(IT const* e)
{
    using V = typename X::index_type;
    if constexpr (X::rank_dynamic() == 0) {
        return X{};
    } else {
        etl::array<V, X::rank_dynamic()> a{};
        [&]<sz... I>(etl::index_sequence<I...>) { sz k = 0; ((X::static_extent(I) == DYN ? void(a[k++] = static_cast<V>(e[I])) : void()), ...); }(SQ{});
        return X{a};
    }
}
template <typename X, typename O>
static void put(X const& x, O* out) { [&]<sz... I>(etl::index_sequence<I...>) { ((out[I] = x.extent(I)), ...); }(SQ{}); }
template <typename M>
static auto call(M const& m, IT const* idx) { return [&]<sz... I>(etl::index_sequence<I...>) { return m(idx[I]...); }(SQ{}); }

// ---------------------------------------------------------------- extents
K sz k_rank() { return EXT::rank(); }
K sz k_rank_dynamic() { return EXT::rank_dynamic(); }
K sz k_sizeof_ext() { return sizeof(EXT); }
K sz k_static_extent(sz r) { return EXT::static_extent(r); }
K IT k_extent(IT const* e, sz r) { return mkext<EXT>(e).extent(r); }
K sz k_fwd(IT const* e, sz r) { return mkext<EXT>(e).fwd_prod_of_extents(r); }
K sz k_rev(IT const* e, sz r) { return mkext<EXT>(e).rev_prod_of_extents(r); }
K bool k_ext_eq(IT const* a, IT const* b) { return mkext<EXT>(a) == mkext<DEXT>(b); }
K bool k_ext_eq_same(IT const* a, IT const* b) { return mkext<EXT>(a) == mkext<EXT>(b); }
K void k_default(IT* out) { EXT x{}; put(x, out); }
// extents(dynamic extents...) : exactly rank_dynamic() values
K void k_ctor_dyn_var(IT const* e, IT* out)
{
    etl::array<IT, RD> a{};
    [&]<sz... I>(etl::index_sequence<I...>) { sz k = 0; ((EXT::static_extent(I) == DYN ? void(a[k++] = e[I]) : void()), ...); }(SQ{});
    auto x = [&]<sz... J>(etl::index_sequence<J...>) { return EXT(a[J]...); }(etl::make_index_sequence<RD>{});
    put(x, out);
}
K void k_ctor_dyn_span(IT const* e, IT* out)
{
    etl::array<IT, RD> a{};
    [&]<sz... I>(etl::index_sequence<I...>) { sz k = 0; ((EXT::static_extent(I) == DYN ? void(a[k++] = e[I]) : void()), ...); }(SQ{});
    EXT x(etl::span<IT const, RD>(a.data(), RD));
    put(x, out);
}
// extents(all extents...) : rank() values, the ones at static positions equal the static extent (precondition)
K void k_ctor_all_var(IT const* e, IT* out) { auto x = [&]<sz... I>(etl::index_sequence<I...>) { return EXT(e[I]...); }(SQ{}); put(x, out); }
K void k_ctor_all_arr(IT const* e, IT* out) { auto a = [&]<sz... I>(etl::index_sequence<I...>) { return etl::array<IT, R>{e[I]...}; }(SQ{}); EXT x(a); put(x, out); }
K void k_ctor_all_span(IT const* e, IT* out) { EXT x(etl::span<IT const, R>(e, R)); put(x, out); }
// converting constructors between extents types
K void k_conv_from_dyn(IT const* e, IT* out) { EXT x(mkext<DEXT>(e)); put(x, out); }
K void k_conv_to_dyn(IT const* e, IT* out) { DEXT x(mkext<EXT>(e)); put(x, out); }
K void k_conv_it(IT const* e, OIT* out) { OEXT x(mkext<EXT>(e)); put(x, out); }
K void k_conv_it_back(IT const* e, IT* out) { EXT x(mkext<OEXT>(e)); put(x, out); }

// ---------------------------------------------------------------- layout_left / layout_right
#define LAYOUT_KERNELS(N, LAY) \
    using M_##N  = etl::LAY::mapping<EXT>; \
    using MD_##N = etl::LAY::mapping<DEXT>; \
    K IT k_##N##_req(IT const* e) { return M_##N(mkext<EXT>(e)).required_span_size(); } \
    K IT k_##N##_ext(IT const* e, sz r) { return M_##N(mkext<EXT>(e)).extents().extent(r); } \
    K unsigned k_##N##_flags(IT const* e) \
    { \
        M_##N m(mkext<EXT>(e)); \
        return unsigned(m.is_unique()) | unsigned(m.is_exhaustive()) << 1 | unsigned(m.is_strided()) << 2 | unsigned(M_##N::is_always_unique()) << 3 \
             | unsigned(M_##N::is_always_exhaustive()) << 4 | unsigned(M_##N::is_always_strided()) << 5; \
    } \
    K bool k_##N##_eq(IT const* a, IT const* b) { return M_##N(mkext<EXT>(a)) == MD_##N(mkext<DEXT>(b)); } \
    K IT k_##N##_default_req() { if constexpr (RD > 0 || R == 0) { M_##N m; return m.required_span_size(); } else { M_##N m{}; return m.required_span_size(); } }
#define LAYOUT_CALL_KERNELS(N, LAY) \
    K IT k_##N##_map(IT const* e, IT const* idx) { return call(M_##N(mkext<EXT>(e)), idx); } \
    K IT k_##N##_copy_map(IT const* e, IT const* idx) { M_##N a(mkext<EXT>(e)); M_##N b(a); M_##N c; c = b; return call(c, idx); } \
    /* converting constructors: same layout over another extents type (explicit where narrowing) */ \
    K IT k_##N##_conv_from_dyn(IT const* e, IT const* idx) { MD_##N d(mkext<DEXT>(e)); M_##N m(d); return call(m, idx); } \
    K IT k_##N##_conv_to_dyn(IT const* e, IT const* idx) { M_##N s(mkext<EXT>(e)); MD_##N m(s); return call(m, idx); } \
    K OIT k_##N##_conv_it(IT const* e, IT const* idx) { M_##N s(mkext<EXT>(e)); etl::LAY::mapping<OEXT> m(s); return call(m, idx); }
LAYOUT_KERNELS(left, layout_left)
LAYOUT_KERNELS(right, layout_right)
// rank 0: layout_left/right::mapping::operator()() is rejected by clang 15/16 (the fold names stride(), whose requires-clause rank() > 0 fails;
// g++ accepts it): not translatable, reported as a portability defect; the rank-0 call is exercised through layout_stride only
#if RANK > 0 || defined(C19_RANK0_CALL_OK)
#define HAVE_LR_CALL 1
LAYOUT_CALL_KERNELS(left, layout_left)
LAYOUT_CALL_KERNELS(right, layout_right)
#endif
#if RANK > 0
K IT k_left_stride(IT const* e, sz r) { return M_left(mkext<EXT>(e)).stride(r); }
K IT k_right_stride(IT const* e, sz r) { return M_right(mkext<EXT>(e)).stride(r); }
K IT k_md_left_stride(ELT* p, IT const* e, sz r) { return etl::mdspan<ELT, EXT, etl::layout_left>(p, mkext<EXT>(e)).stride(r); }
K IT k_md_right_stride(ELT* p, IT const* e, sz r) { return etl::mdspan<ELT, EXT, etl::layout_right>(p, mkext<EXT>(e)).stride(r); }
#endif
#if RANK == 1
K IT k_left_from_right(IT const* e, IT const* idx) { M_right r(mkext<EXT>(e)); M_left m(r); return call(m, idx); }
K IT k_right_from_left(IT const* e, IT const* idx) { M_left l(mkext<EXT>(e)); M_right m(l); return call(m, idx); }
#endif

// ---------------------------------------------------------------- layout_stride (is_exhaustive / operator== / converting constructors are declared
// but not defined: not callable, reported as a defect; required_span_size() is defined since cbed08e)
using M_stride = etl::layout_stride::mapping<EXT>;
#if RANK > 0
static M_stride mkstride(IT const* e, IT const* s) { return M_stride(mkext<EXT>(e), etl::span<IT const, R>(s, R)); }
#else
// rank 0: mapping(extents, span<T,0>) does not compile on the pinned tree (layout_stride.hpp:40 `array{pack...}` with an empty pack); default-constructed instead
static M_stride mkstride(IT const*, IT const*) { return M_stride(); }
#endif
K IT k_stride_map(IT const* e, IT const* s, IT const* idx) { return call(mkstride(e, s), idx); }
#if RANK > 0
K IT k_stride_map_arr(IT const* e, IT const* s, IT const* idx)
{
    auto a = [&]<sz... I>(etl::index_sequence<I...>) { return etl::array<IT, R>{s[I]...}; }(SQ{});
    return call(M_stride(mkext<EXT>(e), a), idx);
}
#endif
K IT k_stride_stride(IT const* e, IT const* s, sz r) { return mkstride(e, s).stride(r); }
K void k_stride_strides(IT const* e, IT const* s, IT* out) { auto a = mkstride(e, s).strides(); [&]<sz... I>(etl::index_sequence<I...>) { ((out[I] = a[I]), ...); }(SQ{}); }
K IT k_stride_ext(IT const* e, IT const* s, sz r) { return mkstride(e, s).extents().extent(r); }
K unsigned k_stride_flags()
{
    return unsigned(M_stride::is_unique()) | unsigned(M_stride::is_strided()) << 2 | unsigned(M_stride::is_always_unique()) << 3
         | unsigned(M_stride::is_always_exhaustive()) << 4 | unsigned(M_stride::is_always_strided()) << 5;
}
K IT k_stride_req(IT const* e, IT const* s) { return mkstride(e, s).required_span_size(); }

// ---------------------------------------------------------------- linalg::layout_transpose (rank 2)
#if RANK == 2
#define TRANSPOSE_KERNELS(N, LAY)                                                                                                              \
    using NM_##N = etl::LAY::mapping<TEXT>;                                                                                                   \
    using TM_##N = etl::linalg::layout_transpose<etl::LAY>::mapping<EXT>;                                                                     \
    /* e = extents of the transposed view (EX0 x EX1); the nested mapping has extents (e[1], e[0]) */                                           \
    static TM_##N mktr_##N(IT const* e) { IT t[2] = {e[1], e[0]}; return TM_##N(NM_##N(mkext<TEXT>(t))); }                                    \
    K typename EXT::size_type k_tr##N##_map(IT const* e, IT i, IT j) { return mktr_##N(e)(i, j); }                                            \
    K IT k_tr##N##_nested(IT const* e, IT i, IT j) { return mktr_##N(e).nested_mapping()(i, j); }                                             \
    K IT k_tr##N##_req(IT const* e) { return mktr_##N(e).required_span_size(); }                                                              \
    K IT k_tr##N##_ext(IT const* e, sz r) { return mktr_##N(e).extents().extent(r); }                                                         \
    K typename EXT::size_type k_tr##N##_stride(IT const* e, sz r) { return mktr_##N(e).stride(r); }                                           \
    K unsigned k_tr##N##_flags(IT const* e)                                                                                                   \
    {                                                                                                                                         \
        auto m = mktr_##N(e);                                                                                                                 \
        return unsigned(m.is_unique()) | unsigned(m.is_strided()) << 2 | unsigned(TM_##N::is_always_unique()) << 3 | unsigned(TM_##N::is_always_strided()) << 5; \
    }                                                                                                                                         \
    K ELT* k_md_tr##N##_at(ELT* p, IT const* e, IT i, IT j) { etl::mdspan<ELT, EXT, etl::linalg::layout_transpose<etl::LAY>> md(p, mktr_##N(e)); return &md(i, j); }
TRANSPOSE_KERNELS(left, layout_left)
TRANSPOSE_KERNELS(right, layout_right)
#endif

// ---------------------------------------------------------------- mdspan
template <typename MD>
static ELT* at(MD const& md, IT const* idx) { return [&]<sz... I>(etl::index_sequence<I...>) { return &md(idx[I]...); }(SQ{}); }
#ifdef HAVE_LR_CALL
#define MDSPAN_KERNELS(N, LAY)                                                                                                                 \
    using MD_T_##N = etl::mdspan<ELT, EXT, etl::LAY>;                                                                                         \
    K ELT* k_md_##N##_at(ELT* p, IT const* e, IT const* idx) { return at(MD_T_##N(p, mkext<EXT>(e)), idx); }                                  \
    K ELT* k_md_##N##_at_span(ELT* p, IT const* e, IT const* idx) { MD_T_##N md(p, mkext<EXT>(e)); return &md[etl::span<IT const, R>(idx, R)]; } \
    K ELT* k_md_##N##_at_arr(ELT* p, IT const* e, IT const* idx)                                                                              \
    {                                                                                                                                         \
        MD_T_##N md(p, mkext<EXT>(e));                                                                                                        \
        auto a = [&]<sz... I>(etl::index_sequence<I...>) { return etl::array<IT, R>{idx[I]...}; }(SQ{});                                      \
        return &md[a];                                                                                                                        \
    }                                                                                                                                         \
    K ELT* k_md_##N##_at_map(ELT* p, IT const* e, IT const* idx) { return at(MD_T_##N(p, M_##N(mkext<EXT>(e))), idx); }                       \
    K ELT* k_md_##N##_at_acc(ELT* p, IT const* e, IT const* idx) { return at(MD_T_##N(p, M_##N(mkext<EXT>(e)), etl::default_accessor<ELT>{}), idx); } \
    K ELT* k_md_##N##_at_dynctor(ELT* p, IT const* e, IT const* idx)                                                                          \
    {                                                                                                                                         \
        etl::array<IT, RD> a{};                                                                                                               \
        [&]<sz... I>(etl::index_sequence<I...>) { sz k = 0; ((EXT::static_extent(I) == DYN ? void(a[k++] = e[I]) : void()), ...); }(SQ{});    \
        auto md = [&]<sz... J>(etl::index_sequence<J...>) { return MD_T_##N(p, a[J]...); }(etl::make_index_sequence<RD>{});                   \
        return at(md, idx);                                                                                                                   \
    }                                                                                                                                         \
    K ELT* k_md_##N##_at_allctor(ELT* p, IT const* e, IT const* idx)                                                                          \
    {                                                                                                                                         \
        auto md = [&]<sz... I>(etl::index_sequence<I...>) { return MD_T_##N(p, e[I]...); }(SQ{});                                             \
        return at(md, idx);                                                                                                                   \
    }                                                                                                                                         \
    K ELT const* k_md_##N##_at_conv(ELT* p, IT const* e, IT const* idx)                                                                       \
    {                                                                                                                                         \
        MD_T_##N md(p, mkext<EXT>(e)); etl::mdspan<ELT const, EXT, etl::LAY> c(md);                                                           \
        return [&]<sz... I>(etl::index_sequence<I...>) { return &c(idx[I]...); }(SQ{});                                                       \
    }                                                                                                                                         \
    K typename EXT::size_type k_md_##N##_size(ELT* p, IT const* e) { return MD_T_##N(p, mkext<EXT>(e)).size(); }                              \
    K bool k_md_##N##_empty(ELT* p, IT const* e) { return MD_T_##N(p, mkext<EXT>(e)).empty(); }                                               \
    K IT k_md_##N##_extent(ELT* p, IT const* e, sz r) { return MD_T_##N(p, mkext<EXT>(e)).extent(r); }                                        \
    K ELT* k_md_##N##_handle(ELT* p, IT const* e) { return MD_T_##N(p, mkext<EXT>(e)).data_handle(); }                                        \
    K unsigned k_md_##N##_info(ELT* p, IT const* e)                                                                                           \
    {                                                                                                                                         \
        MD_T_##N md(p, mkext<EXT>(e));                                                                                                        \
        return unsigned(md.is_unique()) | unsigned(md.is_exhaustive()) << 1 | unsigned(md.is_strided()) << 2 | unsigned(MD_T_##N::is_always_unique()) << 3 \
             | unsigned(MD_T_##N::is_always_exhaustive()) << 4 | unsigned(MD_T_##N::is_always_strided()) << 5 | unsigned(MD_T_##N::rank()) << 8 \
             | unsigned(MD_T_##N::rank_dynamic()) << 12;                                                                                       \
    }
MDSPAN_KERNELS(left, layout_left)
MDSPAN_KERNELS(right, layout_right)
#endif
using MD_T_stride = etl::mdspan<ELT, EXT, etl::layout_stride>;
K ELT* k_md_stride_at(ELT* p, IT const* e, IT const* s, IT const* idx) { return at(MD_T_stride(p, mkstride(e, s)), idx); }
K IT k_md_stride_stride(ELT* p, IT const* e, IT const* s, sz r) { return MD_T_stride(p, mkstride(e, s)).stride(r); }
K typename EXT::size_type k_md_stride_size(ELT* p, IT const* e, IT const* s) { return MD_T_stride(p, mkstride(e, s)).size(); }

// ---------------------------------------------------------------- mdarray over etl::array<ELT, CAP>
#define MDARRAY_KERNELS(N, LAY)                                                                                                                \
    using MDA_##N = etl::mdarray<ELT, EXT, etl::LAY, etl::array<ELT, CAP>>;                                                                   \
    /* offsets (in elements, relative to container_data()) of a(idx...), as_const(a)(idx...), a[span], to_mdspan()(idx...), mdspan conversion */ \
    K void k_mda_##N##_offs(IT const* e, IT const* idx, sz* out)                                                                              \
    {                                                                                                                                         \
        MDA_##N a(mkext<EXT>(e));                                                                                                             \
        ELT* base = a.container_data();                                                                                                       \
        [&]<sz... I>(etl::index_sequence<I...>) {                                                                                             \
            out[0] = sz(&a(idx[I]...) - base);                                                                                                \
            out[1] = sz(&etl::as_const(a)(idx[I]...) - base);                                                                                 \
            auto v = a.to_mdspan();                                                                                                           \
            out[3] = sz(&v(idx[I]...) - base);                                                                                                \
            auto cv = etl::as_const(a).to_mdspan();                                                                                           \
            out[4] = sz(&cv(idx[I]...) - base);                                                                                               \
            typename MDA_##N::mdspan_type w = a;                                                                                              \
            out[5] = sz(&w(idx[I]...) - base);                                                                                                \
        }(SQ{});                                                                                                                              \
        out[2] = sz(&a[etl::span<IT const, R>(idx, R)] - base);                                                                               \
        out[6] = a.container_size();                                                                                                          \
        out[7] = sz(etl::as_const(a).container_data() - base);                                                                                \
    }                                                                                                                                         \
    K void k_mda_##N##_info(IT const* e, sz r, sz* out)                                                                                       \
    {                                                                                                                                         \
        MDA_##N a(mkext<EXT>(e), ELT(7));                                                                                                     \
        out[0] = a.size(); out[1] = a.empty(); out[2] = sz(a.extent(r)); out[3] = sz(a.stride(r)); out[4] = MDA_##N::rank(); out[5] = MDA_##N::rank_dynamic(); \
        out[6] = MDA_##N::static_extent(r); out[7] = sz(a.is_unique()) | sz(a.is_exhaustive()) << 1 | sz(a.is_strided()) << 2;                 \
        out[8] = sz(a.mapping().required_span_size());                                                                                        \
        sz k = 0; for (sz i = 0; i < CAP; ++i) { k += a.container_data()[i] == 7; } out[9] = k;                                                \
    }
#if RANK > 0
MDARRAY_KERNELS(left, layout_left)
MDARRAY_KERNELS(right, layout_right)
#endif

// ---------------------------------------------------------------- submdspan_extents
// Slice kind per dimension r = digit r of `pat` in base 3: 0 = full_extent, 1 = integer index iv[r], 2 = pair of integral constants [lo_r, hi_r)
// with hi_r = static extent r, lo_r = min(1, hi_r). Instantiated for every pattern the pinned tree can compile:
//  * kind 2 only on static source extents (on a dynamic source extent submdspan_static_extent yields dynamic_extent but no value is passed on);
//  * if any kind 2 is present, kind 0 only on dynamic source extents (otherwise the number of values handed to extents(...) fits neither
//    rank() nor rank_dynamic()); and only for IT = size_t (for any other index type submdspan_static_extent has two return statements of
//    different types - `hi - lo` vs. size_t - and does not compile);  strided_slice is static_assert(false) in the pinned tree.
// submdspan itself / submdspan_mapping are commented out in the pinned tree.
constexpr sz pow3(sz n) { sz r = 1; for (sz i = 0; i < n; ++i) { r *= 3; } return r; }
constexpr sz NPAT = pow3(R);
template <sz PAT, sz Rr> constexpr sz digit = (PAT / pow3(Rr)) % 3;
template <sz PAT>
constexpr bool sub_valid()
{
    return []<sz... I>(etl::index_sequence<I...>) {
        sz np = (sz(digit<PAT, I> == 2) + ... + 0), npd = (sz(digit<PAT, I> == 2 && EXT::static_extent(I) == DYN) + ... + 0);
        sz nfs = (sz(digit<PAT, I> == 0 && EXT::static_extent(I) != DYN) + ... + 0);
        return npd == 0 && (np == 0 || (nfs == 0 && etl::is_same_v<IT, sz>));
    }(SQ{});
}
template <sz D, sz Rr>
static auto slice(IT const* iv)
{
    if constexpr (D == 0) { return etl::full_extent; }
    else if constexpr (D == 1) { return iv[Rr]; }
    else {
        constexpr IT hi = static_cast<IT>(EXT::static_extent(Rr));
        constexpr IT lo = hi >= 1 ? 1 : 0;
        return etl::pair<etl::integral_constant<IT, lo>, etl::integral_constant<IT, hi>>{};
    }
}
template <sz PAT>
static void sub_one(IT const* e, IT const* iv, sz* orank, sz* ostatic, IT* oext)
{
    if constexpr (sub_valid<PAT>()) {
        auto r = [&]<sz... I>(etl::index_sequence<I...>) { return etl::submdspan_extents(mkext<EXT>(e), slice<digit<PAT, I>, I>(iv)...); }(SQ{});
        using RT = decltype(r);
        *orank = RT::rank();
        [&]<sz... J>(etl::index_sequence<J...>) { ((ostatic[J] = RT::static_extent(J), oext[J] = r.extent(J)), ...); }(etl::make_index_sequence<RT::rank()>{});
    }
}
K void k_sub_ext(IT const* e, sz pat, IT const* iv, sz* orank, sz* ostatic, IT* oext)
{
    [&]<sz... P>(etl::index_sequence<P...>) { ((pat == P ? sub_one<P>(e, iv, orank, ostatic, oext) : void()), ...); }(etl::make_index_sequence<NPAT>{});
}
#if RANK == 1
// a run-time index pair [lo, hi) on the only dimension
K void k_sub_pair(IT const* e, IT lo, IT hi, sz* orank, sz* ostatic, IT* oext)
{
    auto r = etl::submdspan_extents(mkext<EXT>(e), etl::pair<IT, IT>{lo, hi});
    using RT = decltype(r);
    *orank = RT::rank(); ostatic[0] = RT::static_extent(0); oext[0] = r.extent(0);
}
#endif

// ---------------------------------------------------------------- mdarray over a strided mapping and a size-constructible container
// Minimal container for mdarray: constructible from (n) and (n, value); holds exactly n elements (capacity MDAS_MAX) and traps on every access at an
// index >= n, so each access mdarray makes is checked against exactly the size mdarray asked for. (A block of symbolic size per container made the
// queries 20x slower; the fixed buffer + explicit bound check decides the same obligation.)
#if RANK > 0
#ifndef MDAS_MAX
#define MDAS_MAX 16
#endif
struct exact_ctr {
    using value_type      = ELT;
    using reference       = ELT&;
    using const_reference = ELT const&;
    explicit exact_ctr(sz n) : _n(n) { if (n > MDAS_MAX) { __builtin_trap(); } }   // elements left indeterminate
    exact_ctr(sz n, ELT const& v) : _n(n) { if (n > MDAS_MAX) { __builtin_trap(); } for (sz i = 0; i < n; ++i) { _buf[i] = v; } }
    [[nodiscard]] auto begin() noexcept -> ELT* { return _buf; }
    [[nodiscard]] auto begin() const noexcept -> ELT const* { return _buf; }
    [[nodiscard]] auto cbegin() const noexcept -> ELT const* { return _buf; }
    [[nodiscard]] auto size() const noexcept -> sz { return _n; }
    [[nodiscard]] auto operator[](sz i) noexcept -> ELT& { if (i >= _n) { __builtin_trap(); } return _buf[i]; }
    [[nodiscard]] auto operator[](sz i) const noexcept -> ELT const& { if (i >= _n) { __builtin_trap(); } return _buf[i]; }
    ELT _buf[MDAS_MAX];
    sz _n;
};
using MDAS = etl::mdarray<ELT, EXT, etl::layout_stride, exact_ctr>;
// out[0..4]: container sizes chosen by mdarray(mapping, value) and mdarray(mapping), size(), required_span_size() of the stored mapping, container_data();
// if acc: out[5..10] element access through both objects: offsets relative to container_data(), the value read through a(i...), a write through b(i...)
K void k_mdas(IT const* e, IT const* s, IT const* idx, bool acc, ELT val, sz* out)
{
    MDAS a(mkstride(e, s), val);
    MDAS b(mkstride(e, s));
    out[0] = a.container_size(); out[1] = b.container_size(); out[2] = sz(a.size()); out[3] = sz(a.mapping().required_span_size());
    out[4] = sz(etl::as_const(a).container_data() - a.container_data());
    if (acc) {
        [&]<sz... I>(etl::index_sequence<I...>) {
            out[5] = sz(&a(idx[I]...) - a.container_data());
            out[6] = sz(&b(idx[I]...) - b.container_data());
            out[7] = sz(a(idx[I]...) == val);
            b(idx[I]...) = ELT(5);
            out[8] = sz(etl::as_const(b)(idx[I]...) == ELT(5));
            auto v = a.to_mdspan();
            out[9] = sz(&v(idx[I]...) - a.container_data());
        }(SQ{});
        out[10] = sz(&a[etl::span<IT const, R>(idx, R)] - a.container_data());
    }
}
#endif
