import itertools, json, os
PROPERTIES = ['C19', 'C02']
_here = os.path.dirname(os.path.abspath(__file__))
ITS_ALL = ['signed char', 'unsigned char', 'short', 'unsigned short', 'int', 'unsigned', 'long', 'unsigned long']
ITMAX = {'signed char': 127, 'unsigned char': 255, 'short': 32767, 'unsigned short': 65535}
D = 'DYN'
BOUNDS = {
    'quick': 'extents<I,E...>: rank 0..2 every static/dynamic pattern with static values 0..4, rank 3 every static/dynamic mask plus zero/one-extent shapes (I = int); '
             'I = int8/size_t: every static/dynamic mask of rank 0..3; dynamic extents symbolic 0..4; multi-indices symbolic over the whole index type (in range); '
             'layout_stride strides symbolic 1..16 with a symbolic ordering permutation; submdspan_extents slice-kind pattern symbolic (full/index/constant pair); mdarray over array<int, prod(max extents) capped at 32>',
    'thorough': 'as quick plus: rank 3 every pattern with static values in {0,1,3} (I = int), rank 4 every static/dynamic mask plus zero/one-extent shapes, all eight index types int8..uint64 on every static/dynamic mask of rank 0..2 and three masks of rank 3 (int8 and size_t: every mask of rank 0..3, four of rank 4); '
                'dynamic extents symbolic 0..8 and strides 1..64 for rank <= 2, 0..4 / 1..16 for rank 3, 0..3 / 1..8 for rank 4; mdarray container <= 64 elements',
}
ASSUMPTIONS = [
    'C19/mdspan: mapping precondition assumed: the size of the index space (and for layout_stride the required span size) is representable in the index type',
    'C19/mdspan: layout_stride strides satisfy [mdspan.layout.stride.cons]: s_r >= 1 and a (symbolic) permutation orders them with s[P_k] >= s[P_k-1]*extent(P_k-1); strides bounded by SMAX, dynamic extents by DMAX (bounds, not preconditions)',
    'C19/mdspan: layout_stride::mapping::is_exhaustive()/operator==/converting constructors and layout_left/right(layout_stride::mapping) are declared but not defined: not callable; required_span_size() is compared with the standard formula (any extent 0 -> 0, rank 0 -> 1)',
    'C19/mdspan: q_mda_stride uses a minimal size-constructible container (kernel.cpp exact_ctr) that traps on any access at an index >= the size mdarray requested; required span assumed <= 16 (fill-loop bound)',
    'C19/mdspan: rank 0: layout_left/right::mapping::operator()() is rejected by clang (g++ accepts), layout_stride::mapping(extents, strides) does not compile; rank-0 calls are made through a default-constructed layout_stride mapping only',
    'C19/mdspan: submdspan / submdspan_mapping are commented out in the pinned tree (nothing to check); submdspan_extents is exercised for the slice patterns that compile (see kernel.cpp); strided_slice is static_assert(false)',
    'C19/mdspan: linalg::layout_transpose::is_always_contiguous()/is_contiguous() name members that layout_left/right do not have (not instantiable); not called',
    'C19/mdspan: multi-argument operator[] needs __cpp_multidimensional_subscript (C++23): not part of the C++20 build; operator()(i...), operator[](span) and operator[](array) are exercised',
]


def open_findings():
    try:
        import sys
        sys.path.insert(0, os.path.join(os.path.dirname(os.path.dirname(_here)), 'engine'))
        import runner
        return {k['id'] for k in runner.load_findings().get('open', [])}
    except Exception:
        kp = os.path.join(_here, 'kf.json')
        return {k['id'] for k in json.load(open(kp))} if os.path.exists(kp) else set()


def shapes(tier):
    """(index type, extents tuple) pairs"""
    vals = [0, 1, 2, 3, 4, D]
    rot = [3, 2, 4, 2]

    def masks(r):
        for m in itertools.product([0, 1], repeat=r):
            yield tuple(D if m[k] else rot[k] for k in range(r))
    special3 = [(0, D, 3), (D, 0, 2), (2, D, 0), (1, 1, 1), (0, 0, 0), (4, 4, 4), (D, 1, D), (1, D, 2)]
    special4 = [(0, D, 3, 2), (D, 2, 0, D), (1, 1, 1, 1), (2, 2, 2, 2), (2, D, 1, 3), (D, D, 0, D)]
    out = []
    seen = set()

    def add(it, ex):
        if (it, ex) not in seen:
            seen.add((it, ex)); out.append((it, ex))
    for r in (0, 1, 2):
        for ex in itertools.product(vals, repeat=r):
            add('int', ex)
    if tier == 'quick':
        for ex in list(masks(3)) + special3:
            add('int', ex)
        its = ['signed char', 'unsigned long']
    else:
        for ex in list(masks(3)) + special3 + list(itertools.product([0, 1, 3, D], repeat=3)):
            add('int', ex)
        for ex in list(masks(4)) + special4:
            add('int', ex)
        its = [t for t in ITS_ALL if t != 'int']
        for ex in list(masks(4))[::5]:
            add('unsigned long', ex); add('signed char', ex)
    for it in its:
        full = tier == 'quick' or it in ('signed char', 'unsigned long')
        for r in (0, 1, 2, 3):
            for k, ex in enumerate(masks(r)):
                if full or r < 3 or k in (0, 3, 7):
                    add(it, ex)
        add(it, (0, D)); add(it, (D, 1, 0))
    return out


def queries(tier, prop='C19'):
    ub = prop == 'C02'
    opn = open_findings()
    out = []
    only = os.environ.get('C19_ONLY')   # development aid: 'int:DYN,3;signed char:' restricts the grid to the named shapes
    sel = None
    if only:
        sel = {(a.split(':')[0], tuple(x for x in a.split(':')[1].split(',') if x)) for a in only.split(';')}
    for it, ex in shapes(tier):
        if sel is not None and (it, tuple(str(x) for x in ex)) not in sel:
            continue
        r = len(ex)
        if tier == 'quick':
            dmax, smax, capmax = 4, 16, 32
        else:
            dmax, smax = {0: (8, 64), 1: (8, 64), 2: (8, 64), 3: (4, 16), 4: (3, 8)}[r]
            capmax = 64
        sp = 1   # product of the static extents
        for x in ex:
            sp *= 1 if x == D else x
        # a strided layout of the static part alone needs a stride >= the product of all but one static extent
        st = [x for x in ex if x != D and x != 0]
        if st:
            p = 1
            for x in st:
                p *= x
            smax = max(smax, min(256, p // min(st)))
        # mdarray container size: all max extents if that fits capmax, never less than the static part (q_mda assumes the index space fits)
        cap = min(sp * dmax ** sum(1 for x in ex if x == D), max(capmax, sp))
        oit = 'int' if it in ('long', 'unsigned long') else 'long'
        cfg = {'IT': it, 'OIT': oit, 'RANK': r, 'CAP': cap, 'DMAX': dmax, 'SMAX': smax}
        for k, x in enumerate(ex):
            cfg['EX%d' % k] = x
        rd = sum(1 for x in ex if x == D)
        zs = any(x == 0 for x in ex)
        mixed = 0 < rd < r
        nonzero_static = any(x != D and x != 0 for x in ex)
        static_after_last_dyn = r > 0 and rd > 0 and ex[-1] != D
        ents = ['q_ext', 'q_ctor_all', 'q_left', 'q_right', 'q_stride', 'q_md_stride', 'q_sub_ext']
        if r > 0:
            ents += ['q_conv_from_dyn', 'q_conv_to_dyn', 'q_md', 'q_mda']
            if not zs:
                ents.append('q_md_ctor_all')
        if r > 0 and sp <= 8 and (it == 'int' or r == 2) and (r <= 2 or (tier != 'quick' and r == 3 and rd <= 2)):
            ents.append('q_mda_stride')   # container fill loop bounded by MDAS_MAX = 16 (driver.cpp)
        if r == 1:
            ents.append('q_sub_pair')
        if r == 2:
            ents += ['q_trleft', 'q_trright', 'q_trleft_stride', 'q_trright_stride']
        for e in ents:
            big = cap * 4 + 40 if e == 'q_mda' else 48
            q = dict(entry=e, cfg=cfg, solver=os.environ.get('C19_SOLVER', 'minisat'), unwind=(max(cap + 3, 9) if e == 'q_mda' else 20 if e == 'q_mda_stride' else 9), unwindset={'ll_memset.0': big, 'll_memcpy.0': big, 'll_memmove.0': big, 'll_memmove.1': big}, budget=120 if tier == 'quick' else 600, ub=ub, nofunc=ub)
            # configurations that lie wholly inside an open known-finding region (HARNESS.md): only the confirm query uses them
            if 'C19_extents_ctor_all_values' in opn and e in ('q_ctor_all', 'q_md_ctor_all') and mixed:
                q['confirm_only'] = True
            if 'C19_extents_conv_ctor_oob' in opn and e == 'q_conv_from_dyn' and static_after_last_dyn:
                q['confirm_only'] = True
            if 'C19_extents_conv_ctor_lost' in opn and e == 'q_conv_to_dyn' and nonzero_static:
                q['confirm_only'] = True
            if 'C19_layout_transpose_stride' in opn and e in ('q_trleft_stride', 'q_trright_stride'):
                q['confirm_only'] = True
            out.append(q)
    return out
