// C19 driver (mdspan family). Configuration (enumerated by spec.py): IT index type, RANK 0..4, EX0..EX3 static extent or DYN,
// DMAX bound of a dynamic extent, SMAX bound of a stride, CAP mdarray container size. Symbolic: every dynamic extent (0..DMAX),
// every multi-index component (full IT range, restricted to the in-range precondition), strides and their ordering permutation,
// the submdspan slice-kind pattern, ranks r passed to observers. Oracle: closed-form arithmetic in 64-bit unsigned integers.
#include "vf.h"
#include <limits>
#include <type_traits>
#ifndef IT
#define IT int
#endif
#ifndef OIT
#define OIT long
#endif
#ifndef RANK
#define RANK 2
#define EX0 DYN
#define EX1 3
#endif
#ifndef CAP
#define CAP 16
#endif
#ifndef DMAX
#define DMAX 4
#endif
#ifndef SMAX
#define SMAX 16
#endif
#define DYN (size_t(-1))
using sz    = size_t;
using u64   = uint64_t;
using ELT   = int;
using idx_t = IT;
using UIT   = std::make_unsigned_t<idx_t>;   // extents::size_type
constexpr sz R = RANK;
#if RANK == 0
constexpr sz SE[1] = {0};
#elif RANK == 1
constexpr sz SE[2] = {EX0, 0};
#elif RANK == 2
constexpr sz SE[3] = {EX0, EX1, 0};
#elif RANK == 3
constexpr sz SE[4] = {EX0, EX1, EX2, 0};
#else
constexpr sz SE[5] = {EX0, EX1, EX2, EX3, 0};
#endif
constexpr sz count_dyn() { sz n = 0; for (sz r = 0; r < R; r++) n += SE[r] == DYN; return n; }
constexpr bool zero_static() { for (sz r = 0; r < R; r++) if (SE[r] == 0) return true; return false; }
constexpr bool nonzero_static() { for (sz r = 0; r < R; r++) if (SE[r] != 0 && SE[r] != DYN) return true; return false; }
constexpr bool static_after_last_dyn() { return R > 0 && count_dyn() > 0 && SE[R - 1] != DYN; }
constexpr sz RD      = count_dyn();
constexpr bool ZS    = zero_static();          // a static extent is 0: the index space is empty for every value of the dynamic extents
constexpr bool MIXED = RD > 0 && RD < R;
constexpr bool multi() { for (sz r = 0; r < R; r++) if (SE[r] == DYN || SE[r] > 1) return true; return false; }
constexpr bool eq_possible() { for (sz r = 0; r < R; r++) if (SE[r] != DYN && SE[r] > DMAX) return false; return true; }
constexpr bool EQ_POSSIBLE = eq_possible();   // a dextents object with extents <= DMAX can equal these extents
constexpr bool MULTI = multi();           // the index space can hold more than one multi-index
constexpr u64 ITMAX  = u64(std::numeric_limits<idx_t>::max());
constexpr bool IT_IS_SIZE_T = std::is_same_v<idx_t, size_t>;

extern "C" {
sz k_rank(); sz k_rank_dynamic(); sz k_static_extent(sz); IT k_extent(IT const*, sz); sz k_fwd(IT const*, sz); sz k_rev(IT const*, sz);
bool k_ext_eq(IT const*, IT const*); bool k_ext_eq_same(IT const*, IT const*); void k_default(IT*); void k_ctor_dyn_var(IT const*, IT*); void k_ctor_dyn_span(IT const*, IT*);
void k_ctor_all_var(IT const*, IT*); void k_ctor_all_arr(IT const*, IT*); void k_ctor_all_span(IT const*, IT*);
void k_conv_from_dyn(IT const*, IT*); void k_conv_to_dyn(IT const*, IT*); void k_conv_it(IT const*, OIT*); void k_conv_it_back(IT const*, IT*);
#define LAYOUT_DECLS(N)                                                                                                                          \
    IT k_##N##_map(IT const*, IT const*); IT k_##N##_req(IT const*); IT k_##N##_stride(IT const*, sz); IT k_##N##_ext(IT const*, sz); unsigned k_##N##_flags(IT const*);   \
    bool k_##N##_eq(IT const*, IT const*); IT k_##N##_default_req(); IT k_##N##_copy_map(IT const*, IT const*); IT k_##N##_conv_from_dyn(IT const*, IT const*);            \
    IT k_##N##_conv_to_dyn(IT const*, IT const*); OIT k_##N##_conv_it(IT const*, IT const*);                                                    \
    ELT* k_md_##N##_at(ELT*, IT const*, IT const*); ELT* k_md_##N##_at_span(ELT*, IT const*, IT const*); ELT* k_md_##N##_at_arr(ELT*, IT const*, IT const*);                \
    ELT* k_md_##N##_at_map(ELT*, IT const*, IT const*); ELT* k_md_##N##_at_acc(ELT*, IT const*, IT const*); ELT* k_md_##N##_at_dynctor(ELT*, IT const*, IT const*);         \
    ELT* k_md_##N##_at_allctor(ELT*, IT const*, IT const*); ELT const* k_md_##N##_at_conv(ELT*, IT const*, IT const*); UIT k_md_##N##_size(ELT*, IT const*);                \
    bool k_md_##N##_empty(ELT*, IT const*); IT k_md_##N##_extent(ELT*, IT const*, sz); IT k_md_##N##_stride(ELT*, IT const*, sz); ELT* k_md_##N##_handle(ELT*, IT const*);   \
    unsigned k_md_##N##_info(ELT*, IT const*); void k_mda_##N##_offs(IT const*, IT const*, sz*); void k_mda_##N##_info(IT const*, sz, sz*);                                 \
    UIT k_tr##N##_map(IT const*, IT, IT); IT k_tr##N##_nested(IT const*, IT, IT); IT k_tr##N##_req(IT const*); IT k_tr##N##_ext(IT const*, sz); UIT k_tr##N##_stride(IT const*, sz); \
    unsigned k_tr##N##_flags(IT const*); ELT* k_md_tr##N##_at(ELT*, IT const*, IT, IT);
LAYOUT_DECLS(left)
LAYOUT_DECLS(right)
IT k_left_from_right(IT const*, IT const*); IT k_right_from_left(IT const*, IT const*);
IT k_stride_map(IT const*, IT const*, IT const*); IT k_stride_map_arr(IT const*, IT const*, IT const*); IT k_stride_stride(IT const*, IT const*, sz);
void k_stride_strides(IT const*, IT const*, IT*); IT k_stride_ext(IT const*, IT const*, sz); unsigned k_stride_flags(); IT k_stride_req(IT const*, IT const*);
ELT* k_md_stride_at(ELT*, IT const*, IT const*, IT const*); IT k_md_stride_stride(ELT*, IT const*, IT const*, sz); UIT k_md_stride_size(ELT*, IT const*, IT const*);
void k_mdas(IT const*, IT const*, IT const*, bool, ELT, sz*);
void k_sub_ext(IT const*, sz, IT const*, sz*, sz*, IT*); void k_sub_pair(IT const*, IT, IT, sz*, sz*, IT*);
}

static idx_t nd_it() { return sizeof(idx_t) == 1 ? idx_t(vf_nd_u8()) : sizeof(idx_t) == 2 ? idx_t(vf_nd_u16()) : sizeof(idx_t) == 4 ? idx_t(vf_nd_u32()) : idx_t(vf_nd_u64()); }
static idx_t* block() { return (idx_t*)vf_alloc(R * sizeof(idx_t)); }
// all R extents: dynamic ones symbolic in 0..DMAX, static ones equal to the static extent
static idx_t* draw_ext()
{
    idx_t* e = block();
    for (sz r = 0; r < R; r++) {
        if (SE[r] == DYN) { idx_t v = nd_it(); vf_assume(v >= 0 && u64(v) <= DMAX); e[r] = v; }
        else { e[r] = idx_t(SE[r]); }
    }
    return e;
}
// R extents, all symbolic in 0..DMAX (for a dextents object)
static idx_t* draw_any_ext()
{
    idx_t* e = block();
    for (sz r = 0; r < R; r++) { idx_t v = nd_it(); vf_assume(v >= 0 && u64(v) <= DMAX); e[r] = v; }
    return e;
}
// a multi-index: every component symbolic over the whole index type, restricted to 0 <= i_r < extent r
static idx_t* draw_idx(idx_t const* e)
{
    idx_t* i = block();
    for (sz r = 0; r < R; r++) { idx_t v = nd_it(); vf_assume(v >= 0 && u64(v) < u64(e[r])); i[r] = v; }
    return i;
}
static u64 prod(idx_t const* e, sz lo, sz hi) { u64 p = 1; for (sz r = lo; r < hi; r++) p *= u64(e[r]); return p; }
static bool same(idx_t const* a, idx_t const* b) { for (sz r = 0; r < R; r++) if (a[r] != b[r]) return false; return true; }
static u64 stride_left(idx_t const* e, sz r) { return prod(e, 0, r); }
static u64 stride_right(idx_t const* e, sz r) { return prod(e, r + 1, R); }
static u64 off_left(idx_t const* e, idx_t const* i) { u64 o = 0; for (sz r = 0; r < R; r++) o += u64(i[r]) * stride_left(e, r); return o; }
static u64 off_right(idx_t const* e, idx_t const* i) { u64 o = 0; for (sz r = 0; r < R; r++) o += u64(i[r]) * stride_right(e, r); return o; }
static u64 off_stride(idx_t const* s, idx_t const* i) { u64 o = 0; for (sz r = 0; r < R; r++) o += u64(i[r]) * u64(s[r]); return o; }
// required span size of a strided mapping ([mdspan.layout.stride.expo] REQUIRED-SPAN-SIZE)
static u64 span_stride(idx_t const* e, idx_t const* s) { u64 o = 1; for (sz r = 0; r < R; r++) { if (e[r] == 0) return 0; o += (u64(e[r]) - 1) * u64(s[r]); } return o; }

// ---------------------------------------------------------------- extents
Q q_ext()
{
    idx_t* e = draw_ext(); idx_t* e2 = draw_ext(); idx_t* b = draw_any_ext(); idx_t* out = block();
    vf_assert(k_rank() == R && k_rank_dynamic() == RD, "extents::rank()/rank_dynamic()");
    for (sz r = 0; r < R; r++) {
        vf_assert(k_static_extent(r) == SE[r], "extents::static_extent(r)");
        vf_assert(k_extent(e, r) == e[r], "extents::extent(r): static value or the dynamic extent given at construction");
        vf_assert(k_rev(e, r) == prod(e, r + 1, R), "rev_prod_of_extents(r) == product of extents r+1..rank");
    }
    for (sz r = 0; r <= R; r++) vf_assert(k_fwd(e, r) == prod(e, 0, r), "fwd_prod_of_extents(r) == product of extents 0..r");
    vf_assert(k_ext_eq(e, b) == same(e, b), "extents == dextents compares every extent");
    vf_assert(k_ext_eq_same(e, e2) == same(e, e2), "extents == extents compares every extent");
    if (EQ_POSSIBLE && same(e, b)) vf_witness("equal extents reachable");
    k_default(out);
    for (sz r = 0; r < R; r++) vf_assert(out[r] == (SE[r] == DYN ? idx_t(0) : idx_t(SE[r])), "default extents: dynamic extents are 0");
    if (RD > 0) {
        idx_t* o1 = block(); idx_t* o2 = block();
        k_ctor_dyn_var(e, o1); k_ctor_dyn_span(e, o2);
        vf_assert(same(o1, e) && same(o2, e), "extents(dynamic extents...) / extents(span of dynamic extents)");
    }
    OIT* oo = (OIT*)vf_alloc(R * sizeof(OIT)); idx_t* o3 = block();
    k_conv_it(e, oo); k_conv_it_back(e, o3);
    for (sz r = 0; r < R; r++) vf_assert(u64(oo[r]) == u64(e[r]) && o3[r] == e[r], "extents converted to/from another index type keep every extent");
}
// extents(e0, ..., e_{rank-1}) / extents(array<.,rank>) / extents(span<.,rank>): all rank() values given, static positions equal the static extent
Q q_ctor_all()
{
    idx_t* e = draw_ext();
    VF_KNOWN(C19_extents_ctor_all_values, MIXED);
    idx_t* o1 = block(); idx_t* o2 = block(); idx_t* o3 = block();
    k_ctor_all_var(e, o1); k_ctor_all_arr(e, o2); k_ctor_all_span(e, o3);
    vf_assert(same(o1, e), "extents(all extents...) keeps every extent");
    vf_assert(same(o2, e), "extents(array of all extents) keeps every extent");
    vf_assert(same(o3, e), "extents(span of all extents) keeps every extent");
}

// ---------------------------------------------------------------- layout_left / layout_right
#define Q_LAYOUT(N)                                                                                                                              \
    Q q_##N()                                                                                                                                    \
    {                                                                                                                                            \
        idx_t* e = draw_ext(); idx_t* b = draw_any_ext();                                                                                        \
        u64 size = prod(e, 0, R); vf_assume(size <= ITMAX); /* precondition of the mapping: the size of the index space is representable */      \
        vf_assert(u64(k_##N##_req(e)) == size, #N ": required_span_size() == product of the extents (0 if any is 0, 1 for rank 0)");             \
        if (size == 0 && (ZS || RD > 0)) vf_witness("zero-sized index space"); /* needs a zero static or dynamic extent */                           \
        for (sz r = 0; r < R; r++) {                                                                                                             \
            vf_assert(u64(k_##N##_stride(e, r)) == stride_##N(e, r), #N ": stride(r) == closed form");                                           \
            vf_assert(k_##N##_ext(e, r) == e[r], #N ": extents() are the ones given");                                                           \
        }                                                                                                                                        \
        vf_assert(k_##N##_flags(e) == 0x3f, #N ": is_(always_)unique/exhaustive/strided all true");                                              \
        vf_assert(k_##N##_eq(e, b) == same(e, b), #N ": mapping == mapping compares extents");                                                   \
        { u64 d = 1; for (sz r = 0; r < R; r++) d *= SE[r] == DYN ? 0 : SE[r]; vf_assert(u64(k_##N##_default_req()) == d, #N ": default mapping"); } \
        if (!ZS && (R > 0 || LR_CALL)) {                                                                                                         \
            idx_t* i = draw_idx(e); idx_t* j = draw_idx(e);                                                                                      \
            u64 want = off_##N(e, i);                                                                                                            \
            idx_t mi = k_##N##_map(e, i), mj = k_##N##_map(e, j);                                                                                \
            vf_assert(mi >= 0 && u64(mi) == want, #N ": m(i...) == closed-form offset");                                                         \
            vf_assert(u64(mi) < size, #N ": m(i...) < required_span_size()");                                                                    \
            vf_assert(same(i, j) || mi != mj, #N ": distinct multi-indices map to distinct offsets");                                            \
            if (MULTI && !same(i, j)) vf_witness("two distinct multi-indices");                                                                           \
            vf_assert(k_##N##_copy_map(e, i) == mi, #N ": copy construction/assignment preserves the mapping");                                  \
            vf_assert(u64(k_##N##_conv_it(e, i)) == want, #N ": mapping over another index type preserves the mapping");                         \
            Q_LAYOUT_RANK1(N)                                                                                                                    \
        }                                                                                                                                        \
    }
#if RANK > 0
#define LR_CALL 1
#else
#define LR_CALL 0   // clang rejects layout_left/right::mapping<extents<I>>::operator()() (rank 0), see kernel.cpp
IT k_left_map(IT const*, IT const*) { return 0; } IT k_right_map(IT const*, IT const*) { return 0; } IT k_left_copy_map(IT const*, IT const*) { return 0; }
IT k_right_copy_map(IT const*, IT const*) { return 0; } OIT k_left_conv_it(IT const*, IT const*) { return 0; } OIT k_right_conv_it(IT const*, IT const*) { return 0; }
IT k_left_stride(IT const*, sz) { return 0; } IT k_right_stride(IT const*, sz) { return 0; }
#endif
#if RANK == 1
#define Q_LAYOUT_RANK1(N) vf_assert(k_left_from_right(e, i) == mi && k_right_from_left(e, i) == mi, "rank 1: layout_left <-> layout_right conversion preserves the mapping");
#else
#define Q_LAYOUT_RANK1(N)
#endif
Q_LAYOUT(left)
Q_LAYOUT(right)

// ---------------------------------------------------------------- converting constructors from / to all-dynamic extents (extents, mappings)
#if RANK > 0
Q q_conv_from_dyn()
{
    idx_t* e = draw_ext(); vf_assume(prod(e, 0, R) <= ITMAX);
    VF_KNOWN(C19_extents_conv_ctor_oob, static_after_last_dyn());
    idx_t* o = block(); k_conv_from_dyn(e, o);
    vf_assert(same(o, e), "extents<I,E...>(dextents) keeps every extent");
    if (!ZS) {
        idx_t* i = draw_idx(e);
        vf_assert(u64(k_left_conv_from_dyn(e, i)) == off_left(e, i), "layout_left::mapping<E>(mapping<dextents>) preserves the mapping");
        vf_assert(u64(k_right_conv_from_dyn(e, i)) == off_right(e, i), "layout_right::mapping<E>(mapping<dextents>) preserves the mapping");
    }
}
Q q_conv_to_dyn()
{
    idx_t* e = draw_ext(); vf_assume(prod(e, 0, R) <= ITMAX);
    VF_KNOWN(C19_extents_conv_ctor_lost, nonzero_static());
    idx_t* o = block(); k_conv_to_dyn(e, o);
    vf_assert(same(o, e), "dextents(extents<I,E...>) keeps every extent");
    if (!ZS) {
        idx_t* i = draw_idx(e);
        vf_assert(u64(k_left_conv_to_dyn(e, i)) == off_left(e, i), "layout_left::mapping<dextents>(mapping<E>) preserves the mapping");
        vf_assert(u64(k_right_conv_to_dyn(e, i)) == off_right(e, i), "layout_right::mapping<dextents>(mapping<E>) preserves the mapping");
    }
}
#endif

// ---------------------------------------------------------------- layout_stride
// strides: symbolic in 1..SMAX; precondition [mdspan.layout.stride.cons]: s_r > 0, REQUIRED-SPAN-SIZE representable in the index type, and
// there is a permutation P with s[P_k] >= s[P_{k-1}] * extent(P_{k-1}) - the permutation is drawn symbolically (any padded / permuted layout)
static idx_t* draw_strides(idx_t const* e)
{
    idx_t* s = block();
    for (sz r = 0; r < R; r++) { idx_t v = nd_it(); vf_assume(v >= 1 && u64(v) <= SMAX); s[r] = v; }
    uint8_t p[R + 1];
    for (sz r = 0; r < R; r++) { p[r] = vf_nd_u8(); vf_assume(p[r] < R); for (sz q = 0; q < r; q++) vf_assume(p[q] != p[r]); }
    for (sz k = 1; k < R; k++) vf_assume(u64(s[p[k]]) >= u64(s[p[k - 1]]) * u64(e[p[k - 1]]));
    vf_assume(span_stride(e, s) <= ITMAX);
    return s;
}
Q q_stride()
{
    idx_t* e = draw_ext(); idx_t* s = draw_strides(e); u64 span = span_stride(e, s);
    idx_t* so = block(); k_stride_strides(e, s, so);
    for (sz r = 0; r < R; r++) {
        vf_assert(k_stride_stride(e, s, r) == s[r] && so[r] == s[r], "stride: stride(r)/strides() are the strides given");
        vf_assert(k_stride_ext(e, s, r) == e[r], "stride: extents() are the ones given");
    }
    vf_assert(k_stride_flags() == (1u | 4u | 8u | 32u), "stride: is_unique, is_strided, is_always_unique, is_always_strided, not is_always_exhaustive");
    if (span == 0 && (ZS || RD > 0)) vf_witness("zero-sized index space");
    if (!ZS) {
        idx_t* i = draw_idx(e); idx_t* j = draw_idx(e);
        idx_t mi = k_stride_map(e, s, i), mj = k_stride_map(e, s, j);
        vf_assert(mi >= 0 && u64(mi) == off_stride(s, i), "stride: m(i...) == sum i_r * stride_r");
        vf_assert(u64(mi) < span, "stride: m(i...) inside the required span");
        vf_assert(same(i, j) || mi != mj, "stride: distinct multi-indices map to distinct offsets");
        if (MULTI && !same(i, j)) vf_witness("two distinct multi-indices");
#if RANK > 0
        vf_assert(k_stride_map_arr(e, s, i) == mi, "stride: mapping(extents, array) == mapping(extents, span)");
#endif
    }
}

// ---------------------------------------------------------------- mdspan element access
#define MD_LAYOUT(N)                                                                                                                             \
    {                                                                                                                                            \
        vf_assert(u64(k_md_##N##_size(p, e)) == size && k_md_##N##_empty(p, e) == (size == 0), "mdspan<" #N ">: size()/empty()");               \
        vf_assert(k_md_##N##_handle(p, e) == p, "mdspan<" #N ">: data_handle()");                                                                \
        vf_assert(k_md_##N##_info(p, e) == (0x3fu | unsigned(R) << 8 | unsigned(RD) << 12), "mdspan<" #N ">: rank/rank_dynamic/is_*");           \
        for (sz r = 0; r < R; r++) {                                                                                                             \
            vf_assert(k_md_##N##_extent(p, e, r) == e[r], "mdspan<" #N ">: extent(r)");                                                          \
            vf_assert(u64(k_md_##N##_stride(p, e, r)) == stride_##N(e, r), "mdspan<" #N ">: stride(r)");                                         \
        }                                                                                                                                        \
    }
#define MD_ACCESS(N)                                                                                                                             \
    {                                                                                                                                            \
        ELT* want = p + off_##N(e, i);                                                                                                           \
        vf_assert(off_##N(e, i) < size, "mdspan<" #N ">: element lies inside [data, data + size)");                                              \
        vf_assert(k_md_##N##_at(p, e, i) == want, "mdspan<" #N ">: &md(i...) == data + m(i...)");                                                \
        vf_assert(k_md_##N##_at_span(p, e, i) == want && k_md_##N##_at_arr(p, e, i) == want, "mdspan<" #N ">: md[span]/md[array] address the same element"); \
        vf_assert(k_md_##N##_at_map(p, e, i) == want && k_md_##N##_at_acc(p, e, i) == want, "mdspan<" #N ">(ptr, mapping[, accessor]) addresses the same element"); \
        vf_assert(k_md_##N##_at_conv(p, e, i) == want, "mdspan<T const>(mdspan<T>) addresses the same element");                                 \
        if (RD > 0) vf_assert(k_md_##N##_at_dynctor(p, e, i) == want, "mdspan<" #N ">(ptr, dynamic extents...) addresses the same element");     \
    }
#if RANK > 0
Q q_md()
{
    idx_t* e = draw_ext(); u64 size = prod(e, 0, R); vf_assume(size <= ITMAX);
    ELT* p = (ELT*)vf_alloc(size * sizeof(ELT));   // exactly the required span
    MD_LAYOUT(left) MD_LAYOUT(right)
    if (!ZS) { idx_t* i = draw_idx(e); MD_ACCESS(left) MD_ACCESS(right) }
}
// mdspan(ptr, e0, ..., e_{rank-1}) with all rank() extents goes through extents(all extents...)
Q q_md_ctor_all()
{
    idx_t* e = draw_ext(); u64 size = prod(e, 0, R); vf_assume(size <= ITMAX);
    VF_KNOWN(C19_extents_ctor_all_values, MIXED);
    ELT* p = (ELT*)vf_alloc(size * sizeof(ELT));
    idx_t* i = draw_idx(e);
    vf_assert(k_md_left_at_allctor(p, e, i) == p + off_left(e, i), "mdspan<left>(ptr, all extents...) addresses data + m(i...)");
    vf_assert(k_md_right_at_allctor(p, e, i) == p + off_right(e, i), "mdspan<right>(ptr, all extents...) addresses data + m(i...)");
}
#endif
Q q_md_stride()
{
    idx_t* e = draw_ext(); idx_t* s = draw_strides(e); u64 span = span_stride(e, s);
    ELT* p = (ELT*)vf_alloc(span * sizeof(ELT));
    idx_t req = k_stride_req(e, s);
    vf_assert(req >= 0 && u64(req) == span, "stride: required_span_size() == 1 + sum (extent-1)*stride, 0 if any extent is 0, 1 for rank 0");
    if (span == 0 && (ZS || RD > 0)) vf_witness("stride: zero-sized index space");
    vf_assert(u64(k_md_stride_size(p, e, s)) == prod(e, 0, R), "mdspan<stride>: size() == product of extents");
    for (sz r = 0; r < R; r++) vf_assert(k_md_stride_stride(p, e, s, r) == s[r], "mdspan<stride>: stride(r)");
    if (!ZS) {
        idx_t* i = draw_idx(e);
        vf_assert(off_stride(s, i) < span, "mdspan<stride>: element lies inside the required span");
        vf_assert(k_stride_map(e, s, i) < req, "stride: m(i...) < required_span_size()");
        vf_assert(k_md_stride_at(p, e, s, i) == p + off_stride(s, i), "mdspan<stride>: &md(i...) == data + sum i_r * stride_r");
    }
}

// ---------------------------------------------------------------- mdarray<int, E, layout, array<int, CAP>>
#if RANK > 0
#define MDA_LAYOUT(N)                                                                                                                            \
    {                                                                                                                                            \
        k_mda_##N##_info(e, r, o);                                                                                                               \
        vf_assert(o[0] == u64(UIT(size)) && o[1] == (size == 0) && o[8] == size, "mdarray<" #N ">: size()/empty()/required_span_size()");        \
        vf_assert(o[2] == u64(e[r]) && o[3] == stride_##N(e, r), "mdarray<" #N ">: extent(r)/stride(r)");                                       \
        vf_assert(o[4] == R && o[5] == RD && o[6] == SE[r] && o[7] == 7, "mdarray<" #N ">: rank/rank_dynamic/static_extent/is_*");               \
        vf_assert(o[9] == CAP, "mdarray<" #N ">(extents, value) fills the container");                                                           \
    }
#define MDA_ACCESS(N)                                                                                                                            \
    {                                                                                                                                            \
        k_mda_##N##_offs(e, i, o); u64 want = off_##N(e, i);                                                                                     \
        vf_assert(want < CAP, "mdarray<" #N ">: element inside the container");                                                                  \
        vf_assert(o[0] == want && o[1] == want && o[2] == want, "mdarray<" #N ">: a(i...), as_const(a)(i...), a[span] == container_data() + m(i...)"); \
        vf_assert(o[3] == want && o[4] == want && o[5] == want, "mdarray<" #N ">: to_mdspan()/mdspan conversion address the same element");      \
        vf_assert(o[6] == CAP && o[7] == 0, "mdarray<" #N ">: container_size()/container_data()");                                               \
    }
Q q_mda()
{
    idx_t* e = draw_ext(); u64 size = prod(e, 0, R); vf_assume(size <= ITMAX && size <= CAP);   // the container holds CAP elements
    sz r = vf_nd_u64(); vf_assume(r < R);
    sz* o = (sz*)vf_alloc(10 * sizeof(sz));
    MDA_LAYOUT(left) MDA_LAYOUT(right)
    if (!ZS) { idx_t* i = draw_idx(e); MDA_ACCESS(left) MDA_ACCESS(right) }
}
#endif

// ---------------------------------------------------------------- linalg::layout_transpose (rank 2): view extents (E0, E1) over a nested mapping with extents (E1, E0)
#if RANK == 2
static u64 tr_off_right(idx_t const* e, idx_t i, idx_t j) { return u64(j) * u64(e[0]) + u64(i); }   // nested layout_right over (e1, e0) at (j, i)
static u64 tr_off_left(idx_t const* e, idx_t i, idx_t j) { return u64(j) + u64(i) * u64(e[1]); }    // nested layout_left over (e1, e0) at (j, i)
static u64 tr_stride_right(idx_t const* e, sz r) { return r == 0 ? 1 : u64(e[0]); }
static u64 tr_stride_left(idx_t const* e, sz r) { return r == 0 ? u64(e[1]) : 1; }
#define Q_TRANSPOSE(N)                                                                                                                           \
    Q q_tr##N()                                                                                                                                  \
    {                                                                                                                                            \
        idx_t* e = draw_ext(); u64 size = prod(e, 0, R); vf_assume(size <= ITMAX);                                                               \
        vf_assert(k_tr##N##_ext(e, 0) == e[0] && k_tr##N##_ext(e, 1) == e[1], "transpose<" #N ">: extents() are the nested extents swapped");   \
        vf_assert(u64(k_tr##N##_req(e)) == size, "transpose<" #N ">: required_span_size()");                                                     \
        vf_assert(k_tr##N##_flags(e) == (1u | 4u | 8u | 32u), "transpose<" #N ">: is_(always_)unique/strided");                                  \
        if (!ZS) {                                                                                                                               \
            idx_t* a = draw_idx(e); idx_t* b = draw_idx(e);                                                                                      \
            u64 ma = u64(k_tr##N##_map(e, a[0], a[1])), mb = u64(k_tr##N##_map(e, b[0], b[1]));                                                  \
            vf_assert(ma == tr_off_##N(e, a[0], a[1]), "transpose<" #N ">: m(i,j) == nested(j,i) closed form");                                  \
            vf_assert(ma == u64(k_tr##N##_nested(e, a[1], a[0])), "transpose<" #N ">: m(i,j) == nested_mapping()(j,i)");                         \
            vf_assert(ma < size, "transpose<" #N ">: m(i,j) < required_span_size()");                                                            \
            vf_assert(same(a, b) || ma != mb, "transpose<" #N ">: distinct multi-indices map to distinct offsets");                              \
            ELT* p = (ELT*)vf_alloc(size * sizeof(ELT));                                                                                         \
            vf_assert(k_md_tr##N##_at(p, e, a[0], a[1]) == p + tr_off_##N(e, a[0], a[1]), "mdspan<transpose<" #N ">>: &md(i,j) == data + nested(j,i)"); \
        }                                                                                                                                        \
    }                                                                                                                                            \
    Q q_tr##N##_stride()                                                                                                                         \
    {                                                                                                                                            \
        idx_t* e = draw_ext(); vf_assume(prod(e, 0, R) <= ITMAX); sz r = vf_nd_u64(); vf_assume(r < 2);                                          \
        VF_KNOWN(C19_layout_transpose_stride, true);                                                                                             \
        vf_assert(u64(k_tr##N##_stride(e, r)) == tr_stride_##N(e, r), "transpose<" #N ">: stride(r) == nested stride of the swapped dimension"); \
    }
Q_TRANSPOSE(left)
Q_TRANSPOSE(right)
#endif

// ---------------------------------------------------------------- submdspan_extents
// slice kind of dimension r = digit r of pat (base 3): 0 full_extent, 1 integer index, 2 pair of integral constants [min(1,E_r), E_r)
constexpr sz pow3(sz n) { sz r = 1; for (sz i = 0; i < n; i++) r *= 3; return r; }
Q q_sub_ext()
{
    idx_t* e = draw_ext(); sz pat = vf_nd_u64(); vf_assume(pat < pow3(R));
    idx_t* iv = block();
    sz ks[R + 1]; u64 kv[R + 1]; sz n = 0, np = 0, npd = 0, nfs = 0, nd = 0;
    for (sz r = 0, q = pat; r < R; r++, q /= 3) {
        sz d = q % 3; idx_t v = nd_it(); iv[r] = v;
        if (d == 0) { ks[n] = SE[r]; kv[n] = u64(e[r]); n++; nfs += SE[r] != DYN; nd += SE[r] == DYN; }
        else if (d == 1) { vf_assume(v >= 0 && u64(v) < u64(e[r])); }
        else { sz lo = SE[r] >= 1 ? 1 : 0; ks[n] = SE[r] - lo; kv[n] = SE[r] - lo; n++; np++; npd += SE[r] == DYN; }
    }
    // the patterns the pinned tree can compile (kernel.cpp): the others are not instantiated
    vf_assume(npd == 0 && (np == 0 || (nfs == 0 && IT_IS_SIZE_T)));
    bool pal = true; for (sz k = 0; k < n; k++) if (ks[k] != ks[n - 1 - k]) pal = false;
    VF_KNOWN(C19_submdspan_extents_reversed, !pal);
    VF_KNOWN(C19_extents_ctor_all_values, np == 0 && nd > 0 && nd < n);
    sz* orank = (sz*)vf_alloc(sizeof(sz)); sz* ost = (sz*)vf_alloc(R * sizeof(sz)); idx_t* oex = block();
    k_sub_ext(e, pat, iv, orank, ost, oex);
    vf_assert(*orank == n, "submdspan_extents: rank == number of non-integer slices");
    for (sz k = 0; k < n; k++) {
        vf_assert(ost[k] == ks[k], "submdspan_extents: static extent k is that of the k-th kept dimension (hi - lo for a constant pair)");
        vf_assert(u64(oex[k]) == kv[k], "submdspan_extents: extent k is that of the k-th kept dimension (hi - lo for a pair)");
    }
}
#if RANK == 1
// a pair of run-time indices [lo, hi) as the slice of the only dimension: [mdspan.sub.extents] rank 1, dynamic extent hi - lo
Q q_sub_pair()
{
    idx_t* e = draw_ext(); idx_t lo = nd_it(), hi = nd_it(); vf_assume(lo >= 0 && lo <= hi && u64(hi) <= u64(e[0]));
    VF_KNOWN(C19_submdspan_extents_pair_lost, hi != lo);
    sz* orank = (sz*)vf_alloc(sizeof(sz)); sz* ost = (sz*)vf_alloc(sizeof(sz)); idx_t* oex = block();
    k_sub_pair(e, lo, hi, orank, ost, oex);
    vf_assert(*orank == 1 && ost[0] == DYN, "submdspan_extents(pair of indices): rank 1, dynamic extent");
    vf_assert(u64(oex[0]) == u64(hi) - u64(lo), "submdspan_extents(pair of indices): extent == hi - lo");
}
#endif

// ---------------------------------------------------------------- mdarray<int, E, layout_stride, C> with a size-constructible container C whose storage is a block of
// exactly the size mdarray passes to C(n[, value]): (mapping, value) and (mapping) constructors with symbolic padded / permuted strides
#if RANK > 0
#ifndef MDAS_MAX
#define MDAS_MAX 16
#endif
Q q_mda_stride()
{
    idx_t* e = draw_ext(); idx_t* s = draw_strides(e); u64 span = span_stride(e, s); u64 size = prod(e, 0, R);
    vf_assume(span <= MDAS_MAX);   // bound of the container fill loop
    ELT val = ELT(vf_nd_u32());
    idx_t* i = block(); bool acc = false; u64 want = 0;
    if (!ZS) {   // a multi-index, in range if the index space is not empty (then the access part of the kernel runs)
        acc = true;
        for (sz r = 0; r < R; r++) { idx_t v = nd_it(); if (!(v >= 0 && u64(v) < u64(e[r]))) { v = 0; acc = false; } i[r] = v; }
        for (sz r = 0; r < R; r++) if (e[r] == 0) acc = false;
        want = off_stride(s, i);
    }
    sz* o = (sz*)vf_alloc(11 * sizeof(sz));
    k_mdas(e, s, i, acc, val, o);
    vf_assert(o[3] == span, "mdarray<stride>: mapping().required_span_size() == standard formula");
    vf_assert(o[0] >= span, "mdarray<stride>(mapping, value): container holds at least required_span_size() elements");
    vf_assert(o[1] >= span, "mdarray<stride>(mapping): container holds at least required_span_size() elements");
    vf_assert(o[0] == span && o[1] == span, "mdarray<stride>: a size-constructible container is created with required_span_size() elements");
    vf_assert(o[2] == u64(UIT(size)) && o[4] == 0, "mdarray<stride>: size() == product of extents; container_data()");
    if (!ZS && MULTI && span > size) vf_witness("padded strides: required span larger than the number of elements");
    if (acc) {
        vf_assert(want < span, "mdarray<stride>: m(i...) inside the required span");
        vf_assert(o[5] == want && o[6] == want && o[9] == want && o[10] == want, "mdarray<stride>: a(i...), a[span], to_mdspan()(i...) == container_data() + sum i_r * stride_r");
        vf_assert(o[7] == 1 && o[8] == 1, "mdarray<stride>: a(i...) reads the fill value, a write through a(i...) is read back");
        if (MULTI && want >= size) vf_witness("element at an offset >= product of extents");
    }
}
#endif
