// C13 driver (family ce_int): for every argument value the constant-evaluation / portable path (kc_*, kernel.cpp) and the
// run-time / builtin path (kr_*, kernel_rt.cpp) of the same tetl function must return the same value. Arguments are symbolic over
// the full range of their type; nothing is enumerated. Never includes tetl.
#include <stdint.h>
#include "vf.h"
typedef unsigned long ul_t;
typedef unsigned long long ull_t;
typedef long long ll_t;
extern "C" {
int kc_popcount_u8(unsigned char); int kr_popcount_u8(unsigned char);
int kc_popcount_u16(unsigned short); int kr_popcount_u16(unsigned short);
int kc_popcount_u32(unsigned); int kr_popcount_u32(unsigned);
int kc_popcount_ul(ul_t); int kr_popcount_ul(ul_t);
int kc_popcount_ull(ull_t); int kr_popcount_ull(ull_t);
int* kc_assume_aligned(int*); int* kr_assume_aligned(int*);
uint16_t kc_byteswap_u16(uint16_t); uint16_t kr_byteswap_u16(uint16_t);
uint32_t kc_byteswap_u32(uint32_t); uint32_t kr_byteswap_u32(uint32_t);
uint64_t kc_byteswap_u64(uint64_t); uint64_t kr_byteswap_u64(uint64_t);
uint32_t kc_bit_cast_f2u(float); uint32_t kr_bit_cast_f2u(float);
float kc_bit_cast_u2f(uint32_t); float kr_bit_cast_u2f(uint32_t);
uint64_t kc_bit_cast_d2u(double); uint64_t kr_bit_cast_d2u(double);
double kc_bit_cast_u2d(uint64_t); double kr_bit_cast_u2d(uint64_t);
#define DECL_ADDSAT(N, T) T kc_add_sat_##N(T, T); T kr_add_sat_##N(T, T);
DECL_ADDSAT(i8, int8_t) DECL_ADDSAT(u8, uint8_t) DECL_ADDSAT(i16, int16_t) DECL_ADDSAT(u16, uint16_t)
DECL_ADDSAT(i32, int32_t) DECL_ADDSAT(u32, uint32_t) DECL_ADDSAT(i64, int64_t) DECL_ADDSAT(u64, uint64_t)
DECL_ADDSAT(ll, ll_t) DECL_ADDSAT(ull, ull_t)
}
static uint32_t fbits(float f) { union { float f; uint32_t u; } p; p.f = f; return p.u; }
static uint64_t dbits(double f) { union { double f; uint64_t u; } p; p.f = f; return p.u; }

// ---------------------------------------------------------------- popcount: Kernighan loop (constant evaluation) vs __builtin_popcount*
#define POPCOUNT(N, T, ND, WIDTH)                                                                                      \
    Q q_popcount_##N()                                                                                                 \
    {                                                                                                                  \
        T x = (T)ND();                                                                                                 \
        int c = kc_popcount_##N(x);                                                                                    \
        if (c == WIDTH) vf_witness("popcount_all_ones");                                                               \
        int r = kr_popcount_##N(x);                                                                                    \
        vf_assert(c == r, "popcount(x): constant-evaluation path == run-time path");                                   \
        vf_assert(c >= 0 && c <= WIDTH, "popcount(x) in 0..width");                                                    \
    }
POPCOUNT(u8, unsigned char, vf_nd_u8, 8)
POPCOUNT(u16, unsigned short, vf_nd_u16, 16)
POPCOUNT(u32, unsigned, vf_nd_u32, 32)
POPCOUNT(ul, ul_t, vf_nd_u64, 64)
POPCOUNT(ull, ull_t, vf_nd_u64, 64)

// ---------------------------------------------------------------- assume_aligned: both branches return the argument
Q q_assume_aligned()
{
    int* p = (int*)vf_alloc(16);   // vf_alloc blocks are maximally aligned
    p[0] = (int)vf_nd_u32(); p[2] = (int)vf_nd_u32();
    unsigned k = vf_nd_u8(); vf_assume(k <= 1);
    int* a = p + 2 * k;            // 8-byte aligned element
    int* c = kc_assume_aligned(a);
    int* r = kr_assume_aligned(a);
    vf_assert(c == a && r == a, "assume_aligned<8>(p) == p on both paths");
    vf_assert(*c == *r, "assume_aligned<8>(p) is dereferenceable");
}

// ---------------------------------------------------------------- byteswap: shift/mask fallback vs __builtin_bswap*
#define BYTESWAP(N, T, ND, PAT)                                                                                        \
    Q q_byteswap_##N()                                                                                                 \
    {                                                                                                                  \
        T x = (T)ND();                                                                                                 \
        T c = kc_byteswap_##N(x);                                                                                      \
        if (x == (T)PAT) vf_witness("byteswap_pattern");                                                               \
        T r = kr_byteswap_##N(x);                                                                                      \
        vf_assert(c == r, "byteswap(x): portable fallback == builtin path");                                           \
    }
BYTESWAP(u16, uint16_t, vf_nd_u16, 0x1234u)
BYTESWAP(u32, uint32_t, vf_nd_u32, 0x12345678u)
BYTESWAP(u64, uint64_t, vf_nd_u64, 0x123456789abcdef0ull)

// ---------------------------------------------------------------- add_sat: clamp/compare fallback vs __builtin_add_overflow path, all pairs
#define ADDSAT(N, T, ND)                                                                                               \
    Q q_add_sat_##N()                                                                                                  \
    {                                                                                                                  \
        T x = (T)ND(); T y = (T)ND();                                                                                  \
        T c = kc_add_sat_##N(x, y);                                                                                    \
        if ((T)(x + y) != c) vf_witness("add_sat_saturates");                                                          \
        T r = kr_add_sat_##N(x, y);                                                                                    \
        vf_assert(c == r, "add_sat(x, y): portable fallback == builtin path");                                         \
    }
ADDSAT(i8, int8_t, vf_nd_u8) ADDSAT(u8, uint8_t, vf_nd_u8) ADDSAT(i16, int16_t, vf_nd_u16) ADDSAT(u16, uint16_t, vf_nd_u16)
ADDSAT(i32, int32_t, vf_nd_u32) ADDSAT(u32, uint32_t, vf_nd_u32) ADDSAT(i64, int64_t, vf_nd_u64) ADDSAT(u64, uint64_t, vf_nd_u64)
ADDSAT(ll, ll_t, vf_nd_u64) ADDSAT(ull, ull_t, vf_nd_u64)

// ---------------------------------------------------------------- bit_cast: memcpy branch vs __builtin_bit_cast, every bit pattern (NaN payloads included)
Q q_bit_cast_f2u() { uint32_t b = vf_nd_u32(); union { uint32_t u; float f; } p; p.u = b; uint32_t c = kc_bit_cast_f2u(p.f); uint32_t r = kr_bit_cast_f2u(p.f); vf_assert(c == r, "bit_cast<uint32_t>(float): memcpy branch == builtin"); vf_assert(r == b, "bit_cast<uint32_t>(float) keeps every bit"); }
Q q_bit_cast_u2f() { uint32_t b = vf_nd_u32(); float c = kc_bit_cast_u2f(b); float r = kr_bit_cast_u2f(b); vf_assert(fbits(c) == fbits(r), "bit_cast<float>(uint32_t): memcpy branch == builtin"); vf_assert(fbits(r) == b, "bit_cast<float>(uint32_t) keeps every bit"); }
Q q_bit_cast_d2u() { uint64_t b = vf_nd_u64(); union { uint64_t u; double f; } p; p.u = b; uint64_t c = kc_bit_cast_d2u(p.f); uint64_t r = kr_bit_cast_d2u(p.f); vf_assert(c == r, "bit_cast<uint64_t>(double): memcpy branch == builtin"); vf_assert(r == b, "bit_cast<uint64_t>(double) keeps every bit"); }
Q q_bit_cast_u2d() { uint64_t b = vf_nd_u64(); double c = kc_bit_cast_u2d(b); double r = kr_bit_cast_u2d(b); vf_assert(dbits(c) == dbits(r), "bit_cast<double>(uint64_t): memcpy branch == builtin"); vf_assert(dbits(r) == b, "bit_cast<double>(uint64_t) keeps every bit"); }
