"""C13 family ce_int: integer / bit functions with two code paths (is_constant_evaluated() or __has_builtin dispatch)."""
PROPERTIES = ['C13', 'C02']
KERNEL2 = 'kernel_rt.cpp'

BOUNDS = {
    'quick': 'every argument symbolic over the full range of its type, one query per function and type (no enumeration, no sampling): '
             'popcount for unsigned char/short/int/long/long long (constant-evaluation branch detail::popcount_fallback vs __builtin_popcount{,l,ll}); '
             'byteswap 16/32/64 bit (detail::byteswap_fallback vs __builtin_bswap*); add_sat for {u,i}{8,16,32,64} + long long/unsigned long long over all pairs '
             '(detail::add_sat_fallback vs the __builtin_add_overflow path); bit_cast float<->uint32_t and double<->uint64_t for every bit pattern '
             '(memcpy branch vs __builtin_bit_cast); assume_aligned<8>(int*). Each query twice: functional (paths agree) and UB build (both paths free of '
             'undefined behaviour for every argument = constant evaluation cannot fail)',
    'thorough': 'identical to quick (the quick tier already covers the whole domain of every instantiation)',
}
ASSUMPTIONS = [
    'C13: the constant-evaluation branch is reached by `#define __builtin_is_constant_evaluated() true` in kernel.cpp before tetl is included (DESIGN.md C13): '
    'the code a constant expression executes is run by the solver; that the compilers\' constant evaluators implement the abstract machine is trusted',
    'C13: __builtin_popcount*/bswap*/add_overflow/bit_cast are modelled by the reference loops of engine/ll_rt_common.h (llvm.ctpop/bswap/*.with.overflow) '
    'respectively plain loads/stores; these models are diff-tested against the real builtins by the translator validation of every run',
    'C13: byteswap/add_sat/bit_cast do not test is_constant_evaluated(): their two paths are selected by the preprocessor, so within one compiler compile time '
    'and run time execute the same branch; the check shows the portable branch (compilers without the builtin) equals the builtin branch. The bit_cast #else '
    'branch has no name and is written out in body.h (3 lines, bit_cast.hpp:43-45); it cannot be constant-evaluated at all (reinterpreting memcpy)',
    'C13: countl_zero/countr_zero/countl_one/countr_one/bit_width/bit_floor/bit_ceil/has_single_bit/rotl/rotr/sub_sat/mul_sat/div_sat have a single code path in '
    'tetl (no builtin, no is_constant_evaluated): nothing to compare; their definition is C14, their UB-freedom C02 (family bitint)',
    'C13: assume_aligned: argument 8-byte aligned (documented precondition)',
]

POP = [('popcount_u8', 8), ('popcount_u16', 16), ('popcount_u32', 32), ('popcount_ul', 64), ('popcount_ull', 64)]
PLAIN = ['assume_aligned', 'byteswap_u16', 'byteswap_u32', 'byteswap_u64', 'bit_cast_f2u', 'bit_cast_u2f', 'bit_cast_d2u', 'bit_cast_u2d'] + \
        ['add_sat_' + n for n in ('i8', 'u8', 'i16', 'u16', 'i32', 'u32', 'i64', 'u64', 'll', 'ull')]


def queries(tier, prop='C13'):
    if prop == 'C13':
        validate()
    out = []
    modes = [(True, True)] if prop == 'C02' else [(False, False), (True, True)]
    for ub, nofunc in modes:
        for e, w in POP:
            # fallback loop runs <= w times; ll_ctpop_* loops over the register width (u8/u16 are promoted to 32 bit)
            out.append(dict(entry='q_' + e, cfg={}, unwind=max(w, 32) + 2, solver=['kissat', 'cadical'] if (w >= 32 and not ub) else ['cadical', 'kissat'], budget=300, ub=ub, nofunc=nofunc))
        for e in PLAIN:
            out.append(dict(entry='q_' + e, cfg={}, unwind=10, solver=['cadical', 'kissat'], budget=120, ub=ub, nofunc=nofunc))
    return out


# side check with the real constant evaluators (DESIGN.md C13; not the deciding step): smoke.cpp, g++ and clang++-16 at -O0 and -O2
_validated = [False]


def validate():
    import os, shutil, subprocess, tempfile
    if _validated[0] or os.environ.get('C13_SKIP_SMOKE'):
        return
    _validated[0] = True
    here = os.path.dirname(os.path.abspath(__file__))
    engine = os.path.join(os.path.dirname(os.path.dirname(here)), 'engine')
    repo = os.environ.get('VF_REPO', '/repo')
    d = tempfile.mkdtemp(prefix='c13_smoke_int_')
    rows = 0
    try:
        for cc in ('g++', 'clang++-16'):
            for opt in ('-O0', '-O2'):
                exe = os.path.join(d, 'smoke')
                r = subprocess.run([cc, '-std=c++20', '-w', opt, '-I' + os.path.join(repo, 'include'), '-I' + engine, '-I' + here] +
                                   [os.path.join(here, f) for f in ('smoke.cpp', 'kernel.cpp', 'kernel_rt.cpp')] + ['-o', exe], capture_output=True, text=True, timeout=300)
                if r.returncode != 0:
                    raise RuntimeError('ce_int: smoke.cpp does not compile with %s %s: %s' % (cc, opt, r.stderr[-1200:]))
                r = subprocess.run([exe], capture_output=True, text=True, timeout=120)
                if r.returncode != 0:
                    raise RuntimeError('ce_int: constexpr table disagrees with the kernels (%s %s): %s' % (cc, opt, r.stdout[-1200:]))
                rows += int(r.stdout.strip().splitlines()[-1].split()[2])
        print('[ce_int] constexpr smoke tables (g++/clang++-16, -O0/-O2): %d rows, 0 mismatches' % rows, flush=True)
    finally:
        shutil.rmtree(d, ignore_errors=True)
