// C13 family ce_int, constant-evaluation TU: etl::is_constant_evaluated() is true at run time here (DESIGN.md C13), so every
// function that branches on it is compiled with the branch the compiler's constant evaluator executes. See body.h.
#include <stdint.h>
#include <stddef.h>
#define __builtin_is_constant_evaluated() true
#define CE_TU 1
#define KPRE kc_
#include "body.h"
static_assert(etl::popcount(0xF0u) == 4); // the macro does not disturb real constant evaluation in this TU
