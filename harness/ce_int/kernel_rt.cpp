// C13 family ce_int, run-time TU: the same calls as kernel.cpp without the macro, i.e. the branch taken when not constant-evaluated
// (compiler builtins). See body.h.
#include <stdint.h>
#include <stddef.h>
#define CE_TU 0
#define KPRE kr_
#include "body.h"
