// C13 side check (not the deciding step): constexpr tables computed by the compiler (real constant evaluation of the unmodified
// headers) versus the macro-forced constant-evaluation branch kc_* of kernel.cpp and the run-time branch kr_* of kernel_rt.cpp:
// all 256 unsigned char values, and a boundary table (single bits, runs of ones, limits, patterns) for the wider types.
#include <etl/array.hpp>
#include <etl/bit.hpp>
#include <stdint.h>
#include <stdio.h>
extern "C" {
int kc_popcount_u8(unsigned char); int kr_popcount_u8(unsigned char); int kc_popcount_u16(unsigned short); int kr_popcount_u16(unsigned short);
int kc_popcount_u32(unsigned); int kr_popcount_u32(unsigned); int kc_popcount_ul(unsigned long); int kr_popcount_ul(unsigned long);
int kc_popcount_ull(unsigned long long); int kr_popcount_ull(unsigned long long);
}
constexpr int NB = 64 * 3 + 8;
constexpr unsigned long long bval(int i)
{
    if (i < 64) { return 1ull << i; }                                   // single bit
    if (i < 128) { return (i == 127) ? ~0ull : (1ull << (i - 63)) - 1; } // run of ones from bit 0
    if (i < 192) { return ~0ull << (i - 128); }                          // run of ones to bit 63
    constexpr unsigned long long pats[] = {0, 0x5555555555555555ull, 0xaaaaaaaaaaaaaaaaull, 0x0123456789abcdefull, 0xfedcba9876543210ull, 0x8000000000000001ull, 0x00ff00ff00ff00ffull, 0xdeadbeefcafef00dull};
    return pats[i - 192];
}
template <typename T> constexpr auto table() { etl::array<int, NB> t{}; for (int i = 0; i < NB; ++i) { t[i] = etl::popcount(T(bval(i))); } return t; }
static int bad = 0, rows = 0;
template <typename T> static void check(char const* n, etl::array<int, NB> const& t, int (*kc)(T), int (*kr)(T))
{
    for (int i = 0; i < NB; ++i) {
        volatile T x = T(bval(i));
        ++rows;
        if (kc(x) != t[i] || kr(x) != t[i]) { ++bad; printf("MISMATCH popcount<%s>(%llx): constexpr %d forced %d run-time %d\n", n, (unsigned long long)x, t[i], kc(x), kr(x)); }
    }
}
int main()
{
    static constexpr auto t8 = [] { etl::array<int, 256> t{}; for (int i = 0; i < 256; ++i) { t[i] = etl::popcount(static_cast<unsigned char>(i)); } return t; }();
    for (int i = 0; i < 256; ++i) {
        volatile unsigned char x = static_cast<unsigned char>(i);
        ++rows;
        if (kc_popcount_u8(x) != t8[i] || kr_popcount_u8(x) != t8[i]) { ++bad; printf("MISMATCH popcount<u8>(%d)\n", i); }
    }
    static constexpr auto t16 = table<unsigned short>(); check<unsigned short>("u16", t16, kc_popcount_u16, kr_popcount_u16);
    static constexpr auto t32 = table<unsigned>(); check<unsigned>("u32", t32, kc_popcount_u32, kr_popcount_u32);
    static constexpr auto tl = table<unsigned long>(); check<unsigned long>("ul", tl, kc_popcount_ul, kr_popcount_ul);
    static constexpr auto tll = table<unsigned long long>(); check<unsigned long long>("ull", tll, kc_popcount_ull, kr_popcount_ull);
    printf("ce_int smoke: %d rows, %d mismatches\n", rows, bad);
    return bad != 0;
}
