// C13 kernels (family ce_int), shared by kernel.cpp (constant-evaluation / portable path, names kc_*) and kernel_rt.cpp
// (run-time / builtin path, names kr_*). Thin wrappers around real tetl calls; no logic besides marshalling.
//   * etl::popcount and etl::assume_aligned branch on etl::is_constant_evaluated(): the SAME public call is compiled in both TUs;
//     in kernel.cpp `__builtin_is_constant_evaluated()` is #defined to `true` before tetl is included, so the IR of kc_* contains the
//     branch a constant expression executes (detail::popcount_fallback), in kernel_rt.cpp the run-time branch (__builtin_popcount*).
//   * etl::byteswap, etl::add_sat and etl::bit_cast dispatch with the preprocessor (__has_builtin / __GNUC__): kr_* is the public
//     entry (builtin branch on clang and gcc), kc_* calls the portable fallback of the same header (etl::detail::byteswap_fallback,
//     etl::detail::add_sat_fallback); for bit_cast the `#else` branch of bit_cast.hpp (value-initialised To + etl::detail::memcpy)
//     has no name of its own and is written out here.
#include <etl/bit.hpp>
#include <etl/memory.hpp>
#include <etl/numeric.hpp>
#include "vf.h" // after the library headers (K and Q are macros)

#define CAT2(a, b) a##b
#define CAT(a, b) CAT2(a, b)
#define KN(n) CAT(KPRE, n)

// ---- dispatch on is_constant_evaluated(): identical source in both TUs
K int KN(popcount_u8)(unsigned char x) { return etl::popcount(x); }
K int KN(popcount_u16)(unsigned short x) { return etl::popcount(x); }
K int KN(popcount_u32)(unsigned int x) { return etl::popcount(x); }
K int KN(popcount_ul)(unsigned long x) { return etl::popcount(x); }
K int KN(popcount_ull)(unsigned long long x) { return etl::popcount(x); }
K int* KN(assume_aligned)(int* p) { return etl::assume_aligned<8>(p); }

// ---- preprocessor dispatch: portable fallback (kc_) versus public entry (kr_)
#if CE_TU
K uint16_t kc_byteswap_u16(uint16_t x) { return etl::detail::byteswap_fallback(x); }
K uint32_t kc_byteswap_u32(uint32_t x) { return etl::detail::byteswap_fallback(x); }
K uint64_t kc_byteswap_u64(uint64_t x) { return etl::detail::byteswap_fallback(x); }
#define ADDSAT(N, T) K T kc_add_sat_##N(T x, T y) { return etl::detail::add_sat_fallback<T>(x, y); }
template <typename To, typename From>
static To bit_cast_else_branch(From const& src)   // bit_cast.hpp:43-45
{
    To dst{};
    etl::detail::memcpy<char, etl::size_t>(&dst, &src, sizeof(To));
    return dst;
}
K uint32_t kc_bit_cast_f2u(float x) { return bit_cast_else_branch<uint32_t>(x); }
K float kc_bit_cast_u2f(uint32_t x) { return bit_cast_else_branch<float>(x); }
K uint64_t kc_bit_cast_d2u(double x) { return bit_cast_else_branch<uint64_t>(x); }
K double kc_bit_cast_u2d(uint64_t x) { return bit_cast_else_branch<double>(x); }
#else
K uint16_t kr_byteswap_u16(uint16_t x) { return etl::byteswap(x); }
K uint32_t kr_byteswap_u32(uint32_t x) { return etl::byteswap(x); }
K uint64_t kr_byteswap_u64(uint64_t x) { return etl::byteswap(x); }
#define ADDSAT(N, T) K T kr_add_sat_##N(T x, T y) { return etl::add_sat<T>(x, y); }
K uint32_t kr_bit_cast_f2u(float x) { return etl::bit_cast<uint32_t>(x); }
K float kr_bit_cast_u2f(uint32_t x) { return etl::bit_cast<float>(x); }
K uint64_t kr_bit_cast_d2u(double x) { return etl::bit_cast<uint64_t>(x); }
K double kr_bit_cast_u2d(uint64_t x) { return etl::bit_cast<double>(x); }
#endif
ADDSAT(i8, int8_t) ADDSAT(u8, uint8_t) ADDSAT(i16, int16_t) ADDSAT(u16, uint16_t)
ADDSAT(i32, int32_t) ADDSAT(u32, uint32_t) ADDSAT(i64, int64_t) ADDSAT(u64, uint64_t)
ADDSAT(ll, long long) ADDSAT(ull, unsigned long long)
