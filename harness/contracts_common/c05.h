// C05 driver-side support shared by the contracts_* families (included by driver.cpp only; no tetl code here).
//
// One query = one public operation called with UNCONSTRAINED symbolic arguments from an enumerated object state.
// The driver states the documented precondition as a boolean `pre` over the drawn inputs and the known state:
//   * V half: if !pre the call must end in the handler -> returning from the kernel with !pre is a failed assertion;
//             inside the handler: location present, the reported line is a TETL_PRECONDITION site whose condition is
//             really violated, the registered object bytes still equal the snapshot, and (CBMC's pointer checks) nothing
//             outside an object's exact-size block was touched on the way.
//   * Q half: if pre the handler must be unreachable -> reaching it with pre is a failed assertion.
// Witnesses: "VF_WITNESS:end" (a valid call returns), "clause<k>" (the handler is reached at the site of clause k).
#ifndef C05_H
#define C05_H
#include "vf.h"
#include "c05_sites.h" // generated from the current /repo tree (harness/contracts_common/sites.py)
typedef uint64_t u64;
#define WIT(n) do { [[clang::nomerge]] vf_witness(n); } while (0)

extern "C" {
// state read by the handler; plain scalars on purpose (no arrays/structs of pointers)
bool c05_armed = false;         // a call under test is in progress
bool c05_pre = true;            // its arguments satisfy the documented precondition
int c05_l0 = -1, c05_l1 = -1, c05_l2 = -1, c05_l3 = -1;             // line of the site of clause k (-1: clause unused, 0: site not located)
bool c05_v0 = false, c05_v1 = false, c05_v2 = false, c05_v3 = false; // clause k is violated by the arguments
unsigned char const* c05_obj0 = nullptr; unsigned char const* c05_snap0 = nullptr; u64 c05_len0 = 0; // object that must be unmodified
unsigned char const* c05_obj1 = nullptr; unsigned char const* c05_snap1 = nullptr; u64 c05_len1 = 0; // second region (other operand / destination)
}

extern "C" __attribute__((noinline)) void c05_same(unsigned char const* a, unsigned char const* b, u64 n)
{
    for (u64 i = 0; i < n; i++) vf_assert(a[i] == b[i], "registered object is unmodified when the handler runs");
}
extern "C" __attribute__((noinline)) unsigned char* c05_dup(unsigned char const* a, u64 n)
{
    unsigned char* s = (unsigned char*)vf_alloc(n);
    for (u64 i = 0; i < n; i++) s[i] = a[i];
    return s;
}
static inline bool c05_hit(int line, int l, bool v) { return l >= 0 && v && (l == 0 || line == l); }

// The kernel TU defines etl::assert_handler to call this (line, file) and then stop; it never returns to library code.
extern "C" void vf_contract_fired(int line, char const* file)
{
    vf_out(0xC05F0000u + (unsigned)line); // native runs log the site (no-op under CBMC)
    vf_assert(c05_armed, "handler invoked outside a call under test (while installing the pre-state)");
    vf_assert(!c05_pre, "handler invoked although the arguments satisfy the documented precondition");
    vf_assert(line > 0 && file != nullptr && file[0] != 0, "handler receives the failing location (file, line)");
    vf_assert(c05_hit(line, c05_l0, c05_v0) || c05_hit(line, c05_l1, c05_v1) || c05_hit(line, c05_l2, c05_v2) || c05_hit(line, c05_l3, c05_v3),
              "reported line is a TETL_PRECONDITION site of this operation whose condition the arguments violate");
    if (c05_len0) c05_same(c05_obj0, c05_snap0, c05_len0);
    if (c05_len1) c05_same(c05_obj1, c05_snap1, c05_len1);
    if (c05_hit(line, c05_l0, c05_v0)) WIT("clause0");
    if (c05_hit(line, c05_l1, c05_v1)) WIT("clause1");
    if (c05_hit(line, c05_l2, c05_v2)) WIT("clause2");
    if (c05_hit(line, c05_l3, c05_v3)) WIT("clause3");
    vf_assume(false);
}

// ---- per-query protocol ---------------------------------------------------------------------------------------------
// C05_CLAUSE(k, SITE_x_n, violated): clause k of the documented precondition is checked at site SITE_x_n and `violated` says
// whether the drawn arguments violate it. pre = no clause violated.
#define C05_CLAUSE(k, site, violated) do { c05_l##k = (site); c05_v##k = (violated); } while (0)
// C05_ALSO(SITE_x_n): a site this operation passes through that no argument can falsify (must stay silent); for the site report only
#define C05_ALSO(site) ((void)(site))
static inline void c05_watch0(void const* p, u64 n) { c05_obj0 = (unsigned char const*)p; c05_snap0 = c05_dup(c05_obj0, n); c05_len0 = n; }
static inline void c05_watch1(void const* p, u64 n) { c05_obj1 = (unsigned char const*)p; c05_snap1 = c05_dup(c05_obj1, n); c05_len1 = n; }
// arm: from here on a handler call belongs to the operation under test
static inline void c05_arm()
{
    c05_pre = !(c05_v0 || c05_v1 || c05_v2 || c05_v3);
#ifdef VF_NO_FUNCTIONAL
    vf_assume(c05_pre); // C02 runs: valid calls only (the UB build of the same kernels)
#endif
    c05_armed = true;
}
// done: the kernel returned normally
static inline void c05_done()
{
    c05_armed = false;
    vf_assert(c05_pre, "call violating the documented precondition returned without invoking the handler");
    vf_assume(c05_pre); // what follows checks the result of a valid call
}
#endif
