"""spec.py helper shared by the contracts_* families (C05)."""
import os
import re
import sys

HERE = os.path.dirname(os.path.abspath(__file__))
ROOT = os.path.dirname(os.path.dirname(HERE))
import importlib.util  # noqa: E402
_sp = importlib.util.spec_from_file_location('c05_sites_mod', os.path.join(HERE, 'sites.py'))
sites = importlib.util.module_from_spec(_sp)
_sp.loader.exec_module(sites)

GEN_DIR = os.path.join(ROOT, '.build', 'c05gen_%d' % os.getpid())   # removed by the runner once this process is gone
GEN_HDR = os.path.join(GEN_DIR, 'c05_sites.h')
FLAGS = ['-I' + HERE, '-I' + GEN_DIR]   # KERNEL_FLAGS / DRIVER_FLAGS of every contracts_* family


def ensure_header():
    """(re)generate c05_sites.h from the current /repo tree once per process; never raises"""
    try:
        if not os.path.exists(GEN_HDR):
            sites.gen_header(GEN_HDR)
    except Exception as ex:  # pragma: no cover
        sys.stderr.write('c05spec: cannot generate %s: %s\n' % (GEN_HDR, ex))


def parse_driver(path):
    """entry name -> {'clauses': {k: site name}, 'sites': [names]} from the C05_CLAUSE(k, SITE_x_n, ...) lines of each `Q q_x()` body"""
    txt = open(path).read()
    out = {}
    parts = re.split(r'^Q\s+(q_[A-Za-z0-9_]+)\s*\(', txt, flags=re.M)
    for i in range(1, len(parts), 2):
        name, body = parts[i], parts[i + 1]
        # body ends at the next top-level definition; good enough: cut at a line that starts a new non-Q function or section
        cl = {}
        for m in re.finditer(r'C05_CLAUSE\(\s*(\d)\s*,\s*(SITE_[A-Za-z0-9_]+)', body):
            cl.setdefault(int(m.group(1)), []).append(m.group(2))
        out[name] = {'clauses': cl, 'sites': sorted({s for v in cl.values() for s in v} | set(re.findall(r'C05_ALSO\(\s*(SITE_[A-Za-z0-9_]+)', body)))}
    return out


def optional(valid_possible, reachable_clauses, nofunc=False):
    """witness names that need not be reachable: unused / unreachable clauses, 'end' when no valid call exists"""
    if nofunc:
        return ['clause0', 'clause1', 'clause2', 'clause3'] + ([] if valid_possible else ['end'])
    return ['clause%d' % k for k in range(4) if k not in reachable_clauses] + ([] if valid_possible else ['end'])


def bounds_note(driver_info, entries_run):
    names = set()
    for e in entries_run:
        names |= set(driver_info.get(e, {}).get('sites', []))
    return sites.report(names)


def unwindset(blk, extra=()):
    """loops whose trip count is a block size in bytes (driver helpers of c05.h and the runtime's mem* models)"""
    u = {}
    for f in ('d_sym_block', 'c05_same', 'c05_dup', 'll_memcpy', 'll_memmove', 'll_memset') + tuple(extra):
        u[f + '.0'] = blk
        u[f + '.1'] = blk
    return u


def open_findings():
    """ids of the known findings currently listed open (known_findings.json + every harness/*/kf.json), as the runner sees them"""
    import json
    ids = set()
    try:
        kp = os.path.join(ROOT, 'known_findings.json')
        if os.path.exists(kp):
            ids |= {k['id'] for k in json.load(open(kp)).get('open', [])}
        hd = os.path.join(ROOT, 'harness')
        for fam in os.listdir(hd):
            fp = os.path.join(hd, fam, 'kf.json')
            if os.path.exists(fp):
                ids |= {k['id'] for k in json.load(open(fp))}
    except Exception:
        pass
    return ids
