// C05 kernel-side configuration: include FIRST in kernel.cpp, before any tetl header.
// C05SAFE=0: TETL_ENABLE_CONTRACT_CHECKS, C05SAFE=1: TETL_ENABLE_CONTRACT_CHECKS_SAFE (both with the custom handler).
// The handler is the library's own extension point (TETL_ENABLE_CUSTOM_ASSERT_HANDLER, as tests/tetl_config.hpp uses it):
// it forwards (line, file) to the driver's vf_contract_fired and never returns into library code.
#ifndef C05_KERNEL_H
#define C05_KERNEL_H
#ifndef C05SAFE
#define C05SAFE 0
#endif
#if C05SAFE
#define TETL_ENABLE_CONTRACT_CHECKS_SAFE 1
#else
#define TETL_ENABLE_CONTRACT_CHECKS 1
#endif
#define TETL_ENABLE_CUSTOM_ASSERT_HANDLER 1
extern "C" void vf_contract_fired(int line, char const* file);
extern "C" void vf_assume(bool c);
namespace etl {
template <typename Assertion>
[[noreturn]] auto assert_handler(Assertion const& msg) -> void
{
    vf_contract_fired(msg.line, msg.file);
    vf_assume(false); // not reached: vf_contract_fired stops the path (CBMC) / the process (native)
    __builtin_trap();
}
} // namespace etl
#endif
