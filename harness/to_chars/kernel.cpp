// C10 kernels (formatting side): thin wrappers around etl::to_chars, etl::strings::from_integer, etl::to_string
// (and etl::from_chars for the round trip). No logic besides marshalling.
// TY = the integer type under test (macro), CAP = to_string capacity.
#include "vf.h"
#include <etl/charconv.hpp>
#include <etl/string.hpp>
#include <etl/strings.hpp>
#ifndef TY
#define TY int
#endif
using VT = TY;
#ifndef CAP
#define CAP 12
#endif
// error class: 0 = none, 1 = value_too_large, 2 = result_out_of_range, 3 = invalid_argument, 4 = anything else
static int ecls(etl::errc e)
{
    return e == etl::errc{} ? 0 : e == etl::errc::value_too_large ? 1 : e == etl::errc::result_out_of_range ? 2 : e == etl::errc::invalid_argument ? 3 : 4;
}
K int k_to_chars(char* first, char* last, VT val, int base, char const** optr)
{
    auto r = etl::to_chars(first, last, val, base); *optr = r.ptr; return ecls(r.ec);
}
// default base argument
K int k_to_chars_def(char* first, char* last, VT val, char const** optr)
{
    auto r = etl::to_chars(first, last, val); *optr = r.ptr; return ecls(r.ec);
}
// strings::from_integer with its default options (NUL-terminated). returns 0 = none, 1 = overflow
K int k_from_integer(VT num, char* str, etl::size_t length, int base, char** oend)
{
    auto r = etl::strings::from_integer<VT>(num, str, length, base); *oend = r.end; return r.error == etl::strings::from_integer_error::none ? 0 : 1;
}
K int k_from_chars(char const* first, char const* last, VT* value, int base, char const** optr)
{
    auto r = etl::from_chars(first, last, *value, base); *optr = r.ptr; return ecls(r.ec);
}
#ifdef TOSTRING
// etl::to_string<CAP>(VT): copies size() characters + the terminator to out (CAP + 1 bytes), returns size()
K etl::size_t k_to_string(VT val, char* out)
{
    auto s = etl::to_string<CAP>(val);
    for (etl::size_t i = 0; i <= s.size(); i++) out[i] = s.data()[i];
    return s.size();
}
#endif
