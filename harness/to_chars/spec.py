# C10 formatting side: to_chars / strings::from_integer / to_string / round trip
import json, os
PROPERTIES = ['C10', 'C02']
BOUNDS = {
    'quick': ('8-bit types (unsigned char, signed char): every value x every base 2..36, both symbolic; to_chars for every buffer length 0..longest text+2 (enumerated), from_integer for lengths {0,1,2,4,longest,longest+1}, '
              'default-base overload for lengths {0,1,3,4}, round trip from_chars(to_chars(v)) for all values x bases. '
              '16-bit types: every value, base enumerated {2,10,16,36}, buffer lengths {0,1,digits-1,digits,longest text+1}. '
              '32/64-bit types (unsigned, int, unsigned long, long): base enumerated {10,16} (also 2 and 36 for unsigned, 36 for long); value symbolic inside windows ANCHOR+[-2^15,2^15) (wrapping) around '
              '0, the maximum, 2^(bits-1) (the minimum of the signed type), the largest power of the base and its negative (64-bit with base 10/36: 0, maximum, 2^63 only); buffer lengths text length of the anchor -1/+0/+1. '
              'to_string<CAP>: int, unsigned, long, unsigned long, windows around 0 / maximum / minimum, CAP = text length and text length+1 (1..3 around 0). '
              'Outside: values of 32/64-bit types outside the windows; bases other than the enumerated ones for types wider than 8 bits.'),
    'thorough': ('quick grid plus: char; 16-bit types: every base 2..36 enumerated x every value with a buffer of longest text+1 (to_chars, from_integer, round trip), value and base both symbolic for buffer lengths {0,1} (kissat; longer buffers with symbolic base gave no verdict within 900 s under load); more (type, base) pairs (bases 2, 8, 36; long long, unsigned long long); '
                 'base 10: every second power of ten and maximum/10 as additional window anchors for unsigned, int, unsigned long; '
                 'full 32-bit value range for unsigned (bases 2,8,10,16,36) and int (bases 2,8,16,36) at buffer lengths {1,digits,longest+1} against the reference text ref_text (exported VC decided by z3), '
                 'with ref_text == std::to_chars proved for all 8/16-bit values x bases, for the 32-bit power-of-two bases over the full range and inside the windows for base 10/36. '
                 'Outside: full range of int in base 10 and of every 64-bit type (no verdict within 900 s from kissat, cadical, z3, cvc5: only the windows are covered).'),
}
ASSUMPTIONS = [
    'C10/to_chars: base in 2..36 (documented precondition); [first,last) is its own object of exactly LEN bytes, so any access outside it is reported by the pointer checks',
    'C10/to_chars: "fits" is decided by the length of the std::to_chars text in a buffer of sizeof(T)*8+1 bytes (q_oracle_fit proves that std::to_chars succeeds on a LEN-byte buffer iff that text has <= LEN characters and then writes the same text)',
    'C10/to_chars: on success the bytes in [ptr,last) must keep their values (libstdc++ behaviour); on value_too_large the buffer contents are unspecified and not compared',
    'C10/from_integer (default options, NUL-terminated): specification = std::to_chars text followed by a terminator when text length+1 <= length, otherwise error overflow; the value of .end on error is not specified and not compared',
    'C10/to_string: texts longer than Capacity violate the precondition of to_string<Capacity> (contract check, C05) and are assumed away',
    'C10/wide types: where REFORACLE is set the oracle is the reference quotient/remainder loop ref_text of driver.cpp, linked to std::to_chars by q_oracle_model (solver) and harness/from_chars/model_check.cpp (native, edge and random 32/64-bit values, all bases; run by hand, not part of ./vf check)',
]
US = {'ll_ctlz_8.0': 10, 'll_ctlz_16.0': 18, 'll_ctlz_32.0': 34, 'll_ctlz_64.0': 66, 'll_ctpop_32.0': 34, 'll_ctpop_64.0': 66, 'll_undef_bytes.0': 80, 'll_memcpy.0': 80, 'll_memset.0': 80, 'll_memmove.0': 80, 'll_memmove.1': 80}
TYPES = {'unsigned char': (8, 0), 'signed char': (8, 1), 'char': (8, 1), 'unsigned short': (16, 0), 'short': (16, 1), 'unsigned': (32, 0), 'int': (32, 1),
         'unsigned long': (64, 0), 'long': (64, 1), 'unsigned long long': (64, 0), 'long long': (64, 1)}
def open_ids():
    # known-finding ids currently listed open (known_findings.json + staged harness/*/kf.json)
    root = os.path.dirname(os.path.dirname(os.path.dirname(os.path.abspath(__file__))))
    ids = set()
    p = os.path.join(root, 'known_findings.json')
    if os.path.exists(p):
        ids |= {k['id'] for k in json.load(open(p)).get('open', [])}
    for fam in os.listdir(os.path.join(root, 'harness')):
        kp = os.path.join(root, 'harness', fam, 'kf.json')
        if os.path.exists(kp):
            ids |= {k['id'] for k in json.load(open(kp))}
    return ids
def ndig(v, b):
    n = 0
    while v: v //= b; n += 1
    return max(n, 1)
def maxtext(t, b):          # longest text of type t in base b (sign included)
    bits, s = TYPES[t]
    return ndig(1 << (bits - 1), b) + 1 if s else ndig((1 << bits) - 1, b)
def anchors(t, b, thorough):
    """window anchors as bit patterns: 0, the limits, the largest power of the base (and its negative); thorough adds
    limits/base and more powers of the base"""
    bits, s = TYPES[t]
    mx = (1 << (bits - s)) - 1
    neg = lambda x: (1 << bits) - x
    p, pw = 1, []
    while p * b <= mx: p *= b; pw.append(p)
    out = {0, mx, 1 << (bits - 1), pw[-1]}
    if s: out.add(neg(pw[-1]))
    if thorough:
        step = 1 if len(pw) <= 10 else (2 if len(pw) <= 20 else 8)
        out |= set(pw[::step]) | {mx // b}
        if s: out |= {neg(pw[0]), neg(pw[len(pw) // 2]), neg((1 << (bits - 1)) // b)}
    return sorted(out)
def textlen(t, a, b):       # text length of the value whose bit pattern is a
    bits, s = TYPES[t]
    if s and a >= (1 << (bits - 1)): return ndig((1 << bits) - a, b) + 1
    return ndig(a, b)
def value_of(t, pat):     # signed value of a bit pattern
    bits, s = TYPES[t]
    return pat - (1 << bits) if s and pat >= (1 << (bits - 1)) else pat
def candidates(t, a, b):
    """representative values of the window a + [-2^15, 2^15): the text length only changes at powers of the base and at 0"""
    bits, s = TYPES[t]
    m = (1 << bits) - 1
    lo, hi = -32768, 32767
    pats = {(a + d) & m for d in (lo, -1, 0, 1, hi)}
    specials = {0, 1, m, 1 << (bits - 1), (1 << (bits - 1)) - 1}
    p = 1
    while p <= m:
        specials |= {p & m, (p - 1) & m, (-p) & m, (-p + 1) & m, (-p - 1) & m}
        p *= b
    for x in specials:
        d = (x - a) & m
        if d <= hi or d >= (1 << bits) + lo: pats.add(x)
    return [value_of(t, x) for x in pats]
def alive(entry, t, a, b, ln):
    """does the window contain a value outside every open known-finding region of this entry (otherwise the query would be vacuous)"""
    op = open_ids()
    for v in candidates(t, a, b):
        n = ndig(abs(v), b) + (1 if v < 0 else 0)
        if 'C10_to_chars_neg_nondecimal' in op and v < 0 and b != 10: continue
        if entry in ('q_to_chars', 'q_to_chars_def', 'q_from_integer'):
            if 'C10_from_integer_write_before_length_check' in op and v != 0 and ln <= (1 if v < 0 and b == 10 else 0): continue
        if entry in ('q_to_chars', 'q_to_chars_def'):
            if 'C10_to_chars_exact_fit_rejected' in op and v != 0 and n == ln: continue
        if entry == 'q_to_string':
            if n > ln: continue
            if 'C10_to_string_full_capacity' in op and n == ln: continue
        return True
    return False
def q(entry, cfg, unwind, ub, solver='minisat', budget=300):
    return dict(entry=entry, cfg=cfg, unwind=unwind, unwindset=US, budget=budget, ub=ub, nofunc=ub, solver=solver)
def queries(tier, prop='C10'):
    ub = prop == 'C02'
    thorough = tier == 'thorough' and not ub      # the C02 (UB build) run rides on the quick grid
    out = []
    # ---- 8-bit: value and base symbolic, every buffer length
    for t in ['unsigned char', 'signed char'] + (['char'] if thorough else []):
        bits, s = TYPES[t]
        mt = maxtext(t, 2)
        for ln in range(0, mt + 3):
            cfg = {'TY': t, 'LEN': ln, 'WTL': int(ln < bits - s), 'WTLN': int(ln <= bits - s)}
            out.append(q('q_to_chars', cfg, bits + 4, ub))
            if ln in (0, 1, 2, 4, mt, mt + 1) or thorough: out.append(q('q_from_integer', cfg, bits + 4, ub))
            if ln in (0, 1, 3, 4):
                out.append(q('q_to_chars_def', cfg, bits + 4, ub))
                if not ub and (ln == 3 or thorough): out.append(q('q_oracle_fit', cfg, bits + 4, ub))
            if ln == 1:
                out.append(q('q_roundtrip', cfg, bits + 4, ub))
                if not ub: out.append(q('q_oracle_model', cfg, bits + 4, ub))
    # ---- 16-bit: every value; base enumerated (quick) / symbolic (thorough)
    for t in ['unsigned short', 'short']:
        bits, s = TYPES[t]
        if thorough:
            # value and base both symbolic (longer buffers gave no verdict within 900 s on a loaded machine: covered by the enumerated bases below)
            for ln in (0, 1):
                cfg = {'TY': t, 'LEN': ln, 'WTL': int(ln < bits - s), 'WTLN': int(ln <= bits - s)}
                out.append(q('q_to_chars', cfg, bits + 4, ub, 'kissat', 900))
                if ln == 1: out.append(q('q_from_integer', cfg, bits + 4, ub, 'kissat', 900))
            # every base 2..36 enumerated, every value, buffer = longest text + 1
            for b in range(2, 37):
                if b in (2, 10, 16, 36): continue
                nd = ndig((1 << (bits - s)) - 1, b)
                ln = maxtext(t, b) + 1
                cfg = {'TY': t, 'LEN': ln, 'BASE': b, 'WTL': 0, 'WTLN': 0}
                for e in ('q_to_chars', 'q_from_integer', 'q_roundtrip'):
                    out.append(q(e, cfg, max(nd + 3, ln + 2), ub))
        for b in (2, 10, 16, 36):
            nd = ndig((1 << (bits - s)) - 1, b)
            mt = maxtext(t, b)
            for ln in sorted({0, 1, nd - 1, nd, mt + 1}):
                cfg = {'TY': t, 'LEN': ln, 'BASE': b, 'WTL': int(ln < nd), 'WTLN': int(ln <= nd)}
                out.append(q('q_to_chars', cfg, max(nd + 3, ln + 2), ub))
                if ln in (1, nd, mt + 1): out.append(q('q_from_integer', cfg, max(nd + 3, ln + 2), ub))
                if ln == mt + 1:
                    out.append(q('q_roundtrip', cfg, max(nd + 3, ln + 2), ub))
                    if not ub: out.append(q('q_oracle_model', cfg, max(nd + 3, ln + 2), ub))
                    if b == 10: out.append(q('q_to_chars_def', cfg, max(nd + 3, ln + 2), ub))
    # ---- 32/64-bit: base enumerated; value in windows around the anchors
    QUICKWIDE = [(t, b) for t in ('unsigned', 'int', 'unsigned long', 'long') for b in (10, 16)] + [('unsigned', 2), ('unsigned', 36), ('long', 36)]
    wide = list(QUICKWIDE)
    if thorough:
        wide += [('int', 2), ('unsigned', 8), ('int', 8), ('int', 36), ('unsigned long', 2), ('long', 2), ('unsigned long', 8), ('unsigned long', 36),
                 ('unsigned long long', 10), ('long long', 10), ('unsigned long long', 16), ('long long', 16)]
    def add(entry, cfg, uw, t, a, b, ln, sv='minisat', bud=300):
        if alive(entry, t, a, b, ln): out.append(q(entry, cfg, uw, ub, sv, bud))
    for t, b in wide:
        bits, s = TYPES[t]
        nd = ndig((1 << (bits - s)) - 1, b)
        mt = maxtext(t, b)
        heavy = bits == 64 and b not in (8, 16)                        # 64-bit, long digit loops (base 2) or division by a non power of two: the costly windows
        more = thorough and b == 10 and t in ('unsigned', 'int', 'unsigned long')      # thorough: every (second) power of ten, limits/10 as anchors
        base_anc = anchors(t, b, False)
        if heavy: base_anc = [x for x in base_anc if x in (0, (1 << (bits - s)) - 1, 1 << (bits - 1))]
        for a in (sorted(set(base_anc) | set(anchors(t, b, True))) if more else base_anc):
            extra = a not in base_anc
            na = textlen(t, a, b)
            for ln in ([0, 1, 2] if a == 0 else [na - 1, na, na + 1]):
                cfg = {'TY': t, 'LEN': ln, 'BASE': b, 'ANCHOR': '%dULL' % a}
                uw = max(nd + 3, ln + 2)
                sv, bud = ('minisat', 300) if not heavy else ('kissat', 300)
                if ln != na - 1 or not heavy: add('q_to_chars', cfg, uw, t, a, b, ln, sv, bud)
                if ln in (2, na + 1) and not extra:
                    add('q_from_integer', cfg, uw, t, a, b, ln, sv, bud)
                    if not heavy or a == 0: add('q_roundtrip', cfg, uw, t, a, b, ln, sv, bud)
                    if b == 10 and (not heavy or a == 0): add('q_to_chars_def', cfg, uw, t, a, b, ln, sv, bud)
                    if thorough and b in (10, 36) and a in (0, (1 << (bits - s)) - 1): out.append(q('q_oracle_model', dict(cfg), uw, ub, sv, bud))
        if thorough and bits == 32 and (s == 0 or b != 10) and (t, b) in QUICKWIDE + [('int', 2), ('unsigned', 8), ('int', 8), ('int', 36)]:
            # full value range: reference text as oracle, exported VC decided by z3 (word level), SAT as fallback.
            # (int base 10 and the 64-bit types gave no verdict within the budget: outside the bound)
            for ln in sorted({1, nd, mt + 1}):
                cfg = {'TY': t, 'LEN': ln, 'BASE': b, 'REFORACLE': 1, 'NOWIT': 1}
                out.append(q('q_to_chars', cfg, max(nd + 3, ln + 2), ub, ['kissat', 'z3'] if b == 2 else ['z3', 'kissat'], 900))
            if b in (2, 8, 16): out.append(q('q_oracle_model', {'TY': t, 'LEN': mt + 1, 'BASE': b, 'NOWIT': 1}, nd + 4, ub, 'kissat', 900))
    # ---- to_string<CAP>
    for t in ['int', 'unsigned', 'long', 'unsigned long'] + (['long long', 'unsigned long long'] if thorough else []):
        bits, s = TYPES[t]
        anc = anchors(t, 10, False)
        if True: anc = [x for x in anc if x in (0, (1 << (bits - s)) - 1, 1 << (bits - 1))]
        for a in anc:
            na = textlen(t, a, 10)
            for cap in ([1, 2, 3] if a == 0 else [na, na + 1]):
                cfg = {'TY': t, 'CAP': cap, 'TOSTRING': 1, 'LEN': 1, 'ANCHOR': '%dULL' % a}
                if alive('q_to_string', t, a, 10, cap): out.append(q('q_to_string', cfg, max(cap, 21) + 3, ub, 'minisat' if bits == 32 else 'kissat'))
    return out
