import os
PROPERTIES = ['C10', 'C02']
BOUNDS = {'quick': 'tbd', 'thorough': 'tbd'}
ASSUMPTIONS = []
US = {'ll_ctlz_32.0': 34, 'll_ctlz_64.0': 66}
TYPES = {'unsigned char': (8, 0), 'signed char': (8, 1), 'char': (8, 1), 'unsigned short': (16, 0), 'short': (16, 1), 'unsigned': (32, 0), 'int': (32, 1),
         'unsigned long': (64, 0), 'long': (64, 1), 'unsigned long long': (64, 0), 'long long': (64, 1)}
def ndig(v, b):
    n = 0
    while v: v //= b; n += 1
    return max(n, 1)
def queries(tier, prop='C10'):
    ub = prop == 'C02'
    out = []
    sv = os.environ.get('SV', 'minisat')
    for t in os.environ.get('TYS', 'int').split(','):
        bits, s = TYPES[t]
        for b in [int(x) for x in os.environ.get('BASES', '10').split(',')]:
            for ln in [int(x) for x in os.environ.get('LENS', '5').split(',')]:
                mx = (1 << (bits - s)) - 1
                cfg = {'TY': t, 'LEN': ln, 'WTL': int(ln < ndig(mx, b or 2)), 'WTLN': int(ln <= ndig(mx, b or 2))}
                if b: cfg['BASE'] = b
                if os.environ.get('REF'): cfg['REFORACLE'] = 1; cfg['NOWIT'] = 1; cfg['WTL'] = 0; cfg['WTLN'] = 0
                for e in os.environ.get('ENTS', 'q_to_chars').split(','):
                    out.append(dict(entry=e, cfg=cfg, unwind=max(ln + 2, (ndig((1 << bits) - 1, b) + 3 if b else bits + 4)), unwindset=US, budget=300, ub=ub, nofunc=ub, solver=sv.split('+')))
    return out
