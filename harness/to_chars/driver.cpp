// C10 driver (formatting side). Oracle: libstdc++ std::to_chars compiled through the same clang -> IR -> C pipeline.
// LEN (buffer length) and TY (integer type) are enumerated by spec.py; value is symbolic over the full range of VT;
// base is symbolic over 2..36 unless BASE is given (32/64-bit types: division by a constant).
#include "vf.h"
#include <charconv>
#include <limits>
#include <type_traits>
#ifndef TY
#define TY int
#endif
#ifndef LEN
#define LEN 4
#endif
#ifndef CAP
#define CAP 12
#endif
using VT = TY;
using sz = size_t;
extern "C" {
int k_to_chars(char* first, char* last, VT val, int base, char const** optr);
int k_to_chars_def(char* first, char* last, VT val, char const** optr);
int k_from_integer(VT num, char* str, sz length, int base, char** oend);
int k_from_chars(char const* first, char const* last, VT* value, int base, char const** optr);
sz k_to_string(VT val, char* out);
}
// value under test: the full range of VT, or (ANCHOR given, wide types) the window ANCHOR + [-2^15, 2^15) with wrap-around
static VT nd_T()
{
#ifdef ANCHOR
    return VT(uint64_t(ANCHOR) + uint64_t(int64_t(int16_t(vf_nd_u16()))));
#else
    if constexpr (sizeof(VT) == 1) return VT(vf_nd_u8());
    else if constexpr (sizeof(VT) == 2) return VT(vf_nd_u16());
    else if constexpr (sizeof(VT) == 4) return VT(vf_nd_u32());
    else return VT(vf_nd_u64());
#endif
}
static int nd_base()
{
#ifdef BASE
    return BASE;
#else
    int b = vf_nd_u8(); vf_assume(b >= 2 && b <= 36); return b;
#endif
}
static bool neg(VT v) { if constexpr (std::is_signed_v<VT>) return v < 0; else return false; }
// longest possible text of a VT in any base: all binary digits and a sign
static constexpr sz MAXTXT = sizeof(VT) * 8 + 1;
// longest text in the base(s) of this configuration (loops over a text are bounded by it)
static constexpr sz txtmax()
{
#ifdef BASE
    using U = std::make_unsigned_t<VT>;
    U m = std::is_signed_v<VT> ? U(U(1) << (sizeof(VT) * 8 - 1)) : U(~U(0));
    sz n = 0; while (m != 0) { m = U(m / U(BASE)); n++; }
    return n + (std::is_signed_v<VT> ? 1 : 0);
#else
    return MAXTXT;
#endif
}
static constexpr sz TXTMAX = txtmax();
static constexpr sz posdigits10() { VT m = std::numeric_limits<VT>::max(); sz n = 0; while (m != 0) { m = VT(m / 10); n++; } return n; }
// branch witnesses are demanded only where spec.py says the branch is reachable outside the known-finding regions
// (queries decided through the exported-VC route, NOWIT, must not contain inner witnesses: only the end witness is checked there;
//  window queries, ANCHOR, have no inner witnesses either: which branches a window reaches depends on the anchor)
#if LEN >= 1 && !defined(NOWIT) && !defined(ANCHOR)
#define WITNESS_FITS vf_witness("fits")
#else
#define WITNESS_FITS ((void)0)
#endif
#if LEN >= 2 && !defined(NOWIT) && !defined(ANCHOR)
#define WITNESS_FITS_NT vf_witness("fits")
#else
#define WITNESS_FITS_NT ((void)0)
#endif
#if defined(WTL) && WTL
#define WITNESS_TOO_LARGE vf_witness("too_large")
#else
#define WITNESS_TOO_LARGE ((void)0)
#endif
#if defined(WTLN) && WTLN
#define WITNESS_TOO_LARGE_NT vf_witness("too_large")
#else
#define WITNESS_TOO_LARGE_NT ((void)0)
#endif

// Reference text (plain quotient/remainder loop on the value). Used as the oracle for the 32/64-bit types, where
// std::to_chars (two digits per step, table lookups) against etl (one digit per step) is beyond the solver budget in
// base 10/36. q_oracle_model proves ref_text == std::to_chars for all values and bases of the 8/16-bit types and for the
// power-of-two bases of the wider ones; model_check.cpp compares it natively with std::to_chars on the wide types.
extern "C" __attribute__((noinline)) sz ref_text(char* out, VT val, int base)
{
    // C++ division truncates toward zero, so for a negative value the remainders are <= 0 and their magnitudes are the
    // digits of |val| (no negation of the most negative value needed)
    char tmp[sizeof(VT) * 8]; sz n = 0; VT v = val;
    do {
        int d = int(v % VT(base)); if (d < 0) d = -d;
        tmp[n++] = char(d < 10 ? '0' + d : 'a' + (d - 10));
        v = VT(v / VT(base));
    } while (v != 0);
    sz k = 0;
    if (neg(val)) out[k++] = '-';
    while (n != 0) out[k++] = tmp[--n];
    return k;
}
// text of val in base: e must have MAXTXT bytes; returns the length
static sz oracle_text(char* e, VT val, int base)
{
#ifdef REFORACLE
    return ref_text(e, val, base);
#else
    auto full = std::to_chars(e, e + (sizeof(VT) * 8 + 1), val, base); // always fits
    return sz(full.ptr - e);
#endif
}
Q q_oracle_model()
{
    VT val = nd_T(); int base = nd_base();
    char* e = (char*)vf_alloc(MAXTXT); auto full = std::to_chars(e, e + MAXTXT, val, base); sz n = sz(full.ptr - e);
    char* r = (char*)vf_alloc(MAXTXT); sz rn = ref_text(r, val, base);
    vf_assert(full.ec == std::errc{} && rn == n, "reference text length == std::to_chars");
    for (sz i = 0; i < TXTMAX; i++) if (i < n) vf_assert(r[i] == e[i], "reference text == std::to_chars");
    vf_assert(n <= TXTMAX, "text length bound");
}

// to_chars(first, last, value, base) against std::to_chars for a buffer of exactly LEN bytes
template <bool defbase> static void check_to_chars()
{
    char* buf = (char*)vf_alloc(LEN); char* orig = (char*)vf_alloc(LEN);
    for (sz i = 0; i < LEN; i++) { buf[i] = orig[i] = char(vf_nd_u8()); }
    VT val = nd_T(); int base = defbase ? 10 : nd_base();
    // oracle first (the known-finding regions are stated in terms of the length of the std text)
    char* e = (char*)vf_alloc(MAXTXT);
    sz n = oracle_text(e, val, base);
    bool fits = n <= LEN;                                         // [charconv.to.chars]: value_too_large iff the text does not fit (q_oracle_fit)
    VF_KNOWN(C10_from_integer_write_before_length_check, val != 0 && LEN <= (neg(val) && base == 10 ? 1 : 0));
    VF_KNOWN(C10_to_chars_neg_nondecimal, neg(val) && base != 10);
    VF_KNOWN(C10_to_chars_exact_fit_rejected, val != 0 && n == LEN);
    char const** op = (char const**)vf_alloc(sizeof(char*));
    int ec = defbase ? k_to_chars_def(buf, buf + LEN, val, op) : k_to_chars(buf, buf + LEN, val, base, op);
    if (fits) {
        WITNESS_FITS;
        vf_assert(ec == 0, "to_chars succeeds whenever the std text fits");
        vf_assert(*op == buf + n, "to_chars ptr == std (one past the last character written)");
        for (sz i = 0; i < LEN; i++) {
            if (i < n) vf_assert(buf[i] == e[i], "to_chars digits == std::to_chars");
            else vf_assert(buf[i] == orig[i], "to_chars leaves [ptr, last) untouched on success (as libstdc++ does)");
        }
    } else {
        if constexpr (!defbase) WITNESS_TOO_LARGE;
#if !defined(ANCHOR) && !defined(NOWIT)
        if constexpr (defbase && LEN < posdigits10()) vf_witness("too_large_base10");
#endif
        vf_assert(ec == 1, "to_chars reports value_too_large when the std text does not fit");
        vf_assert(*op == buf + LEN, "to_chars ptr == last on value_too_large");
    }
}
// the oracle's own notion of "fits": std::to_chars on a LEN-byte buffer succeeds iff the full text has <= LEN characters, and then writes the same text
Q q_oracle_fit()
{
    VT val = nd_T(); int base = nd_base();
    char* e = (char*)vf_alloc(MAXTXT); auto full = std::to_chars(e, e + MAXTXT, val, base); sz n = sz(full.ptr - e);
    char* e2 = (char*)vf_alloc(LEN); auto er = std::to_chars(e2, e2 + LEN, val, base);
    vf_assert(full.ec == std::errc{}, "std text always fits sizeof(T)*8+1 characters");
    vf_assert((er.ec == std::errc{}) == (n <= LEN), "std fits iff text length <= LEN");
    if (er.ec == std::errc{}) { vf_assert(er.ptr == e2 + n, "same length"); for (sz i = 0; i < LEN; i++) if (i < n) vf_assert(e2[i] == e[i], "same text"); }
    else { vf_assert(er.ec == std::errc::value_too_large && er.ptr == e2 + LEN, "std error result"); }
}
Q q_to_chars() { check_to_chars<false>(); }
Q q_to_chars_def() { check_to_chars<true>(); }

// strings::from_integer (default options: NUL-terminated): digits == std::to_chars, then '\0'; needs text length + 1 <= LEN
Q q_from_integer()
{
    char* buf = (char*)vf_alloc(LEN); char* orig = (char*)vf_alloc(LEN);
    for (sz i = 0; i < LEN; i++) { buf[i] = orig[i] = char(vf_nd_u8()); }
    VT val = nd_T(); int base = nd_base();
    char* e = (char*)vf_alloc(MAXTXT);
    sz n = oracle_text(e, val, base);
    bool fits = n + 1 <= LEN;
    VF_KNOWN(C10_from_integer_write_before_length_check, val != 0 && LEN <= (neg(val) && base == 10 ? 1 : 0));
    VF_KNOWN(C10_to_chars_neg_nondecimal, neg(val) && base != 10);
    char** oe = (char**)vf_alloc(sizeof(char*));
    int err = k_from_integer(val, buf, LEN, base, oe);
    if (fits) {
        WITNESS_FITS_NT;
        vf_assert(err == 0, "from_integer succeeds whenever text and terminator fit");
        vf_assert(*oe == buf + n, "from_integer end == one past the last digit");
        for (sz i = 0; i < LEN; i++) {
            if (i < n) vf_assert(buf[i] == e[i], "from_integer digits == std::to_chars");
            else if (i == n) vf_assert(buf[i] == '\0', "from_integer writes the terminator");
            else vf_assert(buf[i] == orig[i], "from_integer leaves the rest of the buffer untouched");
        }
    } else {
        WITNESS_TOO_LARGE_NT;
        vf_assert(err == 1, "from_integer reports overflow when text and terminator do not fit");
    }
}

// round trip: from_chars(to_chars(v, base), base) == v, consuming exactly the text, in a buffer that always fits
Q q_roundtrip()
{
    VT val = nd_T(); int base = nd_base();
    VF_KNOWN(C10_to_chars_neg_nondecimal, neg(val) && base != 10);
    char* buf = (char*)vf_alloc(MAXTXT);
    char const** op = (char const**)vf_alloc(sizeof(char*));
    int ec = k_to_chars(buf, buf + MAXTXT, val, base, op);
    vf_assert(ec == 0, "to_chars succeeds in a buffer of sizeof(T)*8+1 bytes");
    char const* end = *op;
    vf_assert(end > buf && end <= buf + MAXTXT, "to_chars ptr inside the buffer");
    VT* out = (VT*)vf_alloc(sizeof(VT)); *out = VT(~val);
    int ec2 = k_from_chars(buf, end, out, base, op);
    vf_assert(ec2 == 0, "from_chars accepts the text to_chars produced");
    vf_assert(*op == end, "from_chars consumes the whole text");
    vf_assert(*out == val, "from_chars(to_chars(v)) == v");
}

#ifdef TOSTRING
// etl::to_string<CAP>(VT) against std::to_chars base 10, for every value whose text fits the result type (size <= CAP)
Q q_to_string()
{
    VT val = nd_T();
    char* e = (char*)vf_alloc(MAXTXT);
    sz n = oracle_text(e, val, 10);
    vf_assume(n <= CAP); // "whenever they fit": longer texts violate to_string's precondition (C05)
    VF_KNOWN(C10_to_string_full_capacity, n == CAP);
    char* out = (char*)vf_alloc(CAP + 1);
    sz r = k_to_string(val, out);
    vf_assert(r == n, "to_string size == length of std::to_chars text");
    for (sz i = 0; i < CAP; i++) if (i < n) vf_assert(out[i] == e[i], "to_string characters == std::to_chars base 10");
    vf_assert(out[n] == '\0', "to_string result is NUL-terminated");
}
#endif
