// C13 family ce_str, builtin TU (names kr_*): the public etl::str*/mem*/wmem* entries as clang compiles them
// (`#if defined(__clang__)`: __builtin_strlen, __builtin_strcmp, ... - builtins that clang evaluates itself in constant expressions
// and lowers to libc calls at run time; modelled by the reference loops of engine/ll_rt_libc.h).
// g++ (native replay / translator validation only, never decides a query) cannot compile the clang branch of the headers, so there the
// builtin call of that branch is written out (CLANGCFG), exactly as family cstring does.
#include "vf.h"
#include <stdint.h>
#include <stddef.h>
#if defined(__clang__)
#define CLANGCFG 0
#else
#define CLANGCFG 1
#include <wchar.h>
#endif
#include <etl/cstring.hpp>
#include <etl/cwchar.hpp>
using sz = etl::size_t;
using pd = long;
template <class P> static pd off(P const* r, P const* base) { return r != nullptr ? pd(r - base) : pd(-1); }
#if CLANGCFG
K sz kr_strlen(char const* s) { return __builtin_strlen(s); }
K int kr_strcmp(char const* a, char const* b) { return __builtin_strcmp(a, b); }
K int kr_strncmp(char const* a, char const* b, sz n) { return __builtin_strncmp(a, b, n); }
K pd kr_strchr(char const* s, int c) { return off(static_cast<char const*>(__builtin_strchr(s, c)), s); }
K pd kr_strchr_nc(char* s, int c) { return off(static_cast<char*>(__builtin_strchr(s, c)), s); }
K pd kr_memchr(char const* s, int c, sz n) { return off(static_cast<char const*>(__builtin_memchr(static_cast<void const*>(s), c, n)), s); }
K pd kr_memchr_nc(char* s, int c, sz n) { return off(static_cast<char*>(__builtin_memchr(static_cast<void*>(s), c, n)), s); }
K int kr_memcmp(char const* a, char const* b, sz n) { return __builtin_memcmp(a, b, n); }
K pd kr_memcpy(char* d, char const* s, sz n) { return off(static_cast<char*>(__builtin_memcpy(d, s, n)), d); }
K pd kr_memmove(char* d, char const* s, sz n) { return off(static_cast<char*>(__builtin_memmove(d, s, n)), d); }
K pd kr_wmemcpy(wchar_t* d, wchar_t const* s, sz n) { return off(::wmemcpy(d, s, n), d); }    // g++ has no __builtin_wmemcpy; the clang builtin lowers to this libc call
K pd kr_wmemmove(wchar_t* d, wchar_t const* s, sz n) { return off(::wmemmove(d, s, n), d); }
#else
K sz kr_strlen(char const* s) { return etl::strlen(s); }
K int kr_strcmp(char const* a, char const* b) { return etl::strcmp(a, b); }
K int kr_strncmp(char const* a, char const* b, sz n) { return etl::strncmp(a, b, n); }
K pd kr_strchr(char const* s, int c) { return off(etl::strchr(s, c), s); }
K pd kr_strchr_nc(char* s, int c) { return off(etl::strchr(s, c), s); }
K pd kr_memchr(char const* s, int c, sz n) { return off(static_cast<char const*>(etl::memchr(static_cast<void const*>(s), c, n)), s); }
K pd kr_memchr_nc(char* s, int c, sz n) { return off(static_cast<char*>(etl::memchr(static_cast<void*>(s), c, n)), s); }
K int kr_memcmp(char const* a, char const* b, sz n) { return etl::memcmp(a, b, n); }
K pd kr_memcpy(char* d, char const* s, sz n) { return off(static_cast<char*>(etl::memcpy(d, s, n)), d); }
K pd kr_memmove(char* d, char const* s, sz n) { return off(static_cast<char*>(etl::memmove(d, s, n)), d); }
K pd kr_wmemcpy(wchar_t* d, wchar_t const* s, sz n) { return off(etl::wmemcpy(d, s, n), d); }
K pd kr_wmemmove(wchar_t* d, wchar_t const* s, sz n) { return off(etl::wmemmove(d, s, n), d); }
#endif
