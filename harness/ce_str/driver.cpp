// C13 driver (family ce_str): the ten str*/mem*/wmem* functions whose public header has two branches (compiler builtin under clang,
// constexpr etl::detail template otherwise) must give the same answer on both: kc_* (portable templates) vs kr_* (builtins), same
// symbolic arguments. Strings live in exact-size blocks (every access of either path is bounds-checked); lengths AN / BN are
// enumerated, characters, counts, offsets and the searched character are symbolic. Results of the strcmp family are compared by
// sign (the only thing that is specified), pointers as offsets. Never includes tetl.
#include <stdint.h>
#include <stddef.h>
#include "vf.h"
#ifndef AN
#define AN 3
#endif
#ifndef BN
#define BN 2
#endif
using sz = size_t;
using pd = long;
#define PAIR1(R, n, ...) R kc_##n(__VA_ARGS__); R kr_##n(__VA_ARGS__);
extern "C" {
PAIR1(sz, strlen, char const*) PAIR1(int, strcmp, char const*, char const*) PAIR1(int, strncmp, char const*, char const*, sz)
PAIR1(pd, strchr, char const*, int) PAIR1(pd, strchr_nc, char*, int) PAIR1(pd, memchr, char const*, int, sz) PAIR1(pd, memchr_nc, char*, int, sz)
PAIR1(int, memcmp, char const*, char const*, sz) PAIR1(pd, memcpy, char*, char const*, sz) PAIR1(pd, memmove, char*, char const*, sz)
PAIR1(pd, wmemcpy, wchar_t*, wchar_t const*, sz) PAIR1(pd, wmemmove, wchar_t*, wchar_t const*, sz)
}
template <class C> static C nd_ch() { if (sizeof(C) == 1) return C(vf_nd_u8()); return C(vf_nd_u32()); }
// exact-size block of n characters, all symbolic (zeros included), no terminator
template <class C> static C* sym(sz n) { C* p = (C*)vf_alloc(n * sizeof(C)); for (sz i = 0; i < n; i++) p[i] = nd_ch<C>(); return p; }
// C string of length exactly n: block of n+1, characters symbolic non-zero, terminator forced
static char* symz(sz n) { char* p = (char*)vf_alloc(n + 1); for (sz i = 0; i < n; i++) { p[i] = nd_ch<char>(); vf_assume(p[i] != 0); } p[n] = 0; return p; }
template <class C> static C* dup(C const* s, sz n) { C* p = (C*)vf_alloc(n * sizeof(C)); for (sz i = 0; i < n; i++) p[i] = s[i]; return p; }
static int sgn(int x) { return (x > 0) - (x < 0); }
#define MINAB (AN < BN ? AN : BN)

Q q_strlen()
{
    char* s = symz(AN);
    sz c = kc_strlen(s);
    vf_assert(c == kr_strlen(s), "strlen(s): portable template == builtin");
}
Q q_strcmp()
{
    char* a = symz(AN); char* b = symz(BN);
    int c = kc_strcmp(a, b);
#if AN > 0 && BN > 0
    if (c < 0 && (unsigned char)a[0] >= 0x80) vf_witness("strcmp_high_char_less");
#endif
    int r = kr_strcmp(a, b);
    vf_assert(sgn(c) == sgn(r), "strcmp(a, b): sign of portable template == sign of builtin");
}
// terminated strings, count over the full size_t range
Q q_strncmp()
{
    char* a = symz(AN); char* b = symz(BN); sz n = vf_nd_u64();
    int c = kc_strncmp(a, b, n);
#if AN > 0 && BN > 0
    if (c == 0 && n > 0 && n < MINAB + 1) vf_witness("strncmp_equal_prefix");
#endif
    int r = kr_strncmp(a, b, n);
    vf_assert(sgn(c) == sgn(r), "strncmp(a, b, n): sign of portable template == sign of builtin");
}
// unterminated blocks (zeros allowed anywhere), count <= both block lengths
Q q_strncmp_u()
{
    char* a = sym<char>(AN); char* b = sym<char>(BN); sz n = vf_nd_u64(); vf_assume(n <= MINAB);
    int c = kc_strncmp(a, b, n);
    int r = kr_strncmp(a, b, n);
    vf_assert(sgn(c) == sgn(r), "strncmp(a, b, n) on unterminated blocks: sign of portable template == sign of builtin");
}
Q q_strchr()
{
    char* s = symz(AN); int ch = (int)vf_nd_u32();
    pd c = kc_strchr(s, ch);
    if (c == AN) vf_witness("strchr_finds_terminator");
    pd r = kr_strchr(s, ch);
    vf_assert(c == r, "strchr(const char*, ch): portable template == builtin");
    vf_assert(kc_strchr_nc(s, ch) == kr_strchr_nc(s, ch), "strchr(char*, ch): portable template == builtin");
}
Q q_memchr()
{
    char* s = sym<char>(AN); int ch = (int)vf_nd_u32(); sz n = vf_nd_u64(); vf_assume(n <= AN);
    pd c = kc_memchr(s, ch, n);
#if AN > 1
    if (c == AN - 1) vf_witness("memchr_last");
#endif
    pd r = kr_memchr(s, ch, n);
    vf_assert(c == r, "memchr(const void*, ch, n): portable template == builtin");
    vf_assert(kc_memchr_nc(s, ch, n) == kr_memchr_nc(s, ch, n), "memchr(void*, ch, n): portable template == builtin");
}
Q q_memcmp()
{
    char* a = sym<char>(AN); char* b = sym<char>(BN); sz n = vf_nd_u64(); vf_assume(n <= MINAB);
    int c = kc_memcmp(a, b, n);
#if AN > 1 && BN > 1
    if (c > 0 && a[0] == 0 && b[0] == 0) vf_witness("memcmp_past_common_zero");
#endif
    int r = kr_memcmp(a, b, n);
    vf_assert(sgn(c) == sgn(r), "memcmp(a, b, n): sign of loop == sign of builtin");
}
// copy functions: the same symbolic destination contents for both paths, every destination byte compared afterwards
#define COPYQ(NAME, C)                                                                                                 \
    Q q_##NAME()                                                                                                       \
    {                                                                                                                  \
        C* s = sym<C>(AN); C* d1 = sym<C>(AN); C* d2 = dup<C>(d1, AN); sz n = vf_nd_u64(); vf_assume(n <= AN);         \
        pd c = kc_##NAME(d1, s, n);                                                                                    \
        if (AN >= 1 && n == AN) vf_witness(#NAME "_whole_block");                                                                 \
        pd r = kr_##NAME(d2, s, n);                                                                                    \
        vf_assert(c == 0 && r == 0, #NAME "(d, s, n) returns d on both paths");                                        \
        for (sz i = 0; i < AN; i++) vf_assert(d1[i] == d2[i], #NAME "(d, s, n): destination identical on both paths"); \
    }
COPYQ(memcpy, char)
COPYQ(wmemcpy, wchar_t)
// memmove: source and destination are ranges of ONE block (every overlap, both directions)
#define MOVEQ(NAME, C)                                                                                                 \
    Q q_##NAME()                                                                                                       \
    {                                                                                                                  \
        C* b1 = sym<C>(AN); C* b2 = dup<C>(b1, AN);                                                                    \
        sz d = vf_nd_u64(), s = vf_nd_u64(), n = vf_nd_u64();                                                          \
        vf_assume(d <= AN && s <= AN && n <= AN - d && n <= AN - s);                                                   \
        pd c = kc_##NAME(b1 + d, b1 + s, n);                                                                           \
        if (AN >= 3 && n >= 2 && d == s + 1) vf_witness(#NAME "_overlap_forward");                                                \
        pd r = kr_##NAME(b2 + d, b2 + s, n);                                                                           \
        vf_assert(c == 0 && r == 0, #NAME "(d, s, n) returns d on both paths");                                        \
        for (sz i = 0; i < AN; i++) vf_assert(b1[i] == b2[i], #NAME "(d, s, n): block identical on both paths");       \
    }
MOVEQ(memmove, char)
MOVEQ(wmemmove, wchar_t)
