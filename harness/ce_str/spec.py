"""C13 family ce_str: the C-string functions whose public header has a compiler-builtin branch (clang) and a portable constexpr
template branch (everything else): both branches must answer alike. Also serves C02 with the UB build of the same queries."""
PROPERTIES = ['C13', 'C02']
KERNEL2 = 'kernel_rt.cpp'

BOUNDS = {
    'quick': 'strlen, strcmp, strncmp (terminated strings, count over all of size_t; and unterminated blocks with count <= length), strchr (both overloads, '
             'character over all of int), memchr (both overloads), memcmp, memcpy, memmove (one block, destination offset / source offset / count symbolic: every '
             'overlap), wmemcpy, wmemmove: first string / block length AN in 0..4, second BN in 0..3 (enumerated, exact-size blocks), every character symbolic over '
             'its full range (char 0..255, wchar_t all 2^32 values; non-zero inside terminated strings). Functional (portable template == builtin) and UB build',
    'thorough': 'AN in 0..8, BN in 0..5; otherwise as quick',
}
ASSUMPTIONS = [
    'C13: these headers do not test is_constant_evaluated(): the branch is chosen by `#if defined(__clang__)`. With clang, compile time and run time both use the '
    'builtin (clang\'s constant evaluator implements __builtin_strlen etc. itself - trusted); with gcc both use the etl::detail templates (same code at compile '
    'time and run time). What is decided here is that the two configurations agree, i.e. that the hand-written routine equals the builtin (DESIGN.md C13)',
    'C13: the builtins are modelled by the reference loops of engine/ll_rt_libc.h (strlen, strcmp, strncmp, strchr, memchr, memcmp) and ll_memcpy/ll_memmove; family '
    'cstring (C18) validates reference loops of the same shape against glibc',
    'C13: kc_* = public entries compiled with __clang__ undefined (the real #else branches); kr_* = public entries as clang compiles them',
    'C13: str* arguments are terminated strings with the terminator in the last slot of their block; mem*/wmem*/strncmp_u use unterminated blocks with count <= block '
    'length; memcpy/wmemcpy source and destination are distinct blocks; strcmp/strncmp/memcmp results are compared by sign only',
    'C13: strrchr, strcpy, strncpy, strcat, strncat, strspn, strcspn, strpbrk, strstr, memset and all wcs* functions have a single implementation in tetl '
    '(no builtin branch): nothing to compare here; their agreement with the C library is C18 (family cstring)',
]

TWO = ['strcmp', 'strncmp', 'strncmp_u', 'memcmp']
ONE = ['strlen', 'strchr', 'memchr', 'memcpy', 'memmove', 'wmemcpy', 'wmemmove']


def queries(tier, prop='C13'):
    amax, bmax = (4, 3) if tier == 'quick' else (8, 5)
    out = []
    modes = [(True, True)] if prop == 'C02' else [(False, False), (True, True)]
    for ub, nofunc in modes:
        for a in range(amax + 1):
            for b in range(bmax + 1):
                nb = 4 * (a + 2) + 2   # byte loops of the runtime (ll_memcpy / ll_memmove for wchar_t blocks)
                us = {'ll_memcpy.0': nb, 'll_memmove.0': nb, 'll_memmove.1': nb, 'll_memset.0': nb}
                for e in TWO + (ONE if b == 0 else []):
                    out.append(dict(entry='q_' + e, cfg={'AN': a, 'BN': b, 'UBQ': int(ub)}, unwind=a + b + 4, unwindset=us, solver=['cadical', 'kissat'],
                                    budget=120 if tier == 'quick' else 600, ub=ub, nofunc=nofunc))
    return out
