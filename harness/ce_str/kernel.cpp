// C13 family ce_str, portable TU (names kc_*): the public etl::str*/mem*/wmem* entries in the configuration in which they are the
// constexpr etl::detail templates of _strings/cstr.hpp (what gcc compiles, `#else` of `#if defined(__clang__)`). Under clang (the
// solver build) __clang__ is undefined before the first tetl header so the real `#else` branches of the real headers are compiled -
// nothing is replicated (same technique as family cstring, C18). Under g++ (native replay) this is the configuration anyway.
// etl::is_constant_evaluated() is true here as in the other ce_* families (no function of this TU tests it).
// Thin wrappers, no logic besides marshalling (pointer results as offsets, -1 = null).
#include "vf.h"
#include <stdint.h>
#include <stddef.h>
#if defined(__clang__)
#undef __clang__
#endif
#define __builtin_is_constant_evaluated() true
#include <etl/cstring.hpp>
#include <etl/cwchar.hpp>
using sz = etl::size_t;
using pd = long;
template <class P> static pd off(P const* r, P const* base) { return r != nullptr ? pd(r - base) : pd(-1); }
K sz kc_strlen(char const* s) { return etl::strlen(s); }
K int kc_strcmp(char const* a, char const* b) { return etl::strcmp(a, b); }
K int kc_strncmp(char const* a, char const* b, sz n) { return etl::strncmp(a, b, n); }
K pd kc_strchr(char const* s, int c) { return off(etl::strchr(s, c), s); }
K pd kc_strchr_nc(char* s, int c) { return off(etl::strchr(s, c), s); }
K pd kc_memchr(char const* s, int c, sz n) { return off(static_cast<char const*>(etl::memchr(static_cast<void const*>(s), c, n)), s); }
K pd kc_memchr_nc(char* s, int c, sz n) { return off(static_cast<char*>(etl::memchr(static_cast<void*>(s), c, n)), s); }
K int kc_memcmp(char const* a, char const* b, sz n) { return etl::memcmp(a, b, n); }
K pd kc_memcpy(char* d, char const* s, sz n) { return off(static_cast<char*>(etl::memcpy(d, s, n)), d); }
K pd kc_memmove(char* d, char const* s, sz n) { return off(static_cast<char*>(etl::memmove(d, s, n)), d); }
K pd kc_wmemcpy(wchar_t* d, wchar_t const* s, sz n) { return off(etl::wmemcpy(d, s, n), d); }
K pd kc_wmemmove(wchar_t* d, wchar_t const* s, sz n) { return off(etl::wmemmove(d, s, n), d); }
