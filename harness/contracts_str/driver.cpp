// C05 driver (strings): basic_inplace_string<char,CAP> and to_string<TSCAP>. Pre-state: a string of NA symbolic characters
// (NA enumerated, any character value incl. NUL) constructed into a block of symbolic bytes; one operation per query with
// unconstrained arguments (valid and violating in the same query); see contracts_common/c05.h for what is asserted.
// The oracle for "valid" is the documented precondition (the \pre comments of the header; where there is none, what
// std::basic_string requires of the same call).
#include "c05.h"
#ifndef CAP
#define CAP 7
#endif
#ifndef NA
#define NA 3
#endif
#ifndef NB
#define NB 2
#endif
#ifndef TSCAP
#define TSCAP 4
#endif
typedef int64_t i64;
extern "C" {
u64 k_is_sizeof(); u64 k_is_size(void const*); char const* k_is_data(void const*);
void k_is_ctor_pn(void*, char const*, u64); void k_is_ctor_cstr(void*, char const*); void k_is_ctor_nc(void*, u64, char);
void k_is_asg_cstr(void*, char const*); void k_is_assign_nc(void*, u64, char); void k_is_assign_pn(void*, char const*, u64); void k_is_assign_cstr(void*, char const*);
char k_is_front(void*); char k_is_front_c(void const*); char k_is_back(void*); char k_is_back_c(void const*);
void k_is_push_back(void*, char); void k_is_pop_back(void*); void k_is_clear(void*);
void k_is_erase_it(void*, i64, i64); void k_is_erase_pos(void*, i64); void k_is_erase_ic(void*, u64, u64);
void k_is_repl_pcs(void*, u64, u64, void const*); void k_is_repl_pcspc(void*, u64, u64, void const*, u64, u64);
void k_is_repl_pcpc(void*, u64, u64, char const*, u64); void k_is_repl_pcc(void*, u64, u64, char const*);
u64 k_ts_sizeof(); void k_to_string(void*, int); u64 k_ts_size(void const*);
}
extern "C" __attribute__((noinline)) void* d_sym_block(u64 n)
{
    unsigned char* p = (unsigned char*)vf_alloc(n);
    for (u64 i = 0; i < n; i++) p[i] = vf_nd_u8();
    return p;
}
static constexpr i64 PMAX = i64(1) << 20;
static inline i64 nd_pos() { i64 p = (i64)vf_nd_u64(); vf_assume(p >= -PMAX && p <= PMAX); return p; }
// string object holding n symbolic characters
static inline void* is_make_n(unsigned n)
{
    char* src = (char*)d_sym_block(n);
    void* p = d_sym_block(k_is_sizeof()); k_is_ctor_pn(p, src, n);
    vf_assert(k_is_size(p) == n, "pre-state installed");
    return p;
}
static inline void* is_make() { void* p = is_make_n(NA); c05_watch0(p, k_is_sizeof()); return p; }
// C string in a block of CAP + 2 characters: terminator forced at the end, any character (incl. NUL) before it -> strlen in 0..CAP+1
static inline char* cstr_any(u64* len)
{
    char* s = (char*)d_sym_block(CAP + 2); s[CAP + 1] = 0;
    u64 n = 0; while (s[n] != 0) n++;
    *len = n; c05_watch1(s, CAP + 2);
    return s;
}

// =====================================================================================================================
// constructors / assignment: the new length must not exceed the capacity
// =====================================================================================================================
Q q_is_ctor_pn()
{
    u64 n = vf_nd_u64(); bool bad = n > CAP;
    char* s = (char*)d_sym_block(bad ? 0 : n); // a violating call may not read the source at all
    void* p = d_sym_block(k_is_sizeof());
    C05_CLAUSE(0, SITE_basic_inplace_string_1, bad);
    C05_ALSO(SITE_basic_inplace_string_23); C05_ALSO(SITE_basic_inplace_string_21);
    c05_arm(); k_is_ctor_pn(p, s, n); c05_done();
    vf_assert(k_is_size(p) == n && k_is_data(p)[n] == 0, "size() and terminator after construction");
}
Q q_is_ctor_cstr()
{
    u64 len; char* s = cstr_any(&len); void* p = d_sym_block(k_is_sizeof());
    C05_CLAUSE(0, SITE_basic_inplace_string_1, len > CAP);
    c05_arm(); k_is_ctor_cstr(p, s); c05_done();
    vf_assert(k_is_size(p) == len, "size() after construction");
}
Q q_is_ctor_nc()
{
    u64 n = vf_nd_u64(); char c = (char)vf_nd_u8(); void* p = d_sym_block(k_is_sizeof());
    C05_CLAUSE(0, SITE_basic_inplace_string_2, n > CAP);
    c05_arm(); k_is_ctor_nc(p, n, c); c05_done();
    vf_assert(k_is_size(p) == n, "size() after construction");
}
Q q_is_asg_cstr()
{
    void* p = is_make(); u64 len; char* s = cstr_any(&len);
    C05_CLAUSE(0, SITE_basic_inplace_string_3, len > CAP);
    c05_arm(); k_is_asg_cstr(p, s); c05_done();
    vf_assert(k_is_size(p) == len, "size() after operator=(cstr)");
}
Q q_is_assign_cstr()
{
    void* p = is_make(); u64 len; char* s = cstr_any(&len);
    C05_CLAUSE(0, SITE_basic_inplace_string_1, len > CAP);
    c05_arm(); k_is_assign_cstr(p, s); c05_done();
    vf_assert(k_is_size(p) == len, "size() after assign(cstr)");
}
Q q_is_assign_nc()
{
    void* p = is_make(); u64 n = vf_nd_u64(); char c = (char)vf_nd_u8();
    C05_CLAUSE(0, SITE_basic_inplace_string_4, n > CAP);
    C05_ALSO(SITE_basic_inplace_string_2);
    c05_arm(); k_is_assign_nc(p, n, c); c05_done();
    vf_assert(k_is_size(p) == n, "size() after assign(count, ch)");
}
Q q_is_assign_pn()
{
    void* p = is_make(); u64 n = vf_nd_u64(); bool bad = n > CAP;
    char* s = (char*)d_sym_block(bad ? 0 : n);
    C05_CLAUSE(0, SITE_basic_inplace_string_5, bad);
    C05_ALSO(SITE_basic_inplace_string_1);
    c05_arm(); k_is_assign_pn(p, s, n); c05_done();
    vf_assert(k_is_size(p) == n, "size() after assign(ptr, count)");
}
// =====================================================================================================================
// front / back / push_back / pop_back
// =====================================================================================================================
#define IS_STATEQ(NAME, SITE, VIOL, CALL, NEWSIZE)                                                                     \
    Q NAME()                                                                                                           \
    {                                                                                                                  \
        void* p = is_make(); char c = (char)vf_nd_u8(); (void)c;                                                       \
        C05_CLAUSE(0, SITE, VIOL);                                                                                     \
        c05_arm(); CALL; c05_done();                                                                                   \
        vf_assert(k_is_size(p) == (NEWSIZE), "size() after a valid call");                                             \
    }
IS_STATEQ(q_is_front, SITE_basic_inplace_string_6, NA == 0, (void)k_is_front(p), NA)
IS_STATEQ(q_is_front_c, SITE_basic_inplace_string_7, NA == 0, (void)k_is_front_c(p), NA)
IS_STATEQ(q_is_back, SITE_basic_inplace_string_8, NA == 0, (void)k_is_back(p), NA)
IS_STATEQ(q_is_back_c, SITE_basic_inplace_string_9, NA == 0, (void)k_is_back_c(p), NA)
IS_STATEQ(q_is_push_back, SITE_basic_inplace_string_11, NA == CAP, k_is_push_back(p, c), NA + 1)
IS_STATEQ(q_is_pop_back, SITE_basic_inplace_string_12, NA == 0, k_is_pop_back(p), NA - 1)
Q q_is_clear()
{
    void* p = is_make();
    C05_ALSO(SITE_basic_inplace_string_23); C05_ALSO(SITE_basic_inplace_string_21); C05_ALSO(SITE_basic_inplace_string_22);
    c05_arm(); k_is_clear(p); c05_done();
    vf_assert(k_is_size(p) == 0, "size() after clear()");
}
// =====================================================================================================================
// erase: [first,last) must be a range inside the string (std::basic_string); erase(index,count): index <= size()
// Known finding C05_istr_erase_contract (= C04_erase_all_contract of harness/istr_step): the only check is size() > last - first,
// so (a) erasing every character of the string is rejected and (b) ranges that start beyond end() but are short are accepted.
// =====================================================================================================================
Q q_is_erase_it()
{
    void* p = is_make(); i64 f = nd_pos(), l = nd_pos();
    bool valid = 0 <= f && f <= l && l <= (i64)NA;
    VF_KNOWN(C05_istr_erase_contract, valid ? (u64)(l - f) >= NA : (u64)(l - f) < NA);
    C05_CLAUSE(0, SITE_basic_inplace_string_10, !valid);
    c05_arm(); k_is_erase_it(p, f, l); c05_done();
    vf_assert(k_is_size(p) == NA - (u64)(l - f), "size() after erase(first,last)");
}
Q q_is_erase_pos()
{
    void* p = is_make(); i64 pos = nd_pos();
    bool valid = 0 <= pos && pos < (i64)NA;
    VF_KNOWN(C05_istr_erase_contract, valid ? NA <= 1 : NA > 1);
    C05_CLAUSE(0, SITE_basic_inplace_string_10, !valid);
    c05_arm(); k_is_erase_pos(p, pos); c05_done();
    vf_assert(k_is_size(p) == NA - 1, "size() after erase(pos)");
}
Q q_is_erase_ic()
{
    void* p = is_make(); u64 idx = vf_nd_u64(), cnt = vf_nd_u64();
    bool valid = idx <= NA;
    u64 w = (u64)NA - idx;             // size() - index as the library computes it (wraps for index > size())
    u64 eff = cnt < w ? cnt : w;       // number of characters it then erases; the check fires iff eff >= size()
    VF_KNOWN(C05_istr_erase_contract, valid ? eff >= NA : eff < NA);
    C05_CLAUSE(0, SITE_basic_inplace_string_10, !valid);
    c05_arm(); k_is_erase_ic(p, idx, cnt); c05_done();
    vf_assert(k_is_size(p) == NA - eff, "size() after erase(index,count)");
}
// =====================================================================================================================
// replace(pos, count, ...): pos <= size() (count is clamped, std::basic_string); second string: pos2 <= str.size()
// Known finding C05_istr_replace_contract (= C04_replace_contract / C04_replace_keeps_size of harness/istr_step): the checks demand
// pos < size() and pos + count < size() (pos2 < str.size()), computed with wrap-around, so pos == size(), count reaching the
// end of the string and count == npos are rejected, and a wrapping pos + count is accepted and runs outside the string.
// Outside the region: pos > size() must fire; pos < size() && count < size() - pos must stay silent.
// =====================================================================================================================
#define REPL_REGION(pos, cnt) ((pos) == NA || ((pos) < NA && (cnt) >= NA - (pos)))
Q q_is_repl_pcs()
{
    void* p = is_make(); void* q = is_make_n(NB); c05_watch1(q, k_is_sizeof()); u64 pos = vf_nd_u64(), cnt = vf_nd_u64();
    VF_KNOWN(C05_istr_replace_contract, REPL_REGION(pos, cnt));
    C05_CLAUSE(0, SITE_basic_inplace_string_13, pos > NA);
    C05_ALSO(SITE_basic_inplace_string_14);
    c05_arm(); k_is_repl_pcs(p, pos, cnt, q); c05_done();
}
Q q_is_repl_pcspc()
{
    void* p = is_make(); void* q = is_make_n(NB); c05_watch1(q, k_is_sizeof()); u64 pos = vf_nd_u64(), cnt = vf_nd_u64(), pos2 = vf_nd_u64(), cnt2 = vf_nd_u64();
    VF_KNOWN(C05_istr_replace_contract, pos == NA || (pos < NA && pos2 <= NB && (pos2 == NB || cnt > ~u64(0) - pos || cnt2 > ~u64(0) - pos2)));
    C05_CLAUSE(0, SITE_basic_inplace_string_15, pos > NA);
    C05_CLAUSE(1, SITE_basic_inplace_string_16, pos2 > NB);
    c05_arm(); k_is_repl_pcspc(p, pos, cnt, q, pos2, cnt2); c05_done();
}
Q q_is_repl_pcpc()
{
    void* p = is_make(); u64 pos = vf_nd_u64(), cnt = vf_nd_u64(), cnt2 = vf_nd_u64();
    char* s = (char*)d_sym_block(NB); c05_watch1(s, NB);
    vf_assume(cnt2 <= NB); // [s, s + count2) must be a valid range: caller obligation no check can see
    VF_KNOWN(C05_istr_replace_contract, REPL_REGION(pos, cnt));
    C05_CLAUSE(0, SITE_basic_inplace_string_17, pos > NA);
    C05_ALSO(SITE_basic_inplace_string_18);
    c05_arm(); k_is_repl_pcpc(p, pos, cnt, s, cnt2); c05_done();
}
Q q_is_repl_pcc()
{
    void* p = is_make(); u64 pos = vf_nd_u64(), cnt = vf_nd_u64();
    char* s = (char*)d_sym_block(NB + 1); for (unsigned i = 0; i < NB; i++) vf_assume(s[i] != 0); s[NB] = 0; c05_watch1(s, NB + 1);
    VF_KNOWN(C05_istr_replace_contract, REPL_REGION(pos, cnt));
    C05_CLAUSE(0, SITE_basic_inplace_string_19, pos > NA);
    C05_ALSO(SITE_basic_inplace_string_20);
    c05_arm(); k_is_repl_pcc(p, pos, cnt, s); c05_done();
}
// =====================================================================================================================
// to_string<TSCAP>(int): the decimal text (with sign) plus its terminator must fit into TSCAP characters
// =====================================================================================================================
Q q_to_string()
{
    int v = (int)vf_nd_u32(); void* out = d_sym_block(k_ts_sizeof());
    long long a = v < 0 ? -(long long)v : (long long)v;
    unsigned digits = 1; long long lim = 10;
    for (int k = 0; k < 10; k++) { if (a >= lim) digits++; lim *= 10; }
    unsigned chars = digits + (v < 0 ? 1u : 0u);
    C05_CLAUSE(0, SITE_to_string_1, chars > TSCAP);   // the text must fit in Capacity characters (a text of exactly Capacity characters fits: repaired by c50738f)
    C05_ALSO(SITE_basic_inplace_string_1);
    c05_arm(); k_to_string(out, v); c05_done();
    vf_assert(k_ts_size(out) == chars, "to_string(v).size() is the number of characters of the decimal text");
}
