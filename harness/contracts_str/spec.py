import importlib.util
import os

import sys

c05 = sys.modules.get('c05spec_shared')   # one shared instance per process (site extraction is cached in it)
if c05 is None:
    _h = os.path.join(os.path.dirname(os.path.dirname(os.path.abspath(__file__))), 'contracts_common', 'c05spec.py')
    _s = importlib.util.spec_from_file_location('c05spec_shared', _h)
    c05 = importlib.util.module_from_spec(_s)
    sys.modules['c05spec_shared'] = c05
    _s.loader.exec_module(c05)
c05.ensure_header()

PROPERTIES = ['C05', 'C02']
KERNEL_FLAGS = c05.FLAGS
DRIVER_FLAGS = c05.FLAGS
LL2C_FLAGS = ['--ptrcmp-offset']   # erase(first,last) measures distances between iterators that may lie outside the string
INFO = c05.parse_driver(os.path.join(os.path.dirname(os.path.abspath(__file__)), 'driver.cpp'))
KF_ERASE = 'C05_istr_erase_contract'
KF_REPL = 'C05_istr_replace_contract'

STATELESS = ['is_ctor_pn', 'is_ctor_cstr', 'is_ctor_nc', 'to_string']
COUNT = ['is_asg_cstr', 'is_assign_cstr', 'is_assign_nc', 'is_assign_pn']
EMPTYV = ['is_front', 'is_front_c', 'is_back', 'is_back_c', 'is_pop_back']
ERASE = ['is_erase_it', 'is_erase_pos', 'is_erase_ic']
REPL = ['is_repl_pcs', 'is_repl_pcspc', 'is_repl_pcpc', 'is_repl_pcc']
ALL = STATELESS + COUNT + EMPTYV + ['is_push_back', 'is_clear'] + ERASE + REPL
assert set('q_' + e for e in ALL) == set(INFO), sorted(set('q_' + e for e in ALL) ^ set(INFO))


def shape(e, cap, na, nb, op, ts=4):
    """(valid call possible, reachable clause indices) - while a known finding is open its region is excluded from the query"""
    if e == 'to_string': return (True, {0} if ts <= 11 else set())
    if e in STATELESS or e in COUNT: return (True, {0})
    if e in EMPTYV: return (na > 0, {0} if na == 0 else set())
    if e == 'is_push_back': return (na < cap, {0} if na == cap else set())
    if e == 'is_clear': return (True, set())
    if e == 'is_erase_it': return ((na > 0) if KF_ERASE in op else True, {0})
    if e == 'is_erase_pos': return ((na > 1) if KF_ERASE in op else (na > 0), ({0} if na <= 1 else set()) if KF_ERASE in op else {0})
    if e == 'is_erase_ic': return ((na > 0) if KF_ERASE in op else True, {0})
    if e == 'is_repl_pcspc': return ((na > 0 and nb > 0) if KF_REPL in op else True, {0, 1} if (na > 0 or KF_REPL not in op) else {0})
    if e in REPL: return ((na > 0) if KF_REPL in op else True, {0})
    raise KeyError(e)


def grid(tier, prop):
    """(CAP, [NA...], NB, TSCAP, C05SAFE)"""
    if prop == 'C02':
        return [(7, [3], 2, 4, 0)] if tier == 'quick' else [(7, [0, 3, 7], 2, 4, 0), (16, [2, 16], 2, 12, 0)]
    if tier == 'quick':
        return [(7, [0, 1, 3, 7], 2, 4, 0), (16, [2, 16], 3, 10, 1)]
    g = []
    for safe in (0, 1):
        g += [(1, [0, 1], 1, 2, safe), (3, [0, 1, 2, 3], 2, 3, safe), (7, list(range(8)), 2, 4, safe), (15, [0, 1, 8, 15], 3, 10, safe), (16, [0, 1, 8, 16], 3, 9, safe), (20, [0, 5, 20], 4, 8, safe)]   # TSCAP <= 10 so that a text longer than Capacity exists for int
    return g


def queries(tier, prop='C05'):
    ub = prop == 'C02'
    OPEN = c05.open_findings()
    out = []
    for (cap, nas, nb, tscap, safe) in grid(tier, prop):
        blk = cap + 12 + 3
        for i, na in enumerate(nas):
            for e in ALL:
                if e in STATELESS and i != 0: continue
                if tier == 'quick' and e in ERASE and cap >= 16 and na > 2: continue   # rotate over 16 characters with symbolic positions: thorough tier only
                if e in ERASE and cap >= 15 and na > 8: continue   # rotate over 15+ characters with symbolic positions: 2-7 min per query, not run
                valid, reach = shape(e, cap, na, nb, OPEN, tscap)
                if ub and (not valid or e in REPL): continue   # replace: memory-unsafe for wrapping pos + count (C04_replace_keeps_size, listed for C02 by harness/istr_step)
                # loops of the string algorithms run over the characters present; fills / strlen over the capacity; to_string over the digits
                uw = (na + 4) if e in ERASE else (max(na, nb) + 4) if e in REPL else 15 if e == 'to_string' else (na + 4) if (e in EMPTYV or e in ('is_push_back', 'is_clear')) else cap + 5
                out.append(dict(entry='q_' + e, cfg={'CAP': cap, 'NA': na, 'NB': nb, 'TSCAP': tscap, 'C05SAFE': safe}, unwind=uw,
                                unwindset=c05.unwindset(blk, ('strlen',)), solver=['cadical', 'minisat'], budget=300, ub=ub, nofunc=ub,
                                optional_witness=c05.optional(valid, reach, ub)))
    return out


def _note(tier):
    return c05.bounds_note(INFO, sorted({q['entry'] for q in queries(tier)}))


BOUNDS = {
    'quick': 'basic_inplace_string<char,7> (size kept in the last byte) with pre-sizes {0,1,3,7} under TETL_ENABLE_CONTRACT_CHECKS and basic_inplace_string<char,16> (separate size member) with pre-sizes {2,16} (erase: 2 only) under _SAFE; '
             'all characters (incl. NUL) and the object bytes before construction symbolic; counts / lengths / indices any 64-bit value, iterators begin() + pos with pos in [-2^20, 2^20], C strings of symbolic length 0..CAP+1, '
             'second string / source of replace: 2 (3) characters; to_string<4>(int) and to_string<11>(int) for every int. ' + _note('quick'),
    'thorough': 'capacities {1,3,7,15,16,20} with pre-sizes {0,1,mid,CAP} (all of 0..7 for capacity 7; erase at capacity >= 15 only from pre-sizes <= 8), both contract configurations, to_string capacities {2,3,4,11,12,13}. ' + _note('thorough'),
}
ASSUMPTIONS = [
    'C05/str: documented preconditions: constructors/assign/operator=(ptr): resulting length <= capacity; front/back/pop_back non-empty; push_back size() < capacity(); '
    'erase(first,last): begin() <= first <= last <= end(); erase(pos): pos dereferenceable; erase(index,count): index <= size(); replace(pos,count,...): pos <= size() (count clamped) and pos2 <= str.size() - the latter three as std::basic_string, tetl documents none; '
    'to_string<N>(v): the decimal text of v plus terminator fits in N characters',
    'C05/str: (ptr,count) sources are exact-size blocks of count characters for a valid call and empty blocks for a violating one; replace(pos,count,s,count2) assumes count2 <= length of the block s points to',
    'C05/str: after a valid call only size() (and the terminator for the pointer constructor) is compared - C04 covers the functional behaviour; replace results are not compared at all (known C04 findings)',
]
