// C05 kernels (strings): thin wrappers around the precondition-carrying operations of etl::basic_inplace_string<char, CAP>
// and etl::to_string<TSCAP>, built with contract checks and the custom handler. No logic besides marshalling; iterators travel
// as SIGNED character offsets from begin().
#include "c05_kernel.h" // first: contract configuration + etl::assert_handler
#include <etl/cstring.hpp> // replace(..., Char const*) calls an unqualified strlen that <etl/string.hpp> itself never declares
#include <etl/new.hpp>
#include <etl/string.hpp>
#include "vf.h" // after the library headers (K and Q are macros)
#ifndef CAP
#define CAP 7
#endif
#ifndef TSCAP
#define TSCAP 4
#endif
using IS = etl::basic_inplace_string<char, CAP>;
using u64 = uint64_t;
using i64 = int64_t;
#define SM(p) (*static_cast<IS*>(p))
#define SC(p) (*static_cast<IS const*>(p))
K u64 k_is_sizeof() { return sizeof(IS); }
K u64 k_is_size(void const* p) { return SC(p).size(); }
K char const* k_is_data(void const* p) { return SC(p).data(); }
// construction / assignment
K void k_is_ctor_pn(void* p, char const* s, u64 n) { ::new (p) IS(s, n); }
K void k_is_ctor_cstr(void* p, char const* s) { ::new (p) IS(s); }
K void k_is_ctor_nc(void* p, u64 n, char c) { ::new (p) IS(n, c); }
K void k_is_asg_cstr(void* p, char const* s) { SM(p) = s; }
K void k_is_assign_nc(void* p, u64 n, char c) { SM(p).assign(n, c); }
K void k_is_assign_pn(void* p, char const* s, u64 n) { SM(p).assign(s, n); }
K void k_is_assign_cstr(void* p, char const* s) { SM(p).assign(s); }
// element access
K char k_is_front(void* p) { return SM(p).front(); }
K char k_is_front_c(void const* p) { return SC(p).front(); }
K char k_is_back(void* p) { return SM(p).back(); }
K char k_is_back_c(void const* p) { return SC(p).back(); }
// modifiers
K void k_is_push_back(void* p, char c) { SM(p).push_back(c); }
K void k_is_pop_back(void* p) { SM(p).pop_back(); }
K void k_is_clear(void* p) { SM(p).clear(); }
K void k_is_erase_it(void* p, i64 f, i64 l) { SM(p).erase(SM(p).cbegin() + f, SM(p).cbegin() + l); }
K void k_is_erase_pos(void* p, i64 pos) { SM(p).erase(SM(p).cbegin() + pos); }
K void k_is_erase_ic(void* p, u64 index, u64 count) { SM(p).erase(index, count); }
K void k_is_repl_pcs(void* p, u64 pos, u64 count, void const* q) { SM(p).replace(pos, count, SC(q)); }
K void k_is_repl_pcspc(void* p, u64 pos, u64 count, void const* q, u64 pos2, u64 count2) { SM(p).replace(pos, count, SC(q), pos2, count2); }
K void k_is_repl_pcpc(void* p, u64 pos, u64 count, char const* s, u64 count2) { SM(p).replace(pos, count, s, count2); }
K void k_is_repl_pcc(void* p, u64 pos, u64 count, char const* s) { SM(p).replace(pos, count, s); }
// to_string<TSCAP>(int)
using TS = etl::inplace_string<TSCAP>;
K u64 k_ts_sizeof() { return sizeof(TS); }
K void k_to_string(void* out, int v) { ::new (out) TS(etl::to_string<TSCAP>(v)); }
K u64 k_ts_size(void const* p) { return static_cast<TS const*>(p)->size(); }
