PROPERTIES = ['C08', 'C02']
BOUNDS = {
    'quick': 'haystack length 0..4, needle length 0..3 (enumerated), all characters symbolic over the full char range, pos/count/pos2/count2 unconstrained 64-bit; char',
    'thorough': 'haystack length 0..6, needle length 0..4; char, char16_t, wchar_t',
}
ASSUMPTIONS = ['C08: for compare(pos1,...)/substr/copy the etl precondition pos <= size() is assumed (std throws there; C05 covers it)',
               'C08: C-string overloads get a block of length+1 with non-zero characters and a forced terminator; ptr+count overloads assume count <= block length']
SEARCH = ['find', 'rfind', 'ffo', 'flo', 'ffno', 'flno']
TWO = [s + k for s in SEARCH for k in ('_sv', '_pc', '_cs')] + ['cmp_sv', 'cmp_pcsv', 'cmp_pcsvpc', 'cmp_cs', 'cmp_pccs', 'cmp_pcpc', 'sw_sv', 'sw_cs', 'ew_sv', 'ew_cs', 'ct_sv', 'ct_cs', 'rel']
ONE = [s + '_ch' for s in SEARCH] + ['sw_ch', 'ew_ch', 'ct_ch', 'substr', 'copy', 'rmpre', 'rmsuf']
NONEMPTY = ['access']
NEEDLE_ONLY = ['cstr_ctor']

def queries(tier, prop='C08'):
    hmax, nmax = (4, 3) if tier == 'quick' else (6, 4)
    if prop == 'C02' and tier == 'quick':
        hmax, nmax = 3, 2   # the UB build is slower; C02 quick uses the smaller grid, thorough the full one
    chars = ['char'] if tier == 'quick' else ['char', 'char16_t', 'wchar_t']
    ub = prop == 'C02'
    out = []
    for ch in chars:
        if ch != 'char': hm, nm = min(hmax, 4), min(nmax, 3)
        else: hm, nm = hmax, nmax
        for hn in range(hm + 1):
            for e in ONE + (NONEMPTY if hn else []):
                out.append(dict(entry='q_' + e, cfg={'CH': ch, 'HN': hn, 'NN': 0}, unwind=hn + nm + 3, budget=120, ub=ub, nofunc=ub))
            for nn in range(nm + 1):
                for e in TWO + (NEEDLE_ONLY if hn == 0 else []):
                    out.append(dict(entry='q_' + e, cfg={'CH': ch, 'HN': hn, 'NN': nn}, unwind=hn + nn + 3, budget=120, ub=ub, nofunc=ub))
    return out
