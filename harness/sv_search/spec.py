PROPERTIES = ['C08', 'C02']
BOUNDS = {
    'quick': 'haystack length 0..4, needle length 0..3 (enumerated), all characters symbolic over the full char range, pos/count/pos2/count2 unconstrained 64-bit; char',
    'thorough': 'haystack length 0..6, needle length 0..4; char, char16_t, wchar_t',
}
ASSUMPTIONS = ['C08: for compare(pos1,...)/substr/copy the etl precondition pos <= size() is assumed (std throws there; C05 covers it)',
               'C08: C-string overloads get a block of length+1 with non-zero characters and a forced terminator; ptr+count overloads assume count <= block length']
SEARCH = ['find', 'rfind', 'ffo', 'flo', 'ffno', 'flno']
TWO = [s + k for s in SEARCH for k in ('_sv', '_pc', '_cs')] + ['cmp_sv', 'cmp_pcsv', 'cmp_pcsvpc', 'cmp_cs', 'cmp_pccs', 'cmp_pcpc', 'sw_sv', 'sw_cs', 'ew_sv', 'ew_cs', 'ct_sv', 'ct_cs', 'rel']
ONE = [s + '_ch' for s in SEARCH] + ['sw_ch', 'ew_ch', 'ct_ch', 'substr', 'copy', 'rmpre', 'rmsuf']
NONEMPTY = ['access']
NEEDLE_ONLY = ['cstr_ctor']

CHW = {'char': 1, 'char16_t': 2, 'wchar_t': 4}

def queries(tier, prop='C08'):
    hmax, nmax = (4, 3) if tier == 'quick' else (6, 4)
    if prop == 'C02' and tier == 'quick':
        hmax, nmax = 3, 2   # the UB build is slower; C02 quick uses the smaller grid, thorough the full one
    chars = ['char'] if tier == 'quick' else ['char', 'char16_t', 'wchar_t']
    ub = prop == 'C02'
    out = []
    bud = 120 if tier == 'quick' else 600

    def q(e, ch, hn, nn):
        # byte loops of the runtime (memcpy/memcmp/memchr models) run over characters * sizeof(CH)
        by = CHW[ch] * (hn + nn) + 4
        return dict(entry='q_' + e, cfg={'CH': ch, 'HN': hn, 'NN': nn}, unwind=hn + nn + 3,
                    unwindset={'ll_memcpy.0': by, 'll_memmove.0': by, 'll_memmove.1': by, 'memcmp.0': by, 'memchr.0': by, 'bcmp.0': by},
                    solver=['cadical', 'minisat'] if (tier != 'quick' or ub) else ['minisat', 'cadical'], budget=bud, ub=ub, nofunc=ub)
    for ch in chars:
        if ch != 'char': hm, nm = min(hmax, 4), min(nmax, 3)
        else: hm, nm = hmax, nmax
        for hn in range(hm + 1):
            for e in ONE + (NONEMPTY if hn else []):
                out.append(q(e, ch, hn, 0))
            for nn in range(nm + 1):
                for e in TWO + (NEEDLE_ONLY if hn == 0 else []):
                    out.append(q(e, ch, hn, nn))
    return out
