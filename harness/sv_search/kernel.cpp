// C08 kernels: thin wrappers around etl::basic_string_view<CH>. No logic besides marshalling.
#include <etl/string_view.hpp>
#include "vf.h" // after the library headers (K and Q are macros)
#ifndef CH
#define CH char
#endif
using SV = etl::basic_string_view<CH>;
using sz = etl::size_t;
K sz k_find_sv(CH const* h, sz hn, CH const* n, sz nn, sz pos) { return SV(h, hn).find(SV(n, nn), pos); }
K sz k_find_ch(CH const* h, sz hn, CH c, sz pos) { return SV(h, hn).find(c, pos); }
K sz k_find_pc(CH const* h, sz hn, CH const* n, sz pos, sz cnt) { return SV(h, hn).find(n, pos, cnt); }
K sz k_find_cs(CH const* h, sz hn, CH const* n, sz pos) { return SV(h, hn).find(n, pos); }
K sz k_rfind_sv(CH const* h, sz hn, CH const* n, sz nn, sz pos) { return SV(h, hn).rfind(SV(n, nn), pos); }
K sz k_rfind_ch(CH const* h, sz hn, CH c, sz pos) { return SV(h, hn).rfind(c, pos); }
K sz k_rfind_pc(CH const* h, sz hn, CH const* n, sz pos, sz cnt) { return SV(h, hn).rfind(n, pos, cnt); }
K sz k_rfind_cs(CH const* h, sz hn, CH const* n, sz pos) { return SV(h, hn).rfind(n, pos); }
K sz k_ffo_sv(CH const* h, sz hn, CH const* n, sz nn, sz pos) { return SV(h, hn).find_first_of(SV(n, nn), pos); }
K sz k_ffo_ch(CH const* h, sz hn, CH c, sz pos) { return SV(h, hn).find_first_of(c, pos); }
K sz k_ffo_pc(CH const* h, sz hn, CH const* n, sz pos, sz cnt) { return SV(h, hn).find_first_of(n, pos, cnt); }
K sz k_ffo_cs(CH const* h, sz hn, CH const* n, sz pos) { return SV(h, hn).find_first_of(n, pos); }
K sz k_flo_sv(CH const* h, sz hn, CH const* n, sz nn, sz pos) { return SV(h, hn).find_last_of(SV(n, nn), pos); }
K sz k_flo_ch(CH const* h, sz hn, CH c, sz pos) { return SV(h, hn).find_last_of(c, pos); }
K sz k_flo_pc(CH const* h, sz hn, CH const* n, sz pos, sz cnt) { return SV(h, hn).find_last_of(n, pos, cnt); }
K sz k_flo_cs(CH const* h, sz hn, CH const* n, sz pos) { return SV(h, hn).find_last_of(n, pos); }
K sz k_ffno_sv(CH const* h, sz hn, CH const* n, sz nn, sz pos) { return SV(h, hn).find_first_not_of(SV(n, nn), pos); }
K sz k_ffno_ch(CH const* h, sz hn, CH c, sz pos) { return SV(h, hn).find_first_not_of(c, pos); }
K sz k_ffno_pc(CH const* h, sz hn, CH const* n, sz pos, sz cnt) { return SV(h, hn).find_first_not_of(n, pos, cnt); }
K sz k_ffno_cs(CH const* h, sz hn, CH const* n, sz pos) { return SV(h, hn).find_first_not_of(n, pos); }
K sz k_flno_sv(CH const* h, sz hn, CH const* n, sz nn, sz pos) { return SV(h, hn).find_last_not_of(SV(n, nn), pos); }
K sz k_flno_ch(CH const* h, sz hn, CH c, sz pos) { return SV(h, hn).find_last_not_of(c, pos); }
K sz k_flno_pc(CH const* h, sz hn, CH const* n, sz pos, sz cnt) { return SV(h, hn).find_last_not_of(n, pos, cnt); }
K sz k_flno_cs(CH const* h, sz hn, CH const* n, sz pos) { return SV(h, hn).find_last_not_of(n, pos); }
K int k_cmp_sv(CH const* h, sz hn, CH const* n, sz nn) { return SV(h, hn).compare(SV(n, nn)); }
K int k_cmp_pcsv(CH const* h, sz hn, sz p1, sz c1, CH const* n, sz nn) { return SV(h, hn).compare(p1, c1, SV(n, nn)); }
K int k_cmp_pcsvpc(CH const* h, sz hn, sz p1, sz c1, CH const* n, sz nn, sz p2, sz c2) { return SV(h, hn).compare(p1, c1, SV(n, nn), p2, c2); }
K int k_cmp_cs(CH const* h, sz hn, CH const* n) { return SV(h, hn).compare(n); }
K int k_cmp_pccs(CH const* h, sz hn, sz p1, sz c1, CH const* n) { return SV(h, hn).compare(p1, c1, n); }
K int k_cmp_pcpc(CH const* h, sz hn, sz p1, sz c1, CH const* n, sz c2) { return SV(h, hn).compare(p1, c1, n, c2); }
K bool k_sw_sv(CH const* h, sz hn, CH const* n, sz nn) { return SV(h, hn).starts_with(SV(n, nn)); }
K bool k_sw_ch(CH const* h, sz hn, CH c) { return SV(h, hn).starts_with(c); }
K bool k_sw_cs(CH const* h, sz hn, CH const* n) { return SV(h, hn).starts_with(n); }
K bool k_ew_sv(CH const* h, sz hn, CH const* n, sz nn) { return SV(h, hn).ends_with(SV(n, nn)); }
K bool k_ew_ch(CH const* h, sz hn, CH c) { return SV(h, hn).ends_with(c); }
K bool k_ew_cs(CH const* h, sz hn, CH const* n) { return SV(h, hn).ends_with(n); }
K bool k_ct_sv(CH const* h, sz hn, CH const* n, sz nn) { return SV(h, hn).contains(SV(n, nn)); }
K bool k_ct_ch(CH const* h, sz hn, CH c) { return SV(h, hn).contains(c); }
K bool k_ct_cs(CH const* h, sz hn, CH const* n) { return SV(h, hn).contains(n); }
// substr: returns offset of data() relative to h, and size through *osz
K sz k_substr(CH const* h, sz hn, sz pos, sz cnt, sz* osz) { auto r = SV(h, hn).substr(pos, cnt); *osz = r.size(); return sz(r.data() - h); }
K sz k_copy(CH const* h, sz hn, CH* dst, sz cnt, sz pos) { return SV(h, hn).copy(dst, cnt, pos); }
K sz k_rmpre(CH const* h, sz hn, sz n, sz* osz) { SV v(h, hn); v.remove_prefix(n); *osz = v.size(); return sz(v.data() - h); }
K sz k_rmsuf(CH const* h, sz hn, sz n, sz* osz) { SV v(h, hn); v.remove_suffix(n); *osz = v.size(); return sz(v.data() - h); }
// relational operators: bit i set for ==, !=, <, <=, >, >=
K unsigned k_rel(CH const* h, sz hn, CH const* n, sz nn)
{
    SV a(h, hn), b(n, nn);
    return unsigned(a == b) | unsigned(a != b) << 1 | unsigned(a < b) << 2 | unsigned(a <= b) << 3 | unsigned(a > b) << 4 | unsigned(a >= b) << 5;
}
// element access / iteration
K CH k_at(CH const* h, sz hn, sz i) { return SV(h, hn)[i]; }
K CH k_front(CH const* h, sz hn) { return SV(h, hn).front(); }
K CH k_back(CH const* h, sz hn) { return SV(h, hn).back(); }
// iteration: copies what begin()..end() and rbegin()..rend() visit into fwd/rev (each hn characters), returns the count visited forward
K sz k_iter(CH const* h, sz hn, CH* fwd, CH* rev)
{
    SV v(h, hn); sz i = 0, j = 0;
    for (auto c : v) { fwd[i++] = c; }
    for (auto it = v.rbegin(); it != v.rend(); ++it) { rev[j++] = *it; }
    return i == j ? i : sz(-1);
}
K sz k_cstr_ctor(CH const* s) { return SV(s).size(); }
