// C08 driver: symbolic haystack/needle bytes in exact-size blocks, full-range pos/count; oracle std::basic_string_view
// compiled through the same clang -> IR -> C pipeline. Lengths HN/NN are enumerated by the runner.
#include "vf.h"
#include <string_view>
#ifndef CH
#define CH char
#endif
#ifndef HN
#define HN 3
#endif
#ifndef NN
#define NN 2
#endif
using SV = std::basic_string_view<CH>;
using sz = size_t;
extern "C" {
sz k_find_sv(CH const*, sz, CH const*, sz, sz); sz k_find_ch(CH const*, sz, CH, sz); sz k_find_pc(CH const*, sz, CH const*, sz, sz); sz k_find_cs(CH const*, sz, CH const*, sz);
sz k_rfind_sv(CH const*, sz, CH const*, sz, sz); sz k_rfind_ch(CH const*, sz, CH, sz); sz k_rfind_pc(CH const*, sz, CH const*, sz, sz); sz k_rfind_cs(CH const*, sz, CH const*, sz);
sz k_ffo_sv(CH const*, sz, CH const*, sz, sz); sz k_ffo_ch(CH const*, sz, CH, sz); sz k_ffo_pc(CH const*, sz, CH const*, sz, sz); sz k_ffo_cs(CH const*, sz, CH const*, sz);
sz k_flo_sv(CH const*, sz, CH const*, sz, sz); sz k_flo_ch(CH const*, sz, CH, sz); sz k_flo_pc(CH const*, sz, CH const*, sz, sz); sz k_flo_cs(CH const*, sz, CH const*, sz);
sz k_ffno_sv(CH const*, sz, CH const*, sz, sz); sz k_ffno_ch(CH const*, sz, CH, sz); sz k_ffno_pc(CH const*, sz, CH const*, sz, sz); sz k_ffno_cs(CH const*, sz, CH const*, sz);
sz k_flno_sv(CH const*, sz, CH const*, sz, sz); sz k_flno_ch(CH const*, sz, CH, sz); sz k_flno_pc(CH const*, sz, CH const*, sz, sz); sz k_flno_cs(CH const*, sz, CH const*, sz);
int k_cmp_sv(CH const*, sz, CH const*, sz); int k_cmp_pcsv(CH const*, sz, sz, sz, CH const*, sz); int k_cmp_pcsvpc(CH const*, sz, sz, sz, CH const*, sz, sz, sz);
int k_cmp_cs(CH const*, sz, CH const*); int k_cmp_pccs(CH const*, sz, sz, sz, CH const*); int k_cmp_pcpc(CH const*, sz, sz, sz, CH const*, sz);
bool k_sw_sv(CH const*, sz, CH const*, sz); bool k_sw_ch(CH const*, sz, CH); bool k_sw_cs(CH const*, sz, CH const*);
bool k_ew_sv(CH const*, sz, CH const*, sz); bool k_ew_ch(CH const*, sz, CH); bool k_ew_cs(CH const*, sz, CH const*);
bool k_ct_sv(CH const*, sz, CH const*, sz); bool k_ct_ch(CH const*, sz, CH); bool k_ct_cs(CH const*, sz, CH const*);
sz k_substr(CH const*, sz, sz, sz, sz*); sz k_copy(CH const*, sz, CH*, sz, sz); sz k_rmpre(CH const*, sz, sz, sz*); sz k_rmsuf(CH const*, sz, sz, sz*);
unsigned k_rel(CH const*, sz, CH const*, sz); CH k_at(CH const*, sz, sz); CH k_front(CH const*, sz); CH k_back(CH const*, sz); sz k_iter(CH const*, sz, CH*, CH*);
sz k_cstr_ctor(CH const*);
}
static CH nd_ch() { return sizeof(CH) == 1 ? CH(vf_nd_u8()) : sizeof(CH) == 2 ? CH(vf_nd_u16()) : CH(vf_nd_u32()); }
// exact-size block of n characters, all symbolic, no terminator
static CH* sym(sz n) { CH* p = (CH*)vf_alloc(n * sizeof(CH)); for (sz i = 0; i < n; i++) p[i] = nd_ch(); return p; }
// C string: block of n+1, characters non-zero, terminator forced
static CH* symz(sz n) { CH* p = (CH*)vf_alloc((n + 1) * sizeof(CH)); for (sz i = 0; i < n; i++) { p[i] = nd_ch(); vf_assume(p[i] != CH(0)); } p[n] = CH(0); return p; }
static int sgn(int x) { return (x > 0) - (x < 0); }

#define SEARCH4(NAME, STDF)                                                                                              \
    Q q_##NAME##_sv() { CH* h = sym(HN); CH* n = sym(NN); sz pos = vf_nd_u64(); vf_assert(k_##NAME##_sv(h, HN, n, NN, pos) == SV(h, HN).STDF(SV(n, NN), pos), #NAME "(view,pos) == std"); }   \
    Q q_##NAME##_ch() { CH* h = sym(HN); CH c = nd_ch(); sz pos = vf_nd_u64(); vf_assert(k_##NAME##_ch(h, HN, c, pos) == SV(h, HN).STDF(c, pos), #NAME "(char,pos) == std"); }              \
    Q q_##NAME##_pc() { CH* h = sym(HN); CH* n = sym(NN); sz pos = vf_nd_u64(); sz cnt = vf_nd_u64(); vf_assume(cnt <= NN); vf_assert(k_##NAME##_pc(h, HN, n, pos, cnt) == SV(h, HN).STDF(n, pos, cnt), #NAME "(ptr,pos,count) == std"); } \
    Q q_##NAME##_cs() { CH* h = sym(HN); CH* n = symz(NN); sz pos = vf_nd_u64(); vf_assert(k_##NAME##_cs(h, HN, n, pos) == SV(h, HN).STDF(n, pos), #NAME "(cstr,pos) == std"); }

Q q_find_sv()
{
    CH* h = sym(HN); CH* n = sym(NN); sz pos = vf_nd_u64();
    vf_assert(k_find_sv(h, HN, n, NN, pos) == SV(h, HN).find(SV(n, NN), pos), "find(view,pos) == std");
}
Q q_find_ch() { CH* h = sym(HN); CH c = nd_ch(); sz pos = vf_nd_u64(); vf_assert(k_find_ch(h, HN, c, pos) == SV(h, HN).find(c, pos), "find(char,pos) == std"); }
Q q_find_pc() { CH* h = sym(HN); CH* n = sym(NN); sz pos = vf_nd_u64(); sz cnt = vf_nd_u64(); vf_assume(cnt <= NN); vf_assert(k_find_pc(h, HN, n, pos, cnt) == SV(h, HN).find(n, pos, cnt), "find(ptr,pos,count) == std"); }
Q q_find_cs() { CH* h = sym(HN); CH* n = symz(NN); sz pos = vf_nd_u64(); vf_assert(k_find_cs(h, HN, n, pos) == SV(h, HN).find(n, pos), "find(cstr,pos) == std"); }
SEARCH4(rfind, rfind)
SEARCH4(ffo, find_first_of)
SEARCH4(flo, find_last_of)
SEARCH4(ffno, find_first_not_of)
SEARCH4(flno, find_last_not_of)

Q q_cmp_sv() { CH* h = sym(HN); CH* n = sym(NN); vf_assert(sgn(k_cmp_sv(h, HN, n, NN)) == sgn(SV(h, HN).compare(SV(n, NN))), "compare(view) sign == std"); }
// std::basic_string_view::compare(pos1, ...) throws for pos1 > size(): that is the documented precondition (C05), assumed here
Q q_cmp_pcsv() { CH* h = sym(HN); CH* n = sym(NN); sz p1 = vf_nd_u64(), c1 = vf_nd_u64(); vf_assume(p1 <= HN); vf_assert(sgn(k_cmp_pcsv(h, HN, p1, c1, n, NN)) == sgn(SV(h, HN).compare(p1, c1, SV(n, NN))), "compare(pos,count,view) sign == std"); }
Q q_cmp_pcsvpc() { CH* h = sym(HN); CH* n = sym(NN); sz p1 = vf_nd_u64(), c1 = vf_nd_u64(), p2 = vf_nd_u64(), c2 = vf_nd_u64(); vf_assume(p1 <= HN && p2 <= NN); vf_assert(sgn(k_cmp_pcsvpc(h, HN, p1, c1, n, NN, p2, c2)) == sgn(SV(h, HN).compare(p1, c1, SV(n, NN), p2, c2)), "compare(pos,count,view,pos2,count2) sign == std"); }
Q q_cmp_cs() { CH* h = sym(HN); CH* n = symz(NN); vf_assert(sgn(k_cmp_cs(h, HN, n)) == sgn(SV(h, HN).compare(n)), "compare(cstr) sign == std"); }
Q q_cmp_pccs() { CH* h = sym(HN); CH* n = symz(NN); sz p1 = vf_nd_u64(), c1 = vf_nd_u64(); vf_assume(p1 <= HN); vf_assert(sgn(k_cmp_pccs(h, HN, p1, c1, n)) == sgn(SV(h, HN).compare(p1, c1, n)), "compare(pos,count,cstr) sign == std"); }
Q q_cmp_pcpc() { CH* h = sym(HN); CH* n = sym(NN); sz p1 = vf_nd_u64(), c1 = vf_nd_u64(), c2 = vf_nd_u64(); vf_assume(p1 <= HN && c2 <= NN); vf_assert(sgn(k_cmp_pcpc(h, HN, p1, c1, n, c2)) == sgn(SV(h, HN).compare(p1, c1, n, c2)), "compare(pos,count,ptr,count2) sign == std"); }
Q q_sw_sv() { CH* h = sym(HN); CH* n = sym(NN); vf_assert(k_sw_sv(h, HN, n, NN) == SV(h, HN).starts_with(SV(n, NN)), "starts_with(view) == std"); }
Q q_sw_ch() { CH* h = sym(HN); CH c = nd_ch(); vf_assert(k_sw_ch(h, HN, c) == SV(h, HN).starts_with(c), "starts_with(char) == std"); }
Q q_sw_cs() { CH* h = sym(HN); CH* n = symz(NN); vf_assert(k_sw_cs(h, HN, n) == SV(h, HN).starts_with(n), "starts_with(cstr) == std"); }
Q q_ew_sv() { CH* h = sym(HN); CH* n = sym(NN); vf_assert(k_ew_sv(h, HN, n, NN) == SV(h, HN).ends_with(SV(n, NN)), "ends_with(view) == std"); }
Q q_ew_ch() { CH* h = sym(HN); CH c = nd_ch(); vf_assert(k_ew_ch(h, HN, c) == SV(h, HN).ends_with(c), "ends_with(char) == std"); }
Q q_ew_cs() { CH* h = sym(HN); CH* n = symz(NN); vf_assert(k_ew_cs(h, HN, n) == SV(h, HN).ends_with(n), "ends_with(cstr) == std"); }
// contains() is C++23 in std; definition: find(x) != npos
Q q_ct_sv() { CH* h = sym(HN); CH* n = sym(NN); vf_assert(k_ct_sv(h, HN, n, NN) == (SV(h, HN).find(SV(n, NN)) != SV::npos), "contains(view) == std"); }
Q q_ct_ch() { CH* h = sym(HN); CH c = nd_ch(); vf_assert(k_ct_ch(h, HN, c) == (SV(h, HN).find(c) != SV::npos), "contains(char) == std"); }
Q q_ct_cs() { CH* h = sym(HN); CH* n = symz(NN); vf_assert(k_ct_cs(h, HN, n) == (SV(h, HN).find(n) != SV::npos), "contains(cstr) == std"); }
Q q_substr()
{
    CH* h = sym(HN); sz pos = vf_nd_u64(), cnt = vf_nd_u64(); vf_assume(pos <= HN);
    sz* osz = (sz*)vf_alloc(8); sz off = k_substr(h, HN, pos, cnt, osz); auto e = SV(h, HN).substr(pos, cnt);
    vf_assert(off == sz(e.data() - h), "substr data == std"); vf_assert(*osz == e.size(), "substr size == std");
}
Q q_copy()
{
    CH* h = sym(HN); sz pos = vf_nd_u64(), cnt = vf_nd_u64(); vf_assume(pos <= HN);
    // destination holds exactly the number of characters the standard says are written: min(count, size - pos)
    sz w = cnt < HN - pos ? cnt : HN - pos;
    CH* d = (CH*)vf_alloc(w * sizeof(CH)); CH* e = (CH*)vf_alloc(w * sizeof(CH));
    sz r = k_copy(h, HN, d, cnt, pos); sz er = SV(h, HN).copy(e, cnt, pos);
    vf_assert(r == er, "copy count == std");
    for (sz i = 0; i < w; i++) vf_assert(d[i] == e[i], "copy contents == std");
}
Q q_rmpre() { CH* h = sym(HN); sz n = vf_nd_u64(); vf_assume(n <= HN); sz* osz = (sz*)vf_alloc(8); sz off = k_rmpre(h, HN, n, osz); SV e(h, HN); e.remove_prefix(n); vf_assert(off == sz(e.data() - h) && *osz == e.size(), "remove_prefix == std"); }
Q q_rmsuf() { CH* h = sym(HN); sz n = vf_nd_u64(); vf_assume(n <= HN); sz* osz = (sz*)vf_alloc(8); sz off = k_rmsuf(h, HN, n, osz); SV e(h, HN); e.remove_suffix(n); vf_assert(off == sz(e.data() - h) && *osz == e.size(), "remove_suffix == std"); }
Q q_rel()
{
    CH* h = sym(HN); CH* n = sym(NN); SV a(h, HN), b(n, NN);
    unsigned e = unsigned(a == b) | unsigned(a != b) << 1 | unsigned(a < b) << 2 | unsigned(a <= b) << 3 | unsigned(a > b) << 4 | unsigned(a >= b) << 5;
    vf_assert(k_rel(h, HN, n, NN) == e, "relational operators == std");
}
Q q_access()
{
    CH* h = sym(HN); sz i = vf_nd_u64(); vf_assume(i < HN);
    vf_assert(k_at(h, HN, i) == h[i], "operator[]"); vf_assert(k_front(h, HN) == h[0], "front"); vf_assert(k_back(h, HN) == h[HN - 1], "back");
    CH* f = (CH*)vf_alloc(HN * sizeof(CH)); CH* r = (CH*)vf_alloc(HN * sizeof(CH));
    vf_assert(k_iter(h, HN, f, r) == HN, "iteration visits size() characters");
    for (sz j = 0; j < HN; j++) { vf_assert(f[j] == h[j], "forward iteration order"); vf_assert(r[j] == h[HN - 1 - j], "reverse iteration order"); }
}
Q q_cstr_ctor() { CH* n = symz(NN); vf_assert(k_cstr_ctor(n) == NN, "view(cstr).size() == strlen"); }
