PROPERTIES = ['C03', 'C02']
BOUNDS = {
    'quick': 'element type Tracked (non-trivial, every special member reports to the lifetime ledger); one operation from every content state: '
             'copy+move elements at capacity 3 (second vector / source block size NB in {0,3}), move-only elements at capacity 2 (NB in {0,1}); pre-size NA in 0..CAP (enumerated); copy-only elements and elements with defaulted (trivial) assignment but user-provided constructors/destructor at capacity 2 from pre-size 1; '
             'element values, object bytes before construction symbolic, positions / counts / new sizes symbolic (case-split); histories of 2 symbolic operations at capacity 2: '
             'static_vector from pre-size 1, one query per first operation (12 op codes), inplace_vector from every pre-size (6 op codes), copy+move elements',
    'thorough': 'copy+move elements at capacities 0..3 with every (NA, NB) and at capacity 4 with NB in {0,4}; move-only and copy-only elements at capacity 3 (NB in {0,1,3}), defaulted-assignment elements at capacity 2 (every NB); '
                'static_vector histories of 2 operations at capacity 2 (copy+move from pre-sizes 0 and 1, and from 2 with pop_back / clear / relocation first; the other flavours from pre-size 1) and of 3 operations at capacity 1 from the empty vector (copy+move), one query per admissible first operation except first operations 5, 8, 9 (no verdict within the 8 GB per-query memory cap); '
                'inplace_vector histories of 3 operations at capacity 2 from pre-size 1 (all flavours) and of 2 at capacity 3 from every pre-size',
}
ASSUMPTIONS = [
    'C03: every operation is called inside its documented precondition (position in [begin,end], size()+count <= capacity, non-empty for pop, index < size()); contract checks compiled out',
    'C03: element special members are noexcept (throwing members are outside the claim)',
    'C03: the ledger tracks objects by address: inside registered blocks (owners, source arrays) through a shadow byte per 4-byte slot, elsewhere through an in-object state word; '
    'a bitwise copy of a live element is detected when the copy is next used or when the slot census after the call is compared with size()',
    'C03: the value of a moved-from or self-move-assigned vector is unspecified; asserted: size() <= capacity(), exactly size() live elements, still assignable / refillable and destructible',
    'C03: static_vector<T,N> of a move-only T has no move assignment and no swap (operator=(static_vector&&) is constrained on is_assignable_v<T&, T&>), '
    'inplace_vector and stack have no assignment operators at all: those operations do not compile and are not part of the claim',
    'C03: range sources are blocks of live elements outside the vector (ranges into the vector itself are undefined in std as well)',
]
import json, os

NEED_COPY = {'sv_push_back_l', 'sv_insert_l', 'sv_insert_fill', 'sv_insert_range', 'sv_insert_self', 'sv_push_back_self', 'sv_resize2', 'sv_assign_range', 'sv_assign_fill',
             'sv_copy_ctor', 'sv_copy_assign', 'sv_copy_assign_self', 'sv_ctor_nv', 'sv_ctor_range', 'sv_rel', 'iv_unchecked_push_back_l', 'iv_try_push_back_l', 'iv_copy_ctor',
             'st_push_l', 'st_copy_ctor', 'st_from_c',
             # not available for move-only elements because static_vector's move assignment requires copy-assignable elements
             'sv_move_assign', 'sv_move_assign_self', 'sv_swap_member', 'sv_swap_free', 'sv_swap_self', 'st_swap_member', 'st_swap_free', 'st_swap_self'}
ANY = ['sv_clear', 'sv_resize1', 'sv_resize2', 'sv_assign_fill', 'sv_free_erase', 'sv_free_erase_if', 'sv_erase_range', 'sv_insert_fill', 'sv_swap_self',
       'sv_copy_ctor', 'sv_move_ctor', 'sv_copy_assign_self', 'sv_move_assign_self', 'sv_ctor_n', 'sv_ctor_nv', 'sv_ctor_range', 'sv_ctor_carray',
       'iv_clear', 'iv_copy_ctor', 'iv_move_ctor', 'iv_try_push_back_l', 'iv_try_push_back_r', 'iv_try_emplace_back',
       'st_copy_ctor', 'st_move_ctor', 'st_from_c', 'st_from_c_move', 'st_swap_self']
NONEMPTY = ['sv_set_at', 'sv_pop_back', 'sv_erase1', 'iv_set_at', 'iv_pop_back', 'st_set_top', 'st_pop']
NOTFULL = ['sv_push_back_l', 'sv_push_back_r', 'sv_emplace_back', 'sv_emplace', 'sv_insert_l', 'sv_insert_r',
           'iv_unchecked_push_back_l', 'iv_unchecked_push_back_r', 'iv_unchecked_emplace_back', 'st_push_l', 'st_push_r', 'st_emplace']
MIDDLE = ['sv_push_back_self', 'sv_insert_self']
RANGE_FIT = ['sv_insert_range', 'sv_move_insert']
RANGE_ANY = ['sv_assign_range']
PAIR = ['sv_swap_member', 'sv_swap_free', 'sv_copy_assign', 'sv_move_assign', 'sv_rel', 'st_swap_member', 'st_swap_free']
ALL = ANY + NONEMPTY + NOTFULL + MIDDLE + RANGE_FIT + RANGE_ANY + PAIR
# known-finding regions that cover whole configurations: the main query is skipped while the finding is open (kf_only)
KF_WHOLE = {'iv_move_ctor': ('C03_inplace_vector_move_ctor_leak', lambda na: na > 0)}
SOLVER = {'sv_free_erase_if': 'cadical', 'sv_free_erase': 'cadical'}


def applicable(e, cap, na, nb):
    if e in ANY: return nb == 0
    if e in NONEMPTY: return nb == 0 and na >= 1
    if e in NOTFULL: return nb == 0 and na < cap
    if e in MIDDLE: return nb == 0 and 1 <= na < cap
    if e in RANGE_FIT: return na + nb <= cap
    if e in RANGE_ANY or e in PAIR: return True
    return False


def uw(blk):
    d = {'ll_memset.0': 130, 'll_memcpy.0': 130, 'll_memmove.0': 130, 'll_memmove.1': 130}   # closures of the case-split lambdas are copied by value (up to ~16 captured references)
    for f, n in (('d_sym_block', blk), ('lg_register', 2 * 6 + 4), ('lg_expect', 2 * 6 + 4), ('lg_marks', 4 * 14 + 4)):   # LG_SLOTS = 2*CAP+2 <= 14
        for i in range(4): d['%s.%d' % (f, i)] = n
    return d


def queries(tier, prop='C03'):
    ub = prop == 'C02'
    out = []
    only_na = {}
    nops = {0: 12, 1: 8, 2: 11}   # static_vector history op codes per flavour (driver.cpp SV_NOPS)
    if tier == 'quick':
        grid = [(0, 3, (0, 3)), (1, 2, (0, 1)), (2, 2, (0, 1)), (3, 2, (0, 1))]   # (flavour, capacity, NB values of two-vector / range operations); NB 1 at capacity 3 is thorough-only (quick-tier budget)
        only_na = {2: (1,), 3: (1,)}   # quick: copy-only elements from the middle pre-size only (every pre-size in the thorough tier)
        hist = [('q_sv_hist', 0, 2, 2, 1, f) for f in range(nops[0])] + [('q_iv_hist', 0, 2, 2, na, None) for na in (0, 1, 2)]
    else:
        grid = [(0, 0, (0,)), (0, 1, (0, 1)), (0, 2, (0, 1, 2)), (0, 3, (0, 1, 2, 3)), (0, 4, (0, 4)), (1, 3, (0, 1, 3)), (2, 3, (0, 1, 3)), (3, 2, (0, 1, 2))]
        hist = [('q_sv_hist', 0, 2, 2, na, f) for na in (0, 1) for f in range(nops[0])] + [('q_sv_hist', fl, 2, 2, 1, f) for fl in (1, 2) for f in range(nops[fl])]
        hist += [('q_sv_hist', 0, 2, 2, 2, f) for f in (1, 4, 7)]   # from the full vector: pop_back / clear / relocate first (the other first operations exceed the memory budget there)
        hist += [('q_sv_hist', 0, 1, 3, 0, f) for f in range(nops[0]) if f not in (5, 8, 9)]   # first operations 5, 8, 9: the 3-step query exceeds the 8 GB per-query memory cap (no verdict): outside the bound
        hist += [('q_iv_hist', fl, 2, 3, 1, None) for fl in (0, 1, 2)] + [('q_iv_hist', 0, 3, 2, na, None) for na in (0, 1, 2, 3)]
    # a first operation whose precondition cannot hold in the pre-state has no admissible history: 0/2/6 append or insert (need !full), 1 pop_back (needs !empty)
    hist = [h for h in hist if h[5] is None or not ((h[5] in (0, 2, 6) and h[4] >= h[2]) or (h[5] == 1 and h[4] == 0))]
    if ub:   # C02: the UB build of a subset (copy+move elements, one capacity)
        grid = [(0, 2, (0, 1))] if tier == 'quick' else [(0, 3, (0, 1, 3)), (1, 2, (0, 1)), (2, 2, (0, 1))]
        only_na = {0: (1,)} if tier == 'quick' else {}   # C02 quick: every operation once, from the middle pre-size
        hist = []
    for (fl, cap, nbs) in grid:
        objsz = cap * 8 + 16
        for na in range(cap + 1):
            if fl in only_na and na not in only_na[fl]: continue
            for nb in nbs:
                for e in ALL:
                    if not applicable(e, cap, na, nb): continue
                    if fl == 1 and e in NEED_COPY: continue
                    q = dict(entry='q_' + e, cfg={'FLAV': fl, 'CAP': cap, 'NA': na, 'NB': nb, 'LG_SLOTS': 2 * cap + 2}, unwind=cap + 3, unwindset=uw(objsz + 2),
                             budget=120 if tier == 'quick' else 600, ub=ub, nofunc=ub, solver=SOLVER.get(e, ['cadical', 'minisat']))
                    if e in KF_WHOLE and KF_WHOLE[e][1](na): q['kf_only'] = KF_WHOLE[e][0]
                    out.append(q)
    for (e, fl, cap, k, na, first) in hist:
        cfg = {'FLAV': fl, 'CAP': cap, 'NA': na, 'NB': 0, 'KSTEPS': k, 'LG_SLOTS': 2 * cap + 2}
        if first is not None: cfg['FIRST'] = first
        out.append(dict(entry=e, cfg=cfg, unwind=cap + 3, unwindset=uw(cap * 8 + 18), object_bits=14, solver='minisat',   # histories: minisat (cadical ran out of the 8 GB cap on the 3-step ones)
                        budget=300 if tier == 'quick' else 2400, ub=ub, nofunc=ub))
    for q_ in out:
        q_.setdefault('solver', ['cadical', 'minisat'])
        q_['lazy_trace'] = True   # verdict first, counterexample trace only when an obligation fails (engine/runner.py)
        if q_['cfg'].get('FLAV') == 3: q_['cbmc_flags'] = ['--max-field-sensitivity-array-size', '256']   # defaulted assignment = memcpy through pointers: keep the ledger global field-sensitive
    return out
