// C03 instrumentation shared by the life_* harness families (kernel.cpp and driver.cpp of each; contains no tetl code).
//
// Tracked<TAG,FLAV> is an element type whose every special member reports to one global ledger (vf_led, defined in the
// driver TU, external linkage, declared here):
//   * for an address inside a *registered region* (the exact-size block an owner object or a source array lives in) the
//     ledger keeps a shadow byte per 4-byte slot: 0 = no live object starts here, TAG = a live Tracked<TAG,...> starts
//     here. A constructor asserts the slot is dead and marks it live; assignment / comparison / read / destructor assert
//     it is live with the right tag; the destructor marks it dead.
//   * for any other address (temporaries, parameters, by-value copies) an in-object state word (LIVE / MOVED / DEAD) is
//     checked on every use, and out_live counts constructions minus destructions of such objects.
// The driver checks after every kernel call that exactly the slots of the owner's current elements are live, that no
// temporary is left alive, and after the owner's destructor that nothing is alive and constructions == destructions.
// Include after "vf.h" (kernels: after the tetl headers).
#ifndef LIFE_TRACKED_H
#define LIFE_TRACKED_H
#include <stdint.h>
#ifndef FLAV
#define FLAV 0 // 0: copyable and movable, 1: move-only, 2: copy-only (no move operations declared: rvalues are copied)
#endif
#define LG_REGIONS 4
#ifndef LG_SLOTS
#define LG_SLOTS 16 // 4-byte slots per region: regions are at most 64 bytes
#endif
#define LG_LIVE 0x4c495645u
#define LG_MOVED 0x4d4f5645u
#define LG_DEAD 0x44454144u
#define LG_MOVED_V 0x4d4f5600 // payload left in a moved-from element
struct Ledger {
    unsigned char* base[LG_REGIONS];
    uint64_t bytes[LG_REGIONS];
    uint8_t shadow[LG_REGIONS][LG_SLOTS];
    uint32_t nctor, ndtor; // every construction / destruction, wherever the object lives
    int32_t out_live;      // objects outside all regions: constructed minus destroyed
    uint32_t ncopy, nmove, ncassign, nmassign;
    uint32_t bad; // number of illegal transitions seen (each one also fails its own vf_assert)
};
extern "C" {
extern Ledger vf_led; // defined in driver.cpp
}
// region lookup, hand-unrolled (no loop for the solver to unwind); returns the slot or null for an outside address
static inline uint8_t* lg_slot(void const* p)
{
    uint64_t a = (uint64_t)p;
#define LG_TRY(R)                                                                                                        \
    {                                                                                                                    \
        uint64_t off = a - (uint64_t)vf_led.base[R];                                                                     \
        if (vf_led.base[R] != nullptr && off < vf_led.bytes[R]) return &vf_led.shadow[R][off >> 2];                      \
    }
    LG_TRY(0) LG_TRY(1) LG_TRY(2) LG_TRY(3)
#undef LG_TRY
    return nullptr;
}
static inline void lg_bad(bool ok, char const* what)
{
    if (!ok) vf_led.bad++;
    vf_assert(ok, what);
}
static inline void lg_ctor(void const* p, uint32_t* st, uint8_t tag)
{
    uint8_t* s = lg_slot(p);
    if (s) {
        lg_bad(*s == 0, "C03: a constructor runs on storage that already holds a live object");
        *s = tag;
    } else {
        vf_led.out_live++;
    }
    *st = LG_LIVE;
    vf_led.nctor++;
}
static inline void lg_use(void const* p, uint32_t st, uint8_t tag)
{
    uint8_t* s = lg_slot(p);
    if (s) lg_bad(*s == tag, "C03: a member function, assignment or read runs on storage that holds no live object");
    else lg_bad(st == LG_LIVE || st == LG_MOVED, "C03: a member function, assignment or read runs on a temporary that is not alive");
}
static inline void lg_dtor(void const* p, uint32_t* st, uint8_t tag)
{
    uint8_t* s = lg_slot(p);
    if (s) {
        lg_bad(*s == tag, "C03: a destructor runs on storage that holds no live object (double destroy / never constructed)");
        *s = 0;
    } else {
        lg_bad(*st == LG_LIVE || *st == LG_MOVED, "C03: a destructor runs on a temporary that is not alive (double destroy)");
        vf_led.out_live--;
    }
    *st = LG_DEAD;
    vf_led.ndtor++;
}

struct SrcV { // plain value a Tracked can be implicitly constructed / assigned from (converting constructors and assignments)
    int v;
};
template <int TAG, int FL>
struct Tracked {
    int v;
    uint32_t st;
    Tracked() noexcept : v(0) { lg_ctor(this, &st, TAG); }
    explicit Tracked(int x) noexcept : v(x) { lg_ctor(this, &st, TAG); }
    Tracked(SrcV s) noexcept : v(s.v) { lg_ctor(this, &st, TAG); }
    Tracked& operator=(SrcV s) noexcept
    {
        lg_use(this, st, TAG);
        v = s.v;
        st = LG_LIVE;
        return *this;
    }
    Tracked(Tracked const& o) noexcept
        requires(FL != 1)
        : v(o.v)
    {
        lg_use(&o, o.st, TAG);
        lg_ctor(this, &st, TAG);
        vf_led.ncopy++;
    }
    Tracked(Tracked&& o) noexcept
        requires(FL != 2)
        : v(o.v)
    {
        lg_use(&o, o.st, TAG);
        lg_ctor(this, &st, TAG);
        if (&o != this) { o.v = LG_MOVED_V; o.st = LG_MOVED; }
        vf_led.nmove++;
    }
    Tracked& operator=(Tracked const& o) noexcept
        requires(FL != 1)
    {
        lg_use(&o, o.st, TAG);
        lg_use(this, st, TAG);
        v = o.v;
        st = LG_LIVE;
        vf_led.ncassign++;
        return *this;
    }
    Tracked& operator=(Tracked&& o) noexcept
        requires(FL != 2)
    {
        lg_use(&o, o.st, TAG);
        lg_use(this, st, TAG);
        if (&o != this) { v = o.v; st = LG_LIVE; o.v = LG_MOVED_V; o.st = LG_MOVED; }
        vf_led.nmassign++;
        return *this;
    }
    ~Tracked() { lg_dtor(this, &st, TAG); v = (int)LG_DEAD; }
    int get() const noexcept { lg_use(this, st, TAG); return v; }
    friend bool operator==(Tracked const& x, Tracked const& y) noexcept { return x.get() == y.get(); }
    friend bool operator!=(Tracked const& x, Tracked const& y) noexcept { return x.get() != y.get(); }
    friend bool operator<(Tracked const& x, Tracked const& y) noexcept { return x.get() < y.get(); }
    friend bool operator<=(Tracked const& x, Tracked const& y) noexcept { return x.get() <= y.get(); }
    friend bool operator>(Tracked const& x, Tracked const& y) noexcept { return x.get() > y.get(); }
    friend bool operator>=(Tracked const& x, Tracked const& y) noexcept { return x.get() >= y.get(); }
};

#ifdef LIFE_DRIVER
// Case split on a symbolic position / count v in 0..MAX (the caller has assumed v <= MAX): the body runs once per value with
// the value as a constant, so every loop and every ledger slot inside the library call is concrete on that path; the solver
// still decides over the symbolic v (all paths are part of the one query). One noinline instantiation per value keeps
// clang from merging the calls back into a single call with a phi argument.
template <uint64_t I, bool WIT, typename F>
__attribute__((noinline)) static void at_const(F& f)
{
    if constexpr (WIT) vf_witness("case-split path"); // one witness per instantiation: every value of the split must be reachable
    f(I);
}
template <unsigned MAX, bool WIT = true, typename F>
static inline void split(uint64_t v, F f)
{
    if constexpr (MAX == 0) { at_const<0, WIT>(f); }
    else { if (v == MAX) at_const<MAX, WIT>(f); else split<MAX - 1, WIT>(v, f); }
}
// the same without the per-value witnesses (histories: thousands of paths, each witness costs a counterexample trace);
// the history leaves carry one witness instead
template <unsigned MAX, typename F>
static inline void split_q(uint64_t v, F f) { split<MAX, false>(v, f); }
// ---- driver side: region registration and the checks made between kernel calls
extern "C" __attribute__((noinline)) void lg_register(unsigned r, void* base, uint64_t bytes)
{
    vf_assert(bytes <= uint64_t(LG_SLOTS) * 4, "harness: the region fits the shadow array (LG_SLOTS)");
    vf_led.base[r] = (unsigned char*)base;
    vf_led.bytes[r] = bytes;
    for (unsigned i = 0; i < LG_SLOTS; i++) vf_led.shadow[r][i] = 0;
}
// region r holds exactly n live objects of `tag`, esz bytes apart, the first at byte offset off; every other slot is dead
extern "C" __attribute__((noinline)) void lg_expect(unsigned r, uint64_t off, unsigned n, unsigned esz, unsigned tag)
{
    uint8_t want[LG_SLOTS];
    for (unsigned i = 0; i < LG_SLOTS; i++) want[i] = 0;
    for (unsigned k = 0; k < n; k++) want[(off + uint64_t(k) * esz) >> 2] = (uint8_t)tag;
    for (unsigned i = 0; i < LG_SLOTS; i++) {
        if (want[i]) vf_assert(vf_led.shadow[r][i] == want[i], "C03: an element of the owner is not a live object (never constructed, or destroyed while still owned)");
        else vf_assert(vf_led.shadow[r][i] == 0, "C03: a live object is left outside the owner's elements (leak: constructed but never destroyed)");
    }
}
static inline void lg_quiet() // between kernel calls: no temporary is alive, no illegal transition was seen
{
    vf_assert(vf_led.out_live == 0, "C03: every temporary / parameter object created during the call was destroyed exactly once");
    vf_assert(vf_led.bad == 0, "C03: no illegal lifetime transition");
}
static inline void lg_balanced() // at the very end
{
    vf_assert(vf_led.nctor == vf_led.ndtor, "C03: constructions == destructions once every owner is destroyed");
    vf_assert(vf_led.out_live == 0 && vf_led.bad == 0, "C03: nothing alive outside, no illegal transition");
}
#endif
#endif
