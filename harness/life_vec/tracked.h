// C03 instrumentation shared by the life_* harness families (kernel.cpp and driver.cpp of each; contains no tetl code).
//
// Tracked<TAG,FLAV> is an element type whose every special member reports to one global ledger (vf_led, defined in the
// driver TU, external linkage, declared here) and keeps an in-object state word:
//   st == LG_LIVE+TAG   a live object          st == LG_MOVED+TAG   a live, moved-from object        anything else: no object
//   * every constructor writes LG_LIVE+TAG and counts a construction;
//   * assignment / comparison / read / being copied or moved from assert that the word is a live mark of the right TAG;
//   * the destructor asserts the same, writes LG_DEAD (volatile: the store must survive dead-store elimination) and
//     counts a destruction.
// The driver registers the exact-size blocks that hold owners and source arrays (*regions*). Registration assumes that no
// 4-byte word of the still raw, symbolic block is a live mark (6 reserved patterns out of 2^32 per word); payload values are
// drawn outside the reserved patterns as well. After every kernel call the driver takes a census of every region:
//   * lg_expect: exactly the words where the state of the owner's current elements must be are live marks (of the right
//     TAG), no other word of the block is - so no element is dead, and nothing is alive outside [begin, end);
//   * lg_quiet: constructions - destructions == live marks in all regions. A constructor that ran over a live object, a
//     leaked temporary, a missing destroy or a bitwise copy of a live object all break this equation;
//   * use of a dead object / double destroy fail the assertion in the special member itself.
// After the owner's destructor: no live mark anywhere and constructions == destructions.
// Include after "vf.h" (kernels: after the tetl headers).
#ifndef LIFE_TRACKED_H
#define LIFE_TRACKED_H
#include <stdint.h>
#ifndef FLAV
#define FLAV 0 // 0: copyable and movable, 1: move-only, 2: copy-only (no move operations declared: rvalues are copied),
               // 3: user-provided constructors and destructor but DEFAULTED (trivial) copy and move assignment: an assignment
               //    copies payload and state word bitwise and reports nothing, so for this flavour everything rests on the
               //    per-type census and construction/destruction balance (a library that "assigns" such objects bitwise
               //    where it should destroy one type and construct another is caught there)
#endif
#define LG_REGIONS 4
#ifndef LG_SLOTS
#define LG_SLOTS 16 // 4-byte words per region: regions are at most 64 bytes
#endif
#define LG_LIVE 0x4c495640u  // + TAG (1..3)
#define LG_MOVED 0x4d4f5640u // + TAG
#define LG_DEAD 0x44454144u
#define LG_MOVED_V 0x4d4f5600 // payload left in a moved-from element
struct Ledger {
    unsigned char* base[LG_REGIONS];
    uint64_t bytes[LG_REGIONS];
    uint64_t off[LG_REGIONS];  // where the first element of region r starts, how far elements are apart, how many fit:
    uint32_t esz[LG_REGIONS];  // learned from the first census that expects an element (0: not yet known; such a region
    uint32_t nslot[LG_REGIONS]; // has never held an element, the census counts nothing in it)
    uint32_t nctor, ndtor; // every construction / destruction, wherever the object lives
    uint32_t nctor_t[4], ndtor_t[4]; // the same per type tag (index 1..3)
    uint32_t ncopy, nmove, ncassign, nmassign;
    uint32_t bad; // number of illegal transitions seen (each one also fails its own vf_assert)
};
extern "C" {
extern Ledger vf_led; // defined in driver.cpp
}
static inline bool lg_is_mark(uint32_t w) { return (w >= LG_LIVE + 1 && w <= LG_LIVE + 3) || (w >= LG_MOVED + 1 && w <= LG_MOVED + 3); }
static inline void lg_bad(bool ok, char const* what)
{
    if (!ok) vf_led.bad++;
    vf_assert(ok, what);
}
static inline void lg_ctor(void const*, uint32_t* st, uint32_t tag)
{
    *st = LG_LIVE + tag;
    vf_led.nctor++;
    vf_led.nctor_t[tag & 3]++;
}
static inline void lg_use(void const*, uint32_t st, uint32_t tag)
{
    lg_bad(st == LG_LIVE + tag || st == LG_MOVED + tag, "C03: a member function, assignment, comparison or copy/move source is storage that holds no live object");
}
static inline void lg_dtor(void const*, uint32_t* st, uint32_t tag)
{
    lg_bad(*st == LG_LIVE + tag || *st == LG_MOVED + tag, "C03: a destructor runs on storage that holds no live object (double destroy / never constructed)");
    *(uint32_t volatile*)st = LG_DEAD;
    vf_led.ndtor++;
    vf_led.ndtor_t[tag & 3]++;
}

struct SrcV { // plain value a Tracked can be implicitly constructed / assigned from (converting constructors and assignments)
    int v;
};
template <int TAG, int FL>
struct Tracked {
    int v;
    uint32_t st;
    Tracked() noexcept : v(0) { lg_ctor(this, &st, TAG); }
    explicit Tracked(int x) noexcept : v(x) { lg_ctor(this, &st, TAG); }
    Tracked(SrcV s) noexcept : v(s.v) { lg_ctor(this, &st, TAG); }
    Tracked& operator=(SrcV s) noexcept
    {
        lg_use(this, st, TAG);
        v = s.v;
        st = LG_LIVE + TAG;
        return *this;
    }
    Tracked(Tracked const& o) noexcept
        requires(FL != 1)
        : v(o.v)
    {
        lg_use(&o, o.st, TAG);
        lg_ctor(this, &st, TAG);
        vf_led.ncopy++;
    }
    Tracked(Tracked&& o) noexcept
        requires(FL != 2)
        : v(o.v)
    {
        lg_use(&o, o.st, TAG);
        lg_ctor(this, &st, TAG);
        if (&o != this) { o.v = LG_MOVED_V; o.st = LG_MOVED + TAG; }
        vf_led.nmove++;
    }
    Tracked& operator=(Tracked const&) noexcept
        requires(FL == 3)
    = default;
    Tracked& operator=(Tracked&&) noexcept
        requires(FL == 3)
    = default;
    Tracked& operator=(Tracked const& o) noexcept
        requires(FL != 1 && FL != 3)
    {
        lg_use(&o, o.st, TAG);
        lg_use(this, st, TAG);
        v = o.v;
        st = LG_LIVE + TAG;
        vf_led.ncassign++;
        return *this;
    }
    Tracked& operator=(Tracked&& o) noexcept
        requires(FL != 2 && FL != 3)
    {
        lg_use(&o, o.st, TAG);
        lg_use(this, st, TAG);
        if (&o != this) { v = o.v; st = LG_LIVE + TAG; o.v = LG_MOVED_V; o.st = LG_MOVED + TAG; }
        vf_led.nmassign++;
        return *this;
    }
    ~Tracked() { lg_dtor(this, &st, TAG); *(int volatile*)&v = (int)LG_DEAD; }
    int get() const noexcept { lg_use(this, st, TAG); return v; }
    friend bool operator==(Tracked const& x, Tracked const& y) noexcept { return x.get() == y.get(); }
    friend bool operator!=(Tracked const& x, Tracked const& y) noexcept { return x.get() != y.get(); }
    friend bool operator<(Tracked const& x, Tracked const& y) noexcept { return x.get() < y.get(); }
    friend bool operator<=(Tracked const& x, Tracked const& y) noexcept { return x.get() <= y.get(); }
    friend bool operator>(Tracked const& x, Tracked const& y) noexcept { return x.get() > y.get(); }
    friend bool operator>=(Tracked const& x, Tracked const& y) noexcept { return x.get() >= y.get(); }
};

#ifdef LIFE_DRIVER
// Case split on a symbolic position / count v in 0..MAX (the caller has assumed v <= MAX): the body runs once per value with
// the value as a constant, so every loop and every ledger slot inside the library call is concrete on that path; the solver
// still decides over the symbolic v (all paths are part of the one query). One noinline instantiation per value keeps
// clang from merging the calls back into a single call with a phi argument.
template <uint64_t I, bool WIT, typename F>
__attribute__((noinline)) static void at_const(F& f)
{
    if constexpr (WIT) vf_witness("case-split path"); // one witness per instantiation: every value of the split must be reachable
    f(I);
}
template <unsigned MAX, bool WIT = true, typename F>
static inline void split(uint64_t v, F f)
{
    if constexpr (MAX == 0) { at_const<0, WIT>(f); }
    else { if (v == MAX) at_const<MAX, WIT>(f); else split<MAX - 1, WIT>(v, f); }
}
// one property for "some history ran to its end" (a noinline function: a single assertion however often the leaf is inlined)
extern "C" __attribute__((noinline)) void lg_history_done() { vf_witness("a complete history was executed"); }
// the same without the per-value witnesses (histories: thousands of paths, each witness costs a counterexample trace);
// the history leaves carry one witness instead
template <unsigned MAX, typename F>
static inline void split_q(uint64_t v, F f) { split<MAX, false>(v, f); }
// ---- driver side: region registration and the censuses taken between kernel calls
static inline uint32_t lg_word_at(unsigned r, uint64_t byteoff)
{
    unsigned char const* b = vf_led.base[r] + byteoff;
    return uint32_t(b[0]) | uint32_t(b[1]) << 8 | uint32_t(b[2]) << 16 | uint32_t(b[3]) << 24;
}
// block [base, base+bytes) becomes region r; its raw (symbolic) bytes are assumed to contain no live mark
extern "C" __attribute__((noinline)) void lg_register(unsigned r, void* base, uint64_t bytes)
{
    vf_assert(bytes <= uint64_t(LG_SLOTS) * 4, "harness: the region fits the census (LG_SLOTS words)");
    vf_led.base[r] = (unsigned char*)base;
    vf_led.bytes[r] = bytes;
    vf_led.off[r] = 0; vf_led.esz[r] = 0; vf_led.nslot[r] = 0;
    for (unsigned i = 0; i < LG_SLOTS; i++)
        if (uint64_t(i) * 4 + 4 <= bytes) vf_assume(!lg_is_mark(lg_word_at(r, uint64_t(i) * 4))); // whole words only (a capacity-0 vector is 1 byte)
}
// where elements of the owner in region r can live: first slot at byte offset off, esz bytes apart (told right after
// registration, from layout constants of the kernel; lg_expect insists that the elements it is told about are there)
static inline void lg_layout(unsigned r, uint64_t off, unsigned esz)
{
    vf_led.off[r] = off; vf_led.esz[r] = esz;
    vf_led.nslot[r] = vf_led.bytes[r] >= off + esz ? uint32_t((vf_led.bytes[r] - off) / esz) : 0;
}
// region r holds exactly n live objects of `tag` (0: of any tag), esz bytes apart, the first at byte offset off, and no live object in any
// other element slot (the census looks at the state word of every slot an element of this owner can occupy; an object
// alive anywhere else shows up in lg_quiet's count)
extern "C" __attribute__((noinline)) void lg_expect(unsigned r, uint64_t off, unsigned n, unsigned esz, unsigned tag)
{
    if (n > 0) {
        if (vf_led.esz[r] == 0) { vf_led.off[r] = off; vf_led.esz[r] = esz; vf_led.nslot[r] = uint32_t((vf_led.bytes[r] - off) / esz); }
        vf_assert(vf_led.off[r] == off && vf_led.esz[r] == esz && n <= vf_led.nslot[r], "harness: the element slots of a region do not move");
    }
    for (unsigned i = 0; i < LG_SLOTS; i++) {
        if (i >= vf_led.nslot[r]) break;
        uint32_t w = lg_word_at(r, vf_led.off[r] + uint64_t(i) * vf_led.esz[r] + 4); // the state word follows the payload
        if (i < n) vf_assert(tag == 0 ? lg_is_mark(w) : (w == LG_LIVE + tag || w == LG_MOVED + tag), "C03: an element of the owner is not a live object (never constructed, or destroyed while still owned)");
        else vf_assert(!lg_is_mark(w), "C03: a live object is left outside the owner's elements (leak: constructed but never destroyed)");
    }
}
// live objects in the element slots of all regions: total (returned) and per type tag (by_tag[1..3])
extern "C" __attribute__((noinline)) unsigned lg_marks(uint32_t* by_tag)
{
    unsigned c = 0;
    by_tag[0] = by_tag[1] = by_tag[2] = by_tag[3] = 0;
    for (unsigned r = 0; r < LG_REGIONS; r++)
        for (unsigned i = 0; i < LG_SLOTS; i++)
            if (i < vf_led.nslot[r]) {
                uint32_t w = lg_word_at(r, vf_led.off[r] + uint64_t(i) * vf_led.esz[r] + 4);
                if (lg_is_mark(w)) { c++; by_tag[w & 3]++; } // LG_LIVE and LG_MOVED end in two zero bits: the low bits are the tag
            }
    return c;
}
static inline void lg_quiet() // between kernel calls
{
    uint32_t m[4];
    vf_assert(vf_led.nctor - vf_led.ndtor == lg_marks(m), "C03: constructions - destructions == live objects in the owners (a temporary leaked, an object was constructed over a live one, destroyed objects are missing, or a live object was copied bitwise)");
    vf_assert(vf_led.nctor_t[1] - vf_led.ndtor_t[1] == m[1] && vf_led.nctor_t[2] - vf_led.ndtor_t[2] == m[2] && vf_led.nctor_t[3] - vf_led.ndtor_t[3] == m[3],
              "C03: per type: constructions - destructions == live objects of that type in the owners (an object of one type was turned into another without destroying the one and constructing the other)");
    vf_assert(vf_led.bad == 0, "C03: no illegal lifetime transition");
}
static inline void lg_balanced() // at the very end, every owner destroyed
{
    uint32_t m[4];
    vf_assert(vf_led.nctor == vf_led.ndtor, "C03: constructions == destructions once every owner is destroyed");
    vf_assert(vf_led.nctor_t[1] == vf_led.ndtor_t[1] && vf_led.nctor_t[2] == vf_led.ndtor_t[2] && vf_led.nctor_t[3] == vf_led.ndtor_t[3], "C03: per type: constructions == destructions once every owner is destroyed");
    vf_assert(lg_marks(m) == 0 && vf_led.bad == 0, "C03: nothing is alive, no illegal transition");
}
// payload values avoid the reserved state patterns (so a payload word is never mistaken for a live mark by the census)
static inline uint32_t lg_nd_payload()
{
    uint32_t x = vf_nd_u32();
    vf_assume(!lg_is_mark(x));
    return x;
}
#endif
#endif
