// C03 kernels (family life_vec): thin wrappers around etl::static_vector<E,CAP>, etl::inplace_vector<E,CAP> and
// etl::stack<E, static_vector<E,CAP>> with the instrumented element type E = Tracked<1,FLAV> (tracked.h).
// No logic besides marshalling: objects are addressed through void*, positions travel as indices, elements as their int payload.
#include <etl/inplace_vector.hpp>
#include <etl/stack.hpp>
#include <etl/vector.hpp>
#include <etl/new.hpp>
#include "vf.h" // after the library headers (K and Q are macros)
#include "tracked.h"
#ifndef CAP
#define CAP 3
#endif
#ifndef NA
#define NA 0
#endif
using E = Tracked<1, FLAV>;
using PV = uint32_t;
using SV = etl::static_vector<E, CAP>;
using IV = etl::inplace_vector<E, CAP>;
using ST = etl::stack<E, SV>;
using u64 = uint64_t;
#define SVR(p) (*static_cast<SV*>(p))
#define SVC(p) (*static_cast<SV const*>(p))
#define IVR(p) (*static_cast<IV*>(p))
#define IVC(p) (*static_cast<IV const*>(p))
#define STR(p) (*static_cast<ST*>(p))
#define STC(p) (*static_cast<ST const*>(p))
static inline E mk(PV x) { return E((int)x); }

// ---- element blocks outside any container (sources of range operations, registered as a ledger region by the driver)
K u64 k_esize() { return sizeof(E); }
K void k_mk_array(void* blk, PV const* vals, u64 cnt) { for (u64 i = 0; i < cnt; i++) ::new (static_cast<E*>(blk) + i) E((int)vals[i]); }
K PV k_rd_array(void const* blk, u64 i) { return (PV) static_cast<E const*>(blk)[i].get(); }
K void k_set_array(void* blk, u64 i, PV x) { static_cast<E*>(blk)[i] = mk(x); } // an element (possibly moved-from) is assignable
K void k_destroy_array(void* blk, u64 cnt) { for (u64 i = 0; i < cnt; i++) static_cast<E*>(blk)[i].~E(); }

// =====================================================================================================================
// static_vector
// =====================================================================================================================
K u64 k_sv_sizeof() { return sizeof(SV); }
K void k_sv_new(void* p) { ::new (p) SV; }
K void k_sv_dtor(void* p) { SVR(p).~SV(); }
K u64 k_sv_size(void const* p) { return SVC(p).size(); }
K u64 k_sv_data_off(void* p) { return u64(reinterpret_cast<unsigned char*>(SVR(p).data()) - static_cast<unsigned char*>(p)); }
K PV k_sv_at(void const* p, u64 i) { return (PV)SVC(p)[i].get(); }
K void k_sv_set_at(void* p, u64 i, PV x) { SVR(p)[i] = mk(x); }
K void k_sv_push_back_r(void* p, PV x) { SVR(p).push_back(mk(x)); }
K void k_sv_emplace_back(void* p, PV x) { SVR(p).emplace_back((int)x); }
K u64 k_sv_emplace(void* p, u64 pos, PV x) { return u64(SVR(p).emplace(SVR(p).begin() + pos, (int)x) - SVR(p).begin()); }
K void k_sv_pop_back(void* p) { SVR(p).pop_back(); }
K u64 k_sv_erase1(void* p, u64 pos) { return u64(SVR(p).erase(SVR(p).cbegin() + pos) - SVR(p).begin()); }
K u64 k_sv_erase_range(void* p, u64 first, u64 last) { return u64(SVR(p).erase(SVR(p).cbegin() + first, SVR(p).cbegin() + last) - SVR(p).begin()); }
K void k_sv_clear(void* p) { SVR(p).clear(); }
K void k_sv_resize1(void* p, u64 sz) { SVR(p).resize(sz); }
K void k_sv_ctor_n(void* dst, u64 n) { ::new (dst) SV(n); }
K void k_sv_move_ctor(void* dst, void* src) { ::new (dst) SV(etl::move(SVR(src))); }
K u64 k_sv_free_erase(void* p, PV x) { E const e = mk(x); return etl::erase(SVR(p), e); }
K u64 k_sv_free_erase_if(void* p, PV x) { E const e = mk(x); return etl::erase_if(SVR(p), [&e](E const& item) { return item < e; }); }
K u64 k_sv_move_insert(void* p, u64 pos, void* src, u64 cnt)
{
    auto* s = static_cast<E*>(src);
    return u64(SVR(p).move_insert(SVR(p).cbegin() + pos, s, s + cnt) - SVR(p).begin());
}
#if NA > 0 && NA <= CAP
K void k_sv_ctor_carray(void* dst, void* src) { ::new (dst) SV(etl::move(*static_cast<etl::c_array<E, NA>*>(src))); }
#else
K void k_sv_ctor_carray(void* dst, void*) { ::new (dst) SV(etl::empty_c_array{}); }
#endif
K u64 k_sv_insert_r(void* p, u64 pos, PV x) { return u64(SVR(p).insert(SVR(p).cbegin() + pos, mk(x)) - SVR(p).begin()); }
#if FLAV != 1
// static_vector's move assignment is constrained on is_assignable_v<T&, T&> (copy assignment of the element), so a
// static_vector of a move-only type has no move assignment and no swap (neither has the stack on top of it)
K void k_sv_move_assign(void* dst, void* src) { SVR(dst) = etl::move(SVR(src)); }
K void k_sv_swap_member(void* p, void* q) { SVR(p).swap(SVR(q)); }
K void k_sv_swap_free(void* p, void* q) { using etl::swap; swap(SVR(p), SVR(q)); }
#else
K void k_sv_move_assign(void*, void*) {}
K void k_sv_swap_member(void*, void*) {}
K void k_sv_swap_free(void*, void*) {}
#endif
#if FLAV != 1 // operations that need a copyable element
K void k_sv_push_back_l(void* p, PV x) { E const e = mk(x); SVR(p).push_back(e); }
K u64 k_sv_insert_l(void* p, u64 pos, PV x) { E const e = mk(x); return u64(SVR(p).insert(SVR(p).cbegin() + pos, e) - SVR(p).begin()); }
K u64 k_sv_insert_fill(void* p, u64 pos, u64 cnt, PV x) { E const e = mk(x); return u64(SVR(p).insert(SVR(p).cbegin() + pos, cnt, e) - SVR(p).begin()); }
K u64 k_sv_insert_range(void* p, u64 pos, void const* src, u64 cnt)
{
    auto const* s = static_cast<E const*>(src);
    return u64(SVR(p).insert(SVR(p).cbegin() + pos, s, s + cnt) - SVR(p).begin());
}
K u64 k_sv_insert_self(void* p, u64 pos, u64 from) { return u64(SVR(p).insert(SVR(p).cbegin() + pos, SVC(p)[from]) - SVR(p).begin()); }
K void k_sv_push_back_self(void* p, u64 from) { SVR(p).push_back(SVC(p)[from]); }
K void k_sv_resize2(void* p, u64 sz, PV x) { E const e = mk(x); SVR(p).resize(sz, e); }
K void k_sv_assign_range(void* p, void const* src, u64 cnt) { auto const* s = static_cast<E const*>(src); SVR(p).assign(s, s + cnt); }
K void k_sv_assign_fill(void* p, u64 cnt, PV x) { E const e = mk(x); SVR(p).assign(cnt, e); }
K void k_sv_copy_ctor(void* dst, void const* src) { ::new (dst) SV(SVC(src)); }
K void k_sv_copy_assign(void* dst, void const* src) { SVR(dst) = SVC(src); }
K void k_sv_ctor_nv(void* dst, u64 n, PV x) { E const e = mk(x); ::new (dst) SV(n, e); }
K void k_sv_ctor_range(void* dst, void const* src, u64 cnt) { auto const* s = static_cast<E const*>(src); ::new (dst) SV(s, s + cnt); }
K unsigned k_sv_rel(void const* p, void const* q)
{
    SV const& a = SVC(p); SV const& b = SVC(q);
    return unsigned(a == b) | unsigned(a != b) << 1 | unsigned(a < b) << 2 | unsigned(a <= b) << 3 | unsigned(a > b) << 4 | unsigned(a >= b) << 5;
}
#else
K void k_sv_push_back_l(void*, PV) {}
K u64 k_sv_insert_l(void*, u64, PV) { return 0; }
K u64 k_sv_insert_fill(void*, u64, u64, PV) { return 0; }
K u64 k_sv_insert_range(void*, u64, void const*, u64) { return 0; }
K u64 k_sv_insert_self(void*, u64, u64) { return 0; }
K void k_sv_push_back_self(void*, u64) {}
K void k_sv_resize2(void*, u64, PV) {}
K void k_sv_assign_range(void*, void const*, u64) {}
K void k_sv_assign_fill(void*, u64, PV) {}
K void k_sv_copy_ctor(void*, void const*) {}
K void k_sv_copy_assign(void*, void const*) {}
K void k_sv_ctor_nv(void*, u64, PV) {}
K void k_sv_ctor_range(void*, void const*, u64) {}
K unsigned k_sv_rel(void const*, void const*) { return 0; }
#endif

// =====================================================================================================================
// inplace_vector (no assignment operators, no insert/erase/resize/swap exist)
// =====================================================================================================================
K u64 k_iv_sizeof() { return sizeof(IV); }
K void k_iv_new(void* p) { ::new (p) IV(); } // value-initialisation
K void k_iv_dtor(void* p) { IVR(p).~IV(); }
K u64 k_iv_size(void const* p) { return IVC(p).size(); }
K u64 k_iv_data_off(void* p) { return u64(reinterpret_cast<unsigned char*>(IVR(p).data()) - static_cast<unsigned char*>(p)); }
K PV k_iv_at(void const* p, u64 i) { return (PV)IVC(p)[i].get(); }
K void k_iv_set_at(void* p, u64 i, PV x) { IVR(p)[i] = mk(x); }
K u64 k_iv_unchecked_push_back_r(void* p, PV x) { return u64(&IVR(p).unchecked_push_back(mk(x)) - IVR(p).data()); }
K u64 k_iv_unchecked_emplace_back(void* p, PV x) { return u64(&IVR(p).unchecked_emplace_back((int)x) - IVR(p).data()); }
K u64 k_iv_try_push_back_r(void* p, PV x) { E* r = IVR(p).try_push_back(mk(x)); return r ? u64(r - IVR(p).data()) : ~u64(0); }
K u64 k_iv_try_emplace_back(void* p, PV x) { E* r = IVR(p).try_emplace_back((int)x); return r ? u64(r - IVR(p).data()) : ~u64(0); }
K void k_iv_pop_back(void* p) { IVR(p).pop_back(); }
K void k_iv_clear(void* p) { IVR(p).clear(); }
K void k_iv_move_ctor(void* dst, void* src) { ::new (dst) IV(etl::move(IVR(src))); }
#if FLAV != 1
K u64 k_iv_unchecked_push_back_l(void* p, PV x) { E const e = mk(x); return u64(&IVR(p).unchecked_push_back(e) - IVR(p).data()); }
K u64 k_iv_try_push_back_l(void* p, PV x) { E const e = mk(x); E* r = IVR(p).try_push_back(e); return r ? u64(r - IVR(p).data()) : ~u64(0); }
K void k_iv_copy_ctor(void* dst, void const* src) { ::new (dst) IV(IVC(src)); }
#else
K u64 k_iv_unchecked_push_back_l(void*, PV) { return 0; }
K u64 k_iv_try_push_back_l(void*, PV) { return 0; }
K void k_iv_copy_ctor(void*, void const*) {}
#endif

// =====================================================================================================================
// stack over static_vector (no assignment operators exist: the declared move constructor deletes them)
// =====================================================================================================================
K u64 k_st_sizeof() { return sizeof(ST); }
K void k_st_new(void* p) { ::new (p) ST; }
K void k_st_dtor(void* p) { STR(p).~ST(); }
K u64 k_st_size(void const* p) { return STC(p).size(); }
// offset of the top element inside the stack object (only called for a non-empty stack)
K u64 k_st_top_off(void* p) { return u64(reinterpret_cast<unsigned char*>(&STR(p).top()) - static_cast<unsigned char*>(p)); }
K PV k_st_top(void const* p) { return (PV)STC(p).top().get(); }
K void k_st_set_top(void* p, PV x) { STR(p).top() = mk(x); }
K void k_st_push_r(void* p, PV x) { STR(p).push(mk(x)); }
K void k_st_emplace(void* p, PV x) { STR(p).emplace((int)x); }
K void k_st_pop(void* p) { STR(p).pop(); }
#if FLAV != 1
K void k_st_swap_member(void* p, void* q) { STR(p).swap(STR(q)); }
K void k_st_swap_free(void* p, void* q) { using etl::swap; swap(STR(p), STR(q)); }
#else
K void k_st_swap_member(void*, void*) {}
K void k_st_swap_free(void*, void*) {}
#endif
K void k_st_move_ctor(void* dst, void* src) { ::new (dst) ST(etl::move(STR(src))); }
K void k_st_from_c_move(void* dst, void* sv) { ::new (dst) ST(etl::move(SVR(sv))); }
#if FLAV != 1
K void k_st_push_l(void* p, PV x) { E const e = mk(x); STR(p).push(e); }
K void k_st_copy_ctor(void* dst, void const* src) { ::new (dst) ST(STC(src)); }
K void k_st_from_c(void* dst, void const* sv) { ::new (dst) ST(SVC(sv)); }
#else
K void k_st_push_l(void*, PV) {}
K void k_st_copy_ctor(void*, void const*) {}
K void k_st_from_c(void*, void const*) {}
#endif
