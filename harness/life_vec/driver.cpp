// C03 driver (family life_vec): ONE operation from EVERY content state of static_vector / inplace_vector / stack holding the
// instrumented element type Tracked (tracked.h), plus short histories of symbolic operations.
// Configuration (enumerated by spec.py): CAP = capacity, NA = size before the operation, NB = size of the second
// container / of the source block, FLAV = element flavour (0 copy+move, 1 move-only, 2 copy-only), KSTEPS = history length.
// Symbolic: every element value, every byte of the object blocks before construction, positions / counts / new sizes
// (restricted only by the documented precondition), op codes of the history steps.
// Checked after every kernel call: size and element values equal the sequence model; exactly the slots of the current
// elements hold a live object (ledger shadow of the owner's block); no temporary is alive; no illegal transition was seen.
// Checked at the end, after the owner's destructor: no slot alive, constructions == destructions.
#define LIFE_DRIVER 1
#include "vf.h"
#include "tracked.h"
#ifndef CAP
#define CAP 3
#endif
#ifndef NA
#define NA 0
#endif
#ifndef NB
#define NB 0
#endif
#ifndef KSTEPS
#define KSTEPS 2
#endif
extern "C" {
Ledger vf_led; // the one definition (kernel.cpp sees the extern declaration in tracked.h)
}
using u64 = uint64_t;
using PV = uint32_t;
#define NA1 (NA > 0 ? NA - 1 : 0) // largest valid index
#define ESZ 8u // sizeof(Tracked): payload + state word (checked against k_esize() in sv_make)
#define TAG 1u
extern "C" {
u64 k_esize(); void k_mk_array(void*, PV const*, u64); PV k_rd_array(void const*, u64); void k_set_array(void*, u64, PV); void k_destroy_array(void*, u64);
u64 k_sv_sizeof(); void k_sv_new(void*); void k_sv_dtor(void*); u64 k_sv_size(void const*); u64 k_sv_data_off(void*); PV k_sv_at(void const*, u64);
void k_sv_set_at(void*, u64, PV); void k_sv_push_back_r(void*, PV); void k_sv_push_back_l(void*, PV); void k_sv_emplace_back(void*, PV); u64 k_sv_emplace(void*, u64, PV);
void k_sv_pop_back(void*); u64 k_sv_erase1(void*, u64); u64 k_sv_erase_range(void*, u64, u64); void k_sv_clear(void*); void k_sv_resize1(void*, u64);
void k_sv_resize2(void*, u64, PV); void k_sv_ctor_n(void*, u64); void k_sv_ctor_nv(void*, u64, PV); void k_sv_ctor_range(void*, void const*, u64); void k_sv_ctor_carray(void*, void*);
void k_sv_move_ctor(void*, void*); void k_sv_copy_ctor(void*, void const*); void k_sv_move_assign(void*, void*); void k_sv_copy_assign(void*, void const*);
u64 k_sv_free_erase(void*, PV); u64 k_sv_free_erase_if(void*, PV); u64 k_sv_move_insert(void*, u64, void*, u64); u64 k_sv_insert_r(void*, u64, PV); u64 k_sv_insert_l(void*, u64, PV);
u64 k_sv_insert_fill(void*, u64, u64, PV); u64 k_sv_insert_range(void*, u64, void const*, u64); u64 k_sv_insert_self(void*, u64, u64); void k_sv_push_back_self(void*, u64);
void k_sv_assign_range(void*, void const*, u64); void k_sv_assign_fill(void*, u64, PV); void k_sv_swap_member(void*, void*); void k_sv_swap_free(void*, void*); unsigned k_sv_rel(void const*, void const*);
u64 k_iv_sizeof(); void k_iv_new(void*); void k_iv_dtor(void*); u64 k_iv_size(void const*); u64 k_iv_data_off(void*); PV k_iv_at(void const*, u64); void k_iv_set_at(void*, u64, PV);
u64 k_iv_unchecked_push_back_r(void*, PV); u64 k_iv_unchecked_push_back_l(void*, PV); u64 k_iv_unchecked_emplace_back(void*, PV); u64 k_iv_try_push_back_r(void*, PV); u64 k_iv_try_push_back_l(void*, PV);
u64 k_iv_try_emplace_back(void*, PV); void k_iv_pop_back(void*); void k_iv_clear(void*); void k_iv_move_ctor(void*, void*); void k_iv_copy_ctor(void*, void const*);
u64 k_st_sizeof(); void k_st_new(void*); void k_st_dtor(void*); u64 k_st_size(void const*); u64 k_st_top_off(void*); PV k_st_top(void const*); void k_st_set_top(void*, PV);
void k_st_push_r(void*, PV); void k_st_push_l(void*, PV); void k_st_emplace(void*, PV); void k_st_pop(void*); void k_st_swap_member(void*, void*); void k_st_swap_free(void*, void*);
void k_st_move_ctor(void*, void*); void k_st_copy_ctor(void*, void const*); void k_st_from_c_move(void*, void*); void k_st_from_c(void*, void const*);
}
// ---- sequence model of the element values (what std::vector would hold)
struct M {
    PV a[CAP + 1];
    unsigned n = 0;
    void push_back(PV x) { a[n++] = x; }
    void pop_back() { n--; }
    void clear() { n = 0; }
    unsigned insert_fill(unsigned pos, unsigned cnt, PV x)
    {
        for (unsigned i = n; i > pos; i--) a[i - 1 + cnt] = a[i - 1];
        for (unsigned i = 0; i < cnt; i++) a[pos + i] = x;
        n += cnt;
        return pos;
    }
    unsigned insert_range(unsigned pos, PV const* v, unsigned cnt)
    {
        for (unsigned i = n; i > pos; i--) a[i - 1 + cnt] = a[i - 1];
        for (unsigned i = 0; i < cnt; i++) a[pos + i] = v[i];
        n += cnt;
        return pos;
    }
    unsigned erase(unsigned first, unsigned last)
    {
        for (unsigned i = last; i < n; i++) a[first + (i - last)] = a[i];
        n -= last - first;
        return first;
    }
    void resize(unsigned sz, PV x) { while (n < sz) a[n++] = x; n = sz; }
    void assign_fill(unsigned cnt, PV x) { n = 0; while (n < cnt) a[n++] = x; }
    void assign_range(PV const* v, unsigned cnt) { n = 0; while (n < cnt) { a[n] = v[n]; n++; } }
    template <typename P>
    unsigned erase_if(P pred)
    {
        unsigned w = 0;
        for (unsigned i = 0; i < n; i++) if (!pred(a[i])) a[w++] = a[i];
        unsigned r = n - w;
        n = w;
        return r;
    }
};
static inline PV nd_pv() { return (PV)lg_nd_payload(); }
static inline u64 nd_idx(unsigned maxv) { u64 i = vf_nd_u8(); vf_assume(i <= maxv); return i; }
// exact-size block whose bytes are all solver variables (own function: its loop gets its own unwind bound)
extern "C" __attribute__((noinline)) void* d_sym_block(u64 n)
{
    unsigned char* p = (unsigned char*)vf_alloc(n);
    for (u64 i = 0; i < n; i++) p[i] = vf_nd_u8();
    return p;
}
// exact-size block of cnt live elements outside the containers (source of range operations) = ledger region r
static inline void* src_make(PV* vals, unsigned cnt, unsigned r)
{
    for (unsigned i = 0; i < cnt; i++) vals[i] = nd_pv();
    void* blk = d_sym_block(u64(cnt) * ESZ);
    lg_register(r, blk, u64(cnt) * ESZ); lg_layout(r, 0, ESZ);
    k_mk_array(blk, vals, cnt);
    lg_expect(r, 0, cnt, ESZ, TAG);
    return blk;
}
// the source elements are still alive (possibly moved-from): they can be assigned to and destroyed
static inline void src_fin(void* blk, unsigned cnt, unsigned r)
{
    lg_expect(r, 0, cnt, ESZ, TAG);
    for (unsigned i = 0; i < cnt; i++) { PV y = nd_pv(); k_set_array(blk, i, y); vf_assert(k_rd_array(blk, i) == y, "a (moved-from) source element is assignable"); }
    k_destroy_array(blk, cnt);
    lg_expect(r, 0, 0, ESZ, TAG);
}

// ---- static_vector in ledger region r
static inline void sv_reg(void* p, unsigned r) { lg_register(r, p, k_sv_sizeof()); if (CAP > 0) lg_layout(r, k_sv_data_off(p), ESZ); } // data() of a raw block is only address arithmetic
static inline void* sv_raw(unsigned r) { void* p = d_sym_block(k_sv_sizeof()); sv_reg(p, r); return p; }
static inline void sv_check(void* p, M const& m, unsigned r)
{
    u64 n = k_sv_size(p);
    vf_assert(n == m.n, "size() == model");
    if (n != m.n) return; // elements outside [0, size()) are not alive: never read them
    for (unsigned i = 0; i < m.n; i++) vf_assert(k_sv_at(p, i) == m.a[i], "element i == model");
    lg_expect(r, m.n ? k_sv_data_off(p) : 0, m.n, ESZ, TAG);
    lg_quiet();
}
// validity of a moved-from / self-move-assigned vector: some size <= capacity, exactly that many live elements
static inline unsigned sv_valid(void* p, unsigned r)
{
    u64 n = k_sv_size(p);
    vf_assert(n <= CAP, "moved-from vector: size() <= capacity()");
    lg_expect(r, n ? k_sv_data_off(p) : 0, (unsigned)n, ESZ, TAG);
    lg_quiet();
    return (unsigned)n;
}
static inline void* sv_make(M& m, unsigned n, unsigned r)
{
    void* p = sv_raw(r);
    uint32_t c0 = vf_led.nctor;
    k_sv_new(p);
    m.n = 0;
    for (unsigned i = 0; i < n; i++) { PV v = nd_pv(); k_sv_emplace_back(p, v); m.push_back(v); }
    vf_assert(k_esize() == ESZ, "element size");
    vf_assert(vf_led.nctor - c0 == n, "ledger is shared between the TUs: emplace_back(args) constructs exactly one element in place");
    sv_check(p, m, r);
    return p;
}
static inline void sv_fin(void* p, unsigned r)
{
    k_sv_dtor(p);
    lg_expect(r, 0, 0, ESZ, TAG);
    lg_quiet();
}
#define END() lg_balanced()

// =====================================================================================================================
// static_vector: one operation from every state
// =====================================================================================================================
#define SV_OP(NAME, DRAW, CALL, MODEL)                                                                                   \
    Q q_sv_##NAME()                                                                                                      \
    {                                                                                                                    \
        M m; void* p = sv_make(m, NA, 0); DRAW; CALL; MODEL; sv_check(p, m, 0); sv_fin(p, 0); END();                     \
    }
SV_OP(push_back_l, PV x = nd_pv(), k_sv_push_back_l(p, x), m.push_back(x))
SV_OP(push_back_r, PV x = nd_pv(), k_sv_push_back_r(p, x), m.push_back(x))
SV_OP(emplace_back, PV x = nd_pv(), k_sv_emplace_back(p, x), m.push_back(x))
SV_OP(pop_back, (void)0, k_sv_pop_back(p), m.pop_back())
SV_OP(clear, (void)0, k_sv_clear(p), m.clear())
SV_OP(set_at, u64 i = vf_nd_u64(); PV x = nd_pv(); vf_assume(i < NA), split<NA1>(i, [&](u64 c) { k_sv_set_at(p, c, x); }), m.a[i] = x)
SV_OP(push_back_self, u64 f = vf_nd_u64(); vf_assume(f < NA), split<NA1>(f, [&](u64 c) { k_sv_push_back_self(p, c); }), m.push_back(m.a[f]))
#define SV_INS1(NAME, TXT)                                                                                               \
    Q q_sv_##NAME()                                                                                                      \
    {                                                                                                                    \
        M m; void* p = sv_make(m, NA, 0); u64 pos = vf_nd_u64(); PV x = nd_pv(); vf_assume(pos <= NA);                   \
        split<NA>(pos, [&](u64 c) { u64 r = k_sv_##NAME(p, c, x); u64 e = m.insert_fill((unsigned)c, 1, x);              \
                                    vf_assert(r == e, TXT " returns an iterator to the inserted element"); });           \
        sv_check(p, m, 0); sv_fin(p, 0); END();                                                                          \
    }
SV_INS1(emplace, "emplace(pos,args)")
SV_INS1(insert_l, "insert(pos,const&)")
SV_INS1(insert_r, "insert(pos,&&)")
Q q_sv_insert_self() // v.insert(pos, v[from])
{
    M m; void* p = sv_make(m, NA, 0); u64 pos = vf_nd_u64(), from = vf_nd_u64(); vf_assume(pos <= NA && from < NA);
    split<NA>(pos, [&](u64 c) { split<NA1>(from, [&](u64 f) {
        u64 r = k_sv_insert_self(p, c, f); u64 e = m.insert_fill((unsigned)c, 1, m.a[f]); vf_assert(r == e, "insert(pos, v[i]) iterator"); }); });
    sv_check(p, m, 0); sv_fin(p, 0); END();
}
Q q_sv_insert_fill()
{
    M m; void* p = sv_make(m, NA, 0); u64 pos = vf_nd_u64(), cnt = vf_nd_u64(); PV x = nd_pv(); vf_assume(pos <= NA && cnt <= CAP - NA);
    split<NA>(pos, [&](u64 c) { split<CAP - NA>(cnt, [&](u64 k) {
        u64 r = k_sv_insert_fill(p, c, k, x); u64 e = m.insert_fill((unsigned)c, (unsigned)k, x); vf_assert(r == e, "insert(pos,n,value) iterator"); }); });
    sv_check(p, m, 0);
    if (CAP - NA > 0 && cnt == CAP - NA) vf_witness("insert_fill: fills to capacity");
    sv_fin(p, 0); END();
}
Q q_sv_insert_range() // source: block of NB live elements outside the vector (region 2); it stays alive and unchanged
{
    M m; void* p = sv_make(m, NA, 0); PV sv[NB + 1]; void* src = src_make(sv, NB, 2); u64 pos = vf_nd_u64(); vf_assume(pos <= NA);
    split<NA>(pos, [&](u64 c) { u64 r = k_sv_insert_range(p, c, src, NB); u64 e = m.insert_range((unsigned)c, sv, NB); vf_assert(r == e, "insert(pos,first,last) iterator"); });
    sv_check(p, m, 0);
    for (unsigned i = 0; i < NB; i++) vf_assert(k_rd_array(src, i) == sv[i], "insert(pos,first,last) leaves the source range unchanged");
    sv_fin(p, 0); src_fin(src, NB, 2); END();
}
Q q_sv_move_insert() // the source elements are moved from: still alive, assignable, destructible
{
    M m; void* p = sv_make(m, NA, 0); PV sv[NB + 1]; void* src = src_make(sv, NB, 2); u64 pos = vf_nd_u64(); vf_assume(pos <= NA);
    split<NA>(pos, [&](u64 c) { u64 r = k_sv_move_insert(p, c, src, NB); u64 e = m.insert_range((unsigned)c, sv, NB); vf_assert(r == e, "move_insert(pos,first,last) iterator"); });
    sv_check(p, m, 0);
    src_fin(src, NB, 2); sv_check(p, m, 0); sv_fin(p, 0); END();
}
Q q_sv_erase1()
{
    M m; void* p = sv_make(m, NA, 0); u64 pos = vf_nd_u64(); vf_assume(pos < NA);
    split<NA1>(pos, [&](u64 c) { u64 r = k_sv_erase1(p, c); u64 e = m.erase((unsigned)c, (unsigned)c + 1); vf_assert(r == e, "erase(pos) iterator"); });
    sv_check(p, m, 0); sv_fin(p, 0); END();
}
Q q_sv_erase_range()
{
    M m; void* p = sv_make(m, NA, 0); u64 first = vf_nd_u64(), last = vf_nd_u64(); vf_assume(first <= last && last <= NA);
    split<NA>(first, [&](u64 f) { split<NA>(last, [&](u64 l) {
        if (f <= l) { u64 r = k_sv_erase_range(p, f, l); u64 e = m.erase((unsigned)f, (unsigned)l); vf_assert(r == e, "erase(first,last) iterator"); } }); });
    sv_check(p, m, 0);
    if (NA > 0 && first == 0 && last == NA) vf_witness("erase_range: everything");
    sv_fin(p, 0); END();
}
Q q_sv_resize1()
{
    M m; void* p = sv_make(m, NA, 0); u64 sz = vf_nd_u64(); vf_assume(sz <= CAP);
    split<CAP>(sz, [&](u64 c) { k_sv_resize1(p, c); m.resize((unsigned)c, PV(0)); }); sv_check(p, m, 0);
    if (NA < CAP && sz == CAP) vf_witness("resize: grows to capacity");
    sv_fin(p, 0); END();
}
Q q_sv_resize2()
{
    M m; void* p = sv_make(m, NA, 0); u64 sz = vf_nd_u64(); PV x = nd_pv(); vf_assume(sz <= CAP);
    split<CAP>(sz, [&](u64 c) { k_sv_resize2(p, c, x); m.resize((unsigned)c, x); }); sv_check(p, m, 0); sv_fin(p, 0); END();
}
Q q_sv_assign_fill()
{
    M m; void* p = sv_make(m, NA, 0); u64 cnt = vf_nd_u64(); PV x = nd_pv(); vf_assume(cnt <= CAP);
    split<CAP>(cnt, [&](u64 c) { k_sv_assign_fill(p, c, x); m.assign_fill((unsigned)c, x); }); sv_check(p, m, 0); sv_fin(p, 0); END();
}
Q q_sv_assign_range()
{
    M m; void* p = sv_make(m, NA, 0); PV sv[NB + 1]; void* src = src_make(sv, NB, 2);
    k_sv_assign_range(p, src, NB); m.assign_range(sv, NB); sv_check(p, m, 0);
    sv_fin(p, 0); src_fin(src, NB, 2); END();
}
Q q_sv_free_erase()
{
    M m; void* p = sv_make(m, NA, 0); PV x = nd_pv();
    u64 r = k_sv_free_erase(p, x); u64 e = m.erase_if([x](PV y) { return y == x; });
    vf_assert(r == e, "erase(c,value) count"); sv_check(p, m, 0); sv_fin(p, 0); END();
}
Q q_sv_free_erase_if()
{
    M m; void* p = sv_make(m, NA, 0); PV x = nd_pv();
    u64 r = k_sv_free_erase_if(p, x); u64 e = m.erase_if([x](PV y) { return (int32_t)y < (int32_t)x; });
    vf_assert(r == e, "erase_if(c,pred) count"); sv_check(p, m, 0); sv_fin(p, 0); END();
}
Q q_sv_rel() // comparisons only read live elements
{
    M m; void* p = sv_make(m, NA, 0); M m2; void* q = sv_make(m2, NB, 1);
    (void)k_sv_rel(p, q); sv_check(p, m, 0); sv_check(q, m2, 1); sv_fin(p, 0); sv_fin(q, 1); END();
}
// ---- construction
Q q_sv_ctor_n()
{
    void* p = sv_raw(0); M m; k_sv_ctor_n(p, NA); m.resize(NA, PV(0)); sv_check(p, m, 0); sv_fin(p, 0); END();
}
Q q_sv_ctor_nv()
{
    void* p = sv_raw(0); M m; PV x = nd_pv(); k_sv_ctor_nv(p, NA, x); m.resize(NA, x); sv_check(p, m, 0); sv_fin(p, 0); END();
}
Q q_sv_ctor_range()
{
    void* p = sv_raw(0); M m; PV sv[NA + 1]; void* src = src_make(sv, NA, 2);
    k_sv_ctor_range(p, src, NA); m.assign_range(sv, NA); sv_check(p, m, 0); sv_fin(p, 0); src_fin(src, NA, 2); END();
}
Q q_sv_ctor_carray() // static_vector(c_array<T,NA>&&): elements are moved out of the array, which stays alive
{
    void* p = sv_raw(0); M m; PV sv[NA + 1]; void* src = src_make(sv, NA, 2);
    k_sv_ctor_carray(p, src); m.assign_range(sv, NA); sv_check(p, m, 0); src_fin(src, NA, 2); sv_check(p, m, 0); sv_fin(p, 0); END();
}
Q q_sv_copy_ctor()
{
    M m; void* p = sv_make(m, NA, 0); void* q = sv_raw(1);
    k_sv_copy_ctor(q, p); sv_check(q, m, 1); sv_check(p, m, 0);
    sv_fin(p, 0); sv_check(q, m, 1); sv_fin(q, 1); END();
}
Q q_sv_move_ctor() // the source stays a valid vector: assignable and destructible
{
    M m; void* p = sv_make(m, NA, 0); void* q = sv_raw(1);
    k_sv_move_ctor(q, p); sv_check(q, m, 1); sv_valid(p, 0);
    k_sv_clear(p);
#if CAP > 0
    M m0; PV x = nd_pv(); k_sv_emplace_back(p, x); m0.push_back(x); sv_check(p, m0, 0);
#endif
    sv_fin(p, 0); sv_check(q, m, 1); sv_fin(q, 1); END();
}
Q q_sv_copy_assign()
{
    M m; void* p = sv_make(m, NA, 0); M m2; void* q = sv_make(m2, NB, 1);
    k_sv_copy_assign(p, q); sv_check(p, m2, 0); sv_check(q, m2, 1);
    sv_fin(q, 1); sv_check(p, m2, 0); sv_fin(p, 0); END();
}
Q q_sv_move_assign()
{
    M m; void* p = sv_make(m, NA, 0); M m2; void* q = sv_make(m2, NB, 1);
    k_sv_move_assign(p, q); sv_check(p, m2, 0); sv_valid(q, 1);
    k_sv_move_assign(q, p); sv_check(q, m2, 1); sv_valid(p, 0); // the moved-from vector is assignable
    sv_fin(p, 0); sv_check(q, m2, 1); sv_fin(q, 1); END();
}
Q q_sv_copy_assign_self() // v = v leaves the value unchanged
{
    M m; void* p = sv_make(m, NA, 0);
    k_sv_copy_assign(p, p); sv_check(p, m, 0); sv_fin(p, 0); END();
}
Q q_sv_move_assign_self() // v = move(v): valid but unspecified value; nothing leaks, nothing is destroyed twice
{
    M m; void* p = sv_make(m, NA, 0);
    k_sv_move_assign(p, p); sv_valid(p, 0); sv_fin(p, 0); END();
}
Q q_sv_swap_member()
{
    M m; void* p = sv_make(m, NA, 0); M m2; void* q = sv_make(m2, NB, 1);
    k_sv_swap_member(p, q); sv_check(p, m2, 0); sv_check(q, m, 1); sv_fin(p, 0); sv_check(q, m, 1); sv_fin(q, 1); END();
}
Q q_sv_swap_free()
{
    M m; void* p = sv_make(m, NA, 0); M m2; void* q = sv_make(m2, NB, 1);
    k_sv_swap_free(p, q); sv_check(p, m2, 0); sv_check(q, m, 1); sv_fin(q, 1); sv_check(p, m2, 0); sv_fin(p, 0); END();
}
Q q_sv_swap_self() // v.swap(v) leaves the value unchanged
{
    M m; void* p = sv_make(m, NA, 0);
    k_sv_swap_member(p, p); sv_check(p, m, 0); sv_fin(p, 0); END();
}

// =====================================================================================================================
// inplace_vector
// =====================================================================================================================
static inline void* iv_raw(unsigned r) { void* p = d_sym_block(k_iv_sizeof()); lg_register(r, p, k_iv_sizeof()); if (CAP > 0) lg_layout(r, k_iv_data_off(p), ESZ); return p; }
static inline void iv_check(void* p, M const& m, unsigned r)
{
    u64 n = k_iv_size(p);
    vf_assert(n == m.n, "size() == model");
    if (n != m.n) return;
    for (unsigned i = 0; i < m.n; i++) vf_assert(k_iv_at(p, i) == m.a[i], "element i == model");
    lg_expect(r, m.n ? k_iv_data_off(p) : 0, m.n, ESZ, TAG);
    lg_quiet();
}
static inline void* iv_make(M& m, unsigned n, unsigned r)
{
    void* p = iv_raw(r);
    uint32_t c0 = vf_led.nctor;
    k_iv_new(p);
    m.n = 0;
    for (unsigned i = 0; i < n; i++) { PV v = nd_pv(); k_iv_unchecked_emplace_back(p, v); m.push_back(v); }
    vf_assert(vf_led.nctor - c0 == n, "ledger is shared between the TUs: unchecked_emplace_back(args) constructs exactly one element in place");
    iv_check(p, m, r);
    return p;
}
static inline void iv_fin(void* p, unsigned r)
{
    k_iv_dtor(p);
    lg_expect(r, 0, 0, ESZ, TAG);
    lg_quiet();
}
#define IV_PUSH(NAME, TXT)                                                                                               \
    Q q_iv_##NAME()                                                                                                      \
    {                                                                                                                    \
        M m; void* p = iv_make(m, NA, 0); PV x = nd_pv();                                                                \
        u64 r = k_iv_##NAME(p, x); vf_assert(r == NA, TXT " returns a reference to the new last element"); m.push_back(x); \
        iv_check(p, m, 0); iv_fin(p, 0); END();                                                                          \
    }
IV_PUSH(unchecked_push_back_l, "unchecked_push_back(const&)")
IV_PUSH(unchecked_push_back_r, "unchecked_push_back(&&)")
IV_PUSH(unchecked_emplace_back, "unchecked_emplace_back(args)")
#define IV_TRY(NAME, TXT)                                                                                                \
    Q q_iv_##NAME()                                                                                                      \
    {                                                                                                                    \
        M m; void* p = iv_make(m, NA, 0); PV x = nd_pv();                                                                \
        u64 r = k_iv_##NAME(p, x);                                                                                       \
        if (NA == CAP) { vf_assert(r == ~u64(0), TXT " on a full vector returns null"); }                                \
        else { vf_assert(r == NA, TXT " returns a pointer to the new last element"); m.push_back(x); }                   \
        iv_check(p, m, 0); iv_fin(p, 0); END();                                                                          \
    }
IV_TRY(try_push_back_l, "try_push_back(const&)")
IV_TRY(try_push_back_r, "try_push_back(&&)")
IV_TRY(try_emplace_back, "try_emplace_back(args)")
Q q_iv_pop_back() { M m; void* p = iv_make(m, NA, 0); k_iv_pop_back(p); m.pop_back(); iv_check(p, m, 0); iv_fin(p, 0); END(); }
Q q_iv_clear() { M m; void* p = iv_make(m, NA, 0); k_iv_clear(p); m.clear(); iv_check(p, m, 0); iv_fin(p, 0); END(); }
Q q_iv_set_at()
{
    M m; void* p = iv_make(m, NA, 0); u64 i = vf_nd_u64(); PV x = nd_pv(); vf_assume(i < NA);
    split<NA1>(i, [&](u64 c) { k_iv_set_at(p, c, x); }); m.a[i] = x; iv_check(p, m, 0); iv_fin(p, 0); END();
}
Q q_iv_copy_ctor()
{
    M m; void* p = iv_make(m, NA, 0); void* q = iv_raw(1);
    k_iv_copy_ctor(q, p); iv_check(q, m, 1); iv_check(p, m, 0); iv_fin(p, 0); iv_check(q, m, 1); iv_fin(q, 1); END();
}
Q q_iv_move_ctor() // the source stays a valid vector (some size <= capacity, exactly that many live elements), usable and destructible
{
    VF_KNOWN(C03_inplace_vector_move_ctor_leak, NA > 0);
    M m; void* p = iv_make(m, NA, 0); void* q = iv_raw(1);
    k_iv_move_ctor(q, p); iv_check(q, m, 1);
    u64 n = k_iv_size(p); vf_assert(n <= CAP, "moved-from vector: size() <= capacity()");
    lg_expect(0, n ? k_iv_data_off(p) : 0, (unsigned)n, ESZ, TAG); lg_quiet();
    k_iv_clear(p);
#if CAP > 0
    M m0; PV x = nd_pv(); k_iv_unchecked_emplace_back(p, x); m0.push_back(x); iv_check(p, m0, 0);
#endif
    iv_fin(p, 0); iv_check(q, m, 1); iv_fin(q, 1); END();
}

// =====================================================================================================================
// stack<E, static_vector<E,CAP>>
// =====================================================================================================================
static inline void* st_raw(unsigned r) { void* p = d_sym_block(k_st_sizeof()); lg_register(r, p, k_st_sizeof()); if (CAP > 0) lg_layout(r, k_sv_data_off(p), ESZ); return p; } // the container is the only member
static inline void st_check(void* p, M const& m, unsigned r)
{
    u64 n = k_st_size(p);
    vf_assert(n == m.n, "stack size() == model");
    if (n != m.n) return;
    if (m.n > 0) vf_assert(k_st_top(p) == m.a[m.n - 1], "top() == most recently pushed element");
    lg_expect(r, m.n ? k_st_top_off(p) - u64(m.n - 1) * ESZ : 0, m.n, ESZ, TAG);
    lg_quiet();
}
static inline void* st_make(M& m, unsigned n, unsigned r)
{
    void* p = st_raw(r);
    k_st_new(p);
    m.n = 0;
    for (unsigned i = 0; i < n; i++) { PV v = nd_pv(); k_st_emplace(p, v); m.push_back(v); }
    st_check(p, m, r);
    return p;
}
static inline void st_fin(void* p, unsigned r)
{
    k_st_dtor(p);
    lg_expect(r, 0, 0, ESZ, TAG);
    lg_quiet();
}
#define ST_OP(NAME, DRAW, CALL, MODEL)                                                                                   \
    Q q_st_##NAME()                                                                                                      \
    {                                                                                                                    \
        M m; void* p = st_make(m, NA, 0); DRAW; CALL; MODEL; st_check(p, m, 0); st_fin(p, 0); END();                     \
    }
ST_OP(push_l, PV x = nd_pv(), k_st_push_l(p, x), m.push_back(x))
ST_OP(push_r, PV x = nd_pv(), k_st_push_r(p, x), m.push_back(x))
ST_OP(emplace, PV x = nd_pv(), k_st_emplace(p, x), m.push_back(x))
ST_OP(pop, (void)0, k_st_pop(p), m.pop_back())
ST_OP(set_top, PV x = nd_pv(), k_st_set_top(p, x), m.a[m.n - 1] = x)
Q q_st_copy_ctor()
{
    M m; void* p = st_make(m, NA, 0); void* q = st_raw(1);
    k_st_copy_ctor(q, p); st_check(q, m, 1); st_check(p, m, 0); st_fin(p, 0); st_check(q, m, 1); st_fin(q, 1); END();
}
Q q_st_move_ctor()
{
    M m; void* p = st_make(m, NA, 0); void* q = st_raw(1);
    k_st_move_ctor(q, p); st_check(q, m, 1);
    u64 n = k_st_size(p); vf_assert(n <= CAP, "moved-from stack: size() <= capacity");
    lg_expect(0, n ? k_st_top_off(p) - (n - 1) * ESZ : 0, (unsigned)n, ESZ, TAG); lg_quiet();
    st_fin(p, 0); st_check(q, m, 1); st_fin(q, 1); END();
}
Q q_st_from_c()
{
    M m; void* c = sv_make(m, NA, 0); void* q = st_raw(1);
    k_st_from_c(q, c); st_check(q, m, 1); sv_check(c, m, 0); sv_fin(c, 0); st_check(q, m, 1); st_fin(q, 1); END();
}
Q q_st_from_c_move()
{
    M m; void* c = sv_make(m, NA, 0); void* q = st_raw(1);
    k_st_from_c_move(q, c); st_check(q, m, 1); sv_valid(c, 0); sv_fin(c, 0); st_check(q, m, 1); st_fin(q, 1); END();
}
Q q_st_swap_member()
{
    M m; void* p = st_make(m, NA, 0); M m2; void* q = st_make(m2, NB, 1);
    k_st_swap_member(p, q); st_check(p, m2, 0); st_check(q, m, 1); st_fin(p, 0); st_check(q, m, 1); st_fin(q, 1); END();
}
Q q_st_swap_free()
{
    M m; void* p = st_make(m, NA, 0); M m2; void* q = st_make(m2, NB, 1);
    k_st_swap_free(p, q); st_check(p, m2, 0); st_check(q, m, 1); st_fin(q, 1); st_check(p, m2, 0); st_fin(p, 0); END();
}
Q q_st_swap_self()
{
    M m; void* p = st_make(m, NA, 0);
    k_st_swap_member(p, p); st_check(p, m, 0); st_fin(p, 0); END();
}

// =====================================================================================================================
// histories: KSTEPS symbolic operations (symbolic op code and arguments) from a vector of NA elements; all checks after
// every step. Every step is a case split over (op code, arguments) and the rest of the history runs inside each case, so
// each path is concrete for the ledger while the solver decides over all admissible sequences in one query. A step whose
// precondition does not hold in the current state ends its path (no assertion is made on it).
// =====================================================================================================================
#if FLAV == 0
#define SV_NOPS 12
#elif FLAV == 1
#define SV_NOPS 8
#else
#define SV_NOPS 11
#endif
#ifndef FIRST
#define FIRST (-1) // >= 0: op code of the first step is fixed (one query per first operation)
#endif
template <int NSTEP>
static void sv_hist(void* p, void* q, M const& m) // q: scratch block for a second vector (ledger region 1)
{
    if constexpr (NSTEP == 0) {
        sv_check(p, m, 0);
        lg_history_done();
        sv_fin(p, 0); END();
    } else {
        u64 op = (NSTEP == KSTEPS && FIRST >= 0) ? u64(FIRST) : nd_idx(SV_NOPS - 1); u64 a = nd_idx(CAP), b = nd_idx(CAP); PV x = nd_pv();
        auto next = [&](M const& n) { sv_check(p, n, 0); sv_hist<NSTEP - 1>(p, q, n); };
        split_q<SV_NOPS - 1>(op, [&](u64 o) {
            M n = m;
            switch (o) {
            case 0: if (m.n < CAP) { k_sv_emplace_back(p, x); n.push_back(x); next(n); } break;
            case 1: if (m.n > 0) { k_sv_pop_back(p); n.pop_back(); next(n); } break;
            case 2: if (m.n < CAP) split_q<CAP>(a, [&](u64 ca) { if (ca <= m.n) { M n2 = m; u64 r = k_sv_emplace(p, ca, x); u64 e = n2.insert_fill((unsigned)ca, 1, x); vf_assert(r == e, "history: emplace iterator"); next(n2); } }); break;
            case 3: split_q<CAP>(a, [&](u64 ca) { split_q<CAP>(b, [&](u64 cb) { if (ca <= cb && cb <= m.n) {
                        M n2 = m; u64 r = k_sv_erase_range(p, ca, cb); u64 e = n2.erase((unsigned)ca, (unsigned)cb); vf_assert(r == e, "history: erase(first,last) iterator"); next(n2); } }); }); break;
            case 4: k_sv_clear(p); n.clear(); next(n); break;
            case 5: split_q<CAP>(a, [&](u64 ca) { M n2 = m; k_sv_resize1(p, ca); n2.resize((unsigned)ca, PV(0)); next(n2); }); break;
            case 6: if (m.n < CAP) split_q<CAP>(a, [&](u64 ca) { if (ca <= m.n) { M n2 = m; u64 r = k_sv_insert_r(p, ca, x); u64 e = n2.insert_fill((unsigned)ca, 1, x); vf_assert(r == e, "history: insert(pos,&&) iterator"); next(n2); } }); break;
            case 7: { sv_reg(q, 1); k_sv_move_ctor(q, p); sv_check(q, m, 1); k_sv_dtor(p); lg_expect(0, 0, 0, ESZ, TAG);   // relocate through a second vector:
                      k_sv_move_ctor(p, q); k_sv_dtor(q); lg_expect(1, 0, 0, ESZ, TAG); next(n); break; }                       // move out, destroy, move back, destroy
            case 8: split_q<CAP>(a, [&](u64 ca) { split_q<CAP>(b, [&](u64 cb) { if (ca <= m.n && cb <= CAP - m.n) {
                        M n2 = m; u64 r = k_sv_insert_fill(p, ca, cb, x); u64 e = n2.insert_fill((unsigned)ca, (unsigned)cb, x); vf_assert(r == e, "history: insert(pos,n,v) iterator"); next(n2); } }); }); break;
            case 9: split_q<CAP>(a, [&](u64 ca) { M n2 = m; k_sv_assign_fill(p, ca, x); n2.assign_fill((unsigned)ca, x); next(n2); }); break;
            case 10: { sv_reg(q, 1); k_sv_copy_ctor(q, p); k_sv_clear(p); k_sv_copy_assign(p, q); k_sv_dtor(q); lg_expect(1, 0, 0, ESZ, TAG); next(n); break; } // copy out, clear, copy-assign back
            default: { sv_reg(q, 1); k_sv_new(q); k_sv_swap_member(q, p); sv_check(q, m, 1); k_sv_move_assign(p, q); k_sv_dtor(q); lg_expect(1, 0, 0, ESZ, TAG); next(n); break; } // swap out, move-assign back
            }
        });
    }
}
Q q_sv_hist()
{
    M m; void* p = sv_make(m, NA, 0); void* q = sv_raw(1);
    sv_hist<KSTEPS>(p, q, m);
}
#define IV_NOPS 6
template <int NSTEP>
static void iv_hist(void* p, M const& m)
{
    if constexpr (NSTEP == 0) {
        iv_check(p, m, 0); lg_history_done(); iv_fin(p, 0); END();
    } else {
        u64 op = nd_idx(IV_NOPS - 1), a = nd_idx(CAP); PV x = nd_pv();
        auto next = [&](M const& n) { iv_check(p, n, 0); iv_hist<NSTEP - 1>(p, n); };
        split_q<IV_NOPS - 1>(op, [&](u64 o) {
            M n = m; u64 r;
            switch (o) {
            case 0: r = k_iv_try_emplace_back(p, x); if (m.n == CAP) { vf_assert(r == ~u64(0), "history: try_emplace_back on full returns null"); } else { vf_assert(r == m.n, "history: try_emplace_back pointer"); n.push_back(x); } next(n); break;
            case 1: r = k_iv_try_push_back_r(p, x); if (m.n == CAP) { vf_assert(r == ~u64(0), "history: try_push_back(&&) on full returns null"); } else { vf_assert(r == m.n, "history: try_push_back(&&) pointer"); n.push_back(x); } next(n); break;
            case 2: if (m.n < CAP) { r = k_iv_unchecked_push_back_r(p, x); vf_assert(r == m.n, "history: unchecked_push_back reference"); n.push_back(x); next(n); } break;
            case 3: if (m.n > 0) { k_iv_pop_back(p); n.pop_back(); next(n); } break;
            case 4: k_iv_clear(p); n.clear(); next(n); break;
            default: split_q<CAP>(a, [&](u64 ca) { if (ca < m.n) { M n2 = m; k_iv_set_at(p, ca, x); n2.a[ca] = x; next(n2); } }); break;
            }
        });
    }
}
Q q_iv_hist()
{
    M m; void* p = iv_make(m, NA, 0);
    iv_hist<KSTEPS>(p, m);
}
