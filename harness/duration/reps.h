// Representation types shared by kernel.cpp and driver.cpp (C12). REPW / REP2W: 16, 32, 64 = short, int, long long;
// 132 = float, 164 = double. REP2W defaults to REPW (only the mixed-Rep entries use REP2).
#ifndef C12_REPS_H
#define C12_REPS_H
#ifndef REPW
#define REPW 32
#endif
#ifndef REP2W
#define REP2W REPW
#endif
template <int W> struct rep_of;
template <> struct rep_of<16> { using type = short; };
template <> struct rep_of<32> { using type = int; };
template <> struct rep_of<64> { using type = long long; };
template <> struct rep_of<132> { using type = float; };
template <> struct rep_of<164> { using type = double; };
typedef rep_of<REPW>::type REP;
typedef rep_of<REP2W>::type REP2;
#define REPF (REPW > 100)
#define REP2F (REP2W > 100)
// common representation of REP and REP2 as the usual arithmetic conversions give it (decltype, no library involved)
typedef decltype(true ? REP() : REP2()) MREP;
#endif
