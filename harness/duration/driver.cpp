// C12 driver. Oracle: exact rational arithmetic stated without division (cross-multiplied in 128 bit), and std::chrono
// through the pipeline as a second oracle. Tick counts are symbolic over the Rep range, restricted to inputs whose exact
// result and whose intermediate common-type / intmax_t values are representable (the same domain std::chrono defines).
#include "vf.h"
#include <chrono>
#include <ratio>
#ifndef REPW
#define REPW 32
#endif
#if REPW == 32
typedef int REP;
#else
typedef long long REP;
#endif
typedef __int128 i128;
using SFrom = std::chrono::duration<REP, std::ratio<FN, FD>>;
using STo   = std::chrono::duration<REP, std::ratio<TN, TD>>;
using SCT   = std::common_type_t<SFrom, STo>;
extern "C" {
REP k_cast(REP); REP k_floor(REP); REP k_ceil(REP); REP k_round(REP); REP k_abs(REP); void k_ct_period(long long*, long long*);
REP k_add(REP, REP); REP k_sub(REP, REP); REP k_mod(REP, REP); REP k_ddiv(REP, REP); REP k_to_common(REP); unsigned k_cmp(REP, REP);
REP k_neg(REP); REP k_incdec(REP, unsigned); REP k_compound(REP, REP, unsigned);
REP k_tp_add(REP, REP); REP k_tp_sub(REP, REP); REP k_tp_incdec(REP, unsigned); REP k_tp_cast(REP); REP k_tp_floor(REP); REP k_tp_ceil(REP); REP k_tp_round(REP); unsigned k_tp_cmp(REP, REP);
}
static REP nd() { return sizeof(REP) == 4 ? REP(vf_nd_u32()) : REP(vf_nd_u64()); }
static constexpr i128 RMAX = sizeof(REP) == 4 ? i128(2147483647) : i128(9223372036854775807LL);
static constexpr i128 RMIN = -RMAX - 1;
static constexpr i128 IMAX = i128(9223372036854775807LL);
static bool fits(i128 v) { return v >= RMIN && v <= RMAX; }
static bool fits64(i128 v) { return v >= -IMAX - 1 && v <= IMAX; }
// conversion factor From -> To as a reduced fraction CN/CD (std::ratio_divide does the reduction at compile time)
using CF = std::ratio_divide<std::ratio<FN, FD>, std::ratio<TN, TD>>;
static constexpr i128 CN = CF::num, CD = CF::den;
// common type period and the integral factors into it
static constexpr i128 PN = SCT::period::num, PD = SCT::period::den;
static constexpr i128 FF = (i128(FN) * PD) / (i128(FD) * PN); // From ticks -> common ticks
static constexpr i128 TF = (i128(TN) * PD) / (i128(TD) * PN); // To ticks -> common ticks
static_assert(FF * FD * PN == i128(FN) * PD && TF * TD * PN == i128(TN) * PD, "common type factors are integral");

#ifndef CLIM
#define CLIM 0
#endif
#ifndef RLIM
#define RLIM 0   // bound on log2|count| for round (0 = full Rep range)
#endif
#ifndef DLIM
#define DLIM 15  // bound on log2|divisor| / |multiplier| for symbolic-by-symbolic division and multiplication
#endif
static void lim(REP c, int bits) { if (bits) vf_assume(i128(c) > -(i128(1) << bits) && i128(c) < (i128(1) << bits)); }
// documented domain of the rounding casts: count * num fits intmax_t (duration_cast computes in common_type<Rep, intmax_t>),
// and the comparisons/subtractions against the source happen in the common type, whose values must be representable
static void cast_domain(REP c)
{
    vf_assume(fits64(i128(c) * CN));
    vf_assume(fits(i128(c) * FF));
    if (CLIM) vf_assume(i128(c) > -(i128(1) << CLIM) && i128(c) < (i128(1) << CLIM));
}
static void res_domain(i128 lo, i128 hi) { vf_assume(fits(lo * TF) && fits(hi * TF) && fits(lo) && fits(hi)); }

Q q_period()
{
    long long* n = (long long*)vf_alloc(8); long long* d = (long long*)vf_alloc(8); k_ct_period(n, d);
    vf_assert(*n == SCT::period::num && *d == SCT::period::den, "common_type period == std (gcd of numerators / lcm of denominators)");
}
Q q_cast()
{
    REP c = nd(); cast_domain(c);
    // exact quotient truncated toward zero: |r*CD| <= |c*CN| < |r*CD| + CD, sign of r matches or r == 0
    i128 num = i128(c) * CN; i128 q = num / CD;  // constant divisor in the oracle
    vf_assume(fits(q));
    REP r = k_cast(c);
    i128 R = r;
    if (num >= 0) vf_assert(R >= 0 && R * CD <= num && num < (R + 1) * CD, "duration_cast truncates toward zero (non-negative)");
    else vf_assert(R <= 0 && R * CD >= num && num > (R - 1) * CD, "duration_cast truncates toward zero (negative)");
    vf_assert(r == std::chrono::duration_cast<STo>(SFrom{c}).count(), "duration_cast == std::chrono");
}
Q q_floor()
{
    REP c = nd(); cast_domain(c);
    i128 num = i128(c) * CN; i128 q = num / CD; vf_assume(fits(q)); res_domain(q - 1, q + 1);
    REP r = k_floor(c); i128 R = r;
    vf_assert(R * CD <= num && num < (R + 1) * CD, "floor: r <= d < r+1 exactly");
    vf_assert(r == std::chrono::floor<STo>(SFrom{c}).count(), "floor == std::chrono");
}
Q q_ceil()
{
    REP c = nd(); cast_domain(c);
    i128 num = i128(c) * CN; i128 q = num / CD; vf_assume(fits(q)); res_domain(q - 1, q + 1);
    REP r = k_ceil(c); i128 R = r;
    vf_assert((R - 1) * CD < num && num <= R * CD, "ceil: r-1 < d <= r exactly");
    vf_assert(r == std::chrono::ceil<STo>(SFrom{c}).count(), "ceil == std::chrono");
}
Q q_round()
{
    REP c = nd(); cast_domain(c); lim(c, RLIM);
    i128 num = i128(c) * CN; i128 q = num / CD; vf_assume(fits(q)); res_domain(q - 2, q + 2);
    REP r = k_round(c); i128 R = r;
    i128 d2 = 2 * (num - R * CD);
    vf_assert(d2 >= -CD && d2 <= CD, "round: nearest");
    if (d2 == CD || d2 == -CD) vf_assert((r & 1) == 0, "round: ties to even");
}
Q q_round_std()
{
    REP c = nd(); cast_domain(c); lim(c, RLIM);
    i128 num = i128(c) * CN; i128 q = num / CD; vf_assume(fits(q)); res_domain(q - 2, q + 2);
    vf_assert(k_round(c) == std::chrono::round<STo>(SFrom{c}).count(), "round == std::chrono");
}
Q q_abs()
{
    REP c = nd(); vf_assume(i128(c) != RMIN);
    REP r = k_abs(c); vf_assert(i128(r) == (c < 0 ? -i128(c) : i128(c)), "abs");
}
Q q_addsub()
{
    REP a = nd(), b = nd(); i128 A = i128(a) * FF, B = i128(b) * TF;
    vf_assume(fits(A) && fits(B) && fits(A + B) && fits(A - B));
    vf_assert(i128(k_add(a, b)) == A + B, "a + b exact in the common period");
    vf_assert(i128(k_sub(a, b)) == A - B, "a - b exact in the common period");
    vf_assert(i128(k_to_common(a)) == A, "conversion to the common type is exact");
    vf_assert(k_add(a, b) == (SFrom{a} + STo{b}).count() && k_sub(a, b) == (SFrom{a} - STo{b}).count(), "+/- == std::chrono");
}
Q q_cmp()
{
    REP a = nd(), b = nd(); i128 A = i128(a) * FF, B = i128(b) * TF; vf_assume(fits(A) && fits(B));
    unsigned e = unsigned(A == B) | unsigned(A != B) << 1 | unsigned(A < B) << 2 | unsigned(A <= B) << 3 | unsigned(A > B) << 4 | unsigned(A >= B) << 5;
    vf_assert(k_cmp(a, b) == e, "six comparisons are the comparisons of the exact rationals");
}
Q q_moddiv()
{
    REP a = nd(), b = nd(); lim(b, DLIM); i128 A = i128(a) * FF, B = i128(b) * TF; vf_assume(fits(A) && fits(B) && B != 0 && !(A == RMIN && B == -1));
    REP m = k_mod(a, b), d = k_ddiv(a, b);
    // truncated division in the common period: A == d*B + m, |m| < |B|, sign(m) == sign(A) or m == 0
    vf_assert(i128(d) * B + i128(m) == A, "d/d and d%d: A == q*B + r");
    vf_assert((m < 0 ? -i128(m) : i128(m)) < (B < 0 ? -B : B) && (m == 0 || (m < 0) == (A < 0)), "remainder magnitude and sign");
}
Q q_unary()
{
    REP a = nd(); unsigned op = vf_nd_u32(); vf_assume(op < 4);
    vf_assume(i128(a) != RMIN && i128(a) != RMAX);
    vf_assert(i128(k_neg(a)) == -i128(a), "unary minus");
    vf_assert(i128(k_incdec(a, op)) == i128(a) + ((op & 1) ? -1 : 1), "++/-- (pre and post) change the count by one");
}
Q q_compound()
{
    REP a = nd(), b = nd(); unsigned op = vf_nd_u32(); vf_assume(op < 6);
    i128 e;
    switch (op) {
    case 0: e = i128(a) + b; break;
    case 1: e = i128(a) - b; break;
    case 2: lim(b, DLIM); e = i128(a) * b; break;
    default: lim(b, DLIM); vf_assume(b != 0 && !(i128(a) == RMIN && b == -1)); e = 0; break;
    }
    vf_assume(fits(e));
    REP r = k_compound(a, b, op);
    if (op < 3) vf_assert(i128(r) == e, "compound += -= *=");
    else {
        // truncated division stated without division: a == q*b + m, |m| < |b|, m == 0 or sign(m) == sign(a)
        REP q = op == 3 ? r : k_compound(a, b, 3); REP m = op == 3 ? k_compound(a, b, 4) : r;
        vf_assert(i128(q) * b + m == a && (m < 0 ? -i128(m) : i128(m)) < (b < 0 ? -i128(b) : i128(b)) && (m == 0 || (m < 0) == (a < 0)), "compound /= %= truncated division");
    }
}
Q q_tp_arith()
{
    REP t = nd(), d = nd(), u = nd(); unsigned op = vf_nd_u32(); vf_assume(op < 4);
    vf_assume(fits(i128(t) + d) && fits(i128(t) - d) && i128(t) != RMIN && i128(t) != RMAX);
    vf_assert(i128(k_tp_add(t, d)) == i128(t) + d && i128(k_tp_sub(t, d)) == i128(t) - d, "time_point += / -= duration");
    vf_assert(i128(k_tp_incdec(t, op)) == i128(t) + ((op & 1) ? -1 : 1), "time_point ++/--");
    i128 T = i128(t) * FF, U = i128(u) * TF; vf_assume(fits(T) && fits(U));
    unsigned e = unsigned(T == U) | unsigned(T != U) << 1 | unsigned(T < U) << 2 | unsigned(T <= U) << 3 | unsigned(T > U) << 4 | unsigned(T >= U) << 5;
    vf_assert(k_tp_cmp(t, u) == e, "time_point comparisons across duration types are those of the exact rationals");
}
Q q_tp_casts()
{
    REP c = nd(); cast_domain(c); lim(c, RLIM);
    i128 num = i128(c) * CN; i128 q = num / CD; vf_assume(fits(q)); res_domain(q - 2, q + 2);
    vf_assert(k_tp_cast(c) == k_cast(c) && k_tp_floor(c) == k_floor(c) && k_tp_ceil(c) == k_ceil(c) && k_tp_round(c) == k_round(c),
              "time_point_cast/floor/ceil/round are the duration operations on time_since_epoch()");
}
