// C12 driver. Oracles: (1) exact rational arithmetic stated without division (cross-multiplied in a type wide enough to
// be exact), (2) std::chrono through the same pipeline. Tick counts are symbolic over the whole Rep range, restricted to
// the inputs whose exact result and whose intermediate common-type / intmax_t values are representable (the domain on
// which std::chrono is defined). Every such domain is an interval [lo, hi] around 0 of the input count; lo and hi are
// computed at compile time (128-bit constexpr binary search over the monotone predicate) so that the solver sees two
// constant comparisons instead of 128-bit multiplications and divisions.
#include "vf.h"
#include <chrono>
#include <ratio>
#include <type_traits>
#include "reps.h"
typedef __int128 i128;
using SFrom = std::chrono::duration<REP, std::ratio<FN, FD>>;
using STo   = std::chrono::duration<REP, std::ratio<TN, TD>>;
using SCT   = std::common_type_t<SFrom, STo>;
using STo2  = std::chrono::duration<REP2, std::ratio<TN, TD>>;
using SCT2  = std::common_type_t<SFrom, STo2>;
static_assert(std::is_same_v<SCT2::rep, MREP>);
struct sclock { using duration = SFrom; using rep = REP; using period = SFrom::period; using time_point = std::chrono::time_point<sclock, SFrom>; };
using STP = std::chrono::time_point<sclock, SFrom>;
using STP2 = std::chrono::time_point<sclock, STo>;
extern "C" {
REP k_cast(REP); REP k_floor(REP); REP k_ceil(REP); REP k_round(REP); REP k_abs(REP); void k_ct_period(long long*, long long*);
REP k_add(REP, REP); REP k_sub(REP, REP); REP k_mod(REP, REP); REP k_ddiv(REP, REP); REP k_to_common(REP); REP k_to_common_b(REP); unsigned k_cmp(REP, REP);
REP k_neg(REP); REP k_pos(REP); REP k_incdec(REP, unsigned, REP*); void k_zmm(REP*, REP*, REP*);
REP k_cadd(REP, REP); REP k_csub(REP, REP); REP k_cmul(REP, REP); REP k_cdiv(REP, REP); REP k_cmod(REP, REP); REP k_cmodd(REP, REP);
REP k_tp_add(REP, REP); REP k_tp_sub(REP, REP); REP k_tp_incdec(REP, unsigned, REP*); void k_tp_mm(REP*, REP*);
REP k_tp_cast(REP); REP k_tp_floor(REP); REP k_tp_ceil(REP); REP k_tp_round(REP); unsigned k_tp_cmp(REP, REP);
REP k_conv(REP); MREP k_madd(REP, REP2); MREP k_msub(REP, REP2); MREP k_mcommon_a(REP); MREP k_mcommon_b(REP2); unsigned k_mcmp(REP, REP2); REP2 k_mcast(REP);
}
template <class T> static T ndT()
{
    if constexpr (std::is_same_v<T, float>) return vf_nd_float();
    else if constexpr (std::is_same_v<T, double>) return vf_nd_double();
    else if constexpr (sizeof(T) == 2) return T(vf_nd_u16());
    else if constexpr (sizeof(T) == 4) return T(vf_nd_u32());
    else return T(vf_nd_u64());
}
static REP nd() { return ndT<REP>(); }
// "exactly the same value": integers ==, floating point same bit pattern or both NaN
template <class T> static bool same(T x, T y)
{
    if constexpr (std::is_same_v<T, float>) return __builtin_bit_cast(unsigned, x) == __builtin_bit_cast(unsigned, y) || (x != x && y != y);
    else if constexpr (std::is_same_v<T, double>) return __builtin_bit_cast(unsigned long long, x) == __builtin_bit_cast(unsigned long long, y) || (x != x && y != y);
    else return x == y;
}
template <class A, class B> static unsigned six(A const& x, B const& y)
{
    return unsigned(x == y) | unsigned(x != y) << 1 | unsigned(x < y) << 2 | unsigned(x <= y) << 3 | unsigned(x > y) << 4 | unsigned(x >= y) << 5;
}
// conversion factor From -> To as a reduced fraction CN/CD (std::ratio_divide does the reduction at compile time)
using CF = std::ratio_divide<std::ratio<FN, FD>, std::ratio<TN, TD>>;
static constexpr i128 CN = CF::num, CD = CF::den;
// common type period and the integral factors into it
static constexpr i128 PN = SCT::period::num, PD = SCT::period::den;
static constexpr i128 FF = (i128(FN) * PD) / (i128(FD) * PN); // From ticks -> common ticks
static constexpr i128 TF = (i128(TN) * PD) / (i128(TD) * PN); // To ticks -> common ticks
static_assert(FF * FD * PN == i128(FN) * PD && TF * TD * PN == i128(TN) * PD, "common type factors are integral");
static_assert(FF * CD == CN * TF, "FF/TF == CN/CD");

Q q_period()
{
    long long* n = (long long*)vf_alloc(8); long long* d = (long long*)vf_alloc(8); k_ct_period(n, d);
    vf_assert(*n == SCT::period::num && *d == SCT::period::den, "common_type period == std (gcd of numerators / lcm of denominators)");
}

template <class T> constexpr i128 tmax() { return sizeof(T) == 2 ? i128(32767) : sizeof(T) == 4 ? i128(2147483647) : i128(9223372036854775807LL); }
struct Dom { i128 lo, hi; bool ok; };
// the interval {c in [-tmax-1, tmax] : p(c)} for a predicate whose truth set is an interval that contains 0 or is empty
template <class T> constexpr Dom mkdom(bool (*p)(i128))
{
    if (!p(0)) return {0, -1, false};
    i128 l = 0, h = tmax<T>();
    while (l < h) { i128 m = l + (h - l + 1) / 2; if (p(m)) l = m; else h = m - 1; }
    i128 hi = l;
    l = -tmax<T>() - 1; h = 0;
    while (l < h) { i128 m = l + (h - l) / 2; if (p(m)) h = m; else l = m + 1; }
    return {l, hi, true};
}
template <class T> constexpr bool domok(Dom d, bool (*p)(i128))
{
    if (!d.ok) return true;
    return p(d.lo) && p(d.hi) && (d.lo == -tmax<T>() - 1 || !p(d.lo - 1)) && (d.hi == tmax<T>() || !p(d.hi + 1)) && p(d.lo / 2) && p(d.hi / 2);
}
template <class T> static T in(Dom d)
{
    T c = ndT<T>();
    vf_assume(d.ok && c >= T(d.lo) && c <= T(d.hi));
    return c;
}
#ifndef RLIM
#define RLIM 0   // bound on log2|count| for round with the rational oracle (0 = the whole domain)
#endif
#ifndef DLIM
#define DLIM 15  // bound on log2|divisor| / |multiplier| where the oracle multiplies two symbolic values
#endif
#ifndef ALIM
#define ALIM 0   // bound on log2|dividend| in the same entries (0 = whole range)
#endif
template <class T> static void lim(T c, int bits) { if (bits && bits < int(sizeof(T) * 8 - 1)) vf_assume(c > -(T(1) << bits) && c < (T(1) << bits)); }

#if !REPF
// ---------------------------------------------------------------------------------------------- integer representations
static constexpr i128 RMAX = tmax<REP>();
static constexpr i128 RMIN = -RMAX - 1;
static constexpr i128 IMAX = i128(9223372036854775807LL);
constexpr bool fits(i128 v) { return v >= RMIN && v <= RMAX; }
constexpr bool fits64(i128 v) { return v >= -IMAX - 1 && v <= IMAX; }
// oracle arithmetic type: 64 bit where every product below provably stays under 2^62, else 128 bit
static constexpr i128 K30 = i128(1) << 30;
static constexpr bool SMALLK = REPW <= 32 && CN < K30 && CD < K30 && FF < K30 && TF < K30;
using W = std::conditional_t<SMALLK, long long, i128>;
static bool fitsW(W v) { return v >= W(RMIN) && v <= W(RMAX); }

// documented domain of the casts: duration_cast computes count * num / den in common_type<Rep, intmax_t>; floor/ceil/
// round compare and subtract in the common duration type, whose tick counts must be representable in Rep
constexpr i128 tq(i128 c) { return c * CN / CD; }
constexpr bool p_cast(i128 c) { return fits64(c * CN) && fits(tq(c)); }
constexpr bool p_cmpct(i128 c) { return p_cast(c) && fits(c * FF) && fits(tq(c) * TF); }
constexpr bool p_floor(i128 c) { return p_cmpct(c) && fits(tq(c) - 1); }
constexpr bool p_ceil(i128 c) { return p_cmpct(c) && fits(tq(c) + 1); }
constexpr bool p_round(i128 c) { return p_floor(c) && p_ceil(c) && fits((tq(c) - 1) * TF) && fits((tq(c) + 1) * TF); }
constexpr bool p_a(i128 a) { return fits(a * FF); }
constexpr bool p_b(i128 b) { return fits(b * TF); }
static constexpr Dom D_CAST = mkdom<REP>(p_cast), D_FLOOR = mkdom<REP>(p_floor), D_CEIL = mkdom<REP>(p_ceil), D_ROUND = mkdom<REP>(p_round);
static constexpr Dom D_A = mkdom<REP>(p_a), D_B = mkdom<REP>(p_b);
static_assert(domok<REP>(D_CAST, p_cast) && domok<REP>(D_FLOOR, p_floor) && domok<REP>(D_CEIL, p_ceil) && domok<REP>(D_ROUND, p_round) && domok<REP>(D_A, p_a) && domok<REP>(D_B, p_b));

Q q_cast()
{
    REP c = in<REP>(D_CAST);
    W num = W(c) * W(CN);
    REP r = k_cast(c);
    W R = r;
    // exact quotient truncated toward zero, stated without division
    if (num >= 0) vf_assert(R >= 0 && R * W(CD) <= num && num < (R + 1) * W(CD), "duration_cast truncates toward zero (non-negative)");
    else vf_assert(R <= 0 && R * W(CD) >= num && num > (R - 1) * W(CD), "duration_cast truncates toward zero (negative)");
    vf_assert(r == std::chrono::duration_cast<STo>(SFrom{c}).count(), "duration_cast == std::chrono");
}
Q q_floor()
{
    REP c = in<REP>(D_FLOOR);
    W num = W(c) * W(CN);
    REP r = k_floor(c); W R = r;
    vf_assert(R * W(CD) <= num && num < (R + 1) * W(CD), "floor: r <= d < r+1 exactly");
    vf_assert(r == std::chrono::floor<STo>(SFrom{c}).count(), "floor == std::chrono");
}
Q q_ceil()
{
    REP c = in<REP>(D_CEIL);
    W num = W(c) * W(CN);
    REP r = k_ceil(c); W R = r;
    vf_assert((R - 1) * W(CD) < num && num <= R * W(CD), "ceil: r-1 < d <= r exactly");
    vf_assert(r == std::chrono::ceil<STo>(SFrom{c}).count(), "ceil == std::chrono");
}
Q q_round()
{
    REP c = in<REP>(D_ROUND); lim(c, RLIM);
    REP r = k_round(c);
    if constexpr (REPW == 64 && RLIM > 0 && RLIM <= 14) {
        // range-bounded 64-bit Rep: |c*CN| < 2^61, so once the result is known to be small the oracle is exact in 64 bits
        // (a result that is not small fails the first assertion)
        long long const B = (1LL << 61) / (long long)CD;
        bool small = r > -B && r < B;
        vf_assert(small, "round: result magnitude");
        if (small) {
            long long num = (long long)c * (long long)CN, diff = num - (long long)r * (long long)CD;
            vf_assert(diff <= (long long)CD - diff && diff >= -(long long)CD - diff, "round: nearest");
            if (diff == (long long)CD - diff || diff == -(long long)CD - diff) vf_assert((r & 1) == 0, "round: ties to even");
        }
    } else {
        W num = W(c) * W(CN), R = r;
        W diff = num - R * W(CD);  // |2*diff| <= CD, written without doubling
        vf_assert(diff <= W(CD) - diff && diff >= -W(CD) - diff, "round: nearest");
        if (diff == W(CD) - diff || diff == -W(CD) - diff) vf_assert((r & 1) == 0, "round: ties to even");
    }
}
Q q_round_std()
{
    REP c = in<REP>(D_ROUND);
    vf_assert(k_round(c) == std::chrono::round<STo>(SFrom{c}).count(), "round == std::chrono");
}
// reachability of the interesting branches (only for pairs with CD > 1): adjustment below zero, ties on odd and even
Q q_reach()
{
    REP c = in<REP>(D_ROUND); lim(c, 21);
    REP t = k_cast(c), f = k_floor(c), ce = k_ceil(c), r = k_round(c);
    if (c < 0 && f != t) vf_witness("floor adjusts a negative inexact count");
    if (c > 0 && ce != t) vf_witness("ceil adjusts a positive inexact count");
    W num = W(c) * W(CN); W diff = num - W(r) * W(CD);
    if (CD % 2 == 0) {
        if (diff == W(CD) - diff) vf_witness("tie rounded down to even");
        if (diff == -W(CD) - diff) vf_witness("tie rounded up to even");
    }
    if (r != f) vf_witness("round goes up");
}
Q q_abs()
{
    REP c = nd(); vf_assume(i128(c) != RMIN);
    REP r = k_abs(c); vf_assert(i128(r) == (c < 0 ? -i128(c) : i128(c)), "abs");
    vf_assert(r == std::chrono::abs(SFrom{c}).count(), "abs == std::chrono");
}
// a + b, a - b: the exact common-type tick counts An = a*FF and Bn = b*TF fit Rep on D_A x D_B (that is what the domains
// are), so they can be formed in Rep itself; the sum is required to fit as well (checked in the wide type).
Q q_add()
{
    REP a = in<REP>(D_A), b = in<REP>(D_B);
    REP An = REP(W(a) * W(FF)), Bn = REP(W(b) * W(TF));
    vf_assume(fitsW(W(An) + W(Bn)));
    REP r = k_add(a, b);
    vf_assert(r == REP(W(An) + W(Bn)), "a + b exact in the common period");
    vf_assert(r == (SFrom{a} + STo{b}).count(), "a + b == std::chrono");
}
Q q_sub()
{
    REP a = in<REP>(D_A), b = in<REP>(D_B);
    REP An = REP(W(a) * W(FF)), Bn = REP(W(b) * W(TF));
    vf_assume(fitsW(W(An) - W(Bn)));
    REP r = k_sub(a, b);
    vf_assert(r == REP(W(An) - W(Bn)), "a - b exact in the common period");
    vf_assert(r == (SFrom{a} - STo{b}).count(), "a - b == std::chrono");
}
Q q_common()
{
    REP a = in<REP>(D_A), b = in<REP>(D_B);
    vf_assert(W(k_to_common(a)) == W(a) * W(FF) && W(k_to_common_b(b)) == W(b) * W(TF), "conversion to the common type is exact");
    vf_assert(k_to_common(a) == SCT{SFrom{a}}.count() && k_to_common_b(b) == SCT{STo{b}}.count(), "conversion to the common type == std::chrono");
}
Q q_cmp()
{
    REP a = in<REP>(D_A), b = in<REP>(D_B); W A = W(a) * W(FF), B = W(b) * W(TF);
    unsigned e = unsigned(A == B) | unsigned(A != B) << 1 | unsigned(A < B) << 2 | unsigned(A <= B) << 3 | unsigned(A > B) << 4 | unsigned(A >= B) << 5;
    unsigned r = k_cmp(a, b);
    vf_assert(r == e, "six comparisons are the comparisons of the exact rationals");
    vf_assert(r == six(SFrom{a}, STo{b}), "comparisons == std::chrono");
}
// d / d and d % d over the whole domain against std::chrono (two divider instances have to agree: SMT back end)
Q q_moddiv()
{
    REP a = in<REP>(D_A), b = in<REP>(D_B);
    REP An = REP(W(a) * W(FF)), Bn = REP(W(b) * W(TF));  // exact: the products fit Rep on this domain (D_A, D_B)
    vf_assume(Bn != 0 && !(i128(An) == RMIN && Bn == -1));
    REP m = k_mod(a, b), d = k_ddiv(a, b);
    vf_assert(m == (SFrom{a} % STo{b}).count() && d == SFrom{a} / STo{b}, "d % d, d / d == std::chrono");
}
// the same against the definition of truncated division, without any division in the oracle (needs a symbolic product:
// divisor bounded by DLIM). The quotient and the remainder are each checked on their own.
Q q_divdef()
{
    REP a = in<REP>(D_A), b = in<REP>(D_B); lim(b, DLIM); lim(a, ALIM); W A = W(a) * W(FF), B = W(b) * W(TF);
    vf_assume(B != 0 && !(A == W(RMIN) && B == -1));
    REP d = k_ddiv(a, b);
    W rem = A - W(d) * B, aB = B < 0 ? -B : B;
    vf_assert((rem < 0 ? -rem : rem) < aB && (rem == 0 || (rem < 0) == (A < 0)), "d / d: A - q*B is smaller than |B| and has the sign of A");
}
Q q_moddef()
{
    REP a = in<REP>(D_A), b = in<REP>(D_B); W A = W(a) * W(FF), B = W(b) * W(TF);
    vf_assume(B != 0 && !(A == W(RMIN) && B == -1));
    REP m = k_mod(a, b);
    W aB = B < 0 ? -B : B;
    vf_assert((m < 0 ? -W(m) : W(m)) < aB && (m == 0 || (m < 0) == (A < 0)), "d % d: remainder magnitude and sign");
}
Q q_unary()
{
    REP a = nd(); unsigned op = vf_nd_u32(); vf_assume(op < 4);
    vf_assume(i128(a) != RMIN && i128(a) != RMAX);
    vf_assert(i128(k_neg(a)) == -i128(a) && k_pos(a) == a, "unary minus and plus");
    REP* ret = (REP*)vf_alloc(sizeof(REP));
    i128 e = i128(a) + ((op & 1) ? -1 : 1);
    vf_assert(i128(k_incdec(a, op, ret)) == e, "++/-- (pre and post) change the count by one");
    vf_assert(i128(*ret) == (op < 2 ? e : i128(a)), "prefix forms return the new value, postfix forms the old one");
    REP* z = (REP*)vf_alloc(sizeof(REP)); REP* mn = (REP*)vf_alloc(sizeof(REP)); REP* mx = (REP*)vf_alloc(sizeof(REP));
    k_zmm(z, mn, mx);
    vf_assert(*z == 0 && i128(*mn) == RMIN && i128(*mx) == RMAX && *mn == SFrom::min().count() && *mx == SFrom::max().count(), "zero/min/max");
}
Q q_caddsub()
{
    REP a = nd(), b = nd();
    vf_assume(fits(i128(a) + b) && fits(i128(a) - b));
    vf_assert(i128(k_cadd(a, b)) == i128(a) + b && i128(k_csub(a, b)) == i128(a) - b, "compound += -=");
}
#ifndef MLIM
#define MLIM 0   // bound on log2|multiplier| for *= (0 = whole range; the bit-vector SMT back end needs none)
#endif
Q q_cmul()
{
    REP a = nd(), b = nd(); lim(b, MLIM);
    typedef std::conditional_t<REPW <= 32, long long, i128> M;
    M e = M(a) * M(b);
    vf_assume(e >= M(RMIN) && e <= M(RMAX));
    vf_assert(M(k_cmul(a, b)) == e, "compound *= scalar");
}
// compound /= and %= over the whole range against std::chrono (two divider instances have to agree: SMT back end)
Q q_cdivmod()
{
    REP a = nd(), b = nd();
    vf_assume(b != 0 && !(i128(a) == RMIN && b == -1));
    SFrom x{a}, y{a}, z{a}; x /= b; y %= b; z %= SFrom{b};
    REP q = k_cdiv(a, b), m = k_cmod(a, b), m2 = k_cmodd(a, b);
    vf_assert(q == x.count() && m == y.count() && m2 == z.count(), "compound /= %= == std::chrono");
}
// %=: magnitude and sign of the remainder over the whole range (the quotient definition a == q*b + r for a plain count is
// q_divdef with From == To)
Q q_cdivdef()
{
    REP a = nd(), b = nd();
    typedef std::conditional_t<REPW <= 32, long long, i128> M;
    vf_assume(b != 0 && !(i128(a) == RMIN && b == -1));
    REP m = k_cmod(a, b);
    M ab = b < 0 ? -M(b) : M(b);
    vf_assert((m < 0 ? -M(m) : M(m)) < ab && (m == 0 || (m < 0) == (a < 0)), "%=: remainder magnitude and sign");
}
Q q_cmul_std()
{
    REP a = nd(), b = nd();
    typedef std::conditional_t<REPW <= 32, long long, i128> M;
    M e = M(a) * M(b);
    vf_assume(e >= M(RMIN) && e <= M(RMAX));
    SFrom x{a}; x *= b;
    vf_assert(k_cmul(a, b) == x.count(), "compound *= == std::chrono");
}
Q q_tp_arith()
{
    REP t = nd(), d = nd(); unsigned op = vf_nd_u32(); vf_assume(op < 4);
    vf_assume(fits(i128(t) + d) && fits(i128(t) - d) && i128(t) != RMIN && i128(t) != RMAX);
    vf_assert(i128(k_tp_add(t, d)) == i128(t) + d && i128(k_tp_sub(t, d)) == i128(t) - d, "time_point += / -= duration");
    REP* ret = (REP*)vf_alloc(sizeof(REP));
    i128 e = i128(t) + ((op & 1) ? -1 : 1);
    vf_assert(i128(k_tp_incdec(t, op, ret)) == e, "time_point ++/--");
    vf_assert(i128(*ret) == (op < 2 ? e : i128(t)), "time_point prefix forms return the new value, postfix forms the old one");
    REP* mn = (REP*)vf_alloc(sizeof(REP)); REP* mx = (REP*)vf_alloc(sizeof(REP));
    k_tp_mm(mn, mx);
    vf_assert(i128(*mn) == RMIN && i128(*mx) == RMAX, "time_point min/max");
}
Q q_tp_cmp()
{
    REP t = in<REP>(D_A), u = in<REP>(D_B); W T = W(t) * W(FF), U = W(u) * W(TF);
    unsigned e = unsigned(T == U) | unsigned(T != U) << 1 | unsigned(T < U) << 2 | unsigned(T <= U) << 3 | unsigned(T > U) << 4 | unsigned(T >= U) << 5;
    unsigned r = k_tp_cmp(t, u);
    vf_assert(r == e, "time_point comparisons across duration types are those of the exact rationals");
    vf_assert(r == six(STP{SFrom{t}}, STP2{STo{u}}), "time_point comparisons == std::chrono");
}
Q q_tp_casts()
{
    REP c = in<REP>(D_ROUND);
    STP tp{SFrom{c}};
    vf_assert(k_tp_cast(c) == std::chrono::time_point_cast<STo>(tp).time_since_epoch().count(), "time_point_cast == std::chrono");
    vf_assert(k_tp_floor(c) == std::chrono::floor<STo>(tp).time_since_epoch().count(), "floor(time_point) == std::chrono");
    vf_assert(k_tp_ceil(c) == std::chrono::ceil<STo>(tp).time_since_epoch().count(), "ceil(time_point) == std::chrono");
    vf_assert(k_tp_cast(c) == k_cast(c) && k_tp_floor(c) == k_floor(c) && k_tp_ceil(c) == k_ceil(c), "time_point_cast/floor/ceil are the duration operations on time_since_epoch()");
    vf_assert(k_tp_round(c) == k_round(c), "round(time_point) is round on time_since_epoch()");
}
#else
// ------------------------------------------------------------------------------------------ floating-point representations
// Oracle: std::chrono (libstdc++) through the pipeline, bit-exact (or both NaN), for every bit pattern of the inputs.
Q q_fcast()
{
    REP c = nd();
    vf_assert(same(k_cast(c), std::chrono::duration_cast<STo>(SFrom{c}).count()), "duration_cast == std::chrono (floating Rep)");
}
Q q_ffloorceil()
{
    REP c = nd();
    vf_assert(same(k_floor(c), std::chrono::floor<STo>(SFrom{c}).count()), "floor == std::chrono (floating Rep)");
    vf_assert(same(k_ceil(c), std::chrono::ceil<STo>(SFrom{c}).count()), "ceil == std::chrono (floating Rep)");
}
Q q_fabs()
{
    REP c = nd();
    vf_assert(same(k_abs(c), std::chrono::abs(SFrom{c}).count()), "abs == std::chrono (floating Rep)");
    vf_assert(same(k_neg(c), (-SFrom{c}).count()) && same(k_pos(c), c), "unary minus/plus (floating Rep)");
}
// oracles in noinline functions with the kernels' signatures: same canonical operand order on both sides
static __attribute__((noinline)) REP o_add(REP a, REP b) { return (SFrom{a} + STo{b}).count(); }
static __attribute__((noinline)) REP o_sub(REP a, REP b) { return (SFrom{a} - STo{b}).count(); }
static __attribute__((noinline)) REP o_conv(REP c) { return STo{SFrom{c}}.count(); }
Q q_faddsub()
{
    REP a = nd(), b = nd();
    vf_assert(same(k_add(a, b), o_add(a, b)), "a + b == std::chrono (floating Rep)");
    vf_assert(same(k_sub(a, b), o_sub(a, b)), "a - b == std::chrono (floating Rep)");
    vf_assert(same(k_to_common(a), SCT{SFrom{a}}.count()) && same(k_to_common_b(b), SCT{STo{b}}.count()), "conversion to the common type == std::chrono (floating Rep)");
}
// implicit conversion duration<Rep, P1> -> duration<Rep, P2> (allowed for every pair of periods when Rep is floating point)
Q q_fconv()
{
    REP c = nd();
    VF_KNOWN(C12_conv_ctor_ignores_den, CD != 1 && c != 0 && c - c == 0);
    vf_assert(same(k_conv(c), o_conv(c)), "converting constructor == std::chrono (floating Rep)");
}
Q q_fcmp()
{
    REP a = nd(), b = nd();
    vf_assume(a == a && b == b);  // NaN counts: the standard defines <= as !(rhs < lhs) (what etl does); libstdc++ answers false - not a tick count with a result
    vf_assert(k_cmp(a, b) == six(SFrom{a}, STo{b}), "comparisons == std::chrono (floating Rep)");
    vf_assert(k_tp_cmp(a, b) == six(STP{SFrom{a}}, STP2{STo{b}}), "time_point comparisons == std::chrono (floating Rep)");
}
Q q_fdiv()
{
    REP a = nd(), b = nd();
    vf_assert(same(k_ddiv(a, b), SFrom{a} / STo{b}), "d / d == std::chrono (floating Rep)");
}
Q q_fcompound()
{
    REP a = nd(), b = nd();
    SFrom w{a}, x{a}, y{a}, z{a}; w += SFrom{b}; x -= SFrom{b}; y *= b; z /= b;
    vf_assert(same(k_cadd(a, b), w.count()) && same(k_csub(a, b), x.count()), "compound += -= == std::chrono (floating Rep)");
    vf_assert(same(k_cmul(a, b), y.count()) && same(k_cdiv(a, b), z.count()), "compound *= /= == std::chrono (floating Rep)");
    vf_assert(same(k_tp_add(a, b), w.count()) && same(k_tp_sub(a, b), x.count()), "time_point += -= (floating Rep)");
}
Q q_ftp_casts()
{
    REP c = nd();
    STP tp{SFrom{c}};
    vf_assert(same(k_tp_cast(c), std::chrono::time_point_cast<STo>(tp).time_since_epoch().count()), "time_point_cast == std::chrono (floating Rep)");
    vf_assert(same(k_tp_floor(c), std::chrono::floor<STo>(tp).time_since_epoch().count()) && same(k_tp_ceil(c), std::chrono::ceil<STo>(tp).time_since_epoch().count()),
              "floor/ceil(time_point) == std::chrono (floating Rep)");
}
#endif

// ---------------------------------------------------------------------------------------------------- mixed representations
// duration<REP, From::period> op duration<REP2, To::period>: the common type has Rep common_type<REP, REP2> (MREP).
// std::chrono oracles live in noinline functions with the kernels' signatures so that both sides reach the solver in the
// same canonical operand order (floating-point + is commutative for the compiler but not for a bit-level solver).
#define ORACLE static __attribute__((noinline))
ORACLE MREP o_madd(REP a, REP2 b) { return (SFrom{a} + STo2{b}).count(); }
ORACLE MREP o_msub(REP a, REP2 b) { return (SFrom{a} - STo2{b}).count(); }
ORACLE MREP o_mcommon_a(REP a) { return SCT2{SFrom{a}}.count(); }
ORACLE MREP o_mcommon_b(REP2 b) { return SCT2{STo2{b}}.count(); }
ORACLE unsigned o_mcmp(REP a, REP2 b) { return six(SFrom{a}, STo2{b}); }
#if !REPF && !REP2F
static constexpr i128 MMAX = tmax<MREP>();
constexpr bool mfits(i128 v) { return v >= -MMAX - 1 && v <= MMAX; }
constexpr bool p_ma(i128 a) { return mfits(a * FF); }
constexpr bool p_mb(i128 b) { return mfits(b * TF); }
static constexpr Dom D_MA = mkdom<REP>(p_ma), D_MB = mkdom<REP2>(p_mb);
static_assert(domok<REP>(D_MA, p_ma) && domok<REP2>(D_MB, p_mb));
typedef std::conditional_t<sizeof(MREP) <= 4, long long, i128> MW;
Q q_mixed()
{
    REP a = in<REP>(D_MA); REP2 b = in<REP2>(D_MB);
    MW A = MW(a) * MW(FF), B = MW(b) * MW(TF);   // exact: both fit MREP on this domain
    vf_assume(mfits(A + B) && mfits(A - B));
    // + and - are the std::chrono results; the operands' common-type values are the exact ones (so the sums are exact)
    vf_assert(k_madd(a, b) == o_madd(a, b) && k_msub(a, b) == o_msub(a, b), "mixed Rep: + - == std::chrono");
    vf_assert(k_mcommon_a(a) == MREP(A) && k_mcommon_b(b) == MREP(B), "mixed Rep: conversion to the common type is exact");
    unsigned e = unsigned(A == B) | unsigned(A != B) << 1 | unsigned(A < B) << 2 | unsigned(A <= B) << 3 | unsigned(A > B) << 4 | unsigned(A >= B) << 5;
    vf_assert(k_mcmp(a, b) == e, "mixed Rep: comparisons are those of the exact rationals");
}
#else
// floating common Rep. An integer operand is restricted to counts whose exact common-type value count * factor is below
// 2^24 / 2^53 in magnitude (every such value is representable and std::chrono yields it) and |count| <= 2^31. Only the confirm query of the
// known finding C12_conv_ctor_int_overflow uses the wider domain "at most 24 / 53 significant bits".
static constexpr int MANT = sizeof(MREP) == 4 ? 24 : 53;
#ifndef ILIM
#define ILIM 31  // log2 bound on an integer operand of an integer/floating mix
#endif
template <class T> static bool exact_in_mrep(T c, i128 f, bool sigbits)
{
    if constexpr (std::is_floating_point_v<T>) return true;
    else {
        i128 A = i128(c) * f; i128 ab = A < 0 ? -A : A; i128 low = ab & -ab;
        return sigbits ? ((ab >> MANT) < low || ab == 0) : (ab < (i128(1) << MANT) && i128(c) < (i128(1) << ILIM) && i128(c) >= -(i128(1) << ILIM));
    }
}
template <class T> static bool overflows64(T c, i128 f)
{
    if constexpr (std::is_floating_point_v<T>) return false;
    else { i128 A = i128(c) * f; return A > i128(9223372036854775807LL) || A < -i128(9223372036854775807LL) - 1; }
}
// float -> double with a factor other than 1: the product count * factor is evaluated in float. Region: every finite
// non-zero count (inside it the results agree only where the float product happens to be exact).
template <class T> static bool narrow_mul(T c, i128 f)
{
    if constexpr (std::is_same_v<T, float> && std::is_same_v<MREP, double>) return f != 1 && c != 0 && c - c == 0;
    else return false;
}
Q q_mixed()
{
    REP a = nd(); REP2 b = ndT<REP2>();
    bool const wide_dom = VF_KF_C12_conv_ctor_int_overflow == 2;
    vf_assume(exact_in_mrep(a, FF, wide_dom) && exact_in_mrep(b, TF, wide_dom));
    VF_KNOWN(C12_conv_ctor_int_overflow, overflows64(a, FF) || overflows64(b, TF));
    VF_KNOWN(C12_conv_ctor_narrow_float, narrow_mul(a, FF) || narrow_mul(b, TF));
    vf_assert(same(k_mcommon_a(a), o_mcommon_a(a)), "mixed Rep: conversion of the first operand to the common type == std::chrono");
    vf_assert(same(k_mcommon_b(b), o_mcommon_b(b)), "mixed Rep: conversion of the second operand to the common type == std::chrono");
    vf_assert(same(k_madd(a, b), o_madd(a, b)) && same(k_msub(a, b), o_msub(a, b)), "mixed Rep: + - == std::chrono");
    if (a == a && b == b) vf_assert(k_mcmp(a, b) == o_mcmp(a, b), "mixed Rep: comparisons == std::chrono");
}
#endif
ORACLE REP2 o_mcast(REP c) { return std::chrono::duration_cast<STo2>(SFrom{c}).count(); }
Q q_mcast()
{
    REP c = nd();  // only used with a floating To representation (every value converts without UB)
    vf_assert(same(k_mcast(c), o_mcast(c)), "duration_cast to another Rep == std::chrono");
}
