// C12 kernels: etl::chrono durations with period FN/FD ("From") and TN/TD ("To"), representation REP.
// Parameter types are exactly the Rep types of the durations under test. No logic here.
#include "vf.h"
#include <etl/chrono.hpp>
#include <etl/type_traits.hpp>
#include "reps.h"
using From = etl::chrono::duration<REP, etl::ratio<FN, FD>>;
using To   = etl::chrono::duration<REP, etl::ratio<TN, TD>>;
using CT   = etl::common_type_t<From, To>;
using CR   = CT::rep;
static_assert(etl::is_same_v<From::rep, REP> && etl::is_same_v<To::rep, REP>);
static_assert(etl::is_same_v<CR, REP>);
// second representation (mixed-Rep common types): To2 has the period of To and representation REP2
using To2 = etl::chrono::duration<REP2, etl::ratio<TN, TD>>;
using CT2 = etl::common_type_t<From, To2>;
using CR2 = CT2::rep;
static_assert(etl::is_same_v<CR2, MREP>, "common Rep of the mixed pair is the one the driver expects");

K REP k_cast(REP c) { return etl::chrono::duration_cast<To>(From{c}).count(); }
K REP k_floor(REP c) { return etl::chrono::floor<To>(From{c}).count(); }
K REP k_ceil(REP c) { return etl::chrono::ceil<To>(From{c}).count(); }
K REP k_abs(REP c) { return etl::chrono::abs(From{c}).count(); }
K void k_ct_period(long long* n, long long* d) { *n = CT::period::num; *d = CT::period::den; }
K CR k_add(REP a, REP b) { return (From{a} + To{b}).count(); }
K CR k_sub(REP a, REP b) { return (From{a} - To{b}).count(); }
K CR k_ddiv(REP a, REP b) { return From{a} / To{b}; }
K CR k_to_common(REP a) { return CT{From{a}}.count(); }
K CR k_to_common_b(REP b) { return CT{To{b}}.count(); }
K unsigned k_cmp(REP a, REP b)
{
    From x{a}; To y{b};
    return unsigned(x == y) | unsigned(x != y) << 1 | unsigned(x < y) << 2 | unsigned(x <= y) << 3 | unsigned(x > y) << 4 | unsigned(x >= y) << 5;
}
// binary duration*scalar, scalar*duration, duration/scalar and duration%scalar are not provided by tetl; *=, /=, %= are
K REP k_neg(REP a) { return (-From{a}).count(); }
K REP k_pos(REP a) { return (+From{a}).count(); }
K REP k_incdec(REP a, unsigned op, REP* ret)  // *ret = count of the value the operator returns
{
    From d{a};
    switch (op) {
    case 0: *ret = (++d).count(); break;
    case 1: *ret = (--d).count(); break;
    case 2: *ret = (d++).count(); break;
    case 3: *ret = (d--).count(); break;
    }
    return d.count();
}
K REP k_cadd(REP a, REP b) { From d{a}; d += From{b}; return d.count(); }
K REP k_csub(REP a, REP b) { From d{a}; d -= From{b}; return d.count(); }
K REP k_cmul(REP a, REP b) { From d{a}; d *= b; return d.count(); }
K REP k_cdiv(REP a, REP b) { From d{a}; d /= b; return d.count(); }
K void k_zmm(REP* z, REP* mn, REP* mx) { *z = From::zero().count(); *mn = From::min().count(); *mx = From::max().count(); }
#if REPF
K REP k_conv(REP c) { To t = From{c}; return t.count(); }  // implicit conversion: every period pair when Rep is floating point
#endif
#if !REPF
K REP k_round(REP c) { return etl::chrono::round<To>(From{c}).count(); }
#endif
#if !REPF
K CR k_mod(REP a, REP b) { return (From{a} % To{b}).count(); }
K REP k_cmod(REP a, REP b) { From d{a}; d %= b; return d.count(); }
K REP k_cmodd(REP a, REP b) { From d{a}; d %= From{b}; return d.count(); }
#endif
// time_point: arithmetic and casts are defined through the duration operations
struct vclock { using duration = From; using rep = REP; using period = From::period; using time_point = etl::chrono::time_point<vclock, From>; };
using TP = etl::chrono::time_point<vclock, From>;
// etl::chrono::time_point provides += / -= with its own duration type, ++/--, and mixed-duration comparisons
// (binary time_point +/- duration and time_point - time_point are not provided by tetl: recorded in DESIGN.md)
using TP2 = etl::chrono::time_point<vclock, To>;
K REP k_tp_add(REP t, REP d) { TP x{From{t}}; x += From{d}; return x.time_since_epoch().count(); }
K REP k_tp_sub(REP t, REP d) { TP x{From{t}}; x -= From{d}; return x.time_since_epoch().count(); }
K REP k_tp_incdec(REP t, unsigned op, REP* ret)
{
    TP x{From{t}};
    switch (op) {
    case 0: *ret = (++x).time_since_epoch().count(); break;
    case 1: *ret = (--x).time_since_epoch().count(); break;
    case 2: *ret = (x++).time_since_epoch().count(); break;
    case 3: *ret = (x--).time_since_epoch().count(); break;
    }
    return x.time_since_epoch().count();
}
K void k_tp_mm(REP* mn, REP* mx) { *mn = TP::min().time_since_epoch().count(); *mx = TP::max().time_since_epoch().count(); }
K REP k_tp_cast(REP t) { return etl::chrono::time_point_cast<To>(TP{From{t}}).time_since_epoch().count(); }
K REP k_tp_floor(REP t) { return etl::chrono::floor<To>(TP{From{t}}).time_since_epoch().count(); }
K REP k_tp_ceil(REP t) { return etl::chrono::ceil<To>(TP{From{t}}).time_since_epoch().count(); }
#if !REPF
K REP k_tp_round(REP t) { return etl::chrono::round<To>(TP{From{t}}).time_since_epoch().count(); }
#endif
K unsigned k_tp_cmp(REP a, REP b)
{
    TP x{From{a}}; TP2 y{To{b}};
    return unsigned(x == y) | unsigned(x != y) << 1 | unsigned(x < y) << 2 | unsigned(x <= y) << 3 | unsigned(x > y) << 4 | unsigned(x >= y) << 5;
}
// mixed representations: duration<REP, From::period> op duration<REP2, To::period>
K CR2 k_madd(REP a, REP2 b) { return (From{a} + To2{b}).count(); }
K CR2 k_msub(REP a, REP2 b) { return (From{a} - To2{b}).count(); }
K CR2 k_mcommon_a(REP a) { return CT2{From{a}}.count(); }
K CR2 k_mcommon_b(REP2 b) { return CT2{To2{b}}.count(); }
K unsigned k_mcmp(REP a, REP2 b)
{
    From x{a}; To2 y{b};
    return unsigned(x == y) | unsigned(x != y) << 1 | unsigned(x < y) << 2 | unsigned(x <= y) << 3 | unsigned(x > y) << 4 | unsigned(x >= y) << 5;
}
K REP2 k_mcast(REP c) { return etl::chrono::duration_cast<To2>(From{c}).count(); }
