// C12 kernels: etl::chrono durations with period FN/FD ("From") and TN/TD ("To"), representation REP.
// Parameter types are exactly the Rep types of the durations under test.
#include "vf.h"
#include <etl/chrono.hpp>
#include <etl/type_traits.hpp>
#ifndef REPW
#define REPW 32
#endif
#if REPW == 32
typedef int REP;
#else
typedef long long REP;
#endif
using From = etl::chrono::duration<REP, etl::ratio<FN, FD>>;
using To   = etl::chrono::duration<REP, etl::ratio<TN, TD>>;
using CT   = etl::common_type_t<From, To>;
using CR   = CT::rep;
static_assert(etl::is_same_v<From::rep, REP> && etl::is_same_v<To::rep, REP>);
static_assert(etl::is_same_v<CR, REP>);
K REP k_cast(REP c) { return etl::chrono::duration_cast<To>(From{c}).count(); }
K REP k_floor(REP c) { return etl::chrono::floor<To>(From{c}).count(); }
K REP k_ceil(REP c) { return etl::chrono::ceil<To>(From{c}).count(); }
K REP k_round(REP c) { return etl::chrono::round<To>(From{c}).count(); }
K REP k_abs(REP c) { return etl::chrono::abs(From{c}).count(); }
K void k_ct_period(long long* n, long long* d) { *n = CT::period::num; *d = CT::period::den; }
K CR k_add(REP a, REP b) { return (From{a} + To{b}).count(); }
K CR k_sub(REP a, REP b) { return (From{a} - To{b}).count(); }
K CR k_mod(REP a, REP b) { return (From{a} % To{b}).count(); }
K CR k_ddiv(REP a, REP b) { return From{a} / To{b}; }
K CR k_to_common(REP a) { return CT{From{a}}.count(); }
K unsigned k_cmp(REP a, REP b)
{
    From x{a}; To y{b};
    return unsigned(x == y) | unsigned(x != y) << 1 | unsigned(x < y) << 2 | unsigned(x <= y) << 3 | unsigned(x > y) << 4 | unsigned(x >= y) << 5;
}
// binary duration*scalar, scalar*duration, duration/scalar and duration%scalar are not provided by tetl; *=, /=, %= are (k_compound)
K REP k_neg(REP a) { return (-From{a}).count(); }
K REP k_incdec(REP a, unsigned op)
{
    From d{a};
    switch (op) {
    case 0: ++d; break;
    case 1: --d; break;
    case 2: d++; break;
    case 3: d--; break;
    }
    return d.count();
}
K REP k_compound(REP a, REP b, unsigned op)
{
    From d{a};
    switch (op) {
    case 0: d += From{b}; break;
    case 1: d -= From{b}; break;
    case 2: d *= b; break;
    case 3: d /= b; break;
    case 4: d %= b; break;
    case 5: d %= From{b}; break;
    }
    return d.count();
}
// time_point: arithmetic and casts are defined through the duration operations
struct vclock { using duration = From; using rep = REP; using period = From::period; using time_point = etl::chrono::time_point<vclock, From>; };
using TP = etl::chrono::time_point<vclock, From>;
// etl::chrono::time_point provides += / -= with its own duration type, ++/--, and mixed-duration comparisons
// (binary time_point +/- duration and time_point - time_point are not provided by tetl: recorded in DESIGN.md)
using TP2 = etl::chrono::time_point<vclock, To>;
K REP k_tp_add(REP t, REP d) { TP x{From{t}}; x += From{d}; return x.time_since_epoch().count(); }
K REP k_tp_sub(REP t, REP d) { TP x{From{t}}; x -= From{d}; return x.time_since_epoch().count(); }
K REP k_tp_incdec(REP t, unsigned op)
{
    TP x{From{t}};
    switch (op) {
    case 0: ++x; break;
    case 1: --x; break;
    case 2: x++; break;
    case 3: x--; break;
    }
    return x.time_since_epoch().count();
}
K REP k_tp_cast(REP t) { return etl::chrono::time_point_cast<To>(TP{From{t}}).time_since_epoch().count(); }
K REP k_tp_floor(REP t) { return etl::chrono::floor<To>(TP{From{t}}).time_since_epoch().count(); }
K REP k_tp_ceil(REP t) { return etl::chrono::ceil<To>(TP{From{t}}).time_since_epoch().count(); }
K REP k_tp_round(REP t) { return etl::chrono::round<To>(TP{From{t}}).time_since_epoch().count(); }
K unsigned k_tp_cmp(REP a, REP b)
{
    TP x{From{a}}; TP2 y{To{b}};
    return unsigned(x == y) | unsigned(x != y) << 1 | unsigned(x < y) << 2 | unsigned(x <= y) << 3 | unsigned(x > y) << 4 | unsigned(x >= y) << 5;
}
