"""C12 duration / time_point arithmetic and rounding casts (also serves C02 with the UB build of the same queries)."""
from math import gcd

PROPERTIES = ['C12', 'C02']
PERIODS = {'nano': (1, 1000000000), 'micro': (1, 1000000), 'milli': (1, 1000), 'sec': (1, 1), 'min': (60, 1), 'hour': (3600, 1), 'day': (86400, 1),
           'third': (1, 3), 'r5_7': (5, 7), 'ntsc': (1001, 30000)}
BOUNDS = {
    'quick': ('30 ordered period pairs out of the 10x10 grid {nano,micro,milli,1,minute,hour,day,1/3,5/7,1001/30000} x Rep {int32,int64}; arithmetic entries on every second pair. '
              'EVERY tick count of the Rep inside the representable domain (exact result and common-type intermediates fit; the interval is computed at compile time) for: '
              'duration_cast, floor, ceil (rational oracle and std::chrono), round == std::chrono (except the pairs in ROUND_STD_HARD, where cvc5 gives no verdict), '
              'time_point_cast/floor/ceil/round == the duration operations and == std::chrono, + - (exact and std::chrono), conversion to the common type, six comparisons of durations and of time_points, '
              'd/d and d%d == std::chrono, remainder magnitude/sign, abs, unary + -, ++/--, zero/min/max, += -= *= (all multipliers), /= %= (== std::chrono), time_point += -= ++ --. '
              'round against the rational oracle (nearest, ties to even): every count of the domain when the conversion factor is integral (finer target); |count| < 2^12 when it divides (coarser target, SAT; 2^9 for int64 with a factor n/d, n != 1); '
              'additionally Rep=int16 on 12 pairs where cast/floor/ceil/round (rational oracle) are decided for ALL counts of the Rep - a full-range verdict for the template logic. '
              'd/d quotient against the definition |A - q*B| < |B| (symbolic product): |divisor| < 2^5, |dividend| < 2^12, 3 pairs (int32) + 1 pair (int64). '
              'float/double Rep on 4 pairs: cast, floor, ceil, abs, unary, + -, common type, comparisons, d/d, += -= *= /=, converting constructor, time_point casts == libstdc++ bit for bit for every bit pattern. '
              'mixed Rep: int32+int64, int64+int16 (exact + std::chrono), float+double, double+float, double+int32, int64+double on 1-2 pairs; integer operands of an integer/floating mix |count| <= 2^31 and |count*factor| < 2^53.'),
    'thorough': ('as quick with all 100 ordered pairs x {int32,int64} (pairs with an empty domain skipped); round with the rational oracle |count| < 2^14 for dividing factors 1/d, 2^12 (int32) / 2^11 (int64) for factors n/d; '
                 'int16 on every pair with a non-empty domain; float/double on 15 pairs; more mixed-Rep pairs'),
}
ASSUMPTIONS = [
    'C12: inputs restricted to those whose exact result and intermediate common-type / intmax_t values are representable (outside that std::chrono is undefined too); the domain is an interval of counts computed by a constexpr 128-bit search in the driver and static_assert-checked at its ends',
    'C12: abs and unary minus exclude Rep::min, ++/-- exclude the extreme value; division/modulo exclude zero divisors and min / -1',
    'C12: floating-point Rep: the oracle is libstdc++ std::chrono executed through the same pipeline (bit-exact agreement), not a rational oracle; NaN counts are excluded from the comparison operators (libstdc++ answers false for NaN <= NaN, the standard wording !(rhs < lhs) and etl answer true); round is not defined for floating Rep (std constraint)',
    'C12: q_round with RLIM and q_divdef with DLIM/ALIM are range-bounded as stated in BOUNDS; everything else is over the whole domain',
    'C12: period pair nano x 5/7 (both orders): the common type duration<Rep, ratio<1, 7000000000>> cannot be instantiated (etl::lcm(d, d) = (d*d)/gcd overflows in a constant expression), so nothing but duration_cast compiles for that pair; the pair is skipped and reported as a defect',
    'C12: binary duration*scalar, scalar*duration, duration/scalar, duration%scalar, time_point +/- duration and time_point - time_point do not exist in tetl (missing functionality, nothing to encode); the time_point converting constructor does not compile (time_point.hpp:55 calls time_since_epch()) and is therefore not encodable either',
    'C12: int64 + double with a factor other than 1 on the integer side: the main query gets no verdict from any back end; only the confirm query of known finding C12_conv_ctor_int_overflow runs for that configuration',
]
QUICK_PAIRS = [('milli', 'sec'), ('sec', 'milli'), ('nano', 'micro'), ('micro', 'nano'), ('sec', 'min'), ('min', 'sec'), ('min', 'hour'), ('hour', 'min'),
               ('sec', 'day'), ('day', 'sec'), ('third', 'sec'), ('sec', 'third'), ('r5_7', 'third'), ('third', 'r5_7'), ('ntsc', 'milli'), ('milli', 'ntsc'),
               ('r5_7', 'ntsc'), ('ntsc', 'r5_7'), ('micro', 'milli'), ('milli', 'micro'), ('hour', 'day'), ('day', 'hour'), ('milli', 'min'), ('min', 'milli'),
               ('sec', 'sec'), ('r5_7', 'sec'), ('sec', 'r5_7'), ('ntsc', 'sec'), ('sec', 'ntsc'), ('nano', 'milli')]
I16_PAIRS = [('milli', 'sec'), ('sec', 'milli'), ('sec', 'min'), ('min', 'sec'), ('min', 'hour'), ('hour', 'min'), ('third', 'sec'), ('sec', 'third'),
             ('r5_7', 'third'), ('third', 'r5_7'), ('hour', 'day'), ('day', 'hour')]
DIVDEF_Q = [('milli', 'sec'), ('sec', 'sec'), ('min', 'hour')]
FLOAT_PAIRS_Q = [('milli', 'sec'), ('sec', 'milli'), ('r5_7', 'ntsc'), ('min', 'third')]
# mixed Rep: (REPW, REP2W) -> per tier the (From period, To period) pairs and the solver order that was measured to finish
MIXED = {
    (32, 64): dict(quick=[('min', 'third')], more=[('sec', 'milli'), ('milli', 'sec')], solver=['cvc5', 'z3', 'kissat']),
    (64, 16): dict(quick=[('min', 'third')], more=[('sec', 'milli')], solver=['cvc5', 'z3', 'kissat']),
    (132, 164): dict(quick=[('sec', 'milli'), ('min', 'third')], more=[('milli', 'sec')], solver=['kissat', 'cvc5']),
    (164, 132): dict(quick=[('sec', 'milli'), ('min', 'third')], more=[('milli', 'sec')], solver=['cvc5', 'kissat']),
    (164, 32): dict(quick=[('sec', 'milli'), ('min', 'third')], more=[('hour', 'min')], solver=['cvc5', 'kissat']),
    # integer operand with a factor other than 1 into a floating common type: (double)(a * 1000) == (double)a * 1000.0 gets no
    # verdict from any back end even for |a| < 2^12, so ('sec','milli') only carries the confirm query of the known finding
    (64, 164): dict(quick=[('milli', 'sec'), ('sec', 'milli')], more=[], solver=['cvc5', 'kissat'], confirm_only=[('sec', 'milli')]),
}

# (From, To) for which cvc5 gives no verdict on round == std::chrono over the whole domain (measured, 40 s budget)
ROUND_STD_HARD = {(f, t) for (f, t) in [
    ('nano', 'third'), ('nano', 'ntsc'), ('micro', 'third'), ('micro', 'r5_7'), ('micro', 'ntsc'), ('milli', 'r5_7'), ('milli', 'third'),
    ('ntsc', 'milli'), ('ntsc', 'sec'), ('ntsc', 'min'), ('ntsc', 'hour'), ('ntsc', 'day'), ('ntsc', 'third'), ('ntsc', 'r5_7')]}

SMT = ['cvc5int']          # decided by cvc5 on the exported VC (integer view of the bit-vector VC)
SMTF = ['cvc5', 'kissat']  # floating point: cvc5 (shares identical terms of the two libraries); SAT only to obtain a trace
SAT = ['kissat']


def lcm(a, b):
    return a // gcd(a, b) * b


def consts(fn, fd, tn, td):
    """CN/CD (reduced conversion factor From->To), FF/TF (factors into the common period) - mirrors driver.cpp"""
    n, d = fn * td, fd * tn
    g = gcd(n, d)
    cn, cd = n // g, d // g
    pn, pd = gcd(fn, tn), lcm(fd, td)
    ff = (fn * pd) // (fd * pn)
    tf = (tn * pd) // (td * pn)
    return cn, cd, ff, tf


def tq(c, cn, cd):
    v = abs(c * cn) // cd
    return v if c * cn >= 0 else -v


def dom(pred, rmax):
    """mirrors mkdom() of driver.cpp"""
    if not pred(0):
        return None
    l, h = 0, rmax
    while l < h:
        m = l + (h - l + 1) // 2
        if pred(m): l = m
        else: h = m - 1
    hi = l
    l, h = -rmax - 1, 0
    while l < h:
        m = l + (h - l) // 2
        if pred(m): h = m
        else: l = m + 1
    return (l, hi)


def domains(w, fn, fd, tn, td):
    cn, cd, ff, tf = consts(fn, fd, tn, td)
    rmax = (1 << (w - 1)) - 1
    fits = lambda v: -rmax - 1 <= v <= rmax
    f64 = lambda v: -(1 << 63) <= v <= (1 << 63) - 1
    p_cast = lambda c: f64(c * cn) and fits(tq(c, cn, cd))
    p_cmpct = lambda c: p_cast(c) and fits(c * ff) and fits(tq(c, cn, cd) * tf)
    p_floor = lambda c: p_cmpct(c) and fits(tq(c, cn, cd) - 1)
    p_ceil = lambda c: p_cmpct(c) and fits(tq(c, cn, cd) + 1)
    p_round = lambda c: p_floor(c) and p_ceil(c) and fits((tq(c, cn, cd) - 1) * tf) and fits((tq(c, cn, cd) + 1) * tf)
    return {'cast': dom(p_cast, rmax), 'floor': dom(p_floor, rmax), 'ceil': dom(p_ceil, rmax), 'round': dom(p_round, rmax),
            'a': dom(lambda a: fits(a * ff), rmax), 'b': dom(lambda b: fits(b * tf), rmax), 'cd': cd, 'cn': cn, 'ff': ff, 'tf': tf}


def uninstantiable(fd, td):
    """common period denominator d with d*d > INTMAX (nano x 5/7, d = 7e9): etl::lcm(d, d) = (d*d)/gcd overflows in the constant
    expression of common_type<CT, CT>, which the class duration<Rep, ratio<1, d>> needs for the return type of its unary operators -
    the common type cannot be instantiated, so + - comparisons floor ceil round of the pair do not compile (genuine defect, not
    encodable; reported)"""
    pd = lcm(fd, td)
    return pd * pd > (1 << 63) - 1


def wide(d, n=8):
    return d is not None and d[1] - d[0] >= n


def int_queries(tier, w, f, t, arith=True, rlim_div=None, dlim=6, bud=90, divdef=True):
    fn, fd = PERIODS[f]; tn, td = PERIODS[t]
    D = domains(w, fn, fd, tn, td)
    full16 = (w == 16)
    rlim = 0 if (D['cd'] == 1 or full16) else rlim_div[(w, D['cn'] == 1)]
    cfg = {'REPW': w, 'FN': fn, 'FD': fd, 'TN': tn, 'TD': td, 'RLIM': rlim, 'DLIM': dlim, 'ALIM': 12 if w > 16 else 0}
    if uninstantiable(fd, td):
        return []
    out = []

    def add(entry, solver, **kw):
        out.append(dict(entry=entry, cfg=cfg, unwind=3, solver=solver, budget=bud, smt_budget=min(bud, 60) if len(solver) > 1 else bud, witness_solver='kissat', **kw))
    if wide(D['cast']): add('q_cast', SMT + SAT)
    if wide(D['floor']): add('q_floor', SMT + SAT)
    if wide(D['ceil']): add('q_ceil', SMT + SAT)
    if wide(D['round']):
        add('q_tp_casts', SMT)
    if wide(D['round']):
        add('q_round', (SMT + SAT) if rlim == 0 and not full16 else SAT)
        if (f, t) not in ROUND_STD_HARD:
            add('q_round_std', SMT)
        if D['cn'] == 1 and 1 < D['cd'] < (1 << 18) and D['round'][0] <= -2 * D['cd'] and D['round'][1] >= 2 * D['cd']:
            add('q_reach', SAT)
    if arith and wide(D['a']) and wide(D['b']):
        # products by factors >= 2^30 (and every int64 product) are formed in 128 bit by the oracle: cvc5's bit-vector solver first
        small = w <= 32 and max(D['cn'], D['cd'], D['ff'], D['tf']) < (1 << 30)
        bvs = (SAT + ['cvc5']) if small else ['cvc5', 'kissat']
        add('q_add', ['z3'] + SMT + SAT); add('q_sub', ['z3'] + SMT + SAT); add('q_common', bvs); add('q_cmp', bvs); add('q_tp_cmp', bvs)
        add('q_moddiv', SMT); add('q_moddef', (SAT + SMT) if small else (SMT + SAT))
        if divdef and (w == 32 or (f, t) == ('milli', 'sec')):
            add('q_divdef', SAT)
    return out


def unary_queries(w, f, dlim, bud):
    fn, fd = PERIODS[f]
    cfg = {'REPW': w, 'FN': fn, 'FD': fd, 'TN': 1, 'TD': 1, 'RLIM': 0, 'DLIM': dlim, 'ALIM': 16 if w > 16 else 0}
    out = []
    for e, s in (('q_period', ['minisat']), ('q_abs', SAT), ('q_unary', SAT), ('q_caddsub', SAT), ('q_cmul', ['cvc5', 'kissat']), ('q_cmul_std', SMT), ('q_cdivmod', SMT),
                 ('q_cdivdef', SAT), ('q_tp_arith', SAT)):
        out.append(dict(entry=e, cfg=cfg, unwind=3, solver=s, budget=bud, witness_solver='kissat'))
    return out


def float_queries(w, f, t, bud):
    fn, fd = PERIODS[f]; tn, td = PERIODS[t]
    cfg = {'REPW': w, 'FN': fn, 'FD': fd, 'TN': tn, 'TD': td}
    return [dict(entry=e, cfg=cfg, unwind=3, solver=SMTF, budget=bud) for e in
            ('q_fcast', 'q_ffloorceil', 'q_fabs', 'q_faddsub', 'q_fcmp', 'q_fdiv', 'q_fcompound', 'q_ftp_casts', 'q_fconv')]


def mixed_queries(w1, w2, f, t, bud, solver, confirm_only=False):
    fn, fd = PERIODS[f]; tn, td = PERIODS[t]
    cfg = {'REPW': w1, 'REP2W': w2, 'FN': fn, 'FD': fd, 'TN': tn, 'TD': td}
    out = [dict(entry='q_mixed', cfg=cfg, unwind=3, solver=solver, budget=min(bud, 120), smt_budget=45, witness_solver='kissat', confirm_only=confirm_only)]
    if w2 > 100 and not confirm_only:
        out.append(dict(entry='q_mcast', cfg=cfg, unwind=3, solver=SMTF, budget=bud))
    return out


def queries(tier, prop='C12'):
    quick = tier == 'quick'
    out = []
    pairs = QUICK_PAIRS if quick else [(a, b) for a in PERIODS for b in PERIODS]
    bud = 90 if quick else 300
    # log2 bound on |count| for round with the rational oracle when the factor divides, by (Rep width, numerator == 1): measured
    rlim_div = {(32, True): 12, (32, False): 12, (64, True): 12, (64, False): 9} if quick else {(32, True): 14, (32, False): 12, (64, True): 14, (64, False): 11}
    dlim = 5
    for w in (32, 64):
        for i, (f, t) in enumerate(pairs):
            out += int_queries(tier, w, f, t, arith=(not quick or i % 2 == 0), rlim_div=rlim_div, dlim=dlim, bud=bud, divdef=((f, t) in DIVDEF_Q))
        for f in (['milli', 'r5_7'] if quick else list(PERIODS)):
            out += unary_queries(w, f, dlim, bud)
    for (f, t) in (I16_PAIRS if quick else [(a, b) for a in PERIODS for b in PERIODS]):
        out += int_queries(tier, 16, f, t, arith=False, rlim_div=None, dlim=15, bud=bud)
    out += unary_queries(16, 'milli', 15, bud)
    fpairs = FLOAT_PAIRS_Q if quick else QUICK_PAIRS[::2]
    for w in (132, 164):
        for (f, t) in fpairs:
            out += float_queries(w, f, t, bud)
    for (w1, w2), m in MIXED.items():
        for (f, t) in (m['quick'] if quick else m['quick'] + m['more']):
            out += mixed_queries(w1, w2, f, t, bud, m['solver'], (f, t) in m.get('confirm_only', []))
    if prop == 'C02':
        # UB build of the same kernels, functional assertions off: the library code runs on its whole documented domain
        keep = QUICK_PAIRS[:10] if quick else QUICK_PAIRS
        keepc = {(PERIODS[f] + PERIODS[t]) for (f, t) in keep} | {(PERIODS[f] + (1, 1)) for f in PERIODS}
        sub = []
        for q in out:
            c = q['cfg']
            if q['entry'] in ('q_reach', 'q_tp_cmp', 'q_moddef', 'q_divdef', 'q_cdivdef', 'q_cmul_std', 'q_period', 'q_round_std'):
                continue
            if (c['FN'], c['FD'], c['TN'], c['TD']) not in keepc and c['REPW'] < 100 and 'REP2W' not in c:
                continue
            # a query whose UB build has no obligation at all yields an empty VC (no verdict on the SMT route): SAT back end last
            sub.append(dict(q, ub=True, nofunc=True, solver=list(q['solver']) + [x for x in SAT if x not in q['solver']]))
        return sub
    return out
