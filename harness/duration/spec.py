PROPERTIES = ['C12']
PERIODS = {'nano': (1, 1000000000), 'micro': (1, 1000000), 'milli': (1, 1000), 'sec': (1, 1), 'min': (60, 1), 'hour': (3600, 1), 'day': (86400, 1),
           'third': (1, 3), 'r5_7': (5, 7), 'ntsc': (1001, 30000)}
BOUNDS = {
    'quick': '30 representative ordered period pairs x Rep {int32,int64}; duration_cast/floor/ceil, +,-,comparisons, conversion to common type: all tick counts of the Rep within the representable domain; round and time_point round: |count| < 2^20; symbolic divisors/multipliers (d/d, d%d, *=, /=, %=): |divisor| < 2^15, dividend full range',
    'thorough': 'all 100 ordered pairs x {int32,int64}; as quick but round |count| < 2^24',
}
ASSUMPTIONS = ['C12: inputs restricted to those whose exact result and intermediate common-type / intmax_t values are representable (outside that std::chrono is undefined too)',
               'C12: abs excludes Rep::min; division/modulo exclude zero divisors and min / -1']
QUICK_PAIRS = [('milli', 'sec'), ('sec', 'milli'), ('nano', 'micro'), ('micro', 'nano'), ('sec', 'min'), ('min', 'sec'), ('min', 'hour'), ('hour', 'min'),
               ('sec', 'day'), ('day', 'sec'), ('third', 'sec'), ('sec', 'third'), ('r5_7', 'third'), ('third', 'r5_7'), ('ntsc', 'milli'), ('milli', 'ntsc'),
               ('r5_7', 'ntsc'), ('ntsc', 'r5_7'), ('micro', 'milli'), ('milli', 'micro'), ('hour', 'day'), ('day', 'hour'), ('milli', 'min'), ('min', 'milli'),
               ('sec', 'sec'), ('r5_7', 'sec'), ('sec', 'r5_7'), ('ntsc', 'sec'), ('sec', 'ntsc'), ('nano', 'milli')]
ROUNDING = ['q_cast', 'q_floor', 'q_ceil']
ROUND = ['q_round', 'q_round_std', 'q_tp_casts']
PAIRWISE = ['q_period', 'q_addsub', 'q_cmp', 'q_moddiv', 'q_tp_arith']
UNARY = ['q_abs', 'q_unary', 'q_compound']

def queries(tier, prop='C12'):
    out = []
    pairs = QUICK_PAIRS if tier == 'quick' else [(a, b) for a in PERIODS for b in PERIODS]
    bud = 90 if tier == 'quick' else 600
    rlim = 20 if tier == 'quick' else 24
    for w in (32, 64):
        for (f, t) in pairs:
            fn, fd = PERIODS[f]; tn, td = PERIODS[t]
            cfg = {'REPW': w, 'FN': fn, 'FD': fd, 'TN': tn, 'TD': td, 'CLIM': 0, 'RLIM': rlim}
            for e in ROUNDING:
                out.append(dict(entry=e, cfg=cfg, unwind=3, solver=['cvc5int', 'kissat'], budget=bud))
            for e in ROUND:
                out.append(dict(entry=e, cfg=cfg, unwind=3, solver=['kissat', 'cvc5int'], budget=bud))
            for e in PAIRWISE:
                out.append(dict(entry=e, cfg=cfg, unwind=3, solver=['minisat'] if e == 'q_period' else ['kissat', 'cvc5int'], budget=bud))
        for f in (['milli', 'r5_7'] if tier == 'quick' else list(PERIODS)):
            fn, fd = PERIODS[f]
            cfg = {'REPW': w, 'FN': fn, 'FD': fd, 'TN': 1, 'TD': 1, 'CLIM': 0, 'RLIM': rlim}
            for e in UNARY:
                out.append(dict(entry=e, cfg=cfg, unwind=3, solver=['kissat', 'cvc5int'], budget=bud))
    return out
