// Oracle validation (DESIGN.md 1.7(3)): the calendar rules of model.h against libstdc++'s std::chrono, natively, on every day of the
// range and every year. Built and run by spec.py on every check (g++ -std=c++20 -O2, < 1 s); decides nothing about tetl.
#include "model.h"
#include <chrono>
#include <cstdio>
namespace sc = std::chrono;
int main()
{
    long bad = 0;
    Date cur{YMIN, 1, 1};
    for (int z = ZMIN; z <= ZMAX; z++) {
        sc::year_month_day s{sc::sys_days{sc::days{z}}};
        if (int(s.year()) != cur.y || unsigned(s.month()) != cur.m || unsigned(s.day()) != cur.d || !valid(cur.y, cur.m, cur.d)) bad++; // day-by-day walker == std
        if (sc::weekday{sc::sys_days{sc::days{z}}}.c_encoding() != wd_model(z)) bad++;
        if (sc::sys_days{s}.time_since_epoch().count() != z) bad++;
        cur = succ(cur);
    }
    if (!(cur.y == YMAX + 1 && cur.m == 1 && cur.d == 1)) bad++;
    for (int y = -32768; y <= 32767; y++) {
        if (sc::year{y}.is_leap() != leap(y)) bad++;
        for (unsigned m = 0; m <= 255; m++)
            for (unsigned d = 0; d <= 255; d += (m >= 1 && m <= 12) ? 1 : 51) {
                if (m >= 1 && m <= 12 && d == 0 && y != -32768 && unsigned((sc::year{y} / sc::month{m} / sc::last).day()) != mlen(y, m)) bad++;
                if (sc::year_month_day{sc::year{y}, sc::month{m}, sc::day{d}}.ok() != valid(y, m, d)) bad++;
            }
    }
    std::printf("calendar model vs libstdc++: %ld mismatches\n", bad);
    return bad ? 1 : 0;
}
