// C11 kernels: thin wrappers around etl::chrono calendar types. No logic besides marshalling (packing fields into an
// integer, dispatching on a constant operation code supplied by the driver).
// Parameter types are exactly the library's: year(int), month(unsigned), day(unsigned), weekday(unsigned),
// days/months/years::rep (int_least32_t).
#include "vf.h"
#include <etl/chrono.hpp>
namespace ec = etl::chrono;
using u64  = unsigned long long;
using drep = ec::days::rep;   // int_least32_t
using mrep = ec::months::rep; // int_least32_t
using yrep = ec::years::rep;  // int_least32_t

static inline u64 pk_y(ec::year y) { return u64(static_cast<unsigned short>(static_cast<int>(y))); }
static inline u64 pk_ym(ec::year_month const& x) { return pk_y(x.year()) | u64(static_cast<unsigned>(x.month())) << 16; }
static inline u64 pk_ymd(ec::year_month_day const& x) { return pk_y(x.year()) | u64(static_cast<unsigned>(x.month())) << 16 | u64(static_cast<unsigned>(x.day())) << 24; }
static inline u64 pk_ymdl(ec::year_month_day_last const& x) { return pk_y(x.year()) | u64(static_cast<unsigned>(x.month())) << 16 | u64(static_cast<unsigned>(x.month_day_last().month())) << 24; }
static inline u64 pk_ymw(ec::year_month_weekday const& x) { return pk_y(x.year()) | u64(static_cast<unsigned>(x.month())) << 16 | u64(x.weekday().c_encoding()) << 24 | u64(x.index()) << 32; }

// ---------------------------------------------------------------- conversions
K u64 k_civil(drep z) { return pk_ymd(ec::year_month_day{ec::sys_days{ec::days{z}}}); }
K u64 k_civil_local(drep z) { return pk_ymd(ec::year_month_day{ec::local_days{ec::days{z}}}); }
K bool k_civil_ok(drep z) { return ec::year_month_day{ec::sys_days{ec::days{z}}}.ok(); }
K drep k_days(int y, unsigned m, unsigned d) { return static_cast<ec::sys_days>(ec::year_month_day{ec::year{y}, ec::month{m}, ec::day{d}}).time_since_epoch().count(); }
K drep k_days_local(int y, unsigned m, unsigned d) { return static_cast<ec::local_days>(ec::year_month_day{ec::year{y}, ec::month{m}, ec::day{d}}).time_since_epoch().count(); }
K drep k_roundtrip(drep z) { return static_cast<ec::sys_days>(ec::year_month_day{ec::sys_days{ec::days{z}}}).time_since_epoch().count(); }
K u64 k_roundtrip_ymd(int y, unsigned m, unsigned d) { return pk_ymd(ec::year_month_day{static_cast<ec::sys_days>(ec::year_month_day{ec::year{y}, ec::month{m}, ec::day{d}})}); }
K unsigned k_wd_from_days(drep z) { return ec::weekday{ec::sys_days{ec::days{z}}}.c_encoding(); }
K unsigned k_wd_from_local(drep z) { return ec::weekday{ec::local_days{ec::days{z}}}.c_encoding(); }
K unsigned k_wd_of_date(int y, unsigned m, unsigned d) { return ec::weekday{static_cast<ec::sys_days>(ec::year_month_day{ec::year{y}, ec::month{m}, ec::day{d}})}.c_encoding(); }
K unsigned k_wd_ctor(unsigned w) { ec::weekday x{w}; return x.c_encoding() | x.iso_encoding() << 8 | unsigned(x.ok()) << 16; }

// ---------------------------------------------------------------- ok() / is_leap / last day
K bool k_year_ok(int y) { return ec::year{y}.ok(); }
K int k_year_value(int y) { return static_cast<int>(ec::year{y}); }
K bool k_is_leap(int y) { return ec::year{y}.is_leap(); }
K int k_year_minmax(unsigned which) { return static_cast<int>(which ? ec::year::max() : ec::year::min()); }
K bool k_month_ok(unsigned m) { return ec::month{m}.ok(); }
K bool k_day_ok(unsigned d) { return ec::day{d}.ok(); }
K bool k_ym_ok(int y, unsigned m) { return ec::year_month{ec::year{y}, ec::month{m}}.ok(); }
K bool k_ymd_ok(int y, unsigned m, unsigned d) { return ec::year_month_day{ec::year{y}, ec::month{m}, ec::day{d}}.ok(); }
K bool k_md_ok(unsigned m, unsigned d) { return ec::month_day{ec::month{m}, ec::day{d}}.ok(); }
K bool k_mdl_ok(unsigned m) { return ec::month_day_last{ec::month{m}}.ok(); }
K bool k_ymdl_ok(int y, unsigned m) { return ec::year_month_day_last{ec::year{y}, ec::month_day_last{ec::month{m}}}.ok(); }
K unsigned k_ymdl_day(int y, unsigned m) { return static_cast<unsigned>(ec::year_month_day_last{ec::year{y}, ec::month_day_last{ec::month{m}}}.day()); }
K u64 k_ymd_from_ymdl(int y, unsigned m) { return pk_ymd(ec::year_month_day{ec::year_month_day_last{ec::year{y}, ec::month_day_last{ec::month{m}}}}); }
K bool k_wdi_ok(unsigned w, unsigned idx) { return ec::weekday{w}[idx].ok(); }
K unsigned k_wdi_fields(unsigned w, unsigned idx) { ec::weekday_indexed x{ec::weekday{w}, idx}; return x.weekday().c_encoding() | x.index() << 8; }
K bool k_wdl_ok(unsigned w) { return ec::weekday{w}[ec::last].ok(); }
K bool k_mwd_ok(unsigned m, unsigned w, unsigned idx) { return ec::month_weekday{ec::month{m}, ec::weekday_indexed{ec::weekday{w}, idx}}.ok(); }
K bool k_mwdl_ok(unsigned m, unsigned w) { return ec::month_weekday_last{ec::month{m}, ec::weekday_last{ec::weekday{w}}}.ok(); }
K bool k_ymw_ok(int y, unsigned m, unsigned w, unsigned idx) { return ec::year_month_weekday{ec::year{y}, ec::month{m}, ec::weekday_indexed{ec::weekday{w}, idx}}.ok(); }

// ---------------------------------------------------------------- month arithmetic
// op: 0 m+ms 1 ms+m 2 m-ms 3 += 4 -= 5 ++m 6 m++ 7 --m 8 m--      result: returned value | object state << 8
K unsigned k_month_op(unsigned op, unsigned m0, mrep c)
{
    ec::month m{m0};
    ec::month r{m0};
    switch (op) {
    case 0: r = m + ec::months{c}; break;
    case 1: r = ec::months{c} + m; break;
    case 2: r = m - ec::months{c}; break;
    case 3: r = (m += ec::months{c}); break;
    case 4: r = (m -= ec::months{c}); break;
    case 5: r = ++m; break;
    case 6: r = m++; break;
    case 7: r = --m; break;
    default: r = m--; break;
    }
    return static_cast<unsigned>(r) | static_cast<unsigned>(m) << 8;
}
K mrep k_month_diff(unsigned a, unsigned b) { return (ec::month{a} - ec::month{b}).count(); }
K unsigned k_month_rel(unsigned a, unsigned b)
{
    ec::month x{a}, y{b};
    return unsigned(x == y) | unsigned(x != y) << 1 | unsigned(x < y) << 2 | unsigned(x <= y) << 3 | unsigned(x > y) << 4 | unsigned(x >= y) << 5;
}

// ---------------------------------------------------------------- weekday arithmetic (same op codes, c in days)
K unsigned k_weekday_op(unsigned op, unsigned w0, drep c)
{
    ec::weekday w{w0};
    ec::weekday r{w0};
    switch (op) {
    case 0: r = w + ec::days{c}; break;
    case 1: r = ec::days{c} + w; break;
    case 2: r = w - ec::days{c}; break;
    case 3: r = (w += ec::days{c}); break;
    case 4: r = (w -= ec::days{c}); break;
    case 5: r = ++w; break;
    case 6: r = w++; break;
    case 7: r = --w; break;
    default: r = w--; break;
    }
    return r.c_encoding() | w.c_encoding() << 8;
}
K drep k_weekday_diff(unsigned a, unsigned b) { return (ec::weekday{a} - ec::weekday{b}).count(); }
K unsigned k_weekday_rel(unsigned a, unsigned b) { ec::weekday x{a}, y{b}; return unsigned(x == y) | unsigned(x != y) << 1; }

// ---------------------------------------------------------------- year arithmetic
// op: 0 y+ys 1 ys+y 2 y-ys 3 += 4 -= 5 ++y 6 y++ 7 --y 8 y-- 9 +y 10 -y     result: returned | state << 16 (both as uint16)
K unsigned k_year_op(unsigned op, int y0, yrep c)
{
    ec::year y{y0};
    ec::year r{y0};
    switch (op) {
    case 0: r = y + ec::years{c}; break;
    case 1: r = ec::years{c} + y; break;
    case 2: r = y - ec::years{c}; break;
    case 3: r = (y += ec::years{c}); break;
    case 4: r = (y -= ec::years{c}); break;
    case 5: r = ++y; break;
    case 6: r = y++; break;
    case 7: r = --y; break;
    case 8: r = y--; break;
    case 9: r = +y; break;
    default: r = -y; break;
    }
    return unsigned(pk_y(r)) | unsigned(pk_y(y)) << 16;
}
K yrep k_year_diff(int a, int b) { return (ec::year{a} - ec::year{b}).count(); }
K unsigned k_year_rel(int a, int b)
{
    ec::year x{a}, y{b};
    return unsigned(x == y) | unsigned(x != y) << 1 | unsigned(x < y) << 2 | unsigned(x <= y) << 3 | unsigned(x > y) << 4 | unsigned(x >= y) << 5;
}

// ---------------------------------------------------------------- day arithmetic (op codes as month, no 1-less)
K unsigned k_day_op(unsigned op, unsigned d0, drep c)
{
    ec::day d{d0};
    ec::day r{d0};
    switch (op) {
    case 0: r = d + ec::days{c}; break;
    case 1: r = ec::days{c} + d; break;
    case 2: r = d - ec::days{c}; break;
    case 3: r = (d += ec::days{c}); break;
    case 4: r = (d -= ec::days{c}); break;
    case 5: r = ++d; break;
    case 6: r = d++; break;
    case 7: r = --d; break;
    default: r = d--; break;
    }
    return static_cast<unsigned>(r) | static_cast<unsigned>(d) << 8;
}
K drep k_day_diff(unsigned a, unsigned b) { return (ec::day{a} - ec::day{b}).count(); }
K unsigned k_day_rel(unsigned a, unsigned b)
{
    ec::day x{a}, y{b};
    return unsigned(x == y) | unsigned(x != y) << 1 | unsigned(x < y) << 2 | unsigned(x <= y) << 3 | unsigned(x > y) << 4 | unsigned(x >= y) << 5;
}

// ---------------------------------------------------------------- year_month / year_month_day / _last / _weekday arithmetic
// op: 0 x+months 1 months+x 2 x-months 3 x+=months 4 x-=months 5 x+years 6 years+x 7 x-years 8 x+=years 9 x-=years
// for the compound forms the returned reference and the object are both reported: low 32 bits result, high 32 bits object
K u64 k_ym_op(unsigned op, int y, unsigned m, int c)
{
    ec::year_month x{ec::year{y}, ec::month{m}};
    ec::year_month r = x;
    switch (op) {
    case 0: r = x + ec::months{c}; break;
    case 1: r = ec::months{c} + x; break;
    case 2: r = x - ec::months{c}; break;
    case 3: r = (x += ec::months{c}); break;
    case 4: r = (x -= ec::months{c}); break;
    case 5: r = x + ec::years{c}; break;
    case 6: r = ec::years{c} + x; break;
    case 7: r = x - ec::years{c}; break;
    case 8: r = (x += ec::years{c}); break;
    default: r = (x -= ec::years{c}); break;
    }
    return pk_ym(r) | pk_ym(x) << 32;
}
K u64 k_ymd_op(unsigned op, int y, unsigned m, unsigned d, int c)
{
    ec::year_month_day x{ec::year{y}, ec::month{m}, ec::day{d}};
    ec::year_month_day r = x;
    switch (op) {
    case 0: r = x + ec::months{c}; break;
    case 1: r = ec::months{c} + x; break;
    case 2: r = x - ec::months{c}; break;
    case 3: r = (x += ec::months{c}); break;
    case 4: r = (x -= ec::months{c}); break;
    case 5: r = x + ec::years{c}; break;
    case 6: r = ec::years{c} + x; break;
    case 7: r = x - ec::years{c}; break;
    case 8: r = (x += ec::years{c}); break;
    default: r = (x -= ec::years{c}); break;
    }
    return pk_ymd(r) | pk_ymd(x) << 32;
}
K u64 k_ymdl_op(unsigned op, int y, unsigned m, int c)
{
    ec::year_month_day_last x{ec::year{y}, ec::month_day_last{ec::month{m}}};
    ec::year_month_day_last r = x;
    switch (op) {
    case 0: r = x + ec::months{c}; break;
    case 1: r = ec::months{c} + x; break;
    case 2: r = x - ec::months{c}; break;
    case 3: r = (x += ec::months{c}); break;
    case 4: r = (x -= ec::months{c}); break;
    case 5: r = x + ec::years{c}; break;
    case 6: r = ec::years{c} + x; break;
    case 7: r = x - ec::years{c}; break;
    case 8: r = (x += ec::years{c}); break;
    default: r = (x -= ec::years{c}); break;
    }
    return pk_ymdl(r) | pk_ymdl(x) << 32;
}
// year_month_weekday: the member operators += / -= are declared but not defined in tetl (cannot be linked): ops 0,1,2,5,6,7 only
K u64 k_ymw_op(unsigned op, int y, unsigned m, unsigned w, unsigned idx, int c)
{
    ec::year_month_weekday x{ec::year{y}, ec::month{m}, ec::weekday_indexed{ec::weekday{w}, idx}};
    ec::year_month_weekday r = x;
    switch (op) {
    case 0: r = x + ec::months{c}; break;
    case 1: r = ec::months{c} + x; break;
    case 2: r = x - ec::months{c}; break;
    case 5: r = x + ec::years{c}; break;
    case 6: r = ec::years{c} + x; break;
    default: r = x - ec::years{c}; break;
    }
    return pk_ymw(r);
}
