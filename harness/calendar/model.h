// Calendar rules used as the specification by the C11 driver ("dates that exist", Gregorian successor, weekday of a day number).
// Shared with validate_model.cpp, which checks these rules natively against libstdc++ on every day of the range (oracle validation,
// DESIGN.md 1.7(3); decides nothing about tetl).
#ifndef VF_CALENDAR_MODEL_H
#define VF_CALENDAR_MODEL_H
// sys_days of -32767-01-01 and 32767-12-31 (computed independently of both libraries; static_assert-ed against libstdc++ in driver.cpp)
#define ZMIN (-12687428)
#define ZMAX (11248737)
#define YMIN (-32767)
#define YMAX (32767)

static bool leap(int y) { return y % 4 == 0 && (y % 100 != 0 || y % 400 == 0); }
static unsigned mlen(int y, unsigned m) { return m == 2 ? (leap(y) ? 29u : 28u) : (m == 4 || m == 6 || m == 9 || m == 11) ? 30u : 31u; }
static bool valid(int y, unsigned m, unsigned d) { return y >= YMIN && y <= YMAX && m >= 1 && m <= 12 && d >= 1 && d <= mlen(y, m); }
struct Date { int y; unsigned m, d; };
static Date succ(Date a)
{
    if (a.d < mlen(a.y, a.m)) return {a.y, a.m, a.d + 1};
    if (a.m < 12) return {a.y, a.m + 1, 1};
    return {a.y + 1, 1, 1};
}
static unsigned wd_model(long long z) { long long r = (z + 4) % 7; return unsigned(r < 0 ? r + 7 : r); } // 1970-01-01 is a Thursday
#endif
