import os, re
PROPERTIES = ['C11', 'C02']
BOUNDS = {
    'quick': 'no loops; every query ranges over the whole domain: sys_days -12687428..11248737 (years -32767..32767), year every int16, month/day 0..254, weekday 0..255, deltas full int32',
    'thorough': 'as quick, plus direct round trips split into 164 eras of 146097 days / 400 years',
}
ASSUMPTIONS = []
HERE = os.path.dirname(os.path.abspath(__file__))
ALL = re.findall(r'\bQ\s+(q_[A-Za-z0-9_]+)\s*\(', open(os.path.join(HERE, 'driver.cpp')).read())
STEP = ['q_civil_step', 'q_days_step']
ERASPLIT = ['q_roundtrip_era', 'q_roundtrip_ymd_era', 'q_civil_std', 'q_days_std', 'q_days_local', 'q_wd_of_date', 'q_ok_ymw']
YWIN = ['q_wd_of_date_std', 'q_ok_ymw_std']

def queries(tier, prop='C11'):
    ub = prop == 'C02'
    out = []
    def q(entry, cfg=None, solver='kissat', budget=120):
        out.append(dict(entry=entry, cfg=cfg or {}, unwind=20, solver=solver, budget=budget, ub=ub, nofunc=ub))
    for e in ALL:
        if e == 'q_days_step':
            for c in (0, 1, 2, 3):
                q(e, cfg={'STEPCASE': c}, solver=['kissat', 'cadical'], budget=900)
        elif e in STEP:
            q(e, solver=['kissat', 'cadical'], budget=900)
        elif e in ERASPLIT:
            for k in ([4] if tier == 'quick' else [-82, 4, 81]):
                q(e, cfg={'ERA': k}, budget=300)
            if e in ('q_wd_of_date', 'q_ok_ymw'): q(e, budget=900)
        elif e in YWIN:
            q(e, cfg={'YWIN': 2})
            q(e, cfg={'YWIN': 16})
        elif e == 'q_civil_local':
            q(e, cfg={'ZWIN': 32768}); q(e, cfg={'ZWIN': 1 << 20})
        else:
            q(e)
    return out
