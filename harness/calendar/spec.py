"""C11 (and the C02 obligations riding on it): etl::chrono calendar types.
No loops anywhere: every query ranges over the whole domain of its symbolic inputs. What is enumerated by the runner are
case splits of a lemma that together cover the domain (STEPCASE), 400-year eras (ERA) and, for the two direct comparisons
of a composed calendar computation with libstdc++, a window of years (YWIN) / days (ZWIN)."""
import os, re
PROPERTIES = ['C11', 'C02']
BOUNDS = {
    'quick': 'whole domain per query: sys_days -12687428..11248737 (= years -32767..32767, 23936166 days) for the step lemmas L1 (civil_from_days) and L3 '
             '(days_from_civil, 4 cases), validity/ok() of every produced date, weekday step + == std on all int32 days; year every int16 value, month/day 0..254, '
             'weekday 0..255, index 0..255, months/years/days deltas full int32 (restricted to results with year in -32767..32767 where the standard requires it). '
             'Restricted in quick: sys_days{ymd} == std, local_days{ymd}, weekday-of-date composition and year_month_weekday::ok index 5: era 4 (years 1600..1999); '
             'weekday-of-date / ymw::ok directly against std: years 1954..1985; year_month_day{local_days}: |z| < 32768',
    'thorough': 'as quick, plus: direct round trip sys_days -> ymd -> sys_days on all 164 eras (every day of the range), ymd -> sys_days -> ymd on eras -82,-1,0,4,81, '
                'year_month_day{sys_days} == std::chrono directly on era 4, sys_days{ymd} == std on eras -82,-41,-1,0,4,41,81, local_days{ymd}, weekday-of-date composition and '
                'year_month_weekday::ok on the whole range, year_month_day{local_days} on the whole range, std windows 1842..2097',
}
ASSUMPTIONS = [
    'C11: month(unsigned) and day(unsigned) are given values < 255 (their documented TETL_PRECONDITION); weekday(unsigned) values <= 255; year(int) values in int16',
    'C11: arithmetic of year_month, year_month_day, year_month_day_last, year_month_weekday: operands ok() (year -32767..32767, month 1..12; day, weekday index arbitrary), '
    'delta full int32 but restricted to results whose year lies in -32767..32767 (outside, the standard leaves the value unspecified); year +- years likewise',
    'C11: weekday arithmetic: operands ok() (0..7, 7 == Sunday), days full int32; month +- months: any stored value 0..254, months full int32; month - month, weekday - weekday: ok() operands',
    'C11: year_month_day_last::day() only for ok() operands (unspecified otherwise)',
    'C11: the Gregorian calendar model in the driver (leap rule, month lengths, successor) is the specification of "dates that exist"; the anchor day numbers were computed '
    'independently (Python) and are static_assert-ed against libstdc++ for the two range ends; model.h is validated natively against libstdc++ on every day of the range, every run (validate_model.cpp)',
    'C11: year_month_weekday::ok() for index 5 and weekday-of-date are checked compositionally against etl\'s own sys_days{ymd} (itself pinned down by L3 + anchors) on the whole range, '
    'and against libstdc++ directly only on a window of years',
    'C11: libstdc++ 12 <chrono> compiled through the same clang -> IR -> C pipeline is the oracle for "as std does" (its days/months/years Rep is int64)',
    'C11 not covered (declared in tetl but never defined, cannot be linked): year_month_weekday_last (all members), year_month_weekday::operator+=/-=, '
    'year_month_weekday(sys_days), year_month_weekday::operator sys_days, year_month_day_last::operator sys_days/local_days; year_month - year_month does not exist',
]
HERE = os.path.dirname(os.path.abspath(__file__))
ALL = re.findall(r'\bQ\s+(q_[A-Za-z0-9_]+)\s*\(', open(os.path.join(HERE, 'driver.cpp')).read())
ERAS = list(range(-82, 82))   # 400-year cycles covering years -32800..32799
SPECIAL = {'q_civil_step', 'q_days_step', 'q_roundtrip_era', 'q_roundtrip_ymd_era', 'q_civil_std', 'q_days_std', 'q_days_local', 'q_civil_local',
           'q_wd_of_date', 'q_ok_ymw', 'q_wd_of_date_std', 'q_ok_ymw_std'}
# C02: the UB build of the step lemmas would only repeat the arithmetic of q_civil_valid/q_civil_ok/q_days_range, which call the same two functions on the whole range
C02_SKIP = {'q_civil_step', 'q_days_step', 'q_roundtrip_era', 'q_roundtrip_ymd_era', 'q_civil_std', 'q_days_std', 'q_wd_of_date_std', 'q_ok_ymw_std'}


_MODEL_OK = None


def model_validated():
    """DESIGN.md 1.7(3): model.h (the calendar rules the driver uses as specification) against libstdc++, natively, every run."""
    global _MODEL_OK
    if _MODEL_OK is None:
        import subprocess, tempfile
        d = tempfile.mkdtemp(prefix='vf_calendar_model_')
        try:
            exe = os.path.join(d, 'validate_model')
            r = subprocess.run(['g++', '-std=c++20', '-O2', '-I' + HERE, os.path.join(HERE, 'validate_model.cpp'), '-o', exe], capture_output=True, timeout=300)
            _MODEL_OK = r.returncode == 0 and subprocess.run([exe], capture_output=True, timeout=300).returncode == 0
        except Exception:
            _MODEL_OK = False
        finally:
            import shutil
            shutil.rmtree(d, ignore_errors=True)
    return _MODEL_OK


def queries(tier, prop='C11'):
    ub = prop == 'C02'
    quick = tier == 'quick'
    out = []

    def q(entry, cfg=None, solver='kissat', budget=120):
        if ub and entry in C02_SKIP:
            return
        out.append(dict(entry=entry, cfg=cfg or {}, unwind=20, solver=solver, budget=budget, ub=ub, nofunc=ub))

    two = ['kissat', 'cadical']
    if not ub and not model_validated():
        # reported by the runner as a check error (no such entry): the hand-written calendar model disagrees with libstdc++ or could not be validated
        q('q_CALENDAR_MODEL_DISAGREES_WITH_LIBSTDCXX_see_validate_model_cpp')
    # L1 and L3 (4 cases): whole range, both tiers
    q('q_civil_step', solver=two, budget=900)
    for c in (0, 1, 2, 3):
        q('q_days_step', cfg={'STEPCASE': c}, solver=two, budget=900)
    for e in ALL:
        if e not in SPECIAL:
            q(e)
    if quick:
        for e in ('q_days_std', 'q_days_local', 'q_wd_of_date', 'q_ok_ymw'):
            q(e, cfg={'ERA': 4}, budget=300)
        q('q_civil_local', cfg={'ZWIN': 32768}, budget=300)
        for e in ('q_wd_of_date_std', 'q_ok_ymw_std'):
            q(e, cfg={'YWIN': 16})
    else:
        for k in ERAS:
            q('q_roundtrip_era', cfg={'ERA': k}, budget=600)          # L4
        for k in (-82, -1, 0, 4, 81):
            q('q_roundtrip_ymd_era', cfg={'ERA': k}, budget=600)
        q('q_civil_std', cfg={'ERA': 4}, solver=two, budget=1200)
        for k in (-82, -41, -1, 0, 4, 41, 81):
            q('q_days_std', cfg={'ERA': k}, budget=300)
        for e in ('q_days_local', 'q_wd_of_date', 'q_ok_ymw', 'q_civil_local'):
            q(e, solver=two, budget=900)
        for e in ('q_wd_of_date_std', 'q_ok_ymw_std'):
            q(e, cfg={'YWIN': 128}, budget=300)
    return out
